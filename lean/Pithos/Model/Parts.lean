/-
M1 (part level): the bookkeeping *under* the object model — part rows, the part registry
(ref_count + version), the dedup index and the contents of the named part stores — as an
atomic-step system.  Mirrors

  metadatapart/dedup.go                      tryShareDedupPart, dedupeFreshPart          → `Micro.dedupe`
  metadatapart/{copy,object_write,multipart}.go   TryAddPartReferences before sharing rows   → `Micro.acquire`
  metadatapart/object_write.go (transition), copy.go (no checksums)  PutPart of a copied part  → `Micro.rawput`
  metadatastore/sql/parts.go                 savePartRows (RefPreAcquired), removePartEntities → `Micro.save`, `Micro.rm`
  sqlite/repository/partregistry/sqlite.go   TryAddReferences (`ref_count > 0`), RemoveReferences,
                                             FindReconciliation, RestoreMissing, DeleteByPartId,
                                             UpdateRefCount (version CAS), Condemn            → `acquire`, `rm`, `obsOf`, `reconcileOne`, `gcCondemn`
  sqlite/repository/partdedupindex/sqlite.go INSERT OR IGNORE, DeleteByPartIds, BackfillFromParts → `dedupe`, `dropIdx`, `gcDedup`
  metadatapart/gc/gc.go                      runGCWithContext                               → `gcObserve … gcExtDelete`, `gcRun`

Granularity.  One SQL *write transaction* is one atomic step (`Act.tx script`): SQLite runs write
transactions one at a time (`_txlock=immediate`, one writable connection) and the part stores used
here are transactional (SQL store: same transaction; filesystem store: temp file, published by a
pre-commit hook inside the write-lock window, removed again by the rollback hook).  A transaction
is a list of `Micro` steps executed all-or-nothing; a reference acquired ahead of the row that
will hold it (`RefPreAcquired` in the code) is an entry of the transaction-local `pend` queue.
The garbage collector is *not* atomic: every one of its transactions is its own step, so any
number of writer transactions may run between two of them; what it read earlier (`gcObs`) may be
stale, and `gcCondemn st p` is a step for *every* `(st, p)` whatsoever — no assumption is made on
how the candidate list was obtained (grace window, stale listing, parts published but not yet
committed).  Deletions the collector performs after its transaction committed (stores with
`CapabilityTxFreeDeletePart`, e.g. the filesystem store) are queued in `gcExt` and are separate
steps.

Ids are `Nat` (the driver uses first-seen ordinals in ULID order).  `CKey` abstracts the tuple
(sha256, size, etag, crc…) of a part's content; `none` = a row without the full checksum set.
Core Lean only.
-/
namespace Pithos.Parts

abbrev PartId := Nat
abbrev Store := Nat     -- 0 = the default store (part_store_name NULL)
abbrev CKey := Nat
abbrev Owner := Nat     -- objects.id of the row owning the part rows (completed version or pending upload)

/-- One row of table `parts`. -/
structure Row where
  owner : Owner
  seq : Nat
  pid : PartId
  store : Store
  ck : Option CKey
  deriving DecidableEq, Repr

/-- A part obtained inside the running transaction and not yet written as a row:
`pre = true` — a registry reference was already taken for it (`RefPreAcquired`);
`pre = false` — a fresh part that `savePartRows` will register. -/
structure Pend where
  pid : PartId
  pre : Bool
  store : Store
  deriving DecidableEq, Repr

/-- One line of `FindReconciliation`. -/
structure Obs where
  pid : PartId
  actual : Nat
  rc : Option Nat
  ver : Option Nat
  deriving DecidableEq, Repr

structure St where
  rows : List Row
  /-- part_registry: part id ↦ (ref_count, version); `none` = no registry row. -/
  reg : PartId → Option (Nat × Nat)
  /-- part_dedup_index: (store, content key) ↦ part id. -/
  idx : Store → CKey → Option PartId
  /-- contents of the named part stores: `some t` = present, created at logical time `t`. -/
  stores : Store → PartId → Option Nat
  /-- ghost: every part id that was ever handed out (ULIDs are never reused). -/
  used : List PartId
  now : Nat
  /-- what the collector's read transaction returned and has not yet been applied. -/
  gcObs : List Obs
  /-- parts condemned by a committed collector transaction whose file is not yet removed. -/
  gcExt : List (Store × PartId)

/-- What an INSERT does when the primary key exists. -/
inductive Conflict where
  | fail | ignore | increment
  deriving DecidableEq, Repr

/-- The `version` comparison guarding a statement. -/
inductive VerGuard where
  | eq | ge | none
  deriving DecidableEq, Repr

/-- T1 facts: the clauses of the part-registry SQL statements the protocol relies on.  The
current values are regenerated from `sqlite/repository/partregistry/sqlite.go` into
`Pithos.Gen.PartsSql` on every run; the model executes whatever they say. -/
structure SqlFacts where
  /-- `insertPartRegistryStmt` (RegisterParts): plain INSERT = `fail` on an existing id -/
  register : Conflict
  /-- `addReferencesStmt` carries `AND ref_count > 0` -/
  addGuardPositive : Bool
  /-- `updateRefCountByPartIdStmt`: `AND version = $4` -/
  updateGuard : VerGuard
  /-- `deleteByPartIdStmt`: `AND version = $2` -/
  deleteGuard : VerGuard
  deriving DecidableEq, Repr

/-- The statements as designed. -/
def SqlFacts.designed : SqlFacts := ⟨.fail, true, .eq, .eq⟩

/-- What the invariant proof needs of them: the collector's repairs are compare-and-swap on the
exact observed version. -/
def SqlFacts.Sound (q : SqlFacts) : Prop := q.updateGuard = .eq ∧ q.deleteGuard = .eq

instance (q : SqlFacts) : Decidable q.Sound := by unfold SqlFacts.Sound; exact inferInstance

def VerGuard.ok (g : VerGuard) (current observed : Nat) : Bool :=
  match g with
  | .eq => current == observed
  | .ge => decide (observed ≤ current)
  | .none => true

structure Cfg where
  grace : Nat
  storeNames : List Store
  /-- `CapabilityTxFreeDeletePart`: the collector deletes after its transaction committed. -/
  txFree : Store → Bool
  sql : SqlFacts := SqlFacts.designed

def St.init : St :=
  { rows := [], reg := fun _ => none, idx := fun _ _ => none, stores := fun _ _ => none,
    used := [], now := 0, gcObs := [], gcExt := [] }

def refs (rows : List Row) (p : PartId) : Nat := rows.countP (fun r => r.pid == p)

def credits (pend : List Pend) (p : PartId) : Nat := pend.countP (fun e => e.pre && e.pid == p)

def upd1 {β : Type} (f : Nat → β) (a : Nat) (b : β) : Nat → β :=
  fun x => if x = a then b else f x

def upd2 {β : Type} (f : Nat → Nat → β) (a c : Nat) (b : β) : Nat → Nat → β :=
  fun x y => if x = a ∧ y = c then b else f x y

/-- `DELETE FROM part_dedup_index WHERE part_id = …` for every id satisfying `dead`. -/
def dropIdx (idx : Store → CKey → Option PartId) (dead : PartId → Bool) : Store → CKey → Option PartId :=
  fun st ck => match idx st ck with
    | some q => if dead q then none else some q
    | none => none

inductive Micro where
  /-- `TryAddPartReferences [p]` for a part copied from an existing row `(p, st)` of this
  transaction's snapshot (CopyObject / AppendObject / UploadPartCopy / Transition sharing). -/
  | acquire (p : PartId) (st : Store)
  /-- `PutPart f` into `st` followed by `dedupeFreshPart` (also: CopyObject's cross-store
  `tryShareDedupPart` … `PutPart` … `TryIndexDedupPart`, whose end state is the same). -/
  | dedupe (st : Store) (ck : CKey) (f : PartId)
  /-- `PutPart f` into `st` with no dedup lookup and no index entry (transition copies; parts
  without the full checksum set). -/
  | rawput (st : Store) (f : PartId)
  /-- `savePartRows` for the oldest pending part. -/
  | save (owner : Owner) (seq : Nat) (ck : Option CKey)
  /-- `removePartRowsByObjectId[AndSequenceNumber]` + `deleteUnreferencedParts`. -/
  | rm (owner : Owner) (seq : Option Nat)
  deriving DecidableEq, Repr

def rmSel (owner : Owner) (seq : Option Nat) (r : Row) : Bool :=
  r.owner == owner && (match seq with | none => true | some q => r.seq == q)

/-- store recorded for `q` in the `byId` map of `removePartEntities` (last entity wins). -/
def lastStoreOf (removed : List Row) (q : PartId) : Option Store :=
  ((removed.filter (fun r => r.pid == q)).getLast?).map (·.store)

/-- `RemoveReferences`: does the (aggregated) decrement bring `q` to zero? -/
def rmZero (reg : PartId → Option (Nat × Nat)) (removed : List Row) (q : PartId) : Bool :=
  match reg q with
  | some (c, _) => decide (0 < refs removed q) && c == refs removed q
  | none => false

def rmReg (reg : PartId → Option (Nat × Nat)) (removed : List Row) (q : PartId) : Option (Nat × Nat) :=
  if refs removed q = 0 then reg q else
  match reg q with
  | some (c, v) =>
    if refs removed q ≤ c then
      (if c = refs removed q then none else some (c - refs removed q, v + 1))
    else some (c, v)          -- "skipping decrement … (row missing or ref_count too low)"
  | none => none

/-- `dedupeFreshPart`, no shareable part: the fresh part `f` stays (already `PutPart` into `st`)
and `TryIndexDedupPart` = INSERT OR IGNORE into `idx`. -/
def keepFresh (s : St) (pend : List Pend) (st : Store) (f : PartId)
    (idx : Store → CKey → Option PartId) : St × List Pend :=
  ({ s with used := f :: s.used, stores := upd2 s.stores st f (some s.now), idx := idx }, pend ++ [⟨f, false, st⟩])

def tryIndex (idx : Store → CKey → Option PartId) (st : Store) (ck : CKey) (f : PartId) :
    Store → CKey → Option PartId :=
  match idx st ck with
  | some _ => idx
  | none => upd2 idx st ck (some f)

/-- `dedupeFreshPart`, shared: `TryAddReferences [e]` succeeded, the fresh copy is deleted again. -/
def shareHit (s : St) (pend : List Pend) (st : Store) (f e : PartId) (c v : Nat) : St × List Pend :=
  ({ s with used := f :: s.used, reg := upd1 s.reg e (some (c + 1, v + 1)),
            stores := upd2 (upd2 s.stores st f (some s.now)) st f none }, pend ++ [⟨e, true, st⟩])

def rmStep (s : St) (owner : Owner) (seq : Option Nat) : St :=
  let removed := s.rows.filter (rmSel owner seq)
  { s with
    rows := s.rows.filter (fun r => !rmSel owner seq r),
    reg := rmReg s.reg removed,
    idx := dropIdx s.idx (rmZero s.reg removed),
    stores := fun st q => if rmZero s.reg removed q && lastStoreOf removed q == some st then none else s.stores st q }

/-- One step inside a write transaction.  `none` = the transaction fails (and is rolled back). -/
def micro (q : SqlFacts) (t : St × List Pend) : Micro → Option (St × List Pend)
  | .acquire p st =>
    if t.1.rows.any (fun r => r.pid == p && r.store == st) then
      match t.1.reg p with
      | some (c, v) =>
        if 0 < c || !q.addGuardPositive then          -- `… WHERE part_id = $3 AND ref_count > 0`
          some ({ t.1 with reg := upd1 t.1.reg p (some (c + 1, v + 1)) }, t.2 ++ [⟨p, true, st⟩])
        else none
      | none => none
    else none
  | .dedupe st ck f =>
    if f ∈ t.1.used then none else
    match t.1.idx st ck with
    | none => some (keepFresh t.1 t.2 st f (tryIndex t.1.idx st ck f))
    | some e =>
      match t.1.reg e with
      | some (c, v) =>
        if 0 < c || !q.addGuardPositive then some (shareHit t.1 t.2 st f e c v)
        else   -- stale entry: `DeletePartDedupEntries [e]`, then index the fresh part
          some (keepFresh t.1 t.2 st f (tryIndex (dropIdx t.1.idx (fun q => q == e)) st ck f))
      | none => some (keepFresh t.1 t.2 st f (tryIndex (dropIdx t.1.idx (fun q => q == e)) st ck f))
  | .rawput st f =>
    if f ∈ t.1.used then none else some (keepFresh t.1 t.2 st f t.1.idx)
  | .save owner seq ck =>
    match t.2 with
    | [] => none
    | e :: rest =>
      if t.1.rows.any (fun r => r.owner == owner && r.seq == seq) then none   -- UNIQUE(object_id, sequence_number)
      else if e.pre then some ({ t.1 with rows := t.1.rows ++ [⟨owner, seq, e.pid, e.store, ck⟩] }, rest)
      else
        match t.1.reg e.pid with
        | some (c, v) =>
          -- RegisterParts on an existing primary key: what the INSERT's conflict clause says
          match q.register with
          | .fail => none
          | .ignore => some ({ t.1 with rows := t.1.rows ++ [⟨owner, seq, e.pid, e.store, ck⟩] }, rest)
          | .increment => some ({ t.1 with rows := t.1.rows ++ [⟨owner, seq, e.pid, e.store, ck⟩],
                                           reg := upd1 t.1.reg e.pid (some (c + 1, v + 1)) }, rest)
        | none => some ({ t.1 with rows := t.1.rows ++ [⟨owner, seq, e.pid, e.store, ck⟩],
                                   reg := upd1 t.1.reg e.pid (some (1, 1)) }, rest)
  | .rm owner seq => some (rmStep t.1 owner seq, t.2)

def runMicros (q : SqlFacts) (t : St × List Pend) : List Micro → Option (St × List Pend)
  | [] => some t
  | m :: ms => match micro q t m with
    | none => none
    | some t' => runMicros q t' ms

/-- A whole write transaction: all micro steps succeed and every acquired reference ended up in
a row; otherwise nothing happens (rollback). -/
def runTx (q : SqlFacts) (s : St) (script : List Micro) : Option St :=
  match runMicros q (s, []) script with
  | some (s', []) => some s'
  | _ => none

-- ---------------------------------------------------------------- garbage collector

/-- `FindReconciliation` (parts LEFT JOIN part_registry … UNION registry rows without parts). -/
def obsOf (s : St) : List Obs :=
  s.used.filterMap fun p =>
    match s.reg p with
    | some (c, v) => some ⟨p, refs s.rows p, some c, some v⟩
    | none => if 0 < refs s.rows p then some ⟨p, refs s.rows p, none, none⟩ else none

/-- The body of the reconciliation loop for one observation. -/
def reconcileOne (q : SqlFacts) (s : St) (o : Obs) : St :=
  match o.ver with
  | none =>
    -- RestoreMissing: INSERT … ON CONFLICT(part_id) DO NOTHING
    match s.reg o.pid with
    | none => { s with reg := upd1 s.reg o.pid (some (o.actual, 1)) }
    | some _ => s
  | some v =>
    if o.actual = 0 then
      -- DeleteByPartId … AND version = $2
      match s.reg o.pid with
      | some (_, w) => if q.deleteGuard.ok w v then { s with reg := upd1 s.reg o.pid none } else s
      | none => s
    else if o.rc ≠ some o.actual then
      -- UpdateRefCount … AND version = $4
      match s.reg o.pid with
      | some (_, w) => if q.updateGuard.ok w v then { s with reg := upd1 s.reg o.pid (some (o.actual, w + 1)) } else s
      | none => s
    else s

def minNat : List Nat → Option Nat
  | [] => none
  | a :: l => match minNat l with
    | none => some a
    | some b => some (if a ≤ b then a else b)

/-- Dedup-index pruning and `BackfillFromParts` (one transaction). -/
def gcDedupIdx (s : St) : Store → CKey → Option PartId :=
  let pruned := dropIdx s.idx (fun q => refs s.rows q == 0)
  fun st ck => match pruned st ck with
    | some q => some q
    | none => minNat ((s.rows.filter (fun r => r.store == st && r.ck == some ck)).map (·.pid))

/-- `Condemn` + dedup delete + (in-transaction | queued) part deletion, for one id. -/
def condemn (cfg : Cfg) (s : St) (st : Store) (p : PartId) : St :=
  let go (s : St) : St :=
    let s1 := { s with idx := dropIdx s.idx (fun q => q == p) }
    if cfg.txFree st then { s1 with gcExt := s1.gcExt ++ [(st, p)] }
    else { s1 with stores := upd2 s1.stores st p none }
  match s.reg p with
  | none => if refs s.rows p = 0 then go s else s
  | some (c, _) =>
    if c ≠ 0 then s
    else if refs s.rows p ≠ 0 then s
    else go { s with reg := upd1 s.reg p none }     -- DeleteByPartId p version

inductive Act where
  /-- one committed-or-rolled-back writer transaction -/
  | tx (script : List Micro)
  | tick (n : Nat)
  /-- bytes of a never-referenced part appear in a store (crash between publication and commit,
  a failed rollback, a deletion that was condemned but never executed …) -/
  | orphan (st : Store) (f : PartId)
  | gcObserve
  | gcReconcile
  | gcDedup
  | gcCondemn (st : Store) (p : PartId)
  | gcExtDelete
  /-- the queued deletion fails or the collector dies: the entry is forgotten, the bytes stay -/
  | gcExtDrop
  deriving Repr

def step (cfg : Cfg) (s : St) : Act → St
  | .tx script => (runTx cfg.sql s script).getD s
  | .tick n => { s with now := s.now + n }
  | .orphan st f =>
    if f ∈ s.used then s
    else { s with used := f :: s.used, stores := upd2 s.stores st f (some s.now) }
  | .gcObserve => { s with gcObs := obsOf s }
  | .gcReconcile =>
    match s.gcObs with
    | [] => s
    | o :: rest => { reconcileOne cfg.sql s o with gcObs := rest }
  | .gcDedup => { s with idx := gcDedupIdx s }
  | .gcCondemn st p => if p ∈ s.used then condemn cfg s st p else s   -- only ids that were handed out can be listed
  | .gcExtDelete =>
    match s.gcExt with
    | [] => s
    | (st, p) :: rest => { s with stores := upd2 s.stores st p none, gcExt := rest }
  | .gcExtDrop => { s with gcExt := s.gcExt.tail }

def run (cfg : Cfg) (s : St) : List Act → St
  | [] => s
  | a :: as => run cfg (step cfg s a) as

-- ---------------------------------------------------------------- one sequential GC pass

/-- `GetPartIds` of store `st`, restricted to ids older than the cutoff
(`id.CreatedAt().Before(now - grace)`).  Ids are enumerated through `used`. -/
def candidates (cfg : Cfg) (s : St) (st : Store) : List PartId :=
  s.used.filter fun p => match s.stores st p with
    | some t => decide (t + cfg.grace < s.now)
    | none => false

def reconcileAll (q : SqlFacts) (s : St) : List Obs → St
  | [] => s
  | o :: os => reconcileAll q (reconcileOne q s o) os

def condemnAll (cfg : Cfg) (s : St) (st : Store) : List PartId → St
  | [] => s
  | p :: ps => condemnAll cfg (condemn cfg s st p) st ps

/-- all queued external deletions; ids in `fail` are the ones whose deletion fails. -/
def extAll (s : St) (fail : PartId → Bool) : St :=
  { s with
    stores := fun st p => if s.gcExt.any (fun e => e == (st, p)) && !fail p then none else s.stores st p,
    gcExt := [] }

def sweepStore (cfg : Cfg) (fail : PartId → Bool) (s : St) (st : Store) : St :=
  extAll (condemnAll cfg s st (candidates cfg s st)) fail

def gcRunF (cfg : Cfg) (fail : PartId → Bool) (s : St) : St :=
  let s1 := reconcileAll cfg.sql s (obsOf s)
  let s2 := { s1 with gcObs := [], idx := gcDedupIdx s1 }
  cfg.storeNames.foldl (sweepStore cfg fail) s2

/-- The rest of a pass whose observation (`gcObs`) was taken earlier — writer transactions may
have committed in between (driver: collector paused between its read and its first write). -/
def gcResumeObs (cfg : Cfg) (fail : PartId → Bool) (s : St) : St :=
  let s1 := reconcileAll cfg.sql s s.gcObs
  let s2 := { s1 with gcObs := [], idx := gcDedupIdx s1 }
  cfg.storeNames.foldl (sweepStore cfg fail) s2

/-- The first half of a pass up to (and including) the listing of store `st`. -/
def gcUntilList (cfg : Cfg) (s : St) (st : Store) : St × List PartId :=
  let s1 := reconcileAll cfg.sql s (obsOf s)
  let s2 := { s1 with gcObs := [], idx := gcDedupIdx s1 }
  (s2, candidates cfg s2 st)

/-- … and the second half: the candidates listed earlier are condemned now. -/
def gcResumeList (cfg : Cfg) (fail : PartId → Bool) (s : St) (st : Store) (cands : List PartId) : St :=
  extAll (condemnAll cfg s st cands) fail

/-- `runGCWithContext` with nothing else running and every deletion succeeding. -/
def gcRun (cfg : Cfg) (s : St) : St := gcRunF cfg (fun _ => false) s

-- ---------------------------------------------------------------- where the grace window is needed

/-
The system above treats a writer's `PutPart` and the commit of its rows as one step.  That is what
SQLite + a transactional part store give.  With a part store whose `PutPart` is visible at once
(or a database running write transactions concurrently) a part can be *listed* by the collector
while the transaction that will reference it is still open.  `Grace` is the small system for that
window: parts are written (`put`), later committed or rolled back; the collector lists the ids
older than the grace window (`list`) and condemns listed ids one by one, re-checking the committed
references (`condemn`) exactly like `Condemn` does.
-/
namespace Grace

structure G where
  store : List (PartId × Nat)     -- visible parts with their creation time
  inflight : List PartId          -- written by a transaction that is still open
  committed : List PartId         -- referenced by a committed row
  cands : List PartId             -- the collector's candidate list
  used : List PartId
  now : Nat

inductive GA where
  | put (f : PartId)
  | commit (f : PartId)
  | rollback (f : PartId)
  | tick (n : Nat)
  /-- `GetPartIds` + age filter of a store that shows uncommitted parts -/
  | list
  /-- … of a transactional store: uncommitted parts are not visible -/
  | listTx
  | condemn
  deriving DecidableEq, Repr

def ids (g : G) : List PartId := g.store.map (·.1)

def gstep (grace : Nat) (g : G) : GA → G
  | .put f =>
    if f ∈ g.used then g
    else { g with store := (f, g.now) :: g.store, inflight := f :: g.inflight, used := f :: g.used }
  | .commit f =>
    if f ∈ g.inflight then
      { g with inflight := g.inflight.filter (· != f), committed := f :: g.committed }
    else g
  | .rollback f =>
    if f ∈ g.inflight then
      { g with inflight := g.inflight.filter (· != f), store := g.store.filter (fun e => e.1 != f) }
    else g
  | .tick n => { g with now := g.now + n }
  | .list => { g with cands := (g.store.filter (fun e => decide (e.2 + grace < g.now))).map (·.1) }
  | .listTx =>
    { g with cands := (g.store.filter (fun e => decide (e.2 + grace < g.now) && !g.inflight.contains e.1)).map (·.1) }
  | .condemn =>
    match g.cands with
    | [] => g
    | p :: rest =>
      if p ∈ g.committed then { g with cands := rest }
      else { g with cands := rest, store := g.store.filter (fun e => e.1 != p) }

def grun (grace : Nat) (g : G) : List GA → G
  | [] => g
  | a :: as => grun grace (gstep grace g a) as

def G.init : G := ⟨[], [], [], [], [], 0⟩

end Grace

end Pithos.Parts
