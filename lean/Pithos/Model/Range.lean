import Pithos.Spec.Rfc7233
/-
M3: HTTP Range handling of pithos, mirrored from the Go source (core Lean only).

  /repo/internal/http/server/object_read.go              parseRangeHeader, generateContentRangeValue,
                                                         getObjectHandler (size arithmetic, 206/416,
                                                         multipart/byteranges framing)
  /repo/internal/storage/metadatapart/object_read.go     normalizeAndValidateRanges, createRangeReader,
                                                         GetObject (default range, per-range readers)
  /repo/internal/storage/metadatapart/metadatapart.go    lazyPartSequenceReadCloser (skip / limit per part)
  /repo/internal/ioutils/limit.go, copy.go               SkipNBytes, LimitedEndReadCloser, CopyN

Header values are `List Char` (the driver converts the bytes of the header one to one), object
content is a list of parts, each a `List α`. All Go `int64` values are `Int`s together with the
explicit facts that matter: `strconv.ParseInt` fails outside [-2^63, 2^63-1] and `end + 1` wraps.

`Cfg` switches between the code as it is and the two proposed repairs:
  * `sat`       fixes/C05-range-int64-extremes.patch: positions are digit strings, values above
                MaxInt64 saturate, and `end+1` saturates instead of wrapping;
  * `dropUnsat` fixes/C05-multirange-drop-unsatisfiable.patch: a multi-range request whose list
                has unsatisfiable members is answered with the satisfiable ones (416 only if none).
`Cfg.asIs` is what the driver compares the implementation with.
-/
namespace Pithos.Range
open Pithos.Rfc7233 (splitFirst splitOn trim isDigit digitVal decimal allDigits)

/-! ## int64 -/

def maxI64 : Int := 9223372036854775807
def minI64 : Int := -9223372036854775808

/-- Two's complement wrap of an `Int` into the int64 range. -/
def wrap64 (x : Int) : Int := (x + 9223372036854775808) % 18446744073709551616 - 9223372036854775808

structure Cfg where
  sat : Bool
  dropUnsat : Bool
  deriving Repr, DecidableEq

def Cfg.asIs : Cfg := ⟨false, false⟩
def Cfg.repaired : Cfg := ⟨true, true⟩

/-! ## string helpers

`strings.SplitN(s, sep, 2)` = `splitFirst`, `strings.Split` = `splitOn`, `strings.TrimSpace` =
`trim isGoSpace`; the generic list functions live in `Pithos.Spec.Rfc7233` (the RFC grammar is
written with the same tokenisers). -/

/-- The ASCII part of `unicode.IsSpace` (what `strings.TrimSpace` removes). The tie only sends
ASCII header values; U+0085 / U+00A0 are not modelled. -/
def isGoSpace (c : Char) : Bool :=
  c = ' ' || c = '\t' || c = '\n' || c = '\x0b' || c = '\x0c' || c = '\r'

/-- `strconv.ParseInt(s, 10, 64)`, observably: `some v` iff `err == nil`. The Go function
answers an error for the empty string, a lone sign, any non-digit, and (ErrRange) any value
outside [-2^63, 2^63-1]; parseRangeHeader treats every error alike. -/
def parseIntGo (s : List Char) : Option Int :=
  match s with
  | [] => none
  | c :: r =>
    if c = '+' then
      if allDigits r then (if decimal r < 9223372036854775808 then some (decimal r : Int) else none) else none
    else if c = '-' then
      if allDigits r then (if decimal r ≤ 9223372036854775808 then some (-(decimal r : Int)) else none) else none
    else
      if allDigits s then (if decimal s < 9223372036854775808 then some (decimal s : Int) else none) else none

/-- The repaired position parser of fixes/C05-range-int64-extremes.patch: RFC 7233 `1*DIGIT`
only, saturating at MaxInt64. -/
def parsePosSat (s : List Char) : Option Int :=
  if allDigits s then some (if decimal s < 9223372036854775808 then (decimal s : Int) else maxI64) else none

def parseNum (cfg : Cfg) (s : List Char) : Option Int :=
  if cfg.sat then parsePosSat s else parseIntGo s

/-- `excEnd := *end + 1` on int64 (as is: wraps; repaired: saturates). -/
def incEnd (cfg : Cfg) (e : Int) : Int :=
  if cfg.sat then (if e < maxI64 then e + 1 else maxI64) else wrap64 (e + 1)

/-! ## storage.ByteRange and parseRangeHeader -/

/-- `storage.ByteRange{Start, End *int64}`; `stop` is the EXCLUSIVE end (or the suffix length when
`start` is nil). -/
structure ByteRange where
  start : Option Int
  stop : Option Int
  deriving Repr, DecidableEq

/-- An optional numeric field: `""` ⇒ nil pointer, otherwise it must parse. Outer `none` = error. -/
def parseField (cfg : Cfg) (s : List Char) : Option (Option Int) :=
  if s.isEmpty then some none
  else match parseNum cfg s with
    | none => none
    | some v => some (some v)

/-- One element of the comma separated list (loop body of parseRangeHeader). -/
def parseElem (cfg : Cfg) (e : List Char) : Option ByteRange :=
  match splitFirst '-' (trim isGoSpace e) with
  | none => none
  | some (s0, s1) =>
    match parseField cfg s0 with
    | none => none
    | some st =>
      match parseField cfg s1 with
      | none => none
      | some en =>
        match st, en with
        | none, none => none
        | none, some n => some ⟨none, some n⟩
        | some a, none => some ⟨some a, none⟩
        | some a, some b => some ⟨some a, some (incEnd cfg b)⟩

def mapMOpt {β γ : Type} (f : β → Option γ) : List β → Option (List γ)
  | [] => some []
  | x :: xs =>
    match f x with
    | none => none
    | some y => match mapMOpt f xs with
      | none => none
      | some ys => some (y :: ys)

def bytesUnit : List Char := ['b', 'y', 't', 'e', 's']

/-- `parseRangeHeader`: `none` = errInvalidByteRange (the handler answers 416), `some []` = no
Range header. -/
def parseRangeHeader (cfg : Cfg) (h : List Char) : Option (List ByteRange) :=
  if h.isEmpty then some []
  else match splitFirst '=' h with
    | none => none
    | some (u, rest) =>
      if u = bytesUnit then mapMOpt (parseElem cfg) (splitOn ',' rest) else none

/-! ## storage layer -/

inductive Err where
  | invalidRange
  | internal
  deriving Repr, DecidableEq

def mapMExc {β γ : Type} (f : β → Except Err γ) : List β → Except Err (List γ)
  | [] => .ok []
  | x :: xs =>
    match f x with
    | .error e => .error e
    | .ok y => match mapMExc f xs with
      | .error e => .error e
      | .ok ys => .ok (y :: ys)

/-- Loop body of `normalizeAndValidateRanges`. -/
def normalizeOne (size : Int) (br : ByteRange) : Except Err ByteRange :=
  match br.start, br.stop with
  | none, some n =>
    if n ≤ 0 then .error .invalidRange
    else
      let suffixLength := min n size
      .ok ⟨some (size - suffixLength), some size⟩
  | st, en =>
    if (match st with | some a => decide (a < 0) | none => false) then .error .invalidRange
    else
      let en' : Option Int := match en with
        | some b => if b > size then some size else some b
        | none => none
      match st, en' with
      | some a, some b => if a ≥ b then .error .invalidRange else .ok ⟨st, en'⟩
      | _, _ => .ok ⟨st, en'⟩

def totalLen {α : Type} (parts : List (List α)) : Nat := (parts.map List.length).sum

/-- One entry of `[]partRange`: the part's content, bytes to skip, bytes to deliver. -/
structure PartRange (α : Type) where
  content : List α
  skip : Int
  limit : Int

/-- The `for _, part := range object.Parts` loop of createRangeReader; `acc` is
`partsSizeUntilNow`. `none` = "invalid part range computed". -/
def planParts {α : Type} (gs ge : Int) : Int → List (List α) → Option (List (PartRange α))
  | _, [] => some []
  | acc, p :: ps =>
    let partStart := acc
    let partEnd := partStart + (p.length : Int)
    if gs ≥ partEnd then planParts gs ge partEnd ps          -- continue
    else if ge ≤ partStart then some []                        -- break
    else
      let rs : Int := if gs > partStart then gs - partStart else 0
      let re : Int := if ge < partEnd then ge - partStart else (p.length : Int)
      if re < rs then none
      else match planParts gs ge partEnd ps with
        | none => none
        | some rest => some (⟨p, rs, re - rs⟩ :: rest)

/-- What reading the `lazyPartSequenceReadCloser` to EOF delivers: per part, skip `skip` bytes
(`SkipNBytes`: Seek or discard — same bytes either way), then at most `limit` bytes
(`LimitedEndReadCloser`). -/
def readPlan {α : Type} : List (PartRange α) → List α
  | [] => []
  | pr :: rest => (pr.content.drop pr.skip.toNat).take pr.limit.toNat ++ readPlan rest

/-- `createRangeReader` followed by reading the reader to EOF. -/
def createRangeReader {α : Type} (parts : List (List α)) (br : ByteRange) : Except Err (List α) :=
  let size : Int := totalLen parts
  let gs : Int := br.start.getD 0
  let ge : Int := br.stop.getD size
  if gs ≥ ge then
    -- a whole-object read (no range at all) of a zero-length object yields an empty reader
    if br.start.isNone && br.stop.isNone then .ok [] else .error .invalidRange
  else match planParts gs ge 0 parts with
    | none => .error .internal
    | some plan => .ok (readPlan plan)

/-- `metadataPartStorage.GetObject` restricted to the range logic (object exists, no conditions). -/
def getObject {α : Type} (parts : List (List α)) (ranges : List ByteRange) : Except Err (List (List α)) :=
  let size : Int := totalLen parts
  let eff := if ranges.isEmpty then [⟨none, none⟩] else ranges
  match mapMExc (normalizeOne size) eff with
  | .error e => .error e
  | .ok norm => mapMExc (createRangeReader parts) norm

/-! ## HTTP handler -/

/-- The three numbers of `Content-Range: bytes first-last/total`. -/
structure CR where
  first : Int
  last : Int
  total : Int
  deriving Repr, DecidableEq

/-- `generateContentRangeValue`. -/
def contentRange (br : ByteRange) (size : Int) : CR :=
  let start : Int := match br.start, br.stop with
    | some a, _ => a
    | none, some n => size - min n size
    | none, none => 0
  let last : Int := match br.start, br.stop with
    | some _, some b => min b size - 1
    | _, _ => size - 1
  ⟨start, last, size⟩

/-- "Calculate sizes for each range" in getObjectHandler. -/
def rangeSize (br : ByteRange) (size : Int) : Int :=
  match br.start, br.stop with
  | none, some n => min n size
  | some a, some b => min b size - a
  | some a, none => size - a
  | none, none => 0

def fmtInt (i : Int) : List Char :=
  if i < 0 then '-' :: Nat.toDigits 10 i.natAbs else Nat.toDigits 10 i.toNat

/-- `fmt.Sprintf("bytes %d-%d/%d", …)`. -/
def crText (cr : CR) : List Char :=
  ['b', 'y', 't', 'e', 's', ' '] ++ fmtInt cr.first ++ ['-'] ++ fmtInt cr.last ++ ['/'] ++ fmtInt cr.total

/-- `"Content-Range: "` (15 characters). -/
def contentRangeKey : List Char :=
  ['C', 'o', 'n', 't', 'e', 'n', 't', '-', 'R', 'a', 'n', 'g', 'e', ':', ' ']

/-- Length of `"Content-Range: <value>\r\n\r\n"`. -/
def partHeaderLen (cr : CR) : Int := 15 + (crText cr).length + 4

/-- The Content-Length arithmetic of the multipart/byteranges branch (`sepLen` = length of the
boundary; a ULID has 26 characters). -/
def multiContentLength (sepLen : Int) (parts : List (CR × Int)) : Int :=
  let n : Int := parts.length
  let totalSize := (parts.map (·.2)).sum
  let rangeHeaderLength := (parts.map (fun p => partHeaderLen p.1)).sum
  let startCrlfLength := (n - 1) * 2
  let separatorLineLength := 2 + 2 + sepLen
  let endSeparatorLineLength := separatorLineLength + 2 + 2
  totalSize + startCrlfLength + rangeHeaderLength + separatorLineLength * n + endSeparatorLineLength

inductive Resp (α : Type) where
  /-- a bare status code (416 for every range failure) -/
  | status (code : Nat)
  /-- 200, no Range header: Content-Length, body -/
  | full (clen : Int) (body : List α)
  /-- 206 with Content-Range / Content-Length / body -/
  | single (cr : CR) (clen : Int) (body : List α)
  /-- 206 multipart/byteranges: Content-Length and the parts (Content-Range, body) -/
  | multi (clen : Int) (parts : List (CR × List α))
  deriving Repr, DecidableEq

/-- `isSatisfiableRange` of fixes/C05-multirange-drop-unsatisfiable.patch: the predicate the
repaired handler uses to drop members of a multi-range list — exactly the ranges
`normalizeAndValidateRanges` + `createRangeReader` accept (parseRangeHeader never yields nil/nil). -/
def brSatisfiable (size : Int) (br : ByteRange) : Bool :=
  match br.start, br.stop with
  | none, some n => decide (0 < n) && decide (0 < size)
  | some a, some b => decide (0 ≤ a) && decide (a < size) && decide (a < b)
  | some a, none => decide (0 ≤ a) && decide (a < size)
  | none, none => false

/-- The part of getObjectHandler after a successful GetObject. `CopyN(w, reader, size)` delivers
at most `size` bytes of the reader. -/
def respond {α : Type} (sepLen : Int) (size : Int) (ranges : List ByteRange) (readers : List (List α)) : Resp α :=
  match ranges with
  | [] => .full size ((readers.headD []).take size.toNat)
  | [br] => .single (contentRange br size) (rangeSize br size) ((readers.headD []).take (rangeSize br size).toNat)
  | _ =>
    let parts := (ranges.zip readers).map fun (br, rd) => (contentRange br size, rd.take (rangeSize br size).toNat)
    .multi (multiContentLength sepLen (ranges.map fun br => (contentRange br size, rangeSize br size))) parts

/-- getObjectHandler for an existing object (no conditional headers, no versionId). -/
def httpGet {α : Type} (cfg : Cfg) (sepLen : Int) (hdr : List Char) (parts : List (List α)) : Resp α :=
  let size : Int := totalLen parts
  match parseRangeHeader cfg hdr with
  | none => .status 416
  | some ranges =>
    match getObject parts ranges with
    | .ok readers => respond sepLen size ranges readers
    | .error .internal => .status 500
    | .error .invalidRange =>
      if cfg.dropUnsat && decide (ranges.length > 1) then
        -- repaired: keep the satisfiable members and ask again
        let kept := ranges.filter (brSatisfiable size)
        if kept.isEmpty then .status 416
        else match getObject parts kept with
          | .ok readers => respond sepLen size kept readers
          | .error .internal => .status 500
          | .error .invalidRange => .status 416
      else .status 416

/-- The bytes of a multipart/byteranges body as the handler writes them (`enc` embeds the ASCII
framing into the body alphabet). -/
def renderMulti {α : Type} (enc : Char → α) (sep : List Char) : (first : Bool) → List (CR × List α) → List α
  | _, [] => (['\r', '\n', '-', '-'] ++ sep ++ ['-', '-', '\r', '\n']).map enc
  | first, (cr, body) :: rest =>
    ((if first then [] else ['\r', '\n']) ++ ['-', '-'] ++ sep ++ ['\r', '\n']
      ++ contentRangeKey ++ crText cr ++ ['\r', '\n', '\r', '\n']).map enc
    ++ body ++ renderMulti enc sep false rest

/-! ## the RFC answer as an HTTP response (used to state C05) -/

def crOfPart {α : Type} (p : Rfc7233.Part α) : CR := ⟨p.first, p.last, p.total⟩

/-- How the response prescribed by RFC 7233 looks on the wire: 416; or 206 with
Content-Range/Content-Length/body for one part; or 206 multipart/byteranges whose Content-Length
follows the framing arithmetic (`multi_content_length_matches_body` shows it is the body length). -/
def ofSpec {α : Type} (sepLen : Int) : Rfc7233.Response α → Resp α
  | .unsatisfiable => .status 416
  | .partialContent [] => .status 416
  | .partialContent [p] => .single (crOfPart p) p.body.length p.body
  | .partialContent ps =>
    .multi (multiContentLength sepLen (ps.map fun p => (crOfPart p, (p.body.length : Int))))
      (ps.map fun p => (crOfPart p, p.body))

end Pithos.Range
