/-
ASCII string helpers shared by the HTTP-edge models (C32, C33, C34): Go's `strings.Split` (one-byte
separator), `strings.TrimSpace`, `strings.ToLower` / `ToUpper`, `strings.Join`, restricted to ASCII
input (the harnesses only generate ASCII where these are applied). Strings are `List Char`.
Core Lean only.
-/
namespace Pithos.Ascii

/-- `strings.Split(s, sep)` for a one-byte separator: never empty, keeps empty fields. -/
def splitOn (sep : Char) : List Char → List (List Char)
  | [] => [[]]
  | c :: cs =>
    match splitOn sep cs with
    | [] => [[]]
    | f :: fs => if c == sep then [] :: f :: fs else (c :: f) :: fs

/-- ASCII white space as `strings.TrimSpace` sees it: \t \n \v \f \r and space. -/
def isSpace (c : Char) : Bool :=
  let n := c.toNat
  n == 32 || (n ≥ 9 && n ≤ 13)

def trimLeft (s : List Char) : List Char := s.dropWhile isSpace
def trimSpace (s : List Char) : List Char := (trimLeft (trimLeft s).reverse).reverse

def lowerChar (c : Char) : Char :=
  if c.toNat ≥ 65 && c.toNat ≤ 90 then Char.ofNat (c.toNat + 32) else c
def toLower (s : List Char) : List Char := s.map lowerChar

def upperChar (c : Char) : Char :=
  if c.toNat ≥ 97 && c.toNat ≤ 122 then Char.ofNat (c.toNat - 32) else c
def toUpper (s : List Char) : List Char := s.map upperChar

/-- `strings.Join(xs, sep)`. -/
def join (sep : List Char) : List (List Char) → List Char
  | [] => []
  | [x] => x
  | x :: y :: r => x ++ sep ++ join sep (y :: r)

/-- `strings.LastIndexByte(s, c)`. -/
def lastIdx (c : Char) (s : List Char) : Option Nat :=
  (s.reverse.findIdx? (· == c)).map fun r => s.length - 1 - r

/-- `strings.TrimSuffix(s, suf)`. -/
def trimSuffix (s suf : List Char) : List Char :=
  if suf.isSuffixOf s then s.take (s.length - suf.length) else s

end Pithos.Ascii
