/-
M12 (S3 client backend): the error-kind path  storage error → pithos HTTP server → wire →
aws-sdk-go-v2 → `s3ClientStorage` → storage error,  as far as `S3.Err` distinguishes kinds.

* server side (`handleError`, table `Gen.S3ClientMap.serverStatus/serverBodyless`): a storage error is
  written as an XML error body whose `Code` is the error's text, with the listed status — except the
  two delete-marker errors, which are answered with a bare status (404 / 405) and headers only;
  HEAD responses never have a body.
* SDK (trusted, observed through the tie): a reply with an S3 `Code` surfaces as an API error with
  that code (and as the typed error of the same name where the client tests for one); a bare 404 on a
  HEAD operation surfaces as `types.NotFound`; any other bare status carries no usable code.
* client side (`Gen.S3ClientMap.errorClauses`, regenerated from s3client.go): per method the ordered
  clauses `(matcher, storage error)`; the first matching clause wins, otherwise the SDK error is
  returned as is — which no `errors.Is(err, storage.ErrX)` recognises (`Err.other`).

Behaviour (content, metadata, listings) is NOT modelled here: for C38 the model of
`S3ClientStorage ∘ server` is `Spec/S3` itself and the claim rests on the differential run.
-/
import Pithos.Model.S3
import Pithos.Gen.S3ClientMap
import Pithos.Gen.S3ErrorTables

namespace Pithos.S3Client
open Pithos.S3

inductive Wire where
  | code (status : String) (c : String)   -- XML error body with <Code>c</Code>
  | bare (status : String)                -- status line and headers only
  | marker (status : String)              -- bodyless, with `x-amz-delete-marker: true` (and version id) headers
  deriving DecidableEq, Repr

def errVar : Err → String
  | .noSuchBucket => "ErrNoSuchBucket" | .noSuchKey => "ErrNoSuchKey"
  | .bucketAlreadyExists => "ErrBucketAlreadyExists" | .bucketNotEmpty => "ErrBucketNotEmpty"
  | .preconditionFailed => "ErrPreconditionFailed" | .methodNotAllowed => "ErrMethodNotAllowed"
  | .invalidWriteOffset => "ErrInvalidWriteOffset" | .invalidPart => "ErrInvalidPart"
  | .invalidPartOrder => "ErrInvalidPartOrder" | .invalidRange => "ErrInvalidRange"
  | .notModified => "ErrNotModified" | .other => "ErrOther"

def ofErrVar (s : String) : Err :=
  if s == "ErrNoSuchBucket" then .noSuchBucket else if s == "ErrNoSuchKey" then .noSuchKey
  else if s == "ErrBucketAlreadyExists" then .bucketAlreadyExists else if s == "ErrBucketNotEmpty" then .bucketNotEmpty
  else if s == "ErrPreconditionFailed" then .preconditionFailed else if s == "ErrInvalidWriteOffset" then .invalidWriteOffset
  else if s == "ErrInvalidPart" then .invalidPart else if s == "ErrInvalidPartOrder" then .invalidPartOrder
  else if s == "ErrInvalidRange" then .invalidRange else if s == "ErrNotModified" then .notModified
  -- the two delete-marker error types print as these kinds (errKind in s3hist.go)
  else if s == "CurrentDeleteMarkerError" then .noSuchKey
  else if s == "VersionDeleteMarkerMethodNotAllowedError" then .methodNotAllowed
  else .other

/-- The kinds a storage call can answer with (everything `S3.Err` distinguishes except `other`). -/
def allKinds : List Err :=
  [.noSuchBucket, .noSuchKey, .bucketAlreadyExists, .bucketNotEmpty, .preconditionFailed, .methodNotAllowed,
   .invalidWriteOffset, .invalidPart, .invalidPartOrder, .invalidRange, .notModified]

/-- The regenerated facts, as a value. -/
structure Tables where
  clauses : List (String × List (String × String))      -- method-specific clauses (run first)
  serverEncode : List (String × String × String)         -- sentinel, status, code
  decode : List (String × String)                        -- storageErrorsByS3Code
  bareStatus : List (String × String)                    -- bodyless status → sentinel
  deleteMarker : List (String × String)                  -- bodyless + delete-marker header: status → error type
  translating : List String                              -- methods that end in translateS3Error
  headDisambiguates : Bool                               -- HeadObject resolves a bare 404 by a HeadBucket

def genTables : Tables :=
  { clauses := Gen.S3ClientMap.errorClauses, serverEncode := Gen.S3ErrorTables.serverEncode,
    decode := Gen.S3ErrorTables.clientDecode, bareStatus := Gen.S3ErrorTables.clientBareStatus,
    deleteMarker := if Gen.S3ErrorTables.clientDeleteMarkerGuarded then Gen.S3ErrorTables.clientDeleteMarker else [],
    translating := Gen.S3ErrorTables.translatingMethods, headDisambiguates := Gen.S3ErrorTables.headObjectDisambiguates }

/-- The client before /repo commit 7a2631f: only the method-specific clauses, no general translation. -/
def preFixTables : Tables :=
  { genTables with
    translating := []
    headDisambiguates := false
    clauses := genTables.clauses.map fun c =>
      if c.1 == "HeadObject" then ("HeadObject", [("type:NotFound", "ErrNoSuchBucket")]) else c }

def lookup (l : List (String × String)) (k : String) : Option String := (l.find? (·.1 == k)).map (·.2)

def serverEntry (t : Tables) (e : Err) : String × String :=
  match t.serverEncode.find? (·.1 == errVar e) with
  | some (_, st, c) => (st, c)
  | none => ("500", "InternalError")

/-- Remove repeated elements (structural, so that `decide` can evaluate it). -/
def dedup {α} [DecidableEq α] : List α → List α
  | [] => []
  | x :: xs => if x ∈ xs then dedup xs else x :: dedup xs

/-- The forms in which the server may put an error of kind `e` on the wire. `NoSuchKey` is also what a
current delete marker is reported as (bodyless 404 with the delete-marker header); `MethodNotAllowed`
only arises from addressing a delete marker by version id (bodyless 405 with the header); a 304 never
has a body. On a HEAD request there is never a body. -/
def wires (t : Tables) (e : Err) (headReq : Bool) : List Wire :=
  let (st, c) := serverEntry t e
  let coded : List Wire := match e with
    | .methodNotAllowed => [.marker "405"]
    | .noSuchKey => [.code st c, .marker "404"]
    | .notModified => [.bare st]
    | .other => [.code "500" "InternalError"]
    | _ => [.code st c]
  if headReq then dedup (coded.map fun w => match w with | .code s _ => Wire.bare s | w => w) else coded

/-- Does an SDK error test of the client match this reply? `headOp`: the SDK operation is
HeadObject/HeadBucket (only those deserialise a bodyless 404 into `types.NotFound`). -/
def sdkMatches (matcher : String) (headOp : Bool) (w : Wire) : Bool :=
  match w with
  | .code _ c => matcher == "code:" ++ c || matcher == "type:" ++ c
  | .bare s => s == "404" && ((matcher == "type:NotFound" && headOp) || matcher == "code:NotFound")
  | .marker s => s == "404" && ((matcher == "type:NotFound" && headOp) || matcher == "code:NotFound")

def clausesOf (t : Tables) (m : String) : List (String × String) :=
  let own := ((t.clauses.find? (·.1 == m)).map (·.2)).getD []
  own.flatMap fun c =>
    match t.clauses.find? (fun h => c.1 == "helper:" ++ h.1) with
    | some h => h.2
    | none => [c]

/-- `translateS3Error` on a reply. -/
def translate (t : Tables) (w : Wire) : Option String :=
  match w with
  | .marker s => lookup t.deleteMarker s
  | .code _ c => lookup t.decode c
  | .bare s => lookup t.bareStatus s

/-- The kind the caller of the client backend sees when the endpoint's storage answered `e` and the
server put it on the wire as `w`, for SDK operation `m`. -/
def clientKind (t : Tables) (m : String) (headOp : Bool) (e : Err) (w : Wire) : Err :=
  match (clausesOf t m).find? (fun c => sdkMatches c.1 headOp w) with
  | some c => ofErrVar c.2
  | none =>
    if t.translating.contains m then
      match translate t w with
      | some v => ofErrVar v
      | none =>
        -- HeadObject: a bare 404 is resolved by asking HeadBucket, i.e. correctly
        if m == "HeadObject" && t.headDisambiguates && w == .bare "404" then e else .other
    else .other

/-- Every kind the client may report when the endpoint's storage answered `e` to method `m`. -/
def roundTrip (t : Tables) (m : String) (headOp : Bool) (e : Err) : List Err :=
  dedup ((wires t e headOp).map (clientKind t m headOp e))

def preserved (t : Tables) (m : String) (headOp : Bool) (e : Err) : Bool :=
  (wires t e headOp).all fun w => clientKind t m headOp e w == e

/-! ### The two tables against each other (sentinel level) -/

/-- How the server writes a sentinel of its table (a 304 has no body). -/
def encodeEntry (entry : String × String × String) : Wire :=
  if entry.2.1 == "304" then .bare entry.2.1 else .code entry.2.1 entry.2.2

/-- Every sentinel some part of the client decodes a reply to: the general translation and every
method-specific code clause. -/
def decodeAll (t : Tables) (methodClauses : List (String × String × String)) (w : Wire) : List String :=
  (translate t w).toList ++
  (match w with
   | .code _ c => (methodClauses.filter (·.2.1 == c)).map (·.2.2)
   | _ => [])

def roundTrips (t : Tables) (methodClauses : List (String × String × String)) (entry : String × String × String) : Bool :=
  let ds := decodeAll t methodClauses (encodeEntry entry)
  !ds.isEmpty && ds.all (· == entry.1)

/-- A complete translation: every S3 error code is mapped to the kind of the same name; a bare 404
is read as a missing key, a bare 405 as a delete marker addressed by version. -/
def idealClientKind (w : Wire) : Err :=
  match w with
  | .code _ c => (allKinds.find? (·.toString == c)).getD .other
  | .bare s => if s == "304" then .notModified else .other
  | .marker s => if s == "404" then .noSuchKey else if s == "405" then .methodNotAllowed else .other

/-- The storage methods behind each operation of the history language (`s3hist.go`), as
(`s3ClientStorage` method, is a HEAD operation of the SDK). `get` first calls `HeadObject`. -/
def methodsOfOp (op : String) : List (String × Bool) :=
  if op == "mkb" then [("CreateBucket", false)] else if op == "rmb" then [("DeleteBucket", false)]
  else if op == "ver" then [("PutBucketVersioningConfiguration", false)]
  else if op == "put" then [("PutObject", false)]
  else if op == "get" then [("HeadObject", true), ("GetObject", false)]
  else if op == "head" then [("HeadObject", true)]
  else if op == "del" then [("DeleteObject", false)] else if op == "cp" then [("CopyObject", false)]
  else if op == "app" then [("AppendObject", false)]
  else if op == "mpu" then [("CreateMultipartUpload", false)] else if op == "upp" then [("UploadPart", false)]
  else if op == "upc" then [("UploadPartCopy", false)]
  else if op == "cmpl" then [("CompleteMultipartUpload", false)] else if op == "abort" then [("AbortMultipartUpload", false)]
  else if op == "gtag" then [("GetObjectTagging", false)] else if op == "ptag" then [("PutObjectTagging", false)]
  else if op == "dtag" then [("DeleteObjectTagging", false)]
  else if op == "trans" then [("TransitionObjectStorageClass", false)]
  else if op == "ls" || op == "lsp" then [("ListObjects", false)]
  else if op == "lsv" || op == "lsvp" then [("ListObjectVersions", false)]
  else if op == "lsb" then [("ListBuckets", false)] else []

/-- The object/bucket methods whose error kinds the history language can observe. -/
def observedMethods : List (String × Bool) :=
  [("CreateBucket", false), ("DeleteBucket", false), ("PutBucketVersioningConfiguration", false), ("PutObject", false),
   ("HeadObject", true), ("GetObject", false), ("DeleteObject", false), ("CopyObject", false),
   ("TransitionObjectStorageClass", false), ("CreateMultipartUpload", false), ("UploadPart", false),
   ("CompleteMultipartUpload", false), ("AbortMultipartUpload", false), ("GetObjectTagging", false),
   ("PutObjectTagging", false), ("DeleteObjectTagging", false), ("ListObjects", false), ("ListObjectVersions", false)]

/-- The kinds each method's storage call can answer with (the cases the differential run reaches). -/
def relevantKinds (m : String) : List Err :=
  if m == "CreateBucket" then [.bucketAlreadyExists]
  else if m == "DeleteBucket" then [.noSuchBucket, .bucketNotEmpty]
  else if m == "PutBucketVersioningConfiguration" || m == "ListObjects" || m == "ListObjectVersions" || m == "CreateMultipartUpload" then [.noSuchBucket]
  else if m == "PutObject" then [.noSuchBucket, .preconditionFailed]
  else if m == "HeadObject" || m == "GetObject" then [.noSuchBucket, .noSuchKey, .methodNotAllowed]
  else if m == "DeleteObject" then [.noSuchBucket, .preconditionFailed]
  else if m == "CompleteMultipartUpload" then [.noSuchBucket, .noSuchKey, .invalidPart, .invalidPartOrder, .preconditionFailed]
  else if m == "AppendObject" then [.noSuchBucket, .noSuchKey, .invalidWriteOffset]
  else if m == "GetObjectTagging" || m == "PutObjectTagging" || m == "DeleteObjectTagging" || m == "CopyObject" then
    [.noSuchBucket, .noSuchKey, .methodNotAllowed]
  else [.noSuchBucket, .noSuchKey]

end Pithos.S3Client
