/-
M12 (S3 client backend): the error-kind path  storage error → pithos HTTP server → wire →
aws-sdk-go-v2 → `s3ClientStorage` → storage error,  as far as `S3.Err` distinguishes kinds.

* server side (`handleError`, table `Gen.S3ClientMap.serverStatus/serverBodyless`): a storage error is
  written as an XML error body whose `Code` is the error's text, with the listed status — except the
  two delete-marker errors, which are answered with a bare status (404 / 405) and headers only;
  HEAD responses never have a body.
* SDK (trusted, observed through the tie): a reply with an S3 `Code` surfaces as an API error with
  that code (and as the typed error of the same name where the client tests for one); a bare 404 on a
  HEAD operation surfaces as `types.NotFound`; any other bare status carries no usable code.
* client side (`Gen.S3ClientMap.errorClauses`, regenerated from s3client.go): per method the ordered
  clauses `(matcher, storage error)`; the first matching clause wins, otherwise the SDK error is
  returned as is — which no `errors.Is(err, storage.ErrX)` recognises (`Err.other`).

Behaviour (content, metadata, listings) is NOT modelled here: for C38 the model of
`S3ClientStorage ∘ server` is `Spec/S3` itself and the claim rests on the differential run.
-/
import Pithos.Model.S3
import Pithos.Gen.S3ClientMap

namespace Pithos.S3Client
open Pithos.S3

inductive Wire where
  | code (status : String) (c : String)   -- XML error body with <Code>c</Code>
  | bare (status : String)                -- status line and headers only
  deriving DecidableEq, Repr

def errVar : Err → String
  | .noSuchBucket => "ErrNoSuchBucket" | .noSuchKey => "ErrNoSuchKey"
  | .bucketAlreadyExists => "ErrBucketAlreadyExists" | .bucketNotEmpty => "ErrBucketNotEmpty"
  | .preconditionFailed => "ErrPreconditionFailed" | .methodNotAllowed => "ErrMethodNotAllowed"
  | .invalidWriteOffset => "ErrInvalidWriteOffset" | .invalidPart => "ErrInvalidPart"
  | .invalidPartOrder => "ErrInvalidPartOrder" | .invalidRange => "ErrInvalidRange"
  | .notModified => "ErrNotModified" | .other => "ErrOther"

def ofErrVar (s : String) : Err :=
  if s == "ErrNoSuchBucket" then .noSuchBucket else if s == "ErrNoSuchKey" then .noSuchKey
  else if s == "ErrBucketAlreadyExists" then .bucketAlreadyExists else if s == "ErrBucketNotEmpty" then .bucketNotEmpty
  else if s == "ErrPreconditionFailed" then .preconditionFailed else if s == "ErrInvalidWriteOffset" then .invalidWriteOffset
  else if s == "ErrInvalidPart" then .invalidPart else if s == "ErrInvalidPartOrder" then .invalidPartOrder
  else if s == "ErrInvalidRange" then .invalidRange else if s == "ErrNotModified" then .notModified
  else .other

/-- The kinds a storage call can answer with (everything `S3.Err` distinguishes except `other`). -/
def allKinds : List Err :=
  [.noSuchBucket, .noSuchKey, .bucketAlreadyExists, .bucketNotEmpty, .preconditionFailed, .methodNotAllowed,
   .invalidWriteOffset, .invalidPart, .invalidPartOrder, .invalidRange, .notModified]

structure Tables where
  clauses : List (String × List (String × String))
  serverStatus : List (String × String)

def genTables : Tables := ⟨Gen.S3ClientMap.errorClauses, Gen.S3ClientMap.serverStatus⟩

def statusOf (t : Tables) (e : Err) : String :=
  match t.serverStatus.find? (·.1 == errVar e) with
  | some (_, s) => s
  | none => "500"

/-- Remove repeated elements (structural, so that `decide` can evaluate it). -/
def dedup {α} [DecidableEq α] : List α → List α
  | [] => []
  | x :: xs => if x ∈ xs then dedup xs else x :: dedup xs

/-- The forms in which the server may put an error of kind `e` on the wire. `NoSuchKey` is also what a
current delete marker is reported as (bare 404); `MethodNotAllowed` only arises from addressing a
delete marker by version id (bare 405). On a HEAD request there is never a body. -/
def wires (t : Tables) (e : Err) (headReq : Bool) : List Wire :=
  let coded : List Wire := match e with
    | .methodNotAllowed => [.bare "405"]
    | .noSuchKey => [.code (statusOf t e) e.toString, .bare "404"]
    | .other => [.code "500" "InternalError"]
    | _ => [.code (statusOf t e) e.toString]
  if headReq then dedup (coded.map fun w => match w with | .code s _ => Wire.bare s | w => w) else coded

/-- Does an SDK error test of the client match this reply? `headOp`: the SDK operation is
HeadObject/HeadBucket (only those deserialise a bare 404 into `types.NotFound`). -/
def sdkMatches (matcher : String) (headOp : Bool) (w : Wire) : Bool :=
  match w with
  | .code _ c => matcher == "code:" ++ c || matcher == "type:" ++ c
  | .bare s => s == "404" && ((matcher == "type:NotFound" && headOp) || matcher == "code:NotFound")

def clausesOf (t : Tables) (m : String) : List (String × String) :=
  let own := ((t.clauses.find? (·.1 == m)).map (·.2)).getD []
  own.flatMap fun c =>
    match t.clauses.find? (fun h => c.1 == "helper:" ++ h.1) with
    | some h => h.2
    | none => [c]

/-- The kind the caller of the client backend sees for reply `w` of SDK operation `m`. -/
def clientKind (t : Tables) (m : String) (headOp : Bool) (w : Wire) : Err :=
  match (clausesOf t m).find? (fun c => sdkMatches c.1 headOp w) with
  | some c => ofErrVar c.2
  | none => .other

/-- Every kind the client may report when the endpoint's storage answered `e` to method `m`. -/
def roundTrip (t : Tables) (m : String) (headOp : Bool) (e : Err) : List Err :=
  dedup ((wires t e headOp).map (clientKind t m headOp))

def preserved (t : Tables) (m : String) (headOp : Bool) (e : Err) : Bool :=
  (wires t e headOp).all fun w => clientKind t m headOp w == e

/-- A complete translation: every S3 error code is mapped to the kind of the same name; a bare 404
is read as a missing key, a bare 405 as a delete marker addressed by version. -/
def idealClientKind (w : Wire) : Err :=
  match w with
  | .code _ c => (allKinds.find? (·.toString == c)).getD .other
  | .bare s => if s == "404" then .noSuchKey else if s == "405" then .methodNotAllowed else .other

/-- The storage methods behind each operation of the history language (`s3hist.go`), as
(`s3ClientStorage` method, is a HEAD operation of the SDK). `get` first calls `HeadObject`. -/
def methodsOfOp (op : String) : List (String × Bool) :=
  if op == "mkb" then [("CreateBucket", false)] else if op == "rmb" then [("DeleteBucket", false)]
  else if op == "ver" then [("PutBucketVersioningConfiguration", false)]
  else if op == "put" then [("PutObject", false)]
  else if op == "get" then [("HeadObject", true), ("GetObject", false)]
  else if op == "head" then [("HeadObject", true)]
  else if op == "del" then [("DeleteObject", false)] else if op == "cp" then [("CopyObject", false)]
  else if op == "app" then [("AppendObject", false)]
  else if op == "mpu" then [("CreateMultipartUpload", false)] else if op == "upp" then [("UploadPart", false)]
  else if op == "cmpl" then [("CompleteMultipartUpload", false)] else if op == "abort" then [("AbortMultipartUpload", false)]
  else if op == "gtag" then [("GetObjectTagging", false)] else if op == "ptag" then [("PutObjectTagging", false)]
  else if op == "dtag" then [("DeleteObjectTagging", false)]
  else if op == "trans" then [("TransitionObjectStorageClass", false)]
  else if op == "ls" then [("ListObjects", false)] else if op == "lsv" then [("ListObjectVersions", false)]
  else if op == "lsb" then [("ListBuckets", false)] else []

/-- The object/bucket methods whose error kinds the history language can observe. -/
def observedMethods : List (String × Bool) :=
  [("CreateBucket", false), ("DeleteBucket", false), ("PutBucketVersioningConfiguration", false), ("PutObject", false),
   ("HeadObject", true), ("GetObject", false), ("DeleteObject", false), ("CopyObject", false),
   ("TransitionObjectStorageClass", false), ("CreateMultipartUpload", false), ("UploadPart", false),
   ("CompleteMultipartUpload", false), ("AbortMultipartUpload", false), ("GetObjectTagging", false),
   ("PutObjectTagging", false), ("DeleteObjectTagging", false), ("ListObjects", false), ("ListObjectVersions", false)]

/-- The kinds each method's storage call can answer with (the cases the differential run reaches). -/
def relevantKinds (m : String) : List Err :=
  if m == "CreateBucket" then [.bucketAlreadyExists]
  else if m == "DeleteBucket" then [.noSuchBucket, .bucketNotEmpty]
  else if m == "PutBucketVersioningConfiguration" || m == "ListObjects" || m == "ListObjectVersions" || m == "CreateMultipartUpload" then [.noSuchBucket]
  else if m == "PutObject" then [.noSuchBucket, .preconditionFailed]
  else if m == "HeadObject" || m == "GetObject" then [.noSuchBucket, .noSuchKey, .methodNotAllowed]
  else if m == "DeleteObject" then [.noSuchBucket, .preconditionFailed]
  else if m == "CompleteMultipartUpload" then [.noSuchBucket, .noSuchKey, .invalidPart, .invalidPartOrder, .preconditionFailed]
  else if m == "AppendObject" then [.noSuchBucket, .noSuchKey, .invalidWriteOffset]
  else if m == "GetObjectTagging" || m == "PutObjectTagging" || m == "DeleteObjectTagging" || m == "CopyObject" then
    [.noSuchBucket, .noSuchKey, .methodNotAllowed]
  else [.noSuchBucket, .noSuchKey]

end Pithos.S3Client
