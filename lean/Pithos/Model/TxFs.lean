/-
M5 — transaction finalisation over a filesystem part store.

Mirrors
  /repo/internal/storage/database/tx.go            TxController.Commit / Rollback / WithTx
  /repo/internal/storage/metadatapart/partstore/filesystem/filesystem.go
                                                   PutPart / DeletePart with a transaction:
                                                   OnPreCommit / OnAfterCommit / OnRollback closures

A transaction is the list of part-store calls made inside its body (`Reg`): every call registers
one pre-commit, one after-commit and one rollback closure, each with its own captured variables
`backupCreated` / `published` (`Flags`). The part directory is a map from file names to contents.
File names that the code makes unique with a fresh ULID / random suffix (`.txbackup.<ulid>`,
`.<id>.<rand>.tmp`) carry the *slot* (position of the registering call in the transaction) here.

The metadata database is abstract: it is in its `before` state until `tx.Commit()` and in its
`after` state from then on (`committed`).

`rev` selects the order in which `TxController.Rollback` runs the rollback closures:
`false` = registration order (the code as it is), `true` = reverse registration order (repair
fixes/C03-rollback-hooks-reverse-order.patch).
`recover` models a start-up pass of the filesystem part store that renames an orphaned
`.txbackup.*` file back when its target is missing (repair fixes/C10-fs-restore-backups-at-start.patch);
the code as it is has no such pass.
-/
namespace Pithos.TxFs

abbrev Bytes := List UInt8

inductive FName where
  | part (id : Nat)                    -- hex(partId)
  | backup (id : Nat) (slot : Nat)     -- hex(partId).txbackup.<ulid of the registering call>
  | temp (id : Nat) (slot : Nat)       -- .hex(partId).<random>.tmp
  deriving DecidableEq, Repr

abbrev Files := FName → Option Bytes

def Files.set (fs : Files) (n : FName) (v : Option Bytes) : Files :=
  fun m => if m = n then v else fs m

def emptyFiles : Files := fun _ => none

/-- A part-store call made with a transaction. -/
inductive Reg where
  | put (id : Nat) (content : Bytes)
  | del (id : Nat)
  deriving DecidableEq, Repr

def Reg.id : Reg → Nat
  | .put id _ => id
  | .del id => id

def Reg.isPut : Reg → Bool
  | .put .. => true
  | .del _ => false

/-- The captured variables of one call's closures. -/
structure Flags where
  backupCreated : Bool := false
  published : Bool := false
  deriving DecidableEq, Repr

-- ---------------------------------------------------------------- the file operations of the closures

/-- Call time (inside the transaction body). PutPart writes the temp file; DeletePart only registers. -/
def register (r : Reg) (slot : Nat) (fs : Files) : Files :=
  match r with
  | .put id c => fs.set (.temp id slot) (some c)
  | .del _ => fs

/-- First rename of both pre-commit closures: `os.Rename(filename, backupName)`;
`fs.ErrNotExist` is tolerated (nothing to back up). -/
def renameAway (r : Reg) (slot : Nat) (fs : Files) : Files × Bool :=
  match fs (.part r.id) with
  | some v => (((fs.set (.part r.id) none).set (.backup r.id slot) (some v)), true)
  | none => (fs, false)

/-- Second rename of PutPart's pre-commit closure: `os.Rename(tempName, filename)`.
`none` = the rename failed (temp file missing). -/
def publish (id slot : Nat) (fs : Files) : Option Files :=
  match fs (.temp id slot) with
  | some v => some ((fs.set (.temp id slot) none).set (.part id) (some v))
  | none => none

/-- `os.Rename(backupName, filename)` (errors ignored / returned, no other effect). -/
def restoreBackup (id slot : Nat) (fs : Files) : Files :=
  match fs (.backup id slot) with
  | some v => (fs.set (.backup id slot) none).set (.part id) (some v)
  | none => fs

/-- One whole pre-commit closure. `ok = false`: the closure returned an error (only PutPart's
second rename can fail here; it then restores the backup itself and resets `backupCreated`). -/
def preHook (r : Reg) (slot : Nat) (fs : Files) : Files × Flags × Bool :=
  match r with
  | .del _ =>
    let (fs1, b) := renameAway r slot fs
    (fs1, { backupCreated := b }, true)
  | .put id _ =>
    let (fs1, b) := renameAway r slot fs
    match publish id slot fs1 with
    | some fs2 => (fs2, { backupCreated := b, published := true }, true)
    | none => ((if b then restoreBackup id slot fs1 else fs1), {}, false)

/-- The after-commit closure: `if backupCreated { os.Remove(backupName) }`. -/
def afterHook (r : Reg) (slot : Nat) (fl : Flags) (fs : Files) : Files :=
  if fl.backupCreated then fs.set (.backup r.id slot) none else fs

/-- The rollback closure. -/
def rollbackHook (r : Reg) (slot : Nat) (fl : Flags) (fs : Files) : Files :=
  match r with
  | .del id => if fl.backupCreated then restoreBackup id slot fs else fs
  | .put id _ =>
    if fl.published then
      let fs1 := fs.set (.part id) none                      -- os.Remove(filename)
      if fl.backupCreated then restoreBackup id slot fs1 else fs1
    else fs.set (.temp id slot) none                          -- os.Remove(tempName)

-- ---------------------------------------------------------------- TxController

/-- All registrations of the body, in call order, starting at slot `i`. -/
def registerAll : List Reg → Nat → Files → Files
  | [], _, fs => fs
  | r :: rs, i, fs => registerAll rs (i + 1) (register r i fs)

/-- The pre-commit loop of `Commit`: the first `k` closures run (a failing closure stops the loop
too); the others never run and keep their initial flags. Returns the files, the flags of every
slot and whether every closure that ran succeeded. -/
def preLoop : List Reg → Nat → Nat → Files → Files × List Flags × Bool
  | [], _, _, fs => (fs, [], true)
  | _ :: rs, _, 0, fs => (fs, {} :: (rs.map fun _ => {}), true)
  | r :: rs, i, k + 1, fs =>
    match preHook r i fs with
    | (fs1, fl, true) =>
      let (fs2, fls, ok) := preLoop rs (i + 1) k fs1
      (fs2, fl :: fls, ok)
    | (fs1, fl, false) => (fs1, fl :: (rs.map fun _ => {}), false)

/-- `Rollback`: every rollback closure runs; `rev = false`: in registration order (`for _, fn :=
range t.onRollback`), `rev = true`: last registered first. -/
def rollbackLoop (rev : Bool) : List Reg → Nat → List Flags → Files → Files
  | [], _, _, fs => fs
  | r :: rs, i, fls, fs =>
    let fl := fls.headD {}
    if rev then rollbackHook r i fl (rollbackLoop rev rs (i + 1) fls.tail fs)
    else rollbackLoop rev rs (i + 1) fls.tail (rollbackHook r i fl fs)

def afterLoop : List Reg → Nat → List Flags → Files → Files
  | [], _, _, fs => fs
  | r :: rs, i, fls, fs => afterLoop rs (i + 1) fls.tail (afterHook r i (fls.headD {}) fs)

structure St where
  files : Files
  committed : Bool

/-- A failing finalisation. `k < regs.length`: the injected error arrives before pre-commit
closure `k` (`tx.precommit(k)`); `k ≥ regs.length`: at `tx.Commit()` itself. `k = 0` is also what
`WithTx` does when the body returns an error (a part-store or database call failed; `regs` are
the calls that had succeeded): no closure has run, `Rollback` runs them all. -/
def commitFault (rev : Bool) (regs : List Reg) (k : Nat) (fs0 : Files) : St :=
  let fsT := registerAll regs 0 fs0
  let (fs1, fls, _) := preLoop regs 0 k fsT
  { files := rollbackLoop rev regs 0 fls fs1, committed := false }

/-- `TxController.Rollback` as a whole: `err := t.tx.Rollback()` first — it reports an error when the
SQL transaction is already finished, e.g. `sql.ErrTxDone` after a COMMIT statement that failed —
and then every rollback closure runs *whatever `err` is*; `err` only becomes the returned error
(second component). -/
def rollbackCode (rev : Bool) (sqlRollbackFails : Bool) (regs : List Reg) (fls : List Flags) (fs : Files) :
    Files × Bool :=
  (rollbackLoop rev regs 0 fls fs, sqlRollbackFails)

/-- The COMMIT statement itself fails (lost connection, full disk, transaction ended underneath):
every pre-commit closure has run, `database/sql` has finished the transaction, `Commit` calls
`Rollback`, whose `t.tx.Rollback()` now reports `sql.ErrTxDone`. -/
def commitStmtFault (rev : Bool) (regs : List Reg) (fs0 : Files) : St :=
  let fsT := registerAll regs 0 fs0
  let (fs1, fls, _) := preLoop regs 0 regs.length fsT
  { files := (rollbackCode rev true regs fls fs1).1, committed := false }

/-- A successful `Commit`. -/
def commitOk (regs : List Reg) (fs0 : Files) : St :=
  let fsT := registerAll regs 0 fs0
  let (fs1, fls, _) := preLoop regs 0 regs.length fsT
  { files := afterLoop regs 0 fls fs1, committed := true }

-- ---------------------------------------------------------------- crash points

/-- The atomic steps of a transaction, in program order. Every step is one system call (or the
database commit); a process kill falls between two steps. -/
inductive Act where
  | createTemp (r : Reg) (slot : Nat)     -- body: PutPart wrote its temp file
  | renameAway (r : Reg) (slot : Nat)     -- pre-commit closure, first rename
  | publish (r : Reg) (slot : Nat)        -- PutPart's pre-commit closure, second rename
  | removeBackup (r : Reg) (slot : Nat)   -- after-commit closure
  deriving Repr

def bodyActs : List Reg → Nat → List Act
  | [], _ => []
  | r :: rs, i => (if r.isPut then [Act.createTemp r i] else []) ++ bodyActs rs (i + 1)

def preActs : List Reg → Nat → List Act
  | [], _ => []
  | r :: rs, i => (Act.renameAway r i :: (if r.isPut then [Act.publish r i] else [])) ++ preActs rs (i + 1)

def afterActs : List Reg → Nat → List Act
  | [], _ => []
  | r :: rs, i => Act.removeBackup r i :: afterActs rs (i + 1)

/-- In-memory state while the process lives: the files plus which slots set `backupCreated`. -/
structure Live where
  files : Files
  backups : Nat → Bool := fun _ => false

def applyAct (s : Live) : Act → Live
  | .createTemp r i => { s with files := register r i s.files }
  | .renameAway r i =>
    let (fs1, b) := renameAway r i s.files
    { files := fs1, backups := fun j => if j = i then b else s.backups j }
  | .publish r i =>
    match publish r.id i s.files with
    | some fs1 => { s with files := fs1 }
    | none => s
  | .removeBackup r i => if s.backups i then { s with files := s.files.set (.backup r.id i) none } else s

def runActs (s : Live) (as : List Act) : Live := as.foldl applyAct s

/-- Everything up to (excluding) `tx.Commit()`. -/
def beforeCommitActs (regs : List Reg) : List Act := bodyActs regs 0 ++ preActs regs 0

def numPoints (regs : List Reg) : Nat := (beforeCommitActs regs).length + 1 + (afterActs regs 0).length

/-- The state a restarted process finds when the old one was killed after `k` atomic steps
(`k ≤ numPoints regs`; the database commit is step number `(beforeCommitActs regs).length + 1`). -/
def crashAt (regs : List Reg) (k : Nat) (fs0 : Files) : St :=
  let pre := beforeCommitActs regs
  if k ≤ pre.length then
    { files := (runActs { files := fs0 } (pre.take k)).files, committed := false }
  else
    let s1 := runActs { files := fs0 } pre
    { files := (runActs s1 ((afterActs regs 0).take (k - pre.length - 1))).files, committed := true }

-- ---------------------------------------------------------------- start-up recovery (repair; not in the code as it is)

/-- The first backup file of part `id` among slots `< n` (directory order = ULID order = slot order). -/
def firstBackup : Nat → Files → Nat → Option (Nat × Bytes)
  | 0, _, _ => none
  | n + 1, fs, id =>
    match firstBackup n fs id with
    | some x => some x
    | none => (fs (.backup id n)).map fun v => (n, v)

/-- Start-up pass: a `.txbackup.*` file whose target is missing is renamed back. Backups whose
target exists are left alone. `n` bounds the slots that can occur. -/
def recover (n : Nat) (fs : Files) : Files := fun nm =>
  match nm with
  | .part id =>
    match fs (.part id) with
    | some v => some v
    | none => (firstBackup n fs id).map (·.2)
  | .backup id i =>
    match fs (.part id) with
    | some _ => fs (.backup id i)
    | none => if (firstBackup n fs id).map (·.1) = some i then none else fs (.backup id i)
  | .temp id i => fs (.temp id i)

/-- The backup and temp names the transaction is going to use (slots `i, i+1, …`) do not exist yet
— what the fresh ULID / random suffix in those names provides. -/
def Fresh : List Reg → Nat → Files → Prop
  | [], _, _ => True
  | r :: rs, i, fs => fs (.backup r.id i) = none ∧ fs (.temp r.id i) = none ∧ Fresh rs (i + 1) fs

/-- No part id is used by two calls of the transaction. -/
def DistinctIds (regs : List Reg) : Prop := regs.Pairwise fun a b => a.id ≠ b.id

/-- No backup file at all (a directory that was never interrupted, or was recovered). -/
def NoBackups (fs : Files) : Prop := ∀ id i, fs (.backup id i) = none

/-- What the database references: part id ↦ expected content. -/
abbrev Refs := List (Nat × Bytes)

def Consistent (fs : Files) (refs : Refs) : Prop := ∀ r ∈ refs, fs (.part r.1) = some r.2

def consistentB (fs : Files) (refs : Refs) : Bool := refs.all fun r => fs (.part r.1) == some r.2

-- ---------------------------------------------------------------- which controller owns a registered closure

/-- The handle a part store is given: the root controller of the transaction, or a child handle
(`TxController.Child()`: the operation runs inside an enclosing transaction, as under
`TransactionalStorage.WithTransaction`). Only the root is ever finalised; `Commit`/`Rollback` of a
child are no-ops. -/
inductive Handle where
  | root | child
  deriving DecidableEq, Repr

inductive HookList where
  | pre | after | rollback
  deriving DecidableEq, Repr

/-- Where a registration method appends the closure: to the root's list or to the receiver's own,
and to which of the three lists. -/
structure Target where
  toRoot : Bool
  list : HookList
  deriving DecidableEq, Repr

structure Routing where
  onPreCommit : Target
  onAfterCommit : Target
  onRollback : Target
  deriving DecidableEq, Repr

/-- The code (T1 table `hookRouting`): each method appends to the ROOT's list of its own kind. -/
def Routing.code : Routing := ⟨⟨true, .pre⟩, ⟨true, .after⟩, ⟨true, .rollback⟩⟩

inductive Closure where
  | pre (r : Reg) (slot : Nat)
  | after (r : Reg) (slot : Nat)
  | rollback (r : Reg) (slot : Nat)
  deriving DecidableEq, Repr

/-- The three hook lists of the ROOT controller — what `Commit` and `Rollback` iterate. -/
structure Ctl where
  pre : List Closure := []
  after : List Closure := []
  rollback : List Closure := []
  deriving DecidableEq, Repr

/-- A closure appended to the receiver's own list reaches the root only when the receiver is the root. -/
def Ctl.add (c : Ctl) (h : Handle) (t : Target) (cl : Closure) : Ctl :=
  if t.toRoot || h == .root then
    match t.list with
    | .pre => { c with pre := c.pre ++ [cl] }
    | .after => { c with after := c.after ++ [cl] }
    | .rollback => { c with rollback := c.rollback ++ [cl] }
  else c

/-- One part-store call registers OnPreCommit, OnAfterCommit, OnRollback, in that order. -/
def Ctl.registerCall (rt : Routing) (c : Ctl) (h : Handle) (r : Reg) (slot : Nat) : Ctl :=
  ((c.add h rt.onPreCommit (.pre r slot)).add h rt.onAfterCommit (.after r slot)).add h rt.onRollback (.rollback r slot)

def Ctl.registerAll (rt : Routing) : Ctl → List (Handle × Reg) → Nat → Ctl
  | c, [], _ => c
  | c, (h, r) :: rest, i => Ctl.registerAll rt (c.registerCall rt h r i) rest (i + 1)

def closuresOf (mk : Reg → Nat → Closure) : List Reg → Nat → List Closure
  | [], _ => []
  | r :: rs, i => mk r i :: closuresOf mk rs (i + 1)

/-- Run one closure, whatever list it sits in (flags are per slot). -/
def runClosure (s : Files × (Nat → Flags)) : Closure → Files × (Nat → Flags)
  | .pre r i =>
    let (fs1, fl, _) := preHook r i s.1
    (fs1, fun j => if j = i then fl else s.2 j)
  | .after r i => (afterHook r i (s.2 i) s.1, s.2)
  | .rollback r i => (rollbackHook r i (s.2 i) s.1, s.2)

/-- `tx.Commit()` fails after the whole pre-commit list ran: then the rollback list runs
(last-registered-first when `rev`). Generic over the lists, so that mis-routed closures can be
expressed. Returns the directory at the moment of the COMMIT and the directory afterwards. -/
def Ctl.commitFails (rev : Bool) (c : Ctl) (fsT : Files) : Files × Files :=
  let atCommit := c.pre.foldl runClosure (fsT, fun _ => {})
  let rb := if rev then c.rollback.reverse else c.rollback
  (atCommit.1, (rb.foldl runClosure atCommit).1)

end Pithos.TxFs
