/-
M7 (part 2): the storage outbox (/repo/internal/storage/outbox/outbox.go) over an arbitrary inner
storage semantics.

The outbox storage accepts operations one after the other. An accepted operation is either
*queued* (appended to the FIFO table; the caller gets an immediate acknowledgement) or *written
through*: the caller first waits until every queued entry in a *scope* has been flushed
(`waitUntilOutboxEntriesDrained`: snapshot the newest entry in scope, poll until the oldest entry in
scope is newer — the worker flushes strictly first-in-first-out, so this flushes the whole prefix
of the table up to that entry), then the operation runs on the inner storage. Reads are written
through. The worker flushes the first entry at arbitrary points (`Event.flush`).

Which operations queue (possibly depending on the inner storage's *current* state: the bucket's
versioning status is read without waiting) and which scopes an operation waits for is the
`Policy`; for the real code it is built from the T1 table `Pithos.Gen.OutboxStorage`
(see `Pithos.Model.OutboxStorageS3`).

Scopes (the four finder pairs of the repository):
  keyAndGlobal b k   bucket = b AND (key = '' OR key = k)
  bucket b           bucket = b
  bucketGlobal b     bucket = b AND key = ''
  global             key = ''
Bucket-lifecycle entries (CreateBucket/DeleteBucket) are stored with key ''.
-/
namespace Pithos.OutboxStorage

inductive Scope where
  | keyAndGlobal (b k : String)
  | bucket (b : String)
  | bucketGlobal (b : String)
  | global
  deriving Repr, DecidableEq, Inhabited

/-- Does the entry addressed (bucket, key) fall into the scope? -/
def Scope.mem : Scope → String × String → Bool
  | .keyAndGlobal b k, (eb, ek) => eb == b && (ek == "" || ek == k)
  | .bucket b, (eb, _) => eb == b
  | .bucketGlobal b, (eb, ek) => eb == b && ek == ""
  | .global, (_, ek) => ek == ""

/-- The inner storage: a deterministic step function, the table address of an operation and the
acknowledgement a queued operation returns at once. -/
structure Inner (σ Op Out : Type) where
  step : σ → Op → σ × Out
  addr : Op → String × String
  ack : Op → Out
  /-- what the outbox layer answers when it rejects the operation itself (e.g. BadDigest) -/
  rejected : Op → Out

/-- What the outbox does with an accepted operation. -/
structure Policy (σ Op : Type) where
  /-- queue it? (may inspect the inner storage's current state) -/
  queues : σ → Op → Bool
  /-- the scopes a written-through operation waits for, in order -/
  scopes : Op → List Scope
  /-- does the outbox layer's own validation fail for this operation (the supplied checksum does
  not match the received body, the body cannot be read)? Such an operation is answered with an
  error: it leaves no queued entry and never changes the inner storage. -/
  rejects : Op → Bool

structure St (σ Op : Type) where
  inner : σ
  queue : List Op

inductive Event (Op : Type) where
  | accept (op : Op)
  | flush                      -- the worker replays the first entry (no-op on an empty table)
  deriving Repr

variable {σ Op Out : Type}

/-- Number of entries to flush so that no entry of the scope remains: index of the last entry
in scope, plus one. -/
def needFor (I : Inner σ Op Out) (sc : Scope) : List Op → Nat
  | [] => 0
  | e :: q =>
    let r := needFor I sc q
    if r > 0 then r + 1 else if sc.mem (I.addr e) then 1 else 0

/-- The worker replays the first `n` entries. -/
def flushN (I : Inner σ Op Out) : Nat → St σ Op → St σ Op
  | 0, s => s
  | n + 1, s =>
    match s.queue with
    | [] => s
    | e :: q => flushN I n { inner := (I.step s.inner e).1, queue := q }

def waitScope (I : Inner σ Op Out) (s : St σ Op) (sc : Scope) : St σ Op :=
  flushN I (needFor I sc s.queue) s

/-- One operation issued to the outbox: the new state, the caller's result, whether it was
written through, and whether it was *accepted* (not answered with the outbox layer's own error).
Mirrors `PutObject`: on the queue path the entry, its options and chunks and the validation share
one transaction, so a rejection rolls the entry back; on the write-through path the caller waits
first and the inner storage rejects the call without a trace. -/
def accept (I : Inner σ Op Out) (P : Policy σ Op) (s : St σ Op) (op : Op) : St σ Op × Out × Bool × Bool :=
  if P.queues s.inner op then
    if P.rejects op then (s, I.rejected op, false, false)
    else ({ s with queue := s.queue ++ [op] }, I.ack op, false, true)
  else
    let s1 := (P.scopes op).foldl (waitScope I) s
    if P.rejects op then (s1, I.rejected op, true, false)
    else
      let r := I.step s1.inner op
      ({ s1 with inner := r.1 }, r.2, true, true)

/-- Log of issued operations: operation, caller's result, written through?, accepted? -/
abbrev Log (Op Out : Type) := List (Op × Out × Bool × Bool)

def run (I : Inner σ Op Out) (P : Policy σ Op) (s : St σ Op) : List (Event Op) → St σ Op × Log Op Out
  | [] => (s, [])
  | .flush :: evs => run I P (flushN I 1 s) evs
  | .accept op :: evs =>
    let r := accept I P s op
    let rest := run I P r.1 evs
    (rest.1, (op, r.2.1, r.2.2.1, r.2.2.2) :: rest.2)

/-- The accepted operations of a log, in acceptance order. -/
def acceptedOps (log : Log Op Out) : List Op := (log.filter (·.2.2.2)).map (·.1)

/-- Drain: the worker replays everything. -/
def drain (I : Inner σ Op Out) (s : St σ Op) : σ := (flushN I s.queue.length s).inner

/-- Sequential application of operations to the inner storage. -/
def seqState (I : Inner σ Op Out) (t : σ) (ops : List Op) : σ := ops.foldl (fun t op => (I.step t op).1) t

/-- The inner storage after the table has been replayed on top of it. -/
def pending (I : Inner σ Op Out) (s : St σ Op) : σ := seqState I s.inner s.queue

/-- The log agrees with the sequential execution from `t` of the *accepted* operations: every
written-through accepted operation (every read in particular) returned what it returns when all
operations accepted before it are applied in acceptance order; a rejected operation returned the
rejection and does not take part in the sequential execution. -/
def Agree (I : Inner σ Op Out) : σ → Log Op Out → Prop
  | _, [] => True
  | t, (op, out, thr, acc) :: rest =>
    if acc then (thr = true → out = (I.step t op).2) ∧ Agree I (I.step t op).1 rest
    else out = I.rejected op ∧ Agree I t rest

/-- An operation is independent of a queued entry when the entry is outside all its wait scopes. -/
def Indep (I : Inner σ Op Out) (P : Policy σ Op) (a e : Op) : Prop :=
  ∀ sc ∈ P.scopes a, sc.mem (I.addr e) = false

end Pithos.OutboxStorage
