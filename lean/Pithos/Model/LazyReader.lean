/-
M13 (part 2): the lazy part-sequence reader of a GetObject body over a *changing* part store
(/repo/internal/storage/metadatapart/metadatapart.go `lazyPartSequenceReadCloser`,
object_read.go `createRangeReader`, /repo/internal/ioutils/limit.go).

GetObject resolves a version inside a short metadata transaction into a list of part ranges
(part id, bytes to skip, byte limit). With transaction-free part stores (filesystem) the parts are
opened lazily, one after the other, *after* that transaction ended; between two reads of the body
any number of store steps may run (overwrite and append create parts under new ids, delete and
garbage collection remove part files). An opened part is an open file descriptor: it keeps its
bytes whatever happens to the directory entry (assumption "open descriptors survive
rename/unlink"), which the model expresses by copying the part's bytes into the reader when the
part is opened. With SQL-backed part stores every read goes through the read transaction that
resolved the version: the reader's store never changes (snapshot).

The code does not check that a part delivers as many bytes as its range promises: a part that ends
early is indistinguishable from a part that ended (`io.LimitReader` reports EOF, the sequence
reader moves on). The model mirrors that (`openPart`); the property therefore needs the store
invariant `StoreOK`: a part id of the resolved version is either absent or holds its original
bytes (part ids are unique and a part file is never rewritten). Core Lean only.
-/
namespace Pithos.LazyReader

abbrev Bytes := List UInt8
abbrev PartId := Nat

/-- A part store as the reader sees it: `none` = no such part (GetPart answers ErrPartNotFound). -/
abbrev Store := PartId → Option Bytes

structure PartRange where
  id    : PartId
  skip  : Nat
  limit : Nat
  deriving Repr, DecidableEq

/-- `todo`: part ranges not yet opened (`parts[partIndex:]`); `cur`: the bytes the currently open,
skipped and limited part reader still holds (`current`). -/
structure Reader where
  todo : List PartRange
  cur  : Option Bytes := none
  deriving Repr, DecidableEq

inductive Out where
  | data (bs : Bytes)   -- Read returned n > 0 bytes, nil error
  | eof                 -- Read returned 0, io.EOF
  | err                 -- Read returned 0 and an error (the part could not be opened)
  deriving Repr, DecidableEq

/-- What an opened part range yields: skip, then at most `limit` bytes — fewer if the part is
shorter than promised (no length check in the code). -/
def openPart (bytes : Bytes) (p : PartRange) : Bytes := (bytes.drop p.skip).take p.limit

/-- `Read(p)` with `len(p) = n > 0` when no part is open: open the next parts until one yields
bytes. `partIndex` is advanced before GetPart is called, so a failed open consumes its range. -/
def pull (store : Store) (n : Nat) : List PartRange → Reader × Out
  | [] => (⟨[], none⟩, .eof)
  | p :: rest =>
    match store p.id with
    | none => (⟨rest, none⟩, .err)
    | some bytes =>
      let bs := openPart bytes p
      if bs.isEmpty then pull store n rest
      else (⟨rest, some (bs.drop n)⟩, .data (bs.take n))

/-- One `Read` call with a buffer of `n > 0` bytes. -/
def read (store : Store) (r : Reader) (n : Nat) : Reader × Out :=
  match r.cur with
  | some bs => if bs.isEmpty then pull store n r.todo else (⟨r.todo, some (bs.drop n)⟩, .data (bs.take n))
  | none => pull store n r.todo

/-- An event of a download: the consumer reads with a buffer of `n` bytes, or the store changes
(any number of storage operations ran). -/
inductive Ev where
  | read (n : Nat)
  | store (s : Store)

/-- What the consumer has seen so far: the delivered bytes and how the stream ended, if it did. -/
structure Seen where
  delivered : Bytes := []
  ended : Option Bool := none     -- some true = EOF (reported complete), some false = error
  deriving Repr, DecidableEq

/-- Run a schedule. Reads after the stream ended are ignored (the consumer stopped).
`snapshot = true`: the reader reads through the transaction that resolved the version, store
changes do not reach it. -/
def run (snapshot : Bool) : Store → Reader → Seen → List Ev → Seen
  | _, _, seen, [] => seen
  | store, r, seen, .store s :: evs => run snapshot (if snapshot then store else s) r seen evs
  | store, r, seen, .read n :: evs =>
    if seen.ended.isSome then run snapshot store r seen evs
    else match read store r n with
      | (r', .data bs) => run snapshot store r' { seen with delivered := seen.delivered ++ bs } evs
      | (r', .eof) => run snapshot store r' { seen with ended := some true } evs
      | (r', .err) => run snapshot store r' { seen with ended := some false } evs

/-- The bytes the resolved version promises, given the original contents of its parts. -/
def target (orig : PartId → Bytes) (ps : List PartRange) : Bytes :=
  (ps.map fun p => openPart (orig p.id) p).flatten

/-- The store invariant the property needs: a part of the resolved version is absent or unchanged. -/
def StoreOK (orig : PartId → Bytes) (ps : List PartRange) (s : Store) : Prop :=
  ∀ p ∈ ps, s p.id = none ∨ s p.id = some (orig p.id)

def EvOK (orig : PartId → Bytes) (ps : List PartRange) : Ev → Prop
  | .read n => 0 < n
  | .store s => StoreOK orig ps s

/-- The store a SQL-backed (transaction-held) reader reads through for the whole download.
`emptyAbsent = true` describes the SQL part store before the fix "the SQL part store keeps empty
parts; zero-length part ranges are not opened" (/repo 6ff38ea): it wrote no chunk row for an empty
part and answered ErrPartNotFound when asked for it. -/
def snapshotStore (emptyAbsent : Bool) (orig : PartId → Bytes) : Store :=
  fun id => if emptyAbsent && (orig id).isEmpty then none else some (orig id)

/-- What /repo does today (`true` before 6ff38ea). -/
def sqlEmptyPartAbsent : Bool := false

-- ---------------------------------------------------------------- createRangeReader

/-- The part ranges `createRangeReader` computes for the byte range `[lo, hi)` of an object whose
parts have the given sizes (ids = positions). `skipEmpty`: ranges of zero length are not opened
(the code since 6ff38ea; before, an empty part in the middle of the range was opened). -/
def planFrom (skipEmpty : Bool) (lo hi : Nat) : Nat → Nat → List Nat → List PartRange
  | _, _, [] => []
  | idx, start, size :: rest =>
    let stop := start + size
    if lo ≥ stop then planFrom skipEmpty lo hi (idx + 1) stop rest
    else if hi ≤ start then []
    else
      let a := if lo > start then lo - start else 0
      let b := if hi < stop then hi - start else size
      if skipEmpty && b - a == 0 then planFrom skipEmpty lo hi (idx + 1) stop rest
      else ⟨idx, a, b - a⟩ :: planFrom skipEmpty lo hi (idx + 1) stop rest

/-- What /repo does today. -/
def planSkipsEmptyRanges : Bool := true

def plan (sizes : List Nat) (lo hi : Nat) : List PartRange := planFrom planSkipsEmptyRanges lo hi 0 0 sizes

/-- `io.ReadFull(reader, buf[:k])`: read until `k` bytes arrived or the stream ended. -/
def readFull (store : Store) : Nat → Reader → Nat → Seen → Reader × Seen
  | 0, r, _, seen => (r, seen)
  | fuel + 1, r, k, seen =>
    if k == 0 || seen.ended.isSome then (r, seen)
    else match read store r k with
      | (r', .data bs) => readFull store fuel r' (k - bs.length) { seen with delivered := seen.delivered ++ bs }
      | (r', .eof) => (r', { seen with ended := some true })
      | (r', .err) => (r', { seen with ended := some false })

/-- Drain with a buffer of `chunk` bytes until the stream ends. -/
def drain (store : Store) (chunk : Nat) : Nat → Reader → Seen → Reader × Seen
  | 0, r, seen => (r, seen)
  | fuel + 1, r, seen =>
    if seen.ended.isSome then (r, seen)
    else match read store r chunk with
      | (r', .data bs) => drain store chunk fuel r' { seen with delivered := seen.delivered ++ bs }
      | (r', .eof) => (r', { seen with ended := some true })
      | (r', .err) => (r', { seen with ended := some false })

end Pithos.LazyReader
