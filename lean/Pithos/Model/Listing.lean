/-
M2 — the listing code of pithos as executable functions (core Lean only).

Mirrors, branch by branch,
  internal/storage/database/sqlite/repository/object/sqlite.go   the listing statements (§2, §4)
  internal/storage/metadatapart/metadatastore/sql/object_read.go  determineCommonPrefix, listObjects,
                                                                  ListObjectVersions (§3, §5)
  internal/storage/metadatapart/metadatastore/sql/multipart.go    ListMultipartUploads, ListParts (§5)
  internal/http/server/bucket.go, object_read.go, versioning.go   listAndFilter* loops, handlers (§6)
and adds the S3 client that follows continuation markers (§7) and the *reference* paging (§8).

The prefix predicate of the SQL statements is **selected by the statement text**: the T1 extractor
regenerates `Pithos.Gen.ListingSql` from sqlite.go and `filterOf` maps the recognised shape
(`key LIKE $2 || '%'` or `substr(key, 1, length($2)) = $2`) to the predicate used below.

Conventions: a table is the list of rows of one bucket that satisfy the statement's other
conjuncts (upload status, latest / delete-marker flags), in any order; `ORDER BY` is `sortBy`;
`WHERE` is `List.filter` (applied after the sort — the two commute); `LIMIT n` is `List.take n`.
Identifiers: `Row.sub` is `0` for `''`/`'null'` and `1 +` the rank of the ULID otherwise, so that
`<` on `sub` is the string comparison the statements perform.
-/
import Pithos.Spec.S3List
import Pithos.Gen.ListingSql

namespace Pithos.Listing
open Pithos.S3List (Key keyLt keyLe sortBy Entry Row)
open Pithos.Gen

/-! ## 1. SQLite `LIKE` and the prefix predicate selected by the statement text -/

inductive PrefixFilter where
  | like    -- key LIKE prefix || '%'
  | exact   -- substr(key, 1, length(prefix)) = prefix
  deriving DecidableEq, Repr

def filterOf : ListingSql.PrefixPred → PrefixFilter
  | .likeConcatPercent => .like
  | .substrEq => .exact

/-- UTF-8 continuation byte. -/
def isCont (b : UInt8) : Bool := 0x80 ≤ b && b < 0xC0

def asciiLower (b : UInt8) : UInt8 := if 0x41 ≤ b && b ≤ 0x5A then b + 0x20 else b

/-- SQLite compares pattern and string character by character; for well-formed UTF-8 this is a
bytewise comparison, folding case for ASCII letters only (`sqlite3Tolower`, both `< 0x80`). -/
def likeByteEq (p s : UInt8) : Bool := p == s || (p < 0x80 && s < 0x80 && asciiLower p == asciiLower s)

/-- `%`: any sequence of whole characters, then `k` on the rest. -/
def likeStar (k : Key → Bool) : Key → Bool
  | [] => k []
  | d :: s => (!isCont d && k (d :: s)) || likeStar k s

/-- `_`: exactly one character (a lead byte `≥ 0xC0` takes its continuation bytes with it,
`SQLITE_SKIP_UTF8`). -/
def likeOne (k : Key → Bool) : Key → Bool
  | [] => false
  | d :: s => if 0xC0 ≤ d then k (s.dropWhile isCont) else k s

/-- `string LIKE pattern` of SQLite without `ESCAPE` (func.c `patternCompare`, `noCase = 1`):
`%` = `0x25`, `_` = `0x5F`, everything else literal up to ASCII case. Assumes well-formed UTF-8
without NUL (object keys are validated; the harness generates only such prefixes). -/
def sqliteLike : Key → Key → Bool
  | [], s => s.isEmpty
  | c :: p, s =>
    if c == 0x25 then likeStar (sqliteLike p) s
    else if c == 0x5F then likeOne (sqliteLike p) s
    else match s with
      | [] => false
      | d :: s' => likeByteEq c d && sqliteLike p s'

/-- The statement's prefix conjunct applied to one key. -/
def matchPrefix : PrefixFilter → Key → Key → Bool
  | .like, pfx, k => sqliteLike (pfx ++ [0x25]) k
  | .exact, pfx, k => pfx.isPrefixOf k

/-! ## 2. Go string helpers -/

/-- `strings.Split(s, sep)` for `sep ≠ ""`: non-overlapping occurrences, left to right.
`skip` counts the bytes of a matched separator still to be consumed. -/
def splitGo (sep : Key) : Nat → Key → List Key
  | _, [] => [[]]
  | skip + 1, _ :: cs => splitGo sep skip cs
  | 0, c :: cs =>
    if sep.isPrefixOf (c :: cs) then [] :: splitGo sep (sep.length - 1) cs
    else match splitGo sep 0 cs with
      | hd :: tl => (c :: hd) :: tl
      | [] => [[c]]

def goSplit (s sep : Key) : List Key := splitGo sep 0 s

/-- `strings.Contains(s, sub)`. -/
def goContains (sub : Key) : Key → Bool
  | [] => sub.isEmpty
  | c :: cs => sub.isPrefixOf (c :: cs) || goContains sub cs

/-- `strings.TrimPrefix(s, pfx)`. -/
def goTrimPrefix (pfx s : Key) : Key := if pfx.isPrefixOf s then s.drop pfx.length else s

/-- `determineCommonPrefix(prefix, key, delimiter)` (object_read.go). -/
def determineCommonPrefix (pfx key delim : Key) : Option Key :=
  let prefixSegments := goSplit pfx delim
  let keySegments := goSplit key delim
  if prefixSegments.length ≥ keySegments.length then none
  else some ((keySegments.take prefixSegments.length).map (· ++ delim)).flatten

/-- The common prefix the code computes for a key (`delimiter != ""` guard included). -/
def codeCP (pfx delim : Key) (k : Key) : Option Key :=
  if delim.isEmpty then none else determineCommonPrefix pfx k delim

/-- `delimiter == "" || !strings.Contains(strings.TrimPrefix(key, prefix), delimiter)`. -/
def codeKeep (pfx delim : Key) (k : Key) : Bool :=
  delim.isEmpty || !goContains delim (goTrimPrefix pfx k)

/-! ## 3. Row order and marker predicates of the statements -/

/-- `ORDER BY key ASC, upload_id ASC`. -/
def rowLeAsc (a b : Row) : Bool := keyLt a.key b.key || (a.key == b.key && a.sub ≤ b.sub)
/-- `ORDER BY key ASC, COALESCE(NULLIF(version_id, 'null'), '') DESC`. -/
def rowLeDesc (a b : Row) : Bool := keyLt a.key b.key || (a.key == b.key && b.sub ≤ a.sub)

/-- `key > $3`. -/
def afterKey (m : Key) (k : Key) : Bool := keyLt m k
/-- `(key > $3 OR ($4 <> '' AND key = $3 AND upload_id > $4))`. -/
def afterUpload (mk : Key) (mu : Nat) (r : Row) : Bool :=
  keyLt mk r.key || (mu != 0 && r.key == mk && mu < r.sub)
/-- `(key > $4 OR (key = $4 AND vk(version_id) < vk($5)))`. -/
def afterVersion (mk : Key) (mv : Nat) (r : Row) : Bool :=
  keyLt mk r.key || (r.key == mk && r.sub < mv)

/-! ## 4. The paging loop of ListObjectVersions — also the reference paging of §8 -/

structure GroupedPage (α : Type) where
  entries : List (Entry α)
  truncated : Bool
  /-- `lastReturnedKey` / `lastReturnedVersionID`: the last row consumed. -/
  last : Option α

/-- The `for _, entity := range entities` loop of `ListObjectVersions`. `seen` = `commonPrefixSet`,
`em` = `emittedCount`. -/
def groupedLoop (keyOf : α → Key) (cpOf : Key → Option Key) (keep : Key → Bool) (maxKeys : Nat) :
    List Key → Nat → Option α → List α → GroupedPage α
  | _, _, last, [] => ⟨[], false, last⟩
  | seen, em, last, r :: rs =>
    match cpOf (keyOf r) with
    | some c =>
      if seen.contains c then groupedLoop keyOf cpOf keep maxKeys seen em (some r) rs
      else if em ≥ maxKeys then ⟨[], true, last⟩
      else
        let p := groupedLoop keyOf cpOf keep maxKeys (c :: seen) (em + 1) (some r) rs
        ⟨.cp c :: p.entries, p.truncated, p.last⟩
    | none =>
      if em ≥ maxKeys then ⟨[], true, last⟩
      else if keep (keyOf r) then
        let p := groupedLoop keyOf cpOf keep maxKeys seen (em + 1) (some r) rs
        ⟨.item r :: p.entries, p.truncated, p.last⟩
      else groupedLoop keyOf cpOf keep maxKeys seen em last rs

def itemsOf : List (Entry α) → List α
  | [] => []
  | .item a :: es => a :: itemsOf es
  | .cp _ :: es => itemsOf es

def cpsOf : List (Entry α) → List Key
  | [] => []
  | .item _ :: es => cpsOf es
  | .cp c :: es => c :: cpsOf es

/-! ## 5. The metadata store -/

/-- `metadatastore.ListBucketResult`. -/
structure ObjResult where
  objects : List Key
  cps : List Key
  truncated : Bool
  deriving DecidableEq, Repr

/-- `sqlMetadataStore.listObjects`. `table` = keys of the completed, latest, non-delete-marker rows. -/
def listObjects (f : PrefixFilter) (table : List Key) (pfx delim startAfter : Key) (maxKeys : Nat) :
    ObjResult :=
  let sel := (sortBy keyLe table).filter fun k => matchPrefix f pfx k && afterKey startAfter k
  if delim.isEmpty then
    -- FindObjects…WithLimit(maxKeys+1); truncate to maxKeys
    let ents := sel.take (maxKeys + 1)
    { objects := ents.take maxKeys, cps := [], truncated := decide (ents.length > maxKeys) }
  else
    -- Count… > maxKeys; FindObjects… without limit; every row is scanned
    let acc := sel.foldl (fun (acc : List Key × List Key) k =>
      let cps := match determineCommonPrefix pfx k delim with
        | some c => if acc.2.contains c then acc.2 else acc.2 ++ [c]
        | none => acc.2
      let objs := if acc.1.length < maxKeys && !goContains delim (goTrimPrefix pfx k)
        then acc.1 ++ [k] else acc.1
      (objs, cps)) ([], [])
    { objects := acc.1, cps := acc.2, truncated := decide (sel.length > maxKeys) }

/-- `sqlMetadataStore.ListObjectVersions`. `table` = completed rows (every version, delete markers
included). Returns the page with `last` already reduced to the Next*Marker (set only if truncated). -/
def listObjectVersions (f : PrefixFilter) (table : List Row) (pfx delim mk : Key) (mv : Nat)
    (maxKeys : Nat) : GroupedPage Row :=
  let maxKeys := if maxKeys == 0 then 1000 else maxKeys
  let sel := (sortBy rowLeDesc table).filter fun r => matchPrefix f pfx r.key && afterVersion mk mv r
  let ents := if delim.isEmpty then sel.take (maxKeys + 1) else sel
  let p := groupedLoop (·.key) (codeCP pfx delim) (codeKeep pfx delim) maxKeys [] 0 none ents
  { p with last := if p.truncated then p.last else none }

/-- `metadatastore.ListMultipartUploadsResult` (the fields that matter). -/
structure UplResult where
  uploads : List Row
  cps : List Key
  truncated : Bool
  nextKey : Key
  nextSub : Nat
  deriving DecidableEq, Repr

/-- The body of the `for _, objectEntity := range objectEntities` loop of `ListMultipartUploads`. -/
def uplStep (pfx delim : Key) (maxUploads : Nat) (acc : UplResult) (r : Row) : UplResult :=
  let cps := match codeCP pfx delim r.key with
    | some c => if acc.cps.contains c then acc.cps else acc.cps ++ [c]
    | none => acc.cps
  if acc.uploads.length < maxUploads then
    { acc with cps := cps,
               uploads := if codeKeep pfx delim r.key then acc.uploads ++ [r] else acc.uploads,
               nextKey := r.key, nextSub := r.sub }
  else { acc with cps := cps }

/-- `sqlMetadataStore.ListMultipartUploads`. `table` = pending rows. -/
def listMultipartUploads (f : PrefixFilter) (table : List Row) (pfx delim mk : Key) (mu : Nat)
    (maxUploads : Nat) : UplResult :=
  let sel := (sortBy rowLeAsc table).filter fun r => matchPrefix f pfx r.key && afterUpload mk mu r
  let ents := if delim.isEmpty then (sel.take (maxUploads + 1)).take maxUploads else sel
  let trunc := if delim.isEmpty then decide ((sel.take (maxUploads + 1)).length > maxUploads)
    else decide (sel.length > maxUploads)
  ents.foldl (uplStep pfx delim maxUploads)
    { uploads := [], cps := [], truncated := trunc, nextKey := [], nextSub := 0 }

/-- `metadatastore.ListPartsResult`. -/
structure PartsResult where
  parts : List Nat
  truncated : Bool
  next : Option Nat
  deriving DecidableEq, Repr

/-- The loop of `sqlMetadataStore.ListParts` over the parts `ORDER BY sequence_number ASC`. -/
def partsLoop (maxParts marker : Nat) : List Nat → List Nat → PartsResult
  | acc, [] => ⟨acc, false, none⟩
  | acc, p :: ps =>
    if p ≤ marker then partsLoop maxParts marker acc ps
    else
      let acc' := acc ++ [p]
      if acc'.length ≥ maxParts then ⟨acc', !ps.isEmpty, some p⟩
      else partsLoop maxParts marker acc' ps

def listParts (parts : List Nat) (marker maxParts : Nat) : PartsResult :=
  partsLoop maxParts marker [] (sortBy (fun a b => decide (a ≤ b)) parts)

/-! ## 6. The HTTP layer (every per-entry authorization answers "allowed")

`listAndFilterObjects`, `listAndFilterMultipartUploads` and `listAndFilterParts` are the same loop
over different entry and marker types; it is written once. `σ` is the marker state of a request
(objects: `startAfter *string`; uploads: `keyMarker, uploadIDMarker *string`; parts:
`partNumberMarker *string`), `μ` a marker value taken from an entry. -/

/-- What the loop uses of a storage result. -/
structure StoreRes (α : Type) where
  items : List α
  cps : List Key
  truncated : Bool

/-- One HTTP page. -/
structure HttpPage (α μ : Type) where
  items : List α
  cps : List Key
  truncated : Bool
  /-- NextMarker / NextContinuationToken / NextKeyMarker+NextUploadIdMarker / NextPartNumberMarker -/
  next : Option μ
  deriving DecidableEq, Repr

/-- The `for index, entry := range result.Entries` loop: `inl` = the page filled (collected,
hasMore, lastScanned), `inr` = every entry taken (collected, lastScanned). -/
def takeItems (mkOf : α → μ) (maxN : Nat) (tailMore : Bool) :
    List α → Option μ → List α → Sum (List α × Bool × Option μ) (List α × Option μ)
  | col, last, [] => .inr (col, last)
  | col, _, o :: os =>
    let col' := col ++ [o]
    if col'.length ≥ maxN then .inl (col', !os.isEmpty || tailMore, some (mkOf o))
    else takeItems mkOf maxN tailMore col' (some (mkOf o)) os

/-- The `for _, commonPrefix := range result.CommonPrefixes` loop (`seenPrefixes` = the collected ones). -/
def takePrefixes (cpMk : Key → μ) : List Key → Option μ → List Key → List Key × Option μ
  | col, last, [] => (col, last)
  | col, _, c :: cs => takePrefixes cpMk (if col.contains c then col else col ++ [c]) (some (cpMk c)) cs

/-- `Server.listAndFilter…`. `list st` = the storage call with the request's prefix / delimiter /
page size and marker state `st`; `cur st` = the marker the state carries (`none` if a pointer is
nil); `cont l` = the state that continues after marker `l`. `none` = the fuel ran out. -/
def listAndFilter [BEq μ] (list : σ → StoreRes α) (mkOf : α → μ) (cpMk : Key → μ)
    (cur : σ → Option μ) (cont : μ → σ) (maxN : Nat) :
    Nat → List α → List Key → σ → Option (HttpPage α μ)
  | 0, _, _, _ => none
  | fuel + 1, col, cps, st =>
    let res := list st
    match takeItems mkOf maxN (!res.cps.isEmpty || res.truncated) col (cur st) res.items with
    | .inl (col', hasMore, last) =>
      some { items := col', cps := cps, truncated := hasMore, next := if hasMore then last else none }
    | .inr (col', last) =>
      let pl := takePrefixes cpMk cps last res.cps
      let done : HttpPage α μ := { items := col', cps := pl.1, truncated := false, next := none }
      if !res.truncated then some done
      else match pl.2 with
        | none => some done
        | some l =>
          if cur st == some l then some done
          else listAndFilter list mkOf cpMk cur cont maxN fuel col' pl.1 (cont l)

/-- Fuel for the server-side loops: every iteration that continues collects an entry or ends the
request at the next one; `2 * rows + 4` is never reached (the driver reports it if it is). -/
def loopFuel (n : Nat) : Nat := 2 * n + 4

abbrev HttpObjPage := HttpPage Key Key
abbrev HttpUplPage := HttpPage Row (Key × Nat)
abbrev HttpPartsPage := HttpPage Nat Nat

/-- `listObjectsHandler` / `listObjectsV2Handler` + `listAndFilterObjects`: `start` = `marker`
(v1), `continuation-token` or else `start-after` (v2). -/
def httpListObjects (f : PrefixFilter) (table : List Key) (pfx delim : Key) (maxKeys : Nat)
    (start : Option Key) : Option HttpObjPage :=
  listAndFilter
    (fun sa => let r := listObjects f table pfx delim (sa.getD []) maxKeys; ⟨r.objects, r.cps, r.truncated⟩)
    id id id some maxKeys (loopFuel table.length) [] [] start

/-- `listMultipartUploadsHandler` + `listAndFilterMultipartUploads`. The key marker and the
upload-id marker are separate optional values; the loop's marker comparisons need both. -/
def httpListUploads (f : PrefixFilter) (table : List Row) (pfx delim : Key) (maxUploads : Nat)
    (mk : Option Key) (mu : Option Nat) : Option HttpUplPage :=
  listAndFilter
    (fun (st : Option Key × Option Nat) =>
      let r := listMultipartUploads f table pfx delim (st.1.getD []) (st.2.getD 0) maxUploads
      ⟨r.uploads, r.cps, r.truncated⟩)
    (fun u => (u.key, u.sub)) (fun c => (c, 0))
    (fun st => match st with
      | (some k, some u) => some (k, u)
      | _ => none)
    (fun l => (some l.1, some l.2)) maxUploads (loopFuel table.length) [] [] (mk, mu)

/-- `listPartsHandler` + `listAndFilterParts`. -/
def httpListParts (parts : List Nat) (maxParts : Nat) (marker : Option Nat) : Option HttpPartsPage :=
  listAndFilter
    (fun m => let r := listParts parts (m.getD 0) maxParts; ⟨r.parts, [], r.truncated⟩)
    id (fun _ => 0) id some maxParts (loopFuel parts.length) [] [] marker

/-! ## 7. The S3 client: follow the continuation markers until `IsTruncated` is false -/

/-- How a client run ended. -/
inductive FollowEnd where
  | done        -- a page with IsTruncated = false arrived
  | stuck       -- a truncated page carried no continuation marker
  | overflow    -- still truncated after `fuel` pages
  | serverLoop  -- a server-side loop exhausted its fuel
  deriving DecidableEq, Repr

/-- Generic client. `page m`: the response for continuation state `m` (`none` = the first request).
Returns the pages received and how the run ended. -/
def follow (page : Option μ → Option ρ) (truncated : ρ → Bool) (next : ρ → Option μ) :
    Nat → Option μ → List ρ × FollowEnd
  | 0, _ => ([], .overflow)
  | fuel + 1, m =>
    match page m with
    | none => ([], .serverLoop)
    | some p =>
      if truncated p then
        match next p with
        | none => ([p], .stuck)
        | some n =>
          let r := follow page truncated next fuel (some n)
          (p :: r.1, r.2)
      else ([p], .done)

/-- Enough fuel for a client that gets at least one new entry per truncated page. -/
def clientFuel (n : Nat) : Nat := n + 2

/-- The marker pair a request carries: the caller's on the first request, afterwards the
`(key, id)` of the row the previous page named. -/
def markerOf (mk : Key) (ms : Nat) : Option Row → Key × Nat
  | none => (mk, ms)
  | some r => (r.key, r.sub)

/-- The marker state of a ListMultipartUploads request (`key-marker`, `upload-id-marker`). -/
def uplState (mk : Option Key) (mu : Option Nat) : Option (Key × Nat) → Option Key × Option Nat
  | none => (mk, mu)
  | some l => (some l.1, some l.2)

def followObjectsHttp (f : PrefixFilter) (table : List Key) (pfx delim : Key) (maxKeys : Nat)
    (start : Option Key) : List HttpObjPage × FollowEnd :=
  follow (fun m => httpListObjects f table pfx delim maxKeys (m.or start))
    (·.truncated) (·.next) (clientFuel table.length) none

def followUploadsHttp (f : PrefixFilter) (table : List Row) (pfx delim : Key) (maxUploads : Nat)
    (mk : Option Key) (mu : Option Nat) : List HttpUplPage × FollowEnd :=
  follow (fun m => httpListUploads f table pfx delim maxUploads (uplState mk mu m).1 (uplState mk mu m).2)
    (·.truncated) (·.next) (clientFuel table.length) none

def followPartsHttp (parts : List Nat) (maxParts : Nat) (marker : Option Nat) : List HttpPartsPage × FollowEnd :=
  follow (fun m => httpListParts parts maxParts (m.or marker))
    (·.truncated) (·.next) (clientFuel parts.length) none

/-- Storage-level ListParts followed through `NextPartNumberMarker`. -/
def followPartsStorage (parts : List Nat) (maxParts marker : Nat) : List PartsResult × FollowEnd :=
  follow (fun m => some (listParts parts (m.getD marker) maxParts))
    (·.truncated) (·.next) (clientFuel parts.length) none

/-- ListObjectVersions (the HTTP handler passes the storage result through) followed through
`NextKeyMarker` / `NextVersionIdMarker`. -/
def followVersions (f : PrefixFilter) (table : List Row) (pfx delim mk : Key) (mv : Nat)
    (maxKeys : Nat) : List (GroupedPage Row) × FollowEnd :=
  follow (fun m => some (listObjectVersions f table pfx delim (markerOf mk mv m).1 (markerOf mk mv m).2 maxKeys))
    (·.truncated) (·.last) (clientFuel table.length) none

/-- Storage-level ListMultipartUploads followed through NextKeyMarker / NextUploadIdMarker. -/
def followUploadsStorage (f : PrefixFilter) (table : List Row) (pfx delim mk : Key) (mu : Nat)
    (maxUploads : Nat) : List UplResult × FollowEnd :=
  follow (fun (m : Option (Key × Nat)) =>
      some (listMultipartUploads f table pfx delim (m.getD (mk, mu)).1 (m.getD (mk, mu)).2 maxUploads))
    (·.truncated) (fun r => some (r.nextKey, r.nextSub)) (clientFuel (2 * table.length)) none

/-! ## 8. Reference paging for ListObjects and ListMultipartUploads

The loop that `ListObjectVersions` already uses (§4) — every entry, key or common prefix, counts
once towards `max-keys`; the page ends *before* the first entry that does not fit; the marker is
the last row consumed — applied to the objects / uploads statements. It is what the C06 theorems
call the reference variant of the delimiter paging (the as-is code is §5/§6). -/

def refObjectsPage (f : PrefixFilter) (table : List Key) (pfx delim : Key) (maxKeys : Nat)
    (startAfter : Key) : GroupedPage Key :=
  let sel := (sortBy keyLe table).filter fun k => matchPrefix f pfx k && afterKey startAfter k
  groupedLoop id (codeCP pfx delim) (codeKeep pfx delim) maxKeys [] 0 none sel

def followRefObjects (f : PrefixFilter) (table : List Key) (pfx delim : Key) (maxKeys : Nat)
    (start : Key) : List (GroupedPage Key) × FollowEnd :=
  follow (fun m => some (refObjectsPage f table pfx delim maxKeys (m.getD start)))
    (·.truncated) (·.last) (clientFuel table.length) none

def refUploadsPage (f : PrefixFilter) (table : List Row) (pfx delim : Key) (maxUploads : Nat)
    (mk : Key) (mu : Nat) : GroupedPage Row :=
  let sel := (sortBy rowLeAsc table).filter fun r => matchPrefix f pfx r.key && afterUpload mk mu r
  groupedLoop (·.key) (codeCP pfx delim) (codeKeep pfx delim) maxUploads [] 0 none sel

def followRefUploads (f : PrefixFilter) (table : List Row) (pfx delim : Key) (maxUploads : Nat)
    (mk : Key) (mu : Nat) : List (GroupedPage Row) × FollowEnd :=
  follow (fun m => some (refUploadsPage f table pfx delim maxUploads (markerOf mk mu m).1 (markerOf mk mu m).2))
    (·.truncated) (·.last) (clientFuel table.length) none

/-! ## 9. What the current statements select -/

/-- The prefix predicate of each statement family, as selected by the current statement text. -/
def objectsFilter : PrefixFilter := filterOf ListingSql.objectsFind.prefixPred
def uploadsFilter : PrefixFilter := filterOf ListingSql.uploadsFind.prefixPred
def versionsFilter : PrefixFilter := filterOf ListingSql.versionsFind.prefixPred

/-- The model above interprets one shape per family; this is the consistency the extractor's
output must have for that to be the code (checked by `decide` in Props/C06). -/
def genConsistent : Bool :=
  ListingSql.objectsFindLimit.prefixPred == ListingSql.objectsFind.prefixPred
  && ListingSql.objectsCount.prefixPred == ListingSql.objectsFind.prefixPred
  && ListingSql.uploadsFindLimit.prefixPred == ListingSql.uploadsFind.prefixPred
  && ListingSql.uploadsCount.prefixPred == ListingSql.uploadsFind.prefixPred
  && ListingSql.versionsFindLimit.prefixPred == ListingSql.versionsFind.prefixPred
  && [ListingSql.objectsFind, ListingSql.objectsFindLimit, ListingSql.objectsCount].all (·.markerPred == .keyGt)
  && [ListingSql.uploadsFind, ListingSql.uploadsFindLimit, ListingSql.uploadsCount].all (·.markerPred == .keyGtOrUploadIdGt)
  && [ListingSql.versionsFind, ListingSql.versionsFindLimit].all (·.markerPred == .keyGtOrVersionKeyLt)
  && [ListingSql.objectsFind, ListingSql.objectsFindLimit].all (·.orderBy == .keyAsc)
  && [ListingSql.uploadsFind, ListingSql.uploadsFindLimit].all (·.orderBy == .keyAscUploadIdAsc)
  && [ListingSql.versionsFind, ListingSql.versionsFindLimit].all (·.orderBy == .keyAscVersionKeyDesc)
  && ListingSql.objectsFindLimit.limit && ListingSql.uploadsFindLimit.limit && ListingSql.versionsFindLimit.limit
  && !ListingSql.objectsFind.limit && !ListingSql.uploadsFind.limit && !ListingSql.versionsFind.limit
  && ListingSql.partsOrderedBySequenceNumberAsc

end Pithos.Listing
