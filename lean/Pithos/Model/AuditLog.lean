/-
M10: the audit log (/repo/internal/auditlog, /repo/internal/storage/middlewares/audit).

* records and the length-prefixed encodings (`Entry.CalculateHash`, `BinarySerializer`), parametrised
  by field tables `(field, width)` — width 0 = uint32 big-endian length + bytes (`writeString` /
  `writeBytes`), width n > 0 = exactly n raw bytes (`binary.Write` of a fixed-width integer, fixed-size
  signatures). The tables of the *current* code are regenerated into `Pithos.Gen.AuditLog` (T1);
* the JSON serializer as a map record ↔ (json path ↦ value) with `omitempty`;
* the validator automaton (`Validator.ValidateEntry`): entry hash, chain, entry signature, grounding
  (block size, Merkle root, two root signatures);
* the writer (`AuditLogMiddleware.log` / `emitGrounding` under `mu`), including restart from
  (`lastHash`, `hashBuffer`).

Hash and signatures are parameters (`Crypto`); nothing here assumes anything about them.
Core Lean only.
-/
namespace Pithos.AuditLog

abbrev Bytes := List UInt8

/-- (field name, width): width 0 = length-prefixed, n > 0 = n raw bytes. -/
abbrev Spec := List (String × Nat)

/-- A record: association list (first binding wins); an absent field is the empty byte string.
Integers are stored as their fixed-width big-endian bytes. -/
abbrev Rec := List (String × Bytes)

def get (r : Rec) (f : String) : Bytes := (r.lookup f).getD []
def set (r : Rec) (f : String) (v : Bytes) : Rec := (f, v) :: r

/-- `binary.Write(w, binary.BigEndian, uint32(n))`. -/
def be32 (n : Nat) : Bytes :=
  [UInt8.ofNat (n / 16777216), UInt8.ofNat (n / 65536), UInt8.ofNat (n / 256), UInt8.ofNat n]

/-- `binary.Write(w, binary.BigEndian, uint64(n))` (n taken mod 2^64). -/
def be64 (n : Nat) : Bytes :=
  [UInt8.ofNat (n / 72057594037927936), UInt8.ofNat (n / 281474976710656), UInt8.ofNat (n / 1099511627776),
   UInt8.ofNat (n / 4294967296), UInt8.ofNat (n / 16777216), UInt8.ofNat (n / 65536), UInt8.ofNat (n / 256), UInt8.ofNat n]

def beNat (b : Bytes) : Nat := b.foldl (fun a x => a * 256 + x.toNat) 0

/-- One field as `writeBytes` (width 0) or as raw fixed-width bytes writes it. -/
def encField (w : Nat) (b : Bytes) : Bytes := if w = 0 then be32 b.length ++ b else b

def encFields : Spec → Rec → Bytes
  | [], _ => []
  | (f, w) :: s, r => encField w (get r f) ++ encFields s r

/-- What the Go types guarantee: a fixed-width field has its width, a length fits in uint32. -/
def wfField (w : Nat) (b : Bytes) : Bool := if w = 0 then b.length < 4294967296 else b.length == w

def wf (s : Spec) (r : Rec) : Bool := s.all fun p => wfField p.2 (get r p.1)

/-! ### Tables of one encoder -/

structure Tables where
  pre : Spec                          -- written before the switch over the details
  details : Nat → Nat → Spec          -- version → kind → fields of the details
  tail : List String                  -- written raw, without length, at the very end
  tGenesis : Bytes
  tLog : Bytes
  tGrounding : Bytes

def version (r : Rec) : Nat := beNat (get r "Version")

/-- 0 genesis, 1 log, 2 grounding, 3 anything else (decoders leave `Details` nil). -/
def kind (T : Tables) (r : Rec) : Nat :=
  let t := get r "Type"
  if t = T.tGenesis then 0 else if t = T.tLog then 1 else if t = T.tGrounding then 2 else 3

def specOf (T : Tables) (r : Rec) : Spec := T.pre ++ T.details (version r) (kind T r)

def tailBytes (tail : List String) (r : Rec) : Bytes := tail.flatMap (get r)

/-- The byte string `CalculateHash` feeds to SHA-512. -/
def hashInput (T : Tables) (r : Rec) : Bytes :=
  encFields T.pre r ++ (encFields (T.details (version r) (kind T r)) r ++ tailBytes T.tail r)

def hashedNames (T : Tables) (r : Rec) : List String := (specOf T r).map (·.1) ++ T.tail

/-! ### Binary serializer: same encoding, different tables, plus a decoder -/

def take? (n : Nat) (b : Bytes) : Option (Bytes × Bytes) :=
  if n ≤ b.length then some (b.take n, b.drop n) else none

/-- `readBytes` / `binary.Read` / `io.ReadFull` for one field. -/
def decField (w : Nat) (b : Bytes) : Option (Bytes × Bytes) :=
  if w = 0 then
    match take? 4 b with
    | none => none
    | some (l, rest) => take? (beNat l) rest
  else take? w b

def decFields : Spec → Bytes → Option (Rec × Bytes)
  | [], b => some ([], b)
  | (f, w) :: s, b =>
    match decField w b with
    | none => none
    | some (v, rest) =>
      match decFields s rest with
      | none => none
      | some (r, rest') => some ((f, v) :: r, rest')

structure BinTables where
  pre : Spec
  details : Nat → Nat → Spec
  tail : Spec
  tGenesis : Bytes
  tLog : Bytes
  tGrounding : Bytes

def BinTables.kind (T : BinTables) (r : Rec) : Nat :=
  let t := get r "Type"
  if t = T.tGenesis then 0 else if t = T.tLog then 1 else if t = T.tGrounding then 2 else 3

def binEncode (T : BinTables) (r : Rec) : Bytes :=
  encFields T.pre r ++ (encFields (T.details (version r) (T.kind r)) r ++ encFields T.tail r)

/-- One entry off the front of the stream (`BinaryDecoder.Decode`). -/
def binDecode (T : BinTables) (b : Bytes) : Option (Rec × Bytes) :=
  match decFields T.pre b with
  | none => none
  | some (r0, b1) =>
    match decFields (T.details (version r0) (T.kind r0)) b1 with
    | none => none
    | some (r1, b2) =>
      match decFields T.tail b2 with
      | none => none
      | some (r2, b3) => some (r0 ++ (r1 ++ r2), b3)

/-- The read loop (`for { dec.Decode() … io.EOF → break }`) over a whole file; `fuel` bounds the
number of entries. -/
def binDecodeAll (T : BinTables) : Nat → Bytes → Option (List Rec)
  | 0, b => if b.isEmpty then some [] else none
  | fuel + 1, b =>
    if b.isEmpty then some [] else
    match binDecode T b with
    | none => none
    | some (r, rest) =>
      match binDecodeAll T fuel rest with
      | none => none
      | some rs => some (r :: rs)

/-- All fields one binary record consists of. -/
def binSpec (T : BinTables) (r : Rec) : Spec :=
  T.pre ++ (T.details (version r) (T.kind r) ++ T.tail)

/-- The record restricted to (and ordered by) a field list — what a decoder reconstructs. -/
def proj (s : Spec) (r : Rec) : Rec := s.map fun p => (p.1, get r p.1)

/-! ### JSON serializer (structure only; `encoding/json`, hex and the time format are primitives) -/

/-- (field, json path, omitempty, codec) -/
abbrev JSpec := List (String × String × Bool × String)

/-- A JSON document reduced to what the serializer uses: path ↦ leaf value (already decoded by the
primitive codec: for `hex`/`str`/`num`/`time` the leaf carries the field's bytes). -/
abbrev JDoc := List (String × Bytes)

/-- The primitive leaf codecs (`encoding/json` strings and numbers, `hex`, the time layout): `enc c`
turns the field's bytes into the JSON leaf for codec `c`, `dec c` is what the decoder recovers. They
are parameters; the round-trip theorem assumes `dec c (enc c b) = b`. -/
structure Leaf where
  enc : String → Bytes → Bytes
  dec : String → Bytes → Bytes

/-- The leaf codecs as the code uses them for an entry whose `time.Time` carries a Location `offNs`
nanoseconds east of UTC (mod 2^64: a western zone is its two's complement). A timestamp leaf is
identified with the epoch-nanosecond value it denotes when parsed: the layout ends in a literal "Z",
so the parser takes the written wall-clock reading as UTC. `utc` = the writer converts with `.UTC()`
first (then the reading is the instant itself); otherwise the reading of the Time's own Location is
written, i.e. the instant shifted by the offset. All other leaves round-trip by assumption. -/
def zoneLeaf (utc : Bool) (offNs : Nat) : Leaf where
  enc := fun c b => if c == "time" && !utc then be64 (beNat b + offNs) else b
  dec := fun _ b => b

/-- Go's `omitempty`: a number is omitted when it is 0, a string when it is "". -/
def omitted (codec : String) (b : Bytes) : Bool :=
  if codec == "num" then b.all (· == 0) else b.isEmpty

/-- `json.Marshal` of the payload struct. -/
def jsonWrite (lf : Leaf) : JSpec → Rec → JDoc
  | [], _ => []
  | (f, p, om, c) :: s, r =>
    if om && omitted c (get r f) then jsonWrite lf s r else (p, lf.enc c (get r f)) :: jsonWrite lf s r

/-- `json.Unmarshal` into the payload struct, then the field copies: a missing key leaves the Go
zero value (`zero f`: "" for strings, the all-zero bytes of its width for integers). -/
def jsonRead (lf : Leaf) (zero : String → Bytes) : JSpec → JDoc → Rec
  | [], _ => []
  | (f, p, _, c) :: s, d =>
    (f, match d.lookup p with
        | some x => lf.dec c x
        | none => zero f) :: jsonRead lf zero s d

/-! ### Crypto parameters -/

structure Crypto where
  H : Bytes → Bytes                         -- sha512.Sum512
  vEd : Option (Bytes → Bytes → Bool)       -- Ed25519 verifier (data, signature); none = not configured
  vMl : Option (Bytes → Bytes → Bool)       -- ML-DSA-87 verifier

def pithos : Bytes := [112, 105, 116, 104, 111, 115]   -- "pithos"

/-! ### Merkle root (`CalculateMerkleRoot`) -/

def merkleLevel (H : Bytes → Bytes) : List Bytes → List Bytes
  | [] => []
  | [a] => [H (a ++ a)]
  | a :: b :: t => H (a ++ b) :: merkleLevel H t

def merkleLoop (H : Bytes → Bytes) : Nat → List Bytes → Bytes
  | 0, cur => cur.headD []
  | fuel + 1, cur => if cur.length ≤ 1 then cur.headD [] else merkleLoop H fuel (merkleLevel H cur)

def merkleRoot (H : Bytes → Bytes) (hs : List Bytes) : Bytes := merkleLoop H hs.length hs

/-! ### Validator automaton (`Validator.ValidateEntry`) -/

inductive Reason where
  | hashMismatch | firstNotGenesis | genesisPrev | chainBreak | entrySig
  | tooMany | interval | merkle | rootSigEd | rootSigMl
  deriving Repr, DecidableEq

def Reason.name : Reason → String
  | .hashMismatch => "hash" | .firstNotGenesis => "first-not-genesis" | .genesisPrev => "genesis-prev"
  | .chainBreak => "chain" | .entrySig => "entry-sig" | .tooMany => "too-many" | .interval => "interval"
  | .merkle => "merkle" | .rootSigEd => "root-sig-ed" | .rootSigMl => "root-sig-ml"

structure VState where
  index : Nat := 0
  prev : Bytes := []
  buffer : List Bytes := []
  deriving Repr, DecidableEq, Inhabited

def sigOk (v : Option (Bytes → Bytes → Bool)) (data sig : Bytes) : Bool :=
  match v with
  | none => true
  | some f => f data sig

/-- Step 4 of `ValidateEntry` (grounding bookkeeping), after hash, chain and signature passed. -/
def stepGround (T : Tables) (C : Crypto) (bs : Nat) (s : VState) (e : Rec) : Except Reason VState :=
  if kind T e = 1 then
    if (s.buffer ++ [get e "Hash"]).length > bs then .error .tooMany
    else .ok { index := s.index + 1, prev := get e "Hash", buffer := s.buffer ++ [get e "Hash"] }
  else if kind T e = 2 then
    if s.buffer.length ≠ bs then .error .interval
    else if merkleRoot C.H s.buffer ≠ get e "Grounding.MerkleRootHash" then .error .merkle
    else if !sigOk C.vEd (get e "Grounding.MerkleRootHash") (get e "Grounding.SignatureEd25519") then .error .rootSigEd
    else if !sigOk C.vMl (get e "Grounding.MerkleRootHash") (get e "Grounding.SignatureMlDsa87") then .error .rootSigMl
    else .ok { index := s.index + 1, prev := get e "Hash", buffer := [] }
  else .ok { index := s.index + 1, prev := get e "Hash", buffer := s.buffer }

/-- One `ValidateEntry` call; `calcd` is `entry.CalculateHash()`. -/
def stepWith (T : Tables) (C : Crypto) (bs : Nat) (calcd : Bytes) (s : VState) (e : Rec) : Except Reason VState :=
  if calcd ≠ get e "Hash" then .error .hashMismatch
  else if s.index = 0 ∧ get e "Type" ≠ T.tGenesis then .error .firstNotGenesis
  else if s.index = 0 ∧ get e "PreviousHash" ≠ C.H pithos then .error .genesisPrev
  else if s.index ≠ 0 ∧ get e "PreviousHash" ≠ s.prev then .error .chainBreak
  else if !sigOk C.vEd (get e "Hash") (get e "SignatureEd25519") then .error .entrySig
  else stepGround T C bs s e

def step (T : Tables) (C : Crypto) (bs : Nat) (s : VState) (e : Rec) : Except Reason VState :=
  stepWith T C bs (C.H (hashInput T e)) s e

/-- Run the validator over a log; on rejection report the index and the reason. -/
def runFrom (T : Tables) (C : Crypto) (bs : Nat) (s : VState) : List Rec → Except (Nat × Reason) VState
  | [] => .ok s
  | e :: es =>
    match step T C bs s e with
    | .error r => .error (s.index, r)
    | .ok s' => runFrom T C bs s' es

/-- The same run with `CalculateHash` of each entry supplied by the caller (the drivers cache the
digests of unchanged entries); `runFromWith … (L.map fun e => (C.H (hashInput T e), e)) = runFrom … L`. -/
def runFromWith (T : Tables) (C : Crypto) (bs : Nat) (s : VState) : List (Bytes × Rec) → Except (Nat × Reason) VState
  | [] => .ok s
  | (c, e) :: es =>
    match stepWith T C bs c s e with
    | .error r => .error (s.index, r)
    | .ok s' => runFromWith T C bs s' es

def run (T : Tables) (C : Crypto) (bs : Nat) (log : List Rec) : Except (Nat × Reason) VState :=
  runFrom T C bs {} log

def accepts (T : Tables) (C : Crypto) (bs : Nat) (log : List Rec) : Bool :=
  match run T C bs log with
  | .ok _ => true
  | .error _ => false

/-! ### Writer (`AuditLogMiddleware`): everything below happens under `mu` -/

/-- Signing keys of the writer. -/
structure Signer where
  signEd : Bytes → Bytes
  signMl : Bytes → Bytes

structure WState where
  lastHash : Bytes
  buffer : List Bytes
  out : List Rec            -- entries handed to the sink, oldest first
  deriving Repr

/-- `entry.PreviousHash = lastHash; entry.Sign(signer)` for the payload `p` (all fields but
PreviousHash / Hash / SignatureEd25519). -/
def sealEntry (T : Tables) (C : Crypto) (S : Signer) (prev : Bytes) (p : Rec) : Rec :=
  let e0 := set p "PreviousHash" prev
  let h := C.H (hashInput T e0)
  set (set e0 "Hash" h) "SignatureEd25519" (S.signEd h)

/-- The payload of a grounding entry (`emitGrounding`); `md` carries Version / Timestamp. -/
def groundingPayload (T : Tables) (C : Crypto) (S : Signer) (md : Rec) (buffer : List Bytes) : Rec :=
  let root := merkleRoot C.H buffer
  set (set (set (set md "Type" T.tGrounding) "Grounding.MerkleRootHash" root)
    "Grounding.SignatureEd25519" (S.signEd root)) "Grounding.SignatureMlDsa87" (S.signMl root)

/-- `log(...)`: one LOG entry, then a grounding entry when the buffer reaches the block size.
`p` is the LOG payload (its "Type" is forced to LOG), `gmd` the Version/Timestamp of a grounding
entry emitted at this point. -/
def wLog (T : Tables) (C : Crypto) (S : Signer) (bs : Nat) (w : WState) (p gmd : Rec) : WState :=
  let e := sealEntry T C S w.lastHash (set p "Type" T.tLog)
  let h := get e "Hash"
  let buf := w.buffer ++ [h]
  let w1 : WState := { lastHash := h, buffer := buf, out := w.out ++ [e] }
  if buf.length ≥ bs then
    let g := sealEntry T C S h (groundingPayload T C S gmd buf)
    { lastHash := get g "Hash", buffer := [], out := w1.out ++ [g] }
  else w1

/-- `NewAuditLogMiddleware` on an empty log: the genesis entry. -/
def wInit (T : Tables) (C : Crypto) (S : Signer) (md : Rec) : WState :=
  let g := sealEntry T C S (C.H pithos) (set md "Type" T.tGenesis)
  { lastHash := get g "Hash", buffer := [], out := [g] }

/-- Payloads in the order in which their `log` calls acquired `mu`. -/
def wRun (T : Tables) (C : Crypto) (S : Signer) (bs : Nat) (w : WState) : List (Rec × Rec) → WState
  | [] => w
  | (p, g) :: ps => wRun T C S bs (wLog T C S bs w p g) ps

end Pithos.AuditLog
