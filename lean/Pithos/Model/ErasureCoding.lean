/-
M6 (part 2): the shard/frame format and the read/heal loop of
/repo/internal/storage/metadatapart/partstore/middlewares/erasurecoding/erasurecoding.go.

A part is cut into stripes of `d * stripe` bytes; each stripe into `d` equally long data shards plus
`p` parity shards; shard store `k` receives the stream

    shardHeader k ‖ frame(0,k) ‖ frame(1,k) ‖ …      frame(j,k) = be64 j ‖ be32 dataBytes ‖ be32 len ‖ H(payload) ‖ payload

The read loop (`newPartReader`) walks the stripes, reads one frame from every still open shard
reader, drops a reader at its first unreadable/invalid frame, reconstructs missing data shards,
writes frames to the shards that were marked for healing when the part was opened, and emits the
data shards cut to `dataBytes` — the value found in the FIRST valid frame of the stripe.

The erasure code (`parity`, `reconstruct`) and the hash `H` are parameters. The model mirrors the
code as it is; the switches in `Fix` select the repaired variants:
* `notFoundWhenAllMissing` — `GetPart` of a part none of whose shards exists answers not-found
  instead of healing an empty part into existence (C15);
* `healParity` — a healed *parity* shard gets its reconstructed payload (the code calls
  `ReconstructData`, which leaves missing parity shards empty, and writes zero-length frames);
* `endWhenEnoughEnded` — a stripe that shows no valid frame while at least `d` still open readers are at
  the end of their stream is the end of the part: frame-sized garbage behind the last frame of a few
  shards no longer fails the read (fixes/C17-trailing-garbage-is-a-bad-shard.patch);
* `failWhenTooFewOpen` — `GetPart` fails at once, writing nothing, when fewer than `d` shards can be
  opened (fixes/C17-too-few-readable-shards-is-an-error.patch).

Core Lean only.
-/
import Pithos.Model.PartCodec

namespace Pithos.EC
open Pithos.Codec

structure Cfg where
  d : Nat        -- dataShards
  p : Nat        -- parityShards
  stripe : Nat   -- stripeShardSz
  deriving Repr, DecidableEq

def Cfg.n (c : Cfg) : Nat := c.d + c.p

/-- The erasure code as used by the store. `parity d p data` = the `p` parity shards of `d` equally
long data shards. `reconstruct d p shards` = the `d` data shards recomputed from a pattern in which at
least one data shard is missing (`none` = the library reported an error). -/
structure Code where
  parity : Nat → Nat → List Bytes → List Bytes
  reconstruct : Nat → Nat → List (Option Bytes) → Option (List Bytes)
  /-- all `d + p` shards recomputed (only used by the repaired heal path) -/
  reconstructAll : Nat → Nat → List (Option Bytes) → Option (List Bytes)

structure Fix where
  notFoundWhenAllMissing : Bool := false
  healParity : Bool := false
  endWhenEnoughEnded : Bool := false
  failWhenTooFewOpen : Bool := false
  deriving Repr, DecidableEq

def Fix.asIs : Fix := {}
def Fix.repaired : Fix :=
  { notFoundWhenAllMissing := true, healParity := true, endWhenEnoughEnded := true, failWhenTooFewOpen := true }

/-! ## writing -/

def shardMagic : Bytes := [0x50, 0x45, 0x43, 0x31]  -- "PEC1"
def shardHeaderSize : Nat := 15
def frameHeaderSize : Nat := 48

def shardHeader (c : Cfg) (k : Nat) : Bytes :=
  shardMagic ++ [1] ++ be16 c.d ++ be16 c.n ++ be16 k ++ be32 c.stripe

def frameHeader (H : Bytes → Bytes) (j dataBytes : Nat) (payload : Bytes) : Bytes :=
  be64 j ++ be32 dataBytes ++ be32 payload.length ++ H payload

def frame (H : Bytes → Bytes) (j dataBytes : Nat) (payload : Bytes) : Bytes :=
  frameHeader H j dataBytes payload ++ payload

/-- All `d + p` shard payloads of one stripe. -/
def stripeShards (c : Cfg) (code : Code) (x : Bytes) : List Bytes :=
  let data := stripe c.d x
  data ++ code.parity c.d c.p data

/-- The stripes of a part: `io.ReadFull` into a `d * stripe` buffer until nothing is read. -/
def stripesOf (c : Cfg) (b : Bytes) : List Bytes := chunks (c.d * c.stripe) b

/-- Frames of shard `k` for the stripes `xs`, numbered from `j`. -/
def framesFrom (c : Cfg) (code : Code) (H : Bytes → Bytes) (k : Nat) : Nat → List Bytes → Bytes
  | _, [] => []
  | j, x :: xs => frame H j x.length ((stripeShards c code x).getD k []) ++ framesFrom c code H k (j + 1) xs

/-- What `PutPart` writes to shard store `k`. -/
def shardStream (c : Cfg) (code : Code) (H : Bytes → Bytes) (k : Nat) (b : Bytes) : Bytes :=
  shardHeader c k ++ framesFrom c code H k 0 (stripesOf c b)

/-! ## opening -/

def parseShardHeader (b : Bytes) : Option (Nat × Nat × Nat × Nat) :=
  if b.length ≠ shardHeaderSize then none else
  if b.take 4 ≠ shardMagic ∨ b.getD 4 0 ≠ 1 then none else
  let d := fromBE ((b.drop 5).take 2)
  let total := fromBE ((b.drop 7).take 2)
  let idx := fromBE ((b.drop 9).take 2)
  let st := fromBE ((b.drop 11).take 4)
  if d < 1 ∨ total < d ∨ idx ≥ total ∨ st < 1024 then none else some (d, total, idx, st)

/-- `openPartReaders` for one shard: the stream of shard store `k` (`none` = not found) becomes an open
reader positioned behind a matching shard header, or `none` (= marked for healing). -/
def openShard (c : Cfg) (k : Nat) (s : Option Bytes) : Option Bytes :=
  match s with
  | none => none
  | some bs =>
    if bs.length < shardHeaderSize then none else
    if parseShardHeader (bs.take shardHeaderSize) = some (c.d, c.n, k, c.stripe) then some (bs.drop shardHeaderSize)
    else none

/-! ## the read loop -/

inductive FrameRead where
  | eof                                              -- no (complete) frame header: reader dropped, nothing "seen"
  | bad                                              -- a frame header was read but the frame is unusable
  | ok (dataBytes : Nat) (payload rest : Bytes)
  deriving Repr, DecidableEq

/-- One iteration of the per-shard body of the stripe loop, for stripe index `j`. -/
def readFrame (H : Bytes → Bytes) (j : Nat) (r : Bytes) : FrameRead :=
  if r.length < frameHeaderSize then .eof else
  let idx := fromBE (r.take 8)
  let db := fromBE ((r.drop 8).take 4)
  let pl := fromBE ((r.drop 12).take 4)
  let h := (r.drop 16).take 32
  if db < 1 ∨ pl < 1 ∨ idx ≠ j % 18446744073709551616 then .bad else   -- `stripeIndex` is a uint64 on both sides
  let body := r.drop frameHeaderSize
  if body.length < pl then .bad else
  let payload := body.take pl
  if H payload ≠ h then .bad else .ok db payload (body.drop pl)

def FrameRead.seen : Option FrameRead → Bool
  | some .bad => true
  | some (.ok ..) => true
  | _ => false

/-- the (still open) reader is at the end of its stream: no complete frame header left -/
def FrameRead.ended : Option FrameRead → Bool
  | some .eof => true
  | _ => false

def FrameRead.payload : Option FrameRead → Option Bytes
  | some (.ok _ p _) => some p
  | _ => none

def FrameRead.rest : Option FrameRead → Option Bytes
  | some (.ok _ _ r) => some r
  | _ => none

def FrameRead.dataBytes : Option FrameRead → Option Nat
  | some (.ok db _ _) => some db
  | _ => none

structure ReadResult where
  out : Bytes                      -- bytes delivered to the caller
  failed : Bool                    -- the stream ended with an error instead of EOF
  heals : List (Option Bytes)      -- per shard: the stream written to its store (`none` = not healed)
  /-- only when `failed`: per healing shard, what had been written to its heal writer when the stream
  failed. A shard store that writes without a transaction (filesystem, nil tx) keeps these bytes as
  the shard's new content; a transactional one discards them. -/
  partials : List (Option Bytes) := []
  deriving Repr, DecidableEq

/-- Present payloads must all have the same length (`reedsolomon.checkShards`). -/
def sameSizes (shards : List (Option Bytes)) : Bool :=
  match shards.filterMap id with
  | [] => true
  | a :: rest => rest.all (fun b => b.length == a.length)

/-- The data shards of a stripe as `ReconstructData` leaves them: untouched when all `d` are present,
otherwise reconstructed by the code. -/
def dataOf (c : Cfg) (code : Code) (shards : List (Option Bytes)) : Option (List Bytes) :=
  let data := shards.take c.d
  if data.all Option.isSome then some (data.filterMap id) else code.reconstruct c.d c.p shards

/-- The payload written into the heal frame of shard `k` for this stripe. -/
def healPayload (c : Cfg) (code : Code) (fix : Fix) (shards : List (Option Bytes)) (data : List Bytes) (k : Nat) : Bytes :=
  if k < c.d then data.getD k [] else
  match shards.getD k none with
  | some p => p
  | none =>
    if fix.healParity then
      match code.reconstructAll c.d c.p shards with
      | some all => all.getD k []
      | none => []
    else []   -- `ReconstructData` leaves a missing parity shard empty: a zero-length frame is written

/-- The stripe loop. `readers k` = remaining bytes of shard `k`'s reader (`none` = closed);
`healing k` = shard `k` has a heal writer. `acc`/`hacc` accumulate the output and the heal streams. -/
def loop (c : Cfg) (code : Code) (H : Bytes → Bytes) (fix : Fix) (healing : List Bool) :
    Nat → Nat → List (Option Bytes) → Bytes → List Bytes → ReadResult
  | 0, _, _, acc, hacc => ⟨acc, true, hacc.map fun _ => none, []⟩   -- out of fuel: unreachable (see `fuelFor`)
  | fuel + 1, j, readers, acc, hacc =>
    let frs := readers.map (Option.map (readFrame H j))
    if !(frs.any FrameRead.seen) then
      ⟨acc, false, (List.zip healing hacc).map fun (h, s) => if h then some s else none, []⟩
    else
      let shards := frs.map FrameRead.payload
      let dataBytes := (frs.findSome? FrameRead.dataBytes).getD 0
      let fail : ReadResult := ⟨acc, true, hacc.map fun _ => none,
        (List.zip healing hacc).map fun (h, s) => if h then some s else none⟩
      -- repaired: no valid frame at all and at least `d` open readers at their end = end of the part
      let short : ReadResult :=
        if fix.endWhenEnoughEnded && !(shards.any Option.isSome) && decide (c.d ≤ (frs.filter FrameRead.ended).length) then
          ⟨acc, false, (List.zip healing hacc).map fun (h, s) => if h then some s else none, []⟩
        else fail
      if (shards.filter Option.isSome).length < c.d then short else
      if !sameSizes shards then fail else
      match dataOf c code shards with
      | none => fail
      | some data =>
        let hacc' := (List.zip (List.range hacc.length) hacc).map fun (k, s) =>
          if healing.getD k false then s ++ frame H j dataBytes (healPayload c code fix shards data k) else s
        loop c code H fix healing fuel (j + 1) (frs.map FrameRead.rest) (acc ++ unstripe dataBytes data) hacc'

/-- Enough fuel: every iteration that continues consumes at least one frame header from some reader. -/
def fuelFor (readers : List (Option Bytes)) : Nat :=
  (readers.map fun r => (r.map List.length).getD 0).sum / frameHeaderSize + 2

inductive GetOut where
  | notFound
  | result (r : ReadResult)
  deriving Repr, DecidableEq

/-- `GetPart` on the shard streams (`none` = that shard store answered not-found). -/
def read (c : Cfg) (code : Code) (H : Bytes → Bytes) (fix : Fix) (streams : List (Option Bytes)) : GetOut :=
  if fix.notFoundWhenAllMissing && streams.all Option.isNone then .notFound else
  let readers := (List.zip (List.range streams.length) streams).map fun (k, s) => openShard c k s
  if fix.failWhenTooFewOpen && decide ((readers.filter Option.isSome).length < c.d) then
    .result ⟨[], true, readers.map fun _ => none, []⟩ else
  let healing := readers.map Option.isNone
  let hacc := (List.range readers.length).map fun k => shardHeader c k
  .result (loop c code H fix healing (fuelFor readers) 0 readers [] hacc)

end Pithos.EC
