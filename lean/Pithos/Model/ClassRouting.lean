/-
Storage-class routing of part data (second half of C14): which named part store holds the parts
of which object version, the part registry's reference counts and the content-dedup index, under
Put / Append / Copy / Transition / Delete / multipart / remapped configuration / garbage collection.

Code-shaped after

  metadatapart/partstore/named.go       StoreForClass (unmapped or "default" → default store, recorded as
                                        NULL = `""` here), ByName (unknown name fails)            → `storeFor`, `copyPart`
  metadatapart/object_write.go          PutObject, AppendObject (in place / as a new row sharing the
                                        prefix with pre-acquired references), TransitionObjectStorageClass
                                        (same-store parts keep their ids and are pre-acquired, cross-store
                                        parts are copied under fresh ids, no dedup)               → `put`, `append`, `appendNew`, `transition`
  metadatapart/copy.go                  CopyObject full copy (same store: share; other store: dedup
                                        lookup by the row's checksums, else copy + index)          → `copy`, `copyParts`
  metadatapart/multipart.go             UploadPart, UploadPartCopy (wholly covered part of the same store
                                        is shared), CompleteMultipartUpload, AbortMultipartUpload  → `uploadPart`, `uploadPartCopy`, `complete`, `delete`
  metadatapart/dedup.go                 tryShareDedupPart, dedupeFreshPart                         → `tryShare`, `dedupeFresh`
  metadatastore/sql/parts.go            removePartEntities (aggregated decrements, index entries of
                                        zero ids dropped, ONE unreferenced part per zero id: the entity
                                        stored last under that id), savePartRows (RegisterParts for parts
                                        without RefPreAcquired)                                    → `commit`
  sqlite/repository/partregistry        TryAddReferences (`ref_count > 0`), RemoveReferences
                                        (`ref_count >= delta`, else skipped), RegisterParts (INSERT) → `tryAddRefs`, `commit`
  sqlite/repository/partdedupindex      INSERT OR IGNORE, DELETE by part id, BackfillFromParts (MIN(part_id)
                                        per (store, sha256, size))                                 → `tryIndex`, `dropIdx`, `gc`
  metadatapart/gc/gc.go                 runGCWithContext: reconcile registry with the part rows, prune and
                                        backfill the index, condemn parts of every CONFIGURED store that no
                                        row references                                             → `gc`

One storage call = one write transaction = one atomic step; a failing call rolls everything back
(`apply … = none`, state unchanged).  An entity (`Ent`) is one row of table `objects` that owns part
rows: a completed version or a pending multipart upload (their ids are chosen by the caller: the
driver resolves "which row does this S3 call write" with the object model `Pithos.S3`).  Part ids
are handed out in increasing order (`next`; ULIDs), contents are abstract ids (`Nat` = the tuple of
checksums recorded on a part row; equal ids ⇔ equal bytes is the collision-freeness assumption).
The registry is a total function: a missing row and `ref_count = 0` are the same thing for every
statement the code runs (`ref_count > 0` guards, `Condemn`), zero rows are deleted at once.

Core Lean only.
-/
namespace Pithos.ClassRouting

/-- Store name as recorded on a part row; `""` = NULL = the default store. -/
abbrev SName := String

def defaultStoreName : String := "default"
def standardClass : String := "STANDARD"

/-- `metadatastore.storageClasses`. -/
def validClasses : List String :=
  ["STANDARD", "REDUCED_REDUNDANCY", "STANDARD_IA", "ONEZONE_IA", "INTELLIGENT_TIERING",
   "GLACIER_IR", "GLACIER", "DEEP_ARCHIVE", "EXPRESS_ONEZONE", "OUTPOSTS"]

/-- One row of table `parts`. -/
structure PartRow where
  pid : Nat
  store : SName
  content : Nat
  seq : Nat
  deriving DecidableEq, Repr, Inhabited

/-- A part obtained inside the running transaction: `pre` = a registry reference was already taken
(`RefPreAcquired`), otherwise `savePartRows` registers the id. -/
structure NewPart where
  row : PartRow
  pre : Bool
  deriving DecidableEq, Repr, Inhabited

/-- An `objects` row owning part rows (ascending `sequence_number`). -/
structure Ent where
  id : Nat
  cls : Option String
  parts : List PartRow
  deriving DecidableEq, Repr, Inhabited

structure State where
  /-- storage class → configured store name (`classToName`; the value may be "default") -/
  cmap : List (String × String)
  /-- names of the configured stores (always contains `""`) -/
  stores : List SName
  ents : List Ent
  /-- part_registry.ref_count (0 = no row) -/
  reg : Nat → Nat
  /-- part_dedup_index -/
  idx : SName → Nat → Option Nat
  /-- what each store physically holds: part id ↦ content -/
  phys : SName → Nat → Option Nat
  next : Nat

def init (stores : List SName) (cmap : List (String × String)) : State :=
  { cmap := cmap, stores := stores, ents := [], reg := fun _ => 0, idx := fun _ _ => none,
    phys := fun _ _ => none, next := 0 }

/-- `EffectiveStorageClass`. -/
def effective : Option String → String
  | none => standardClass
  | some c => if c = "" then standardClass else c

/-- `classToName[storageClass]`. -/
def lookupStore : List (String × String) → String → Option String
  | [], _ => none
  | (c, n) :: rest, cls => if c = cls then some n else lookupStore rest cls

/-- `StoreForClass`: the name to record on part rows. -/
def storeFor (cmap : List (String × String)) (cls : String) : SName :=
  match lookupStore cmap cls with
  | some n => if n = defaultStoreName then "" else n
  | none => ""

def set2 (f : SName → Nat → Option Nat) (st : SName) (p : Nat) (v : Option Nat) :
    SName → Nat → Option Nat :=
  fun st' p' => if st' = st ∧ p' = p then v else f st' p'

def rows (s : State) : List PartRow := s.ents.flatMap (·.parts)

/-- Number of part rows referencing part id `p`. -/
def refs (s : State) (p : Nat) : Nat := ((rows s).map (·.pid)).count p

/-- Part rows of the entity `t`. -/
def partsOf (s : State) (t : Nat) : List PartRow := (s.ents.filter (·.id == t)).flatMap (·.parts)

def findEnt (s : State) (t : Nat) : Option Ent := s.ents.find? (·.id == t)

-- ---------------------------------------------------------------- inside a transaction

/-- `NewRandomPartId` + `PutPart`. -/
def putPart (s : State) (st : SName) (c : Nat) : State × Nat :=
  ({ s with phys := set2 s.phys st s.next (some c), next := s.next + 1 }, s.next)

/-- `ByName(src)`, `GetPart`, `NewRandomPartId`, `PutPart(dst)`: copy the bytes of a part. -/
def copyPart (s : State) (src : SName) (sp : Nat) (dst : SName) : Option (State × Nat) :=
  if src ∈ s.stores then
    match s.phys src sp with
    | some c => some ({ s with phys := set2 s.phys dst s.next (some c), next := s.next + 1 }, s.next)
    | none => none
  else none

/-- `DELETE FROM part_dedup_index WHERE part_id = p`. -/
def dropIdx (s : State) (p : Nat) : State :=
  { s with idx := fun st c => if s.idx st c = some p then none else s.idx st c }

/-- `INSERT OR IGNORE INTO part_dedup_index`. -/
def tryIndex (s : State) (st : SName) (c : Nat) (p : Nat) : State :=
  { s with idx := fun st' c' =>
      if st' = st ∧ c' = c then (match s.idx st c with | some q => some q | none => some p)
      else s.idx st' c' }

/-- `tryShareDedupPart`: take a reference on the indexed part with this content, if it is alive;
a stale entry is removed. -/
def tryShare (s : State) (st : SName) (c : Nat) : State × Option Nat :=
  match s.idx st c with
  | none => (s, none)
  | some q =>
    if 0 < s.reg q then ({ s with reg := fun p => if p = q then s.reg p + 1 else s.reg p }, some q)
    else (dropIdx s q, none)

/-- `dedupeFreshPart`. -/
def dedupeFresh (s : State) (st : SName) (c : Nat) (fresh : Nat) (seq : Nat) : State × NewPart :=
  match tryShare s st c with
  | (s1, some q) => ({ s1 with phys := set2 s1.phys st fresh none }, ⟨⟨q, st, c, seq⟩, true⟩)
  | (s1, none) => (tryIndex s1 st c fresh, ⟨⟨fresh, st, c, seq⟩, false⟩)

/-- Write the bytes of a new part to store `st` and deduplicate it. -/
def writeFresh (s : State) (st : SName) (c : Nat) (seq : Nat) : State × NewPart :=
  let (s1, p) := putPart s st c
  dedupeFresh s1 st c p seq

/-- `TryAddPartReferences` (aggregated per id, every id guarded by `ref_count > 0`). -/
def tryAddRefs (s : State) (ids : List Nat) : Option State :=
  if ids.all (fun p => decide (0 < s.reg p)) then
    some { s with reg := fun p => s.reg p + ids.count p }
  else none

/-- Keep, of the rows of each part id, the one listed last (`byId[entity.PartId] = …`). -/
def lastPerPid : List PartRow → List PartRow
  | [] => []
  | r :: rs => if rs.any (fun x => x.pid == r.pid) then lastPerPid rs else r :: lastPerPid rs

/-- Does removing the rows `ids` bring part id `p` to zero? -/
def zeroAfter (reg : Nat → Nat) (ids : List Nat) (p : Nat) : Bool :=
  ids.contains p && ids.count p == reg p

/-- The parts `removePartEntities` reports as unreferenced. -/
def unrefOf (reg : Nat → Nat) (old : List PartRow) : List PartRow :=
  lastPerPid (old.filter fun r => zeroAfter reg (old.map (·.pid)) r.pid)

/-- The tail every writing call shares: remove the part rows `old` of entity `t`
(`removePartEntities`), register the new parts that carry no pre-acquired reference
(`savePartRows`), physically delete what became unreferenced (`deleteUnreferencedParts`), and
install `ent` as the entity `t` (`none`: the entity is gone). -/
def commit (s : State) (t : Nat) (old : List PartRow) (news : List NewPart) (ent : Option Ent) :
    Option State :=
  let ids := old.map (·.pid)
  let reg1 : Nat → Nat := fun p => if ids.count p ≤ s.reg p then s.reg p - ids.count p else s.reg p
  let idx1 : SName → Nat → Option Nat := fun st c =>
    match s.idx st c with
    | some p => if zeroAfter s.reg ids p then none else some p
    | none => none
  let unref := unrefOf s.reg old
  let fresh := (news.filter fun n => !n.pre).map (·.row.pid)
  if fresh.any (fun p => decide (0 < reg1 p)) then none            -- RegisterParts: PRIMARY KEY
  else if unref.any (fun r => !s.stores.contains r.store) then none -- deleteUnreferencedParts: ByName
  else some { s with
    reg := fun p => reg1 p + fresh.count p
    idx := idx1
    phys := fun st p => if unref.any (fun r => r.store == st && r.pid == p) then none else s.phys st p
    ents := s.ents.filter (fun e => e.id != t) ++ ent.toList }

/-- `savePartRows(parts, 0)`: rows are numbered from `i`. -/
def renumFrom (i : Nat) : List PartRow → List PartRow
  | [] => []
  | r :: rs => { r with seq := i } :: renumFrom (i + 1) rs

/-- Insert a row into a list kept in ascending `seq` order. -/
def insertSeq (r : PartRow) : List PartRow → List PartRow
  | [] => [r]
  | x :: xs => if r.seq < x.seq then r :: x :: xs else x :: insertSeq r xs

/-- CopyObject's loop over the source parts (destination store `dst`, numbering from `i`). -/
def copyParts (dst : SName) : State → List PartRow → Nat → Option (State × List NewPart)
  | s, [], _ => some (s, [])
  | s, r :: rs, i =>
    if r.store = dst then
      match copyParts dst s rs (i + 1) with
      | some (s', ns) => some (s', ⟨{ r with seq := i }, true⟩ :: ns)
      | none => none
    else
      match tryShare s dst r.content with
      | (s1, some q) =>
        match copyParts dst s1 rs (i + 1) with
        | some (s', ns) => some (s', ⟨⟨q, dst, r.content, i⟩, true⟩ :: ns)
        | none => none
      | (s1, none) =>
        match copyPart s1 r.store r.pid dst with
        | none => none
        | some (s2, p) =>
          match copyParts dst (tryIndex s2 dst r.content p) rs (i + 1) with
          | some (s', ns) => some (s', ⟨⟨p, dst, r.content, i⟩, false⟩ :: ns)
          | none => none

/-- TransitionObjectStorageClass's loop: parts already in `dst` stay, the others are copied. -/
def moveParts (dst : SName) : State → List PartRow → Nat → Option (State × List NewPart)
  | s, [], _ => some (s, [])
  | s, r :: rs, i =>
    if r.store = dst then
      match moveParts dst s rs (i + 1) with
      | some (s', ns) => some (s', ⟨{ r with seq := i }, true⟩ :: ns)
      | none => none
    else
      match copyPart s r.store r.pid dst with
      | none => none
      | some (s1, p) =>
        match moveParts dst s1 rs (i + 1) with
        | some (s', ns) => some (s', ⟨⟨p, dst, r.content, i⟩, false⟩ :: ns)
        | none => none

-- ---------------------------------------------------------------- part-store faults during a copy step

/-- What can go wrong in one cross-store copy step (`GetPart` of the source, streaming it into
`PutPart` of the target, `Close` of the source reader). -/
inductive FKind where
  /-- `srcStore.GetPart` fails -/
  | open
  /-- the source reader breaks mid-stream: `targetStore.PutPart` returns the read error -/
  | read
  /-- `targetStore.PutPart` fails (before or after it consumed the bytes) -/
  | put
  /-- only `srcReader.Close()` fails — its result is ignored by the code -/
  | close
  deriving DecidableEq, Repr, Inhabited

/-- A fault plan for one call: the copy step (0-based, in the order the call performs them) at
which the fault strikes; `closeToo` = the reader's `Close` fails in addition. -/
structure Fault where
  step : Nat
  kind : FKind
  closeToo : Bool := false
  deriving DecidableEq, Repr, Inhabited

/-- Does the fault make the copy step return an error?  (`err = PutPart(…); srcReader.Close();
if err != nil { return err }`: open/read/put errors abort, a failing `Close` alone does not.) -/
def Fault.aborts (f : Fault) : Bool := f.kind != .close

/-- One copy step under a fault plan; returns the plan for the remaining steps. -/
def copyPartF (flt : Option Fault) (s : State) (src : SName) (sp : Nat) (dst : SName) :
    Option (State × Nat) × Option Fault :=
  match flt with
  | none => (copyPart s src sp dst, none)
  | some f =>
    if f.step = 0 then ((if f.aborts then none else copyPart s src sp dst), none)
    else (copyPart s src sp dst, some { f with step := f.step - 1 })

/-- `moveParts` under a fault plan. -/
def movePartsF (dst : SName) : Option Fault → State → List PartRow → Nat → Option (State × List NewPart)
  | _, s, [], _ => some (s, [])
  | flt, s, r :: rs, i =>
    if r.store = dst then
      match movePartsF dst flt s rs (i + 1) with
      | some (s', ns) => some (s', ⟨{ r with seq := i }, true⟩ :: ns)
      | none => none
    else
      match (copyPartF flt s r.store r.pid dst).1 with
      | none => none
      | some (s1, p) =>
        match movePartsF dst (copyPartF flt s r.store r.pid dst).2 s1 rs (i + 1) with
        | some (s', ns) => some (s', ⟨⟨p, dst, r.content, i⟩, false⟩ :: ns)
        | none => none

/-- `copyParts` under a fault plan (only real byte copies are copy steps; shared parts are not). -/
def copyPartsF (dst : SName) : Option Fault → State → List PartRow → Nat → Option (State × List NewPart)
  | _, s, [], _ => some (s, [])
  | flt, s, r :: rs, i =>
    if r.store = dst then
      match copyPartsF dst flt s rs (i + 1) with
      | some (s', ns) => some (s', ⟨{ r with seq := i }, true⟩ :: ns)
      | none => none
    else
      match tryShare s dst r.content with
      | (s1, some q) =>
        match copyPartsF dst flt s1 rs (i + 1) with
        | some (s', ns) => some (s', ⟨⟨q, dst, r.content, i⟩, true⟩ :: ns)
        | none => none
      | (s1, none) =>
        match (copyPartF flt s1 r.store r.pid dst).1 with
        | none => none
        | some (s2, p) =>
          match copyPartsF dst (copyPartF flt s1 r.store r.pid dst).2 (tryIndex s2 dst r.content p) rs (i + 1) with
          | some (s', ns) => some (s', ⟨⟨p, dst, r.content, i⟩, false⟩ :: ns)
          | none => none

/-- Number of copy steps a transition to store `dst` performs. -/
def crossCount (dst : SName) (ps : List PartRow) : Nat := (ps.filter fun r => !decide (r.store = dst)).length

/-- The ids of the parts that stay in place (`sharedPartIDs`). -/
def sharedIds (dst : SName) (ps : List PartRow) : List Nat :=
  (ps.filter fun r => r.store = dst).map (·.pid)

/-- The source part an UploadPartCopy may share instead of copying: the one the range covers
exactly, if it lives in the upload's store (`findWhollyCoveredPart` + `partStoreNamesEqual`). -/
def coveredShared (se : Ent) (covered : Option Nat) (st : SName) : Option PartRow :=
  match covered with
  | some i =>
    match se.parts[i]? with
    | some r => if r.store = st then some r else none
    | none => none
  | none => none

def minPid : List PartRow → Option Nat
  | [] => none
  | r :: rs => match minPid rs with
    | none => some r.pid
    | some m => some (if r.pid ≤ m then r.pid else m)

-- ---------------------------------------------------------------- operations

inductive Op where
  /-- PutObject (also AppendObject without an existing object): entity `t` is written/replaced -/
  | put (t : Nat) (cls : Option String) (c : Nat)
  /-- AppendObject extending the null version `t` in place -/
  | append (t : Nat) (c : Nat)
  /-- AppendObject writing entity `t` as a new row that shares the parts of `src` -/
  | appendNew (src t : Nat) (c : Nat)
  /-- CopyObject (full copy) of `src` to entity `t` with the requested class -/
  | copy (src t : Nat) (cls : Option String)
  | transition (t : Nat) (cls : String)
  /-- DeleteObject of a version / AbortMultipartUpload -/
  | delete (t : Nat)
  | mpu (u : Nat) (cls : Option String)
  | uploadPart (u n : Nat) (c : Nat)
  /-- UploadPartCopy: `covered` = index of the source part the range covers exactly, `c` the bytes -/
  | uploadPartCopy (u n src : Nat) (covered : Option Nat) (c : Nat)
  /-- CompleteMultipartUpload: the upload row `u` becomes entity `t` (whose old parts are released) -/
  | complete (u t : Nat)
  /-- restart with another class → store table over the same database and stores -/
  | remap (m : List (String × String))
  | gc
  deriving Repr, Inhabited, DecidableEq

def gc (s : State) : State :=
  let live : Nat → Bool := fun p => decide (0 < refs s p)
  let idx1 : SName → Nat → Option Nat := fun st c =>
    match s.idx st c with
    | some p => if live p then some p else none
    | none => none
  { s with
    reg := fun p => refs s p
    idx := fun st c => match idx1 st c with
      | some p => some p
      | none => minPid ((rows s).filter fun r => r.store == st && r.content == c)
    phys := fun st p => if s.stores.contains st && !live p then none else s.phys st p }

/-- CopyObject (full copy) with the part loop `cp`. -/
def copyWith (cp : SName → State → List PartRow → Nat → Option (State × List NewPart))
    (s : State) (src t : Nat) (cls : Option String) : Option State :=
  match findEnt s src with
  | none => none
  | some e =>
    match cp (storeFor s.cmap (effective cls)) s e.parts 0 with
    | none => none
    | some (s1, news) =>
      match tryAddRefs s1 (sharedIds (storeFor s.cmap (effective cls)) e.parts) with
      | none => none
      | some s2 => commit s2 t (partsOf s2 t) news (some ⟨t, cls, news.map (·.row)⟩)

/-- TransitionObjectStorageClass with the part loop `mv`. -/
def transitionWith (mv : SName → State → List PartRow → Nat → Option (State × List NewPart))
    (s : State) (t : Nat) (cls : String) : Option State :=
  if cls ∈ validClasses then
    match findEnt s t with
    | none => none
    | some e =>
      match mv (storeFor s.cmap cls) s e.parts 0 with
      | none => none
      | some (s1, news) =>
        match tryAddRefs s1 (sharedIds (storeFor s.cmap cls) e.parts) with
        | none => none
        | some s2 => commit s2 t (partsOf s2 t) news (some { e with cls := some cls, parts := news.map (·.row) })
  else none

def apply (s : State) : Op → Option State
  | .put t cls c =>
    let w := writeFresh s (storeFor s.cmap (effective cls)) c 0
    commit w.1 t (partsOf w.1 t) [w.2] (some ⟨t, cls, [w.2.row]⟩)
  | .append t c =>
    match findEnt s t with
    | none => none
    | some e =>
      let w := writeFresh s (storeFor s.cmap (effective e.cls)) c e.parts.length
      if e.parts.any (fun r => r.seq == e.parts.length) then none     -- UNIQUE(object_id, sequence_number)
      else commit w.1 t [] [w.2] (some { e with parts := e.parts ++ [w.2.row] })
  | .appendNew src t c =>
    match findEnt s src with
    | none => none
    | some e =>
      let w := writeFresh s (storeFor s.cmap (effective e.cls)) c e.parts.length
      match tryAddRefs w.1 (e.parts.map (·.pid)) with
      | none => none
      | some s2 =>
        commit s2 t (partsOf s2 t) ((renumFrom 0 e.parts).map (⟨·, true⟩) ++ [w.2])
          (some ⟨t, e.cls, renumFrom 0 e.parts ++ [w.2.row]⟩)
  | .copy src t cls => copyWith (copyParts) s src t cls
  | .transition t cls => transitionWith (moveParts) s t cls
  | .delete t => commit s t (partsOf s t) [] none
  | .mpu u cls =>
    if (findEnt s u).isSome then none else some { s with ents := s.ents ++ [⟨u, cls, []⟩] }
  | .uploadPart u n c =>
    match findEnt s u with
    | none => none
    | some e =>
      let w := writeFresh s (storeFor s.cmap (effective e.cls)) c n
      commit w.1 u (e.parts.filter fun r => r.seq == n) [w.2]
        (some { e with parts := insertSeq w.2.row (e.parts.filter fun r => r.seq != n) })
  | .uploadPartCopy u n src covered c =>
    match findEnt s u with
    | none => none
    | some e =>
      match findEnt s src with
      | none => none
      | some se =>
        match coveredShared se covered (storeFor s.cmap (effective e.cls)) with
        | some r =>
          match tryAddRefs s [r.pid] with
          | none => none
          | some s1 =>
            commit s1 u (e.parts.filter fun x => x.seq == n) [⟨{ r with seq := n }, true⟩]
              (some { e with parts := insertSeq { r with seq := n } (e.parts.filter fun x => x.seq != n) })
        | none =>
          let w := writeFresh s (storeFor s.cmap (effective e.cls)) c n
          commit w.1 u (e.parts.filter fun r => r.seq == n) [w.2]
            (some { e with parts := insertSeq w.2.row (e.parts.filter fun r => r.seq != n) })
  | .complete u t =>
    if u = t then none else
    match findEnt s u with
    | none => none
    | some _ =>
      match commit s t (partsOf s t) [] none with
      | none => none
      | some s1 => some { s1 with ents := s1.ents.map fun e => if e.id == u then { e with id := t } else e }
  | .remap m =>
    if m.all (fun (c, n) => validClasses.contains c && (n == defaultStoreName || s.stores.contains n)) then
      some { s with cmap := m }
    else none
  | .gc => some (gc s)

/-- One call: `true` = it succeeded; a failing call leaves no trace. -/
def step (s : State) (op : Op) : State × Bool :=
  match apply s op with
  | some s' => (s', true)
  | none => (s, false)

def run (s : State) (ops : List Op) : State := ops.foldl (fun s op => (step s op).1) s

/-- One call with a part-store fault plan (`none` = no fault). Faults strike copy steps, which
only transitions and copies perform. -/
def applyF (s : State) (op : Op) (flt : Option Fault) : Option State :=
  match op with
  | .transition t cls => transitionWith (fun dst => movePartsF dst flt) s t cls
  | .copy src t cls => copyWith (fun dst => copyPartsF dst flt) s src t cls
  | op => apply s op

def stepF (s : State) (op : Op) (flt : Option Fault) : State × Bool :=
  match applyF s op flt with
  | some s' => (s', true)
  | none => (s, false)

def runF (s : State) (ops : List (Op × Option Fault)) : State :=
  ops.foldl (fun s of => (stepF s of.1 of.2).1) s

/-- Reading an entity back: what each recorded store returns for each part row, in order
(`none` = the store is not configured or does not hold the part: GetObject fails). -/
def readBack (s : State) (e : Ent) : List (Option Nat) :=
  e.parts.map fun r => if r.store ∈ s.stores then s.phys r.store r.pid else none

/-- The entity is readable and returns exactly the recorded contents. -/
def Readable (s : State) (e : Ent) : Prop :=
  readBack s e = e.parts.map fun r => some r.content

end Pithos.ClassRouting
