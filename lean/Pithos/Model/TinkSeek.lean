/-
M6 (part 4): the tink envelope and the seekable decrypting reader of
/repo/internal/storage/metadatapart/partstore/middlewares/encryption/tink/{tink.go,seekable.go}.

Stored stream of a part:   be32 |json| ‖ json ‖ tinkStream
  tinkStream = [40] ‖ salt(32) ‖ noncePrefix(7) ‖ seg_0 ‖ … ‖ seg_{k-1}
  seg_j = AEAD-seal(key, nonce = noncePrefix ‖ j ‖ last?, plaintext segment j)      (16-byte tag)
  key = HKDF(DEK, salt, aad = part id);  the DEK is in `json`, wrapped by the master key with aad = part id.
With ciphertext segment size `css` the first slot holds the 40-byte tink header and `css − 56`
plaintext bytes, every later slot `css − 16` plaintext bytes; only the last segment may be shorter.

This file mirrors (1) how tink-go's writer cuts the plaintext (`segments`), (2) the arithmetic and the
Read/Seek loop of seekable.go (`numSegR … readFrom`), (3) tink-go's sequential reader (`seqRead`).
The AEAD is a parameter (`AEAD`); `fix := true` selects the repaired reader that authenticates the last
segment before it reports EOF.

Core Lean only.
-/
import Pithos.Model.PartCodec

namespace Pithos.Tink
open Pithos.Codec

def hdrLen : Nat := 40
def tagLen : Nat := 16

structure Nonce where
  pre : Bytes     -- the 7-byte prefix from the tink header
  idx : Nat       -- segment index (uint32)
  last : Bool     -- last-segment flag
  deriving DecidableEq, Repr

/-- The segment cipher (AES-GCM with a 16-byte tag in the code). Keys are abstract numbers. -/
structure AEAD where
  sealSeg : Nat → Nonce → Bytes → Bytes
  openSeg : Nat → Nonce → Bytes → Option Bytes

/-! ## writer (tink-go noncebased.Writer with firstSegmentOffset 0) -/

/-- plaintext bytes per full segment / in the first segment -/
def pss (css : Nat) : Nat := css - tagLen
def cap0 (css : Nat) : Nat := css - tagLen - hdrLen

/-- A segment is emitted when its buffer is full AND more input follows; `Close` emits the rest: all
segments are full except the last, which is non-empty unless the plaintext is empty. -/
def segments (css : Nat) (pt : Bytes) : List Bytes :=
  if pt.length ≤ cap0 css then [pt] else pt.take (cap0 css) :: chunks (pss css) (pt.drop (cap0 css))

def sealAll (A : AEAD) (key : Nat) (pre : Bytes) : Nat → List Bytes → Bytes
  | _, [] => []
  | j, [s] => A.sealSeg key ⟨pre, j, true⟩ s
  | j, s :: rest => A.sealSeg key ⟨pre, j, false⟩ s ++ sealAll A key pre (j + 1) rest

/-- the tink stream of a part: header, then the sealed segments -/
def tinkStream (A : AEAD) (key : Nat) (salt pre : Bytes) (css : Nat) (pt : Bytes) : Bytes :=
  [40] ++ salt ++ pre ++ sealAll A key pre 0 (segments css pt)

/-! ## seekable.go -/

def numSegR (css C : Nat) : Nat := (C + css - 1) / css
def ptLenR (css C : Nat) : Nat := C - hdrLen - tagLen * numSegR css C
def segFor (css off : Nat) : Nat := if off < cap0 css then 0 else 1 + (off - cap0 css) / pss css
def ptStart (css j : Nat) : Nat := if j = 0 then 0 else cap0 css + (j - 1) * pss css
def ctOff (css j : Nat) : Nat := if j = 0 then hdrLen else j * css
def ctLen (css C j : Nat) : Nat := if j = 0 then min (css - hdrLen) (C - hdrLen) else min css (C - j * css)

/-- `newSeekableDecryptingReader`: what must hold for the reader to be constructed at all -/
def openable (css : Nat) (ct : Bytes) : Bool :=
  decide (hdrLen + tagLen ≤ ct.length) && ct.headD 0 == 40 && decide (hdrLen + tagLen < css) &&
    decide (hdrLen + tagLen * numSegR css ct.length ≤ ct.length)

/-- `loadSegment j` -/
def loadSeg (A : AEAD) (keyOf : Bytes → Nat) (css : Nat) (ct : Bytes) (j : Nat) : Option Bytes :=
  let C := ct.length
  let len := ctLen css C j
  if len < tagLen then none else
  if j ≥ 4294967296 then none else
  let slice := (ct.drop (ctOff css j)).take len
  if slice.length < len then none else
  A.openSeg (keyOf ((ct.drop 1).take 32)) ⟨(ct.drop 33).take 7, j, j == numSegR css C - 1⟩ slice

inductive Res where
  | ok (b : Bytes)       -- EOF reached without error
  | err (sofar : Bytes)  -- an error after `sofar` had been delivered
  deriving Repr, DecidableEq

/-- `io.ReadAll` on the reader positioned at plaintext offset `pos`: every `Read` delivers the rest of
the segment that holds `pos`. `fix`: before reporting EOF the (not yet authenticated) last segment is
loaded, so a truncated ciphertext cannot end the stream cleanly. Written over the reader's derived
quantities (`load` = `loadSegment`, `ptLen` = `plaintextLen`, `last` = `numSegments − 1`, `segF` =
`segmentForPlaintextOffset`, `start` = `plaintextStartOfSegment`). -/
def readLoop (load : Nat → Option Bytes) (ptLen last : Nat) (segF start : Nat → Nat) (fix : Bool) : Nat → Nat → Bytes → Res
  | 0, _, acc => .err acc
  | fuel + 1, pos, acc =>
    if pos ≥ ptLen then
      if fix then
        match load last with
        | some _ => .ok acc
        | none => .err acc
      else .ok acc
    else
      match load (segF pos) with
      | none => .err acc
      | some p =>
        let chunk := p.drop (pos - start (segF pos))
        if chunk.isEmpty then .err acc   -- cannot happen for a consistent layout; the Go code would spin
        else readLoop load ptLen last segF start fix fuel (pos + chunk.length) (acc ++ chunk)

def readFrom (A : AEAD) (keyOf : Bytes → Nat) (fix : Bool) (css : Nat) (ct : Bytes) (fuel pos : Nat) (acc : Bytes) : Res :=
  readLoop (loadSeg A keyOf css ct) (ptLenR css ct.length) (numSegR css ct.length - 1) (segFor css) (ptStart css) fix fuel pos acc

/-- GetPart + Seek(off) + ReadAll through the seekable path -/
def seekRead (A : AEAD) (keyOf : Bytes → Nat) (fix : Bool) (css : Nat) (ct : Bytes) (off : Nat) : Res :=
  if !openable css ct then .err [] else readFrom A keyOf fix css ct (ct.length + 2) off []

/-! ## the seekable reader as a state machine (one reader, many `Seek`/`Read` calls) -/

/-- the fields of `seekableDecryptingReader` that survive a call -/
structure RState where
  pos : Nat := 0
  segIdx : Option Nat := none      -- `segIndex` (`none` = −1: nothing buffered)
  buf : Bytes := []                -- `s.plaintext`, the buffered segment
  cap : Nat := 0                   -- … and the capacity of its backing array
  lastVerified : Bool := false
  deriving Repr, DecidableEq

inductive RRes where
  | bytes (b : Bytes)
  | eof
  | err
  deriving Repr, DecidableEq

/-- `loadSegment j`. The code decrypts into the buffer of the previously loaded segment
(`cipher.Open(s.plaintext[:0], …)`): when authentication fails, `Open` has zeroed the would-be plaintext
(`len − 16` bytes) in that buffer — if its capacity sufficed, else it worked on a fresh array — while
`segIndex` still names the old segment. `fixBuf` = the repaired code forgets the buffered segment
(fixes/C16-invalidate-buffer-on-failed-load.patch). -/
def rLoad (A : AEAD) (keyOf : Bytes → Nat) (fixBuf : Bool) (css : Nat) (ct : Bytes) (j : Nat) (s : RState) : Bool × RState :=
  match loadSeg A keyOf css ct j with
  | some seg =>
    (true, { s with segIdx := some j, buf := seg, cap := max s.cap seg.length,
                    lastVerified := s.lastVerified || j == numSegR css ct.length - 1 })
  | none =>
    let len := ctLen css ct.length j
    if len < tagLen || j ≥ 4294967296 then (false, s)        -- refused before any decryption
    else if fixBuf then (false, { s with segIdx := none, buf := [] })
    else
      let m := len - tagLen
      if m ≤ s.cap then (false, { s with buf := List.replicate (min m s.buf.length) 0 ++ s.buf.drop m })
      else (false, s)

/-- one `Read(p)` with `len(p) = n` -/
def rRead (A : AEAD) (keyOf : Bytes → Nat) (fixEof fixBuf : Bool) (css : Nat) (ct : Bytes) (n : Nat) (s : RState) : RRes × RState :=
  if s.pos ≥ ptLenR css ct.length then
    if fixEof && !s.lastVerified then
      let r := rLoad A keyOf fixBuf css ct (numSegR css ct.length - 1) s
      (if r.1 then .eof else .err, r.2)
    else (.eof, s)
  else
    let j := segFor css s.pos
    let r := if s.segIdx = some j then (true, s) else rLoad A keyOf fixBuf css ct j s
    if !r.1 then (.err, r.2) else
    let chunk := (r.2.buf.drop (s.pos - ptStart css j)).take n
    (.bytes chunk, { r.2 with pos := s.pos + chunk.length })

inductive ROp where
  | seek (abs : Nat)     -- `Seek` to an absolute, non-negative position (whence arithmetic is the caller's)
  | read (n : Nat)
  deriving Repr, DecidableEq

/-- a history on one reader: the results of its reads, each with the position it was issued at -/
def rRun (A : AEAD) (keyOf : Bytes → Nat) (fixEof fixBuf : Bool) (css : Nat) (ct : Bytes) : List ROp → RState → List (Nat × RRes)
  | [], _ => []
  | .seek a :: ops, s => rRun A keyOf fixEof fixBuf css ct ops { s with pos := a }
  | .read n :: ops, s =>
    let r := rRead A keyOf fixEof fixBuf css ct n s
    (s.pos, r.1) :: rRun A keyOf fixEof fixBuf css ct ops r.2

/-! ## tink-go's sequential reader (used when the inner store's reader cannot seek) -/

/-- tink-go's `noncebased.Reader.Read`: it asks for one segment plus one look-ahead byte. Fewer bytes than
that (but more than what it already holds) = last segment; a full read = not the last one, the extra
byte is kept. If NO further byte arrives — nothing at all for the first segment, or only the
look-ahead byte carried over from the previous one — `io.ReadFull` answers `io.EOF` and the reader
passes that on: the stream ends cleanly. `guard` = the repaired middleware
(fixes/C16-sequential-reader-rejects-cut-streams.patch): it counts the ciphertext bytes and turns exactly
these two ends — total length 40, or one byte more than a whole number of segment slots — into errors. -/
def seqLoop (A : AEAD) (key : Nat) (pre : Bytes) (css : Nat) (guard : Bool) : Nat → Nat → Bytes → Bytes → Res
  | 0, _, _, acc => .err acc
  | fuel + 1, j, rest, acc =>
    let size := if j = 0 then css - hdrLen else css
    if rest.isEmpty || (j != 0 && rest.length == 1) then (if guard then .err acc else .ok acc) else
    if rest.length ≤ size then
      match A.openSeg key ⟨pre, j, true⟩ rest with
      | none => .err acc
      | some p => .ok (acc ++ p)
    else
      match A.openSeg key ⟨pre, j, false⟩ (rest.take size) with
      | none => .err acc
      | some p => seqLoop A key pre css guard fuel (j + 1) (rest.drop size) (acc ++ p)

def seqRead (A : AEAD) (keyOf : Bytes → Nat) (fixEof : Bool) (css : Nat) (ct : Bytes) (guard : Bool := false) : Res :=
  -- no tink stream at all: `io.ReadFull` of the 40 header bytes answers io.EOF, which reads as a clean end
  if ct.isEmpty && !fixEof then .ok [] else
  if ct.length < hdrLen || ct.headD 0 != 40 then .err [] else
  seqLoop A (keyOf ((ct.drop 1).take 32)) ((ct.drop 33).take 7) css guard (ct.length + 2) 0 (ct.drop hdrLen) []

/-! ## envelope framing (tink.go) -/

def frameStored (json stream : Bytes) : Bytes := be32 json.length ++ json ++ stream

inductive Opened where
  | emptyPart                      -- the lazy initialiser got io.EOF: the consumer sees a clean end of an empty part
  | fail                           -- any other error
  | stream (json ct : Bytes)       -- the JSON part header and the tink stream behind it
  deriving Repr, DecidableEq

/-- `readPartHeaderAndDEK`'s framing. `io.ReadFull` answers `io.EOF` (not `ErrUnexpectedEOF`) when it
cannot read a single byte; the lazy reader hands that error to the consumer, for whom it is the end
of the stream: a stored stream cut to nothing, or to just the 4 length bytes, reads as an EMPTY part.
`fixEof` = the repaired initialiser that turns this `io.EOF` into an error. -/
def openStored (fixEof : Bool) (stored : Bytes) : Opened :=
  if stored.length < 4 then (if stored.isEmpty && !fixEof then .emptyPart else .fail) else
  let n := fromBE (stored.take 4)
  let rest := stored.drop 4
  if rest.length < n then (if rest.isEmpty && !fixEof then .emptyPart else .fail) else
  .stream (rest.take n) (rest.drop n)

/-! ## toy ciphers (for negation witnesses and non-vacuity examples; not used by any theorem's hypotheses) -/

/-- 16 bytes that spell out key, segment index, last flag and nonce prefix -/
def toyTag (k : Nat) (n : Nonce) : Bytes :=
  ([UInt8.ofNat k, UInt8.ofNat n.idx, if n.last then 1 else 0] ++ n.pre ++ List.replicate 16 0).take 16

/-- a transparent "cipher": the plaintext followed by `toyTag` -/
def toyAead : AEAD where
  sealSeg := fun k n m => m ++ toyTag k n
  openSeg := fun k n c =>
    if c.length < 16 then none else
    if c.drop (c.length - 16) == toyTag k n then some (c.take (c.length - 16)) else none

/-- an "ideal" cipher for one part: it opens exactly the ciphertexts that were sealed for the segments
`segs` under `key` and `pre`, and nothing else -/
def loggedAead (key : Nat) (pre : Bytes) (segs : List Bytes) : AEAD where
  sealSeg := fun k n m => toyAead.sealSeg k n m
  openSeg := fun k n c =>
    if k == key && n.pre == pre && decide (n.idx < segs.length) && (n.last == decide (n.idx + 1 = segs.length)) &&
        c == toyAead.sealSeg key n (segs.getD n.idx []) then some (segs.getD n.idx []) else none

end Pithos.Tink
