/-
M8 (part 2): the object-cache storage middleware
(/repo/internal/storage/middlewares/objectcache/objectcache.go) in front of an abstract inner storage.

Sequential part (`stepCached` / `stepInner`): the cache is two partial maps, key ↦ cached head (the JSON
of `storage.Object`) and key ↦ cached body, exactly the two `GenericCache` entries the middleware keeps
per object. Which storage methods invalidate, and when, is a *parameter* (`Params.mode`): the driver and
the theorems instantiate it with the table the T1 extractor regenerates from the Go source
(`Pithos.Gen.ObjectCache.overrides`). `Params.keepKey = false` mirrors the JSON round trip of the
current code, which loses `Object.Key` (the field is unexported inside `ObjectKey`).

Concurrent part (namespace `Conc`): the put and get paths cut into the atomic steps the code performs on
the shared cache (each `GenericCache` call is one step), for any number of threads and any schedule.
`tagged = true` is a repaired design in which a body entry carries the version it belongs to and a hit
requires it to equal the cached head's version; `tagged = false` is the code as it is.
-/
namespace Pithos.ObjectCache

abbrev Key := String

/-- What HeadObject/GetObject report about an object. `rest` is every other field, canonicalised. -/
structure Head where
  etag : String
  size : Nat
  key  : String
  rest : String
  deriving DecidableEq, Repr

abbrev Body := String

inductive Res where
  | err (kind : String)
  | ok (h : Head) (b : Option Body)   -- `b = none`: HeadObject
  deriving DecidableEq, Repr

structure Cond where
  im  : Option String := none
  inm : Option String := none
  deriving DecidableEq, Repr

/-- `validateConditionalHead` / `validateConditionalGet` (and the identical checks of the inner storage). -/
def validate (c : Cond) (h : Head) : Option String :=
  match c.im with
  | some e =>
    if e ≠ "*" ∧ h.etag ≠ e then some "PreconditionFailed"
    else match c.inm with
      | some n => if n = "*" ∨ h.etag = n then some "NotModified" else none
      | none => none
  | none =>
    match c.inm with
    | some n => if n = "*" ∨ h.etag = n then some "NotModified" else none
    | none => none

/-- A non-read storage call as the middleware sees it. `key` is the key the override passes to
`invalidateObjectCaches` (the destination for CopyObject). -/
structure Mut where
  method   : String
  key      : Key
  data     : Body := ""     -- PutObject: the body streamed through the middleware
  dataSize : Nat := 0
  deriving DecidableEq, Repr

/-- The inner storage, abstractly: `cur` is what an unconditional GetObject of the current version
answers; `apply` performs a call and reports success and (for DeleteObjects) the entries it deleted. -/
structure Inner (σ : Type) where
  cur   : σ → Key → Except String (Head × Body)
  apply : σ → Mut → σ × Bool × List Key

inductive Mode where
  | none | always | onSuccess | perDeleted | putFill
  deriving DecidableEq, Repr

def Mode.ofString : String → Mode
  | "always" => .always
  | "on-success" => .onSuccess
  | "per-deleted" => .perDeleted
  | "put-fill" => .putFill
  | _ => .none

/-- Mode of a method according to an extracted override table (name, mode, key arguments). -/
def modeOfTable (tbl : List (String × String × String)) (m : String) : Mode :=
  match tbl.find? (fun e => e.1 == m) with
  | some e => Mode.ofString e.2.1
  | none => .none

structure Params where
  mode    : String → Mode
  keepKey : Bool
  maxObj  : Nat

structure Cache where
  head : Key → Option Head
  body : Key → Option Body

def Cache.empty : Cache := ⟨fun _ => none, fun _ => none⟩

def Cache.setHead (c : Cache) (k : Key) (h : Option Head) : Cache :=
  { c with head := fun k' => if k' = k then h else c.head k' }

def Cache.setBody (c : Cache) (k : Key) (b : Option Body) : Cache :=
  { c with body := fun k' => if k' = k then b else c.body k' }

/-- `invalidateObjectCaches`: remove both entries. -/
def Cache.inval (c : Cache) (k : Key) : Cache := (c.setHead k none).setBody k none

/-- What survives `json.Marshal`/`Decode` of the head. -/
def roundTrip (p : Params) (h : Head) : Head := if p.keepKey then h else { h with key := "" }

inductive Op where
  | head (k : Key) (c : Cond)
  | get (k : Key) (c : Cond) (full : Bool)   -- `full`: the caller reads to EOF before Close
  | call (m : Mut)
  | evict (heads bodies : List Key)          -- the eviction policy drops entries (any, at any time)
  deriving Repr

inductive Out where
  | res (r : Res)
  | done (ok : Bool) (reported : List Key)
  | silent
  deriving DecidableEq, Repr

def resOf (c : Cond) (h : Head) (b : Option Body) : Res :=
  match validate c h with
  | some e => .err e
  | none => .ok h b

/-- The storage without the middleware. -/
def stepInner {σ} (I : Inner σ) (s : σ) : Op → σ × Out
  | .head k c =>
    match I.cur s k with
    | .error e => (s, .res (.err e))
    | .ok (h, _) => (s, .res (resOf c h none))
  | .get k c _ =>
    match I.cur s k with
    | .error e => (s, .res (.err e))
    | .ok (h, b) => (s, .res (resOf c h (some b)))
  | .call m =>
    let r := I.apply s m
    (r.1, .done r.2.1 r.2.2)
  | .evict _ _ => (s, .silent)

/-- Cache effect of a non-read call, by the override's mode. -/
def afterMut {σ} (I : Inner σ) (p : Params) (s' : σ) (c : Cache) (m : Mut) (ok : Bool) (rep : List Key) : Cache :=
  match p.mode m.method with
  | .none => c
  | .always => c.inval m.key
  | .onSuccess => if ok then c.inval m.key else c
  | .perDeleted => if ok then rep.foldl Cache.inval c else c
  | .putFill =>
    if ok then
      let c1 := c.setBody m.key (if m.dataSize ≤ p.maxObj then some m.data else none)
      match I.cur s' m.key with
      | .ok (h, _) => c1.setHead m.key (some (roundTrip p h))
      | .error _ => c1.setHead m.key none
    else c.inval m.key

/-- The storage behind the middleware (sequential calls). -/
def stepCached {σ} (I : Inner σ) (p : Params) (s : σ) (c : Cache) : Op → (σ × Cache) × Out
  | .head k cnd =>
    match c.head k with
    | some h => ((s, c), .res (resOf cnd h none))
    | none =>
      match I.cur s k with
      | .error e => ((s, c), .res (.err e))
      | .ok (h, _) => ((s, c.setHead k (some (roundTrip p h))), .res (resOf cnd h none))
  | .get k cnd full =>
    match c.head k, c.body k with
    | some h, some b => ((s, c), .res (resOf cnd h (some b)))
    | _, _ =>
      match I.cur s k with
      | .error e => ((s, c), .res (.err e))
      | .ok (h, b) =>
        match validate cnd h with
        | some e => ((s, c), .res (.err e))
        | none =>
          if h.size ≤ p.maxObj then
            ((s, (c.setHead k (some (roundTrip p h))).setBody k (if full then some b else none)), .res (.ok h (some b)))
          else ((s, c), .res (.ok h (some b)))
  | .call m =>
    let r := I.apply s m
    ((r.1, afterMut I p r.1 c m r.2.1 r.2.2), .done r.2.1 r.2.2)
  | .evict hs bs =>
    ((s, bs.foldl (fun c k => c.setBody k none) (hs.foldl (fun c k => c.setHead k none) c)), .silent)

def runInner {σ} (I : Inner σ) (s : σ) : List Op → List Out
  | [] => []
  | op :: ops => let r := stepInner I s op; r.2 :: runInner I r.1 ops

def runCached {σ} (I : Inner σ) (p : Params) (s : σ) (c : Cache) : List Op → List Out
  | [] => []
  | op :: ops => let r := stepCached I p s c op; r.2 :: runCached I p r.1.1 r.1.2 ops

/-- `runCached`, also returning where it ends. -/
def runCachedSt {σ} (I : Inner σ) (p : Params) (s : σ) (c : Cache) : List Op → (σ × Cache) × List Out
  | [] => ((s, c), [])
  | op :: ops =>
    let r := stepCached I p s c op
    let r2 := runCachedSt I p r.1.1 r.1.2 ops
    (r2.1, r.2 :: r2.2)

def runInnerSt {σ} (I : Inner σ) (s : σ) : List Op → σ × List Out
  | [] => (s, [])
  | op :: ops =>
    let r := stepInner I s op
    let r2 := runInnerSt I r.1 ops
    (r2.1, r.2 :: r2.2)

/-- A call `m` with other requests (`reads`) served while it is in flight at the inner storage, i.e. after the
middleware has handed it over and before the inner storage applies it (a gated inner store).
`early = false`: the override invalidates after the inner call returned (per its mode) — the reads simply
precede the call. `early = true`: the override invalidates `m.key` BEFORE handing the call over and not
afterwards — the reads run against the invalidated cache and re-fill it from the not-yet-changed inner storage. -/
def runWin {σ} (I : Inner σ) (p : Params) (early : Bool) (s : σ) (c : Cache) (m : Mut) (reads : List Op) :
    (σ × Cache) × List Out :=
  if early then
    let r := runCachedSt I p s (c.inval m.key) reads
    let a := I.apply r.1.1 m
    ((a.1, r.1.2), r.2 ++ [.done a.2.1 a.2.2])
  else runCachedSt I p s c (reads ++ [.call m])

/-- The methods of `storage.Storage` that can change what HeadObject/GetObject of the *current* version
of some key answer successfully (hand-written from the S3 semantics; see design/C20.md for each decision):
writes of the current version, its tag set and its storage class. Bucket-level calls are not listed:
DeleteBucket succeeds only on a bucket without any object version, CreateBucket only when the bucket does
not exist, and PutBucketVersioningConfiguration does not touch existing versions — none of them changes a
read that currently succeeds. Multipart calls other than Complete only touch pending uploads. -/
def mutatingMethods : List String :=
  ["PutObject", "CopyObject", "AppendObject", "DeleteObject", "DeleteObjects", "CompleteMultipartUpload",
   "PutObjectTagging", "DeleteObjectTagging", "TransitionObjectStorageClass"]

/-- Every other method: decided *not* to change a currently successful read of any key. -/
def nonMutatingMethods : List String :=
  ["Start", "Stop", "CreateBucket", "DeleteBucket", "ListBuckets", "HeadBucket",
   "GetBucketVersioningConfiguration", "PutBucketVersioningConfiguration",
   "GetBucketWebsiteConfiguration", "PutBucketWebsiteConfiguration", "DeleteBucketWebsiteConfiguration",
   "GetBucketCORSConfiguration", "PutBucketCORSConfiguration", "DeleteBucketCORSConfiguration",
   "GetBucketLifecycleConfiguration", "PutBucketLifecycleConfiguration", "DeleteBucketLifecycleConfiguration",
   "GetBucketNotificationConfiguration", "PutBucketNotificationConfiguration",
   "ListObjects", "ListObjectVersions", "HeadObject", "GetObject",
   "CreateMultipartUpload", "UploadPart", "UploadPartCopy", "AbortMultipartUpload", "ListMultipartUploads", "ListParts",
   "GetObjectTagging"]

/-- The keys a successful mutating call may have changed. -/
def targets (m : Mut) (reported : List Key) : List Key :=
  if m.method = "DeleteObjects" then reported else [m.key]

/-- Does an override mode take care of a mutating method? -/
def covers (md : Mode) (method : String) : Bool :=
  match md with
  | .always | .onSuccess => method != "DeleteObjects"
  | .perDeleted => method == "DeleteObjects"
  | .putFill => method == "PutObject"
  | .none => false

/-! ## Concurrent put/get on one key: atomic steps -/
namespace Conc

inductive PutPc where | p0 | p1 | p2 | p3 | done
  deriving DecidableEq, Repr
inductive GetPc where | g0 | g1 | g2 | g3 | g4 | done
  deriving DecidableEq, Repr
inductive InvPc where | i0 | i1 | done
  deriving DecidableEq, Repr

/-- Versions are numbers; the content and the head of version `v` are both identified with `v`. -/
inductive Thread where
  /-- PutObject of version `v`. p0, p1: the body entry is stored / the inner storage commits (in the
  order `bodyFirst` says – the cache write finishes when the inner storage has consumed the stream,
  before or after its commit); p2: `Next.HeadObject`; p3: head entry stored. -/
  | put (v : Nat) (bodyFirst : Bool) (pc : PutPc) (h : Option Nat)
  /-- GetObject. g0: read the head entry; g1: read the body entry (hit) or fall through; g2: inner
  GetObject (snapshot); g3: head entry stored; g4: the caller has read the stream, body entry stored. -/
  | get (pc : GetPc) (hh : Option Nat) (snap : Option Nat)
  /-- invalidation / eviction: i0 removes the body entry, i1 the head entry. -/
  | inval (pc : InvPc)
  deriving DecidableEq, Repr

structure St where
  inner    : Option Nat            -- current committed version
  written  : List Nat              -- every version committed so far
  chead    : Option Nat            -- head entry
  cbody    : Option (Nat × Nat)    -- body entry: (content version, version tag)
  threads  : List Thread
  returned : List (Nat × Nat)      -- (head version, body version) handed to callers
  deriving DecidableEq, Repr

def commit (s : St) (v : Nat) : St := { s with inner := some v, written := v :: s.written }

/-- One atomic step of one thread: new shared state and the thread's continuation. -/
def stepThread (tagged : Bool) (s : St) : Thread → St × Thread
  | .put v bf .p0 h => if bf then ({ s with cbody := some (v, v) }, .put v bf .p1 h) else (commit s v, .put v bf .p1 h)
  | .put v bf .p1 h => if bf then (commit s v, .put v bf .p2 h) else ({ s with cbody := some (v, v) }, .put v bf .p2 h)
  | .put v bf .p2 _ => (s, .put v bf .p3 s.inner)
  | .put v bf .p3 h => ({ s with chead := h }, .put v bf .done h)
  | .put v bf .done h => (s, .put v bf .done h)
  | .get .g0 _ sn => (s, .get .g1 s.chead sn)
  | .get .g1 hh sn =>
    match hh, s.cbody with
    | some h, some (b, t) =>
      if !tagged || t == h then ({ s with returned := (h, b) :: s.returned }, .get .done hh sn)
      else (s, .get .g2 hh sn)
    | _, _ => (s, .get .g2 hh sn)
  | .get .g2 hh _ =>
    match s.inner with
    | some v => (s, .get .g3 hh (some v))
    | none => (s, .get .done hh none)
  | .get .g3 hh sn => ({ s with chead := sn }, .get .g4 hh sn)
  | .get .g4 hh sn =>
    match sn with
    | some v => ({ s with cbody := some (v, v), returned := (v, v) :: s.returned }, .get .done hh sn)
    | none => (s, .get .done hh sn)
  | .get .done hh sn => (s, .get .done hh sn)
  | .inval .i0 => ({ s with cbody := none }, .inval .i1)
  | .inval .i1 => ({ s with chead := none }, .inval .done)
  | .inval .done => (s, .inval .done)

/-- The version numbers a thread holds in its local variables. -/
def Thread.locals : Thread → List Nat
  | .put _ _ _ h => h.toList
  | .get _ hh sn => hh.toList ++ sn.toList
  | .inval _ => []

/-- Schedule entry `i`: thread `i` performs its next atomic step (out of range: nothing happens). -/
def step (tagged : Bool) (s : St) (i : Nat) : St :=
  match s.threads[i]? with
  | none => s
  | some t =>
    let r := stepThread tagged s t
    { r.1 with threads := r.1.threads.set i r.2 }

def run (tagged : Bool) (s : St) : List Nat → St
  | [] => s
  | i :: is => run tagged (step tagged s i) is

def init (cur : Option Nat) (ts : List Thread) : St :=
  { inner := cur, written := cur.toList, chead := none, cbody := none, threads := ts, returned := [] }

end Conc

end Pithos.ObjectCache
