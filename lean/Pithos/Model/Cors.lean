/-
M9 (C34): the CORS middleware of /repo/internal/http/middleware/cors.go
(`MakeCORSMiddlewareWithResolver`, `isPreflightRequest`, `findMatchingRule`, `matchOrigin`,
`matchMethod`, `matchRequestedHeaders`, `preflightAllowHeadersValue`, `parseHeaderList`,
`wildcardMatch`), as a function from (rules of the addressed bucket, request) to what the
middleware does to the response.

The request is what `r.Method` and `r.Header.Get(..)` present: the first field line of `Origin`,
`Access-Control-Request-Method`, `Access-Control-Request-Headers` ("" when absent).
Strings are `List Char`; ASCII case mapping / trimming as in `Pithos.Ascii`.
Core Lean only.
-/
import Pithos.Model.AsciiStr

namespace Pithos.Cors
open Pithos.Ascii

/-- Split a pattern at its FIRST '*'. -/
def splitStar : List Char → Option (List Char × List Char)
  | [] => none
  | c :: p =>
    if c == '*' then some ([], p)
    else match splitStar p with
      | none => none
      | some (pre, suf) => some (c :: pre, suf)

/-- `wildcardMatch`: no '*' → equality; otherwise only the first '*' is a wildcard, everything
after it (further '*' included) is a literal suffix. -/
def wildcardMatch (pattern value : List Char) : Bool :=
  match splitStar pattern with
  | none => pattern == value
  | some (pre, suf) =>
    if value.length < pre.length + suf.length then false
    else pre.isPrefixOf value && suf.isSuffixOf value

structure Rule where
  origins : List (List Char)
  methods : List (List Char)
  headers : List (List Char)
  expose  : List (List Char)
  maxAge  : Option Int
  deriving Repr, DecidableEq

structure Request where
  method : List Char     -- r.Method
  origin : List Char     -- r.Header.Get("Origin")
  acrm   : List Char     -- r.Header.Get("Access-Control-Request-Method")
  acrh   : List Char     -- r.Header.Get("Access-Control-Request-Headers")
  deriving Repr, DecidableEq

/-- What the middleware does. `next`: the wrapped handler runs (and decides the status);
`status`: the middleware itself answers with this status and the handler does not run. -/
structure Resp where
  next : Bool := false
  status : Option Nat := none
  allowOrigin : Option (List Char) := none
  allowMethods : Option (List Char) := none
  allowHeaders : Option (List Char) := none
  expose : Option (List Char) := none
  maxAge : Option (List Char) := none
  vary : List (List Char) := []
  deriving Repr, DecidableEq

def isPreflight (r : Request) : Bool :=
  r.method == "OPTIONS".toList && !(trimSpace r.acrm).isEmpty

/-- `parseHeaderList`. -/
def parseHeaderList (v : List Char) : List (List Char) :=
  if (trimSpace v).isEmpty then []
  else ((splitOn ',' v).map fun p => trimSpace (toLower p)).filter (fun p => !p.isEmpty)

/-- `matchOrigin`: the first pattern of the rule that matches. -/
def matchOrigin (allowed : List (List Char)) (origin : List Char) : Option (List Char) :=
  allowed.find? fun a => wildcardMatch (toLower a) (toLower origin)

def matchMethod (allowed : List (List Char)) (method : List Char) : Bool :=
  allowed.any fun a => a == toUpper (trimSpace method)

def star : List Char := ['*']

def matchRequestedHeaders (allowed requested : List (List Char)) : Bool :=
  if requested.isEmpty then true
  else if allowed.contains star then true
  else requested.all fun h => allowed.any fun a => wildcardMatch (toLower a) (toLower h)

/-- `findMatchingRule`: the first rule admitting origin, method and (preflight only) headers. -/
def findMatchingRule (rules : List Rule) (origin method : List Char) (requested : List (List Char))
    (preflight : Bool) : Option (Rule × List Char) :=
  match rules with
  | [] => none
  | r :: rest =>
    match matchOrigin r.origins origin with
    | none => findMatchingRule rest origin method requested preflight
    | some pat =>
      if !matchMethod r.methods method then findMatchingRule rest origin method requested preflight
      else if preflight && !matchRequestedHeaders r.headers requested then
        findMatchingRule rest origin method requested preflight
      else some (r, pat)

def commaSp : List Char := [',', ' ']

def preflightAllowHeadersValue (allowed requested : List (List Char)) : List Char :=
  if allowed.isEmpty then []
  else if allowed.contains star then
    if requested.isEmpty then star else join commaSp requested
  else join commaSp allowed

def varyOrigin : List Char := "Origin".toList
def varyAcrm : List Char := "Access-Control-Request-Method".toList
def varyAcrh : List Char := "Access-Control-Request-Headers".toList

def requestedMethod (req : Request) : List Char :=
  if isPreflight req then trimSpace (toUpper req.acrm) else req.method

/-- The middleware. -/
def respond (rules : List Rule) (req : Request) : Resp :=
  let origin := trimSpace req.origin
  if origin.isEmpty then { next := true }
  else if rules.isEmpty then
    if isPreflight req then { status := some 403 } else { next := true }
  else
    let pre := isPreflight req
    let vary := if pre then [varyOrigin, varyAcrm, varyAcrh] else [varyOrigin]
    let requested := parseHeaderList req.acrh
    match findMatchingRule rules origin (requestedMethod req) requested pre with
    | none => if pre then { status := some 403, vary := vary } else { next := true, vary := vary }
    | some (rule, pat) =>
      let ao := if pat == star then star else origin
      if pre then
        let ah := preflightAllowHeadersValue rule.headers requested
        { status := some 200, allowOrigin := some ao,
          allowMethods := some (join commaSp rule.methods),
          allowHeaders := if ah.isEmpty then none else some ah,
          maxAge := rule.maxAge.map fun n => (toString n).toList,
          vary := vary }
      else
        { next := true, allowOrigin := some ao,
          expose := if rule.expose.isEmpty then none else some (join commaSp rule.expose),
          vary := vary }

end Pithos.Cors
