/-
Linearizability of a recorded concurrent history with respect to a sequential specification
`step : St → Op → St × Out` (Herlihy–Wing), for an arbitrary specification.

A history is a list of events; each carries the global sequence numbers drawn immediately before
the call (`inv`) and immediately after it returned (`resp`), the operation, and what the caller
observed. A *linearization* is a reordering of the history (given as a permutation of indices)
that
  * respects real time: an event that responded before another one was invoked comes first, and
  * is sequentially legal: running the operations in that order from the initial state produces
    outputs that agree with every observation.

`checkCert` decides whether a given index order is a linearization; `checkCert_sound` proves that
a `true` answer means the history is linearizable (Props/C07.lean). The C07 driver *searches* for
an order (Wing–Gong depth-first search with memoisation — search, not proof) and then validates
the order it found with `checkCert`, so a "linearizable" verdict never rests on the search code.
Core Lean only.
-/
namespace Pithos.Lin

structure Ev (Op Obs : Type) where
  inv : Nat
  resp : Nat
  op : Op
  obs : Obs
  deriving Repr

section
variable {St Op Out Obs : Type}

/-- Run the operations in list order from `s`; every output must agree with the observation. -/
def legalB (step : St → Op → St × Out) (agree : Out → Obs → Bool) : St → List (Ev Op Obs) → Bool
  | _, [] => true
  | s, e :: es => agree (step s e.op).2 e.obs && legalB step agree (step s e.op).1 es

/-- The state after running the operations in list order. -/
def runEv (step : St → Op → St × Out) : St → List (Ev Op Obs) → St
  | s, [] => s
  | s, e :: es => runEv step (step s e.op).1 es

/-- Nothing later in the list responded before an earlier element was invoked. -/
def realTimeB : List (Ev Op Obs) → Bool
  | [] => true
  | a :: rest => rest.all (fun b => !(decide (b.resp < a.inv))) && realTimeB rest

def RealTime (l : List (Ev Op Obs)) : Prop := l.Pairwise (fun a b => ¬ b.resp < a.inv)

def Legal (step : St → Op → St × Out) (agree : Out → Obs → Bool) (s : St) (l : List (Ev Op Obs)) : Prop :=
  legalB step agree s l = true

/-- The history `h` is linearizable w.r.t. `step` from `s`. -/
def Linearizable (step : St → Op → St × Out) (agree : Out → Obs → Bool) (s : St) (h : List (Ev Op Obs)) : Prop :=
  ∃ lin : List (Ev Op Obs), lin.Perm h ∧ RealTime lin ∧ Legal step agree s lin

/-- The events of `h` in the order given by the index list (out-of-range indices are dropped). -/
def pick (h : List (Ev Op Obs)) (order : List Nat) : List (Ev Op Obs) :=
  order.filterMap fun i => h[i]?

/-- Certificate check: `order` is a permutation of the indices of `h`, and the events in that
order respect real time and are sequentially legal. -/
def checkCert (step : St → Op → St × Out) (agree : Out → Obs → Bool) (s : St) (h : List (Ev Op Obs))
    (order : List Nat) : Bool :=
  order.isPerm (List.range h.length) && realTimeB (pick h order) && legalB step agree s (pick h order)

end
end Pithos.Lin
