/-
M9 (C32, string front end): the textual IP / CIDR / host:port parsing that the proxy-trust logic
of /repo/internal/http/server/authorization/lua/luaauthorizer.go and
/repo/internal/http/server/protocol.go (`getRemoteIP`) obtains from Go's standard library:

  net.ParseIP        = netip.ParseAddr, zones rejected          (go1.27 src/net/ip.go, net/netip/netip.go)
  net.ParseCIDR      = Cut at the first '/', ParseAddr, dtoi     (src/net/ip.go)
  net.SplitHostPort                                              (src/net/ipsock.go)
  strings.TrimSpace / strings.ToLower / strings.Split            (ASCII inputs only)

Addresses are numbers: every address is its 128-bit value, an IPv4 address a.b.c.d being
::ffff:a.b.c.d (that is how `net.IP` stores the result of ParseIP and what `To4` recognises).
The standard library itself is trusted (DESIGN §5); this file is *validated* against it by the
C32 differential run (remote IP, client IP and per-entry `remoteIPInCIDR` echoes), not proved.
Core Lean only.
-/
import Pithos.Model.AsciiStr

namespace Pithos.NetParse
open Pithos.Ascii

def isDigit (c : Char) : Bool := c.toNat ≥ 48 && c.toNat ≤ 57

def hexVal? (c : Char) : Option Nat :=
  let n := c.toNat
  if n ≥ 48 && n ≤ 57 then some (n - 48)
  else if n ≥ 97 && n ≤ 102 then some (n - 87)
  else if n ≥ 65 && n ≤ 70 then some (n - 55)
  else none

def isHex (c : Char) : Bool := (hexVal? c).isSome

def decVal (s : List Char) : Nat := s.foldl (fun a c => a * 10 + (c.toNat - 48)) 0

def hexNum (s : List Char) : Nat := s.foldl (fun a c => a * 16 + (hexVal? c).getD 0) 0

/-- One dotted-quad octet: 1+ decimal digits, no leading zero unless the octet is "0", ≤ 255. -/
def parseOctet (f : List Char) : Option Nat :=
  if f.isEmpty || !f.all isDigit then none
  else if f.length > 1 && f.head? == some '0' then none
  else if decVal f > 255 then none else some (decVal f)

/-- `parseIPv4Fields`: exactly four octets separated by '.', nothing else. Result: 32-bit value. -/
def parseV4 (s : List Char) : Option Nat :=
  match (splitOn '.' s).map parseOctet with
  | [some a, some b, some c, some d] => some (((a * 256 + b) * 256 + c) * 256 + d)
  | _ => none

def mapped (v4 : Nat) : Nat := 0xffff * 2 ^ 32 + v4

/-- The body of the `for i < 16` loop of `parseIPv6`. `ws` = the 16-bit groups read so far,
`ell` = the group index of "::". Returns the unread rest, the groups and the ellipsis. -/
def v6loop : Nat → List Char → List Nat → Option Nat → Option (List Char × List Nat × Option Nat)
  | 0, s, ws, ell => some (s, ws, ell)
  | fuel + 1, s, ws, ell =>
    if ws.length ≥ 8 then some (s, ws, ell) else
    let digs := s.takeWhile isHex
    let rest := s.dropWhile isHex
    if digs.length > 4 then none
    else if digs.isEmpty then none
    else match rest with
      | '.' :: _ =>
        if ell.isNone && ws.length ≠ 6 then none
        else if ws.length + 2 > 8 then none
        else match parseV4 s with
          | none => none
          | some v => some ([], ws ++ [v / 65536, v % 65536], ell)
      | [] => some ([], ws ++ [hexNum digs], ell)
      | [':'] => none
      | ':' :: ':' :: rest' =>
        if ell.isSome then none
        else
          let ws' := ws ++ [hexNum digs]
          if rest'.isEmpty then some ([], ws', some ws'.length)
          else v6loop fuel rest' ws' (some ws'.length)
      | ':' :: rest' => v6loop fuel rest' (ws ++ [hexNum digs]) ell
      | _ => none

def groupsVal (ws : List Nat) : Nat := ws.foldl (fun a w => a * 65536 + w) 0

/-- `parseIPv6` without zone (callers reject every string containing '%'). -/
def parseV6 (s : List Char) : Option Nat :=
  let start : Option (List Char × Option Nat) :=
    match s with
    | ':' :: ':' :: r => some (r, some 0)
    | _ => some (s, none)
  match start with
  | none => none
  | some (r, ell0) =>
    if ell0.isSome && r.isEmpty then some 0 else
    match v6loop 9 r [] ell0 with
    | none => none
    | some (rest, ws, ell) =>
      if !rest.isEmpty then none
      else if ws.length < 8 then
        match ell with
        | none => none
        | some e => some (groupsVal (ws.take e ++ List.replicate (8 - ws.length) 0 ++ ws.drop e))
      else if ell.isSome then none
      else some (groupsVal ws)

/-- `netip.ParseAddr` followed by the "no zone" test of `net.ParseIP`/`net.ParseCIDR`.
Result: (written as a dotted quad?, 128-bit value). -/
def parseAddr (s : List Char) : Option (Bool × Nat) :=
  match s.find? (fun c => c == '.' || c == ':' || c == '%') with
  | some '.' => (parseV4 s).map fun v => (true, mapped v)
  | some ':' => if s.contains '%' then none else (parseV6 s).map fun v => (false, v)
  | _ => none

/-- `net.ParseIP`. -/
def parseIP (s : List Char) : Option Nat := (parseAddr s).map (·.2)

/-- A parsed network: `base` is the masked network number in the 128-bit space, `bits` the prefix
length in that space (an IPv4 "/p" is 96+p). -/
structure Net where
  base : Nat
  bits : Nat
  deriving Repr, DecidableEq

def maskTo (bits v : Nat) : Nat := v / 2 ^ (128 - bits) * 2 ^ (128 - bits)

/-- `net.ParseCIDR` (the `*IPNet` result). -/
def parseCidr (s : List Char) : Option Net :=
  if !s.contains '/' then none else
  let addr := s.takeWhile (· != '/')
  let mask := (s.dropWhile (· != '/')).drop 1
  match parseAddr addr with
  | none => none
  | some (v4, v) =>
    if mask.isEmpty || !mask.all isDigit then none
    else
      let n := decVal mask
      let bitLen := if v4 then 32 else 128
      if n > bitLen then none
      else
        let bits := if v4 then 96 + n else n
        some { base := maskTo bits v, bits := bits }

/-- `net.SplitHostPort`, host part only (none = error). -/
def splitHost (s : List Char) : Option (List Char) :=
  match lastIdx ':' s with
  | none => none
  | some i =>
    match s with
    | '[' :: _ =>
      match s.findIdx? (· == ']') with
      | none => none
      | some e =>
        if e + 1 == s.length then none
        else if e + 1 == i then
          if (s.drop 1).contains '[' then none
          else if (s.drop (e + 1)).contains ']' then none
          else some ((s.take e).drop 1)
        else none
    | _ =>
      let host := s.take i
      if host.contains ':' then none
      else if s.contains '[' then none
      else if s.contains ']' then none
      else some host

/-- `getRemoteIP` of /repo/internal/http/server/protocol.go. -/
def remoteIP (remoteAddr : List Char) : Option Nat :=
  if remoteAddr.isEmpty then none
  else match splitHost remoteAddr with
    | some h => parseIP h
    | none => parseIP remoteAddr

end Pithos.NetParse
