/-
Extension of the single-storage model `Pithos.Model.S3` by the two `storage.Storage` calls the
storage-middleware properties (C23 replication, C24 bucket routing) need in addition:

* `UploadPartCopy`  (/repo/internal/storage/metadatapart/multipart.go): resolve the source object
  (current version or an explicit one; delete markers as a read reports them), cut the byte range
  (exclusive end, end clamped to the size, `start ≥ end` is `InvalidRange`), then behave like
  `UploadPart` with these bytes.
* `DeleteObjects`  (/repo/internal/storage/metadatapart/delete.go): the bucket must exist; then,
  per entry and in order, the same decision as `DeleteObject` without conditions (entries carry
  neither a version id nor an If-Match value in the histories of C23/C24).

Both are *defined through* `S3.step`, so everything known about `S3.step` carries over.
Core Lean only.
-/
import Pithos.Model.S3

namespace Pithos.S3Ext
open Pithos.S3

/-- Operations at the `storage.Storage` API: the ones of `S3.Op` plus the two above. -/
inductive XOp where
  | base (op : Op)
  | partCopy (sb sk : String) (svid : Option (Option Nat)) (db dk : String) (uid n : Nat)
      (range : Option (Nat × Nat))            -- (start, exclusive end)
  | delMany (b : String) (keys : List String)
  deriving Repr, Inhabited

inductive XOut where
  | base (o : Out)
  | many (l : List Out)                        -- DeleteObjects: one `DeleteObject` outcome per entry
  deriving Repr, Inhabited

def XOut.isErr : XOut → Bool
  | .base (.err _) => true
  | _ => false

def tick (s : State) : State := { s with clock := s.clock + 1 }

/-- `normalizeAndValidateRanges` for one absolute range + `createRangeReader`. -/
def sliceOf (content : Bytes) : Option (Nat × Nat) → Except Err Bytes
  | none => .ok content
  | some (a, b) =>
    let e := min b content.length
    if a ≥ e then .error .invalidRange else .ok ((content.take e).drop a)

/-- The source of a server-side copy as one storage sees it (no state change). -/
def readSource (s : State) (sb sk : String) (svid : Option (Option Nat)) : Except Err Row :=
  match findBucket s sb with
  | none => .error .noSuchBucket
  | some bk => resolve bk sk svid

/-- `DeleteObjects` body: entries in order, each one `DeleteObject` without options. -/
def delManyLoop (q : Quirks) (b : String) : State → List String → State × List Out
  | s, [] => (s, [])
  | s, k :: ks =>
    let (s1, o) := step q s (.del b k none .none)
    let (s2, os) := delManyLoop q b s1 ks
    (s2, o :: os)

def xstep (q : Quirks) (s : State) : XOp → State × XOut
  | .base op => let (s', o) := step q s op; (s', .base o)
  | .partCopy sb sk svid db dk uid n range =>
    match readSource s sb sk svid with
    | .error e => (tick s, .base (.err e))
    | .ok r =>
      match sliceOf r.content range with
      | .error e => (tick s, .base (.err e))
      | .ok body => let (s', o) := step q s (.uploadPart db dk uid n body); (s', .base o)
  | .delMany b keys =>
    match findBucket s b with
    | none => (tick s, .base (.err .noSuchBucket))
    | some _ => let (s', os) := delManyLoop q b s keys; (s', .many os)

def xrun (q : Quirks) (s : State) : List XOp → State × List XOut
  | [] => (s, [])
  | op :: ops =>
    let (s1, o) := xstep q s op
    let (s2, os) := xrun q s1 ops
    (s2, o :: os)

/-- Does the call name an explicit version id?  (C23 quantifies over histories that do not.) -/
def opNamesVersion : Op → Bool
  | .get _ _ v | .head _ _ v | .getTags _ _ v | .delTags _ _ v => v.isSome
  | .del _ _ v _ => v.isSome
  | .putTags _ _ v _ => v.isSome
  | .transition _ _ _ v => v.isSome
  | .copy _ _ v _ _ _ _ _ => v.isSome
  | _ => false

def XOp.namesVersion : XOp → Bool
  | .base op => opNamesVersion op
  | .partCopy _ _ v _ _ _ _ _ => v.isSome
  | .delMany _ _ => false

/-- What an object looks like to a reader, without version id, timestamps and ETag: the
observables C23 and C24 compare. -/
structure ObjObs where
  key  : String
  body : Bytes
  ct   : Option String
  md   : Pairs
  tags : Pairs
  cls  : Option String
  deriving Repr, DecidableEq, Inhabited

def obsOfRow (r : Row) : ObjObs :=
  { key := r.key, body := r.content, ct := r.ct, md := r.md, tags := r.tags, cls := r.cls }

/-- The current (listed) objects of a bucket, by key. -/
def currentObjects (bk : Bucket) : List ObjObs :=
  (sortBy (fun a b => a.key < b.key) (bk.rows.filter fun r => r.latest && !r.dm)).map obsOfRow

/-- The state as seen through the API: bucket names and, per bucket, the current objects. -/
def observe (s : State) : List (String × List ObjObs) :=
  (sortBy (fun a b => a.name < b.name) s.buckets).map fun bk => (bk.name, currentObjects bk)

end Pithos.S3Ext
