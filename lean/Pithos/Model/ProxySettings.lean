/-
M9 (C32, configuration glue): how the two proxy-trust settings reach the authorizer.

Mirrors /repo/internal/settings
  args.go      loadSettingsFromCmdArgs : `-trustForwardedHeaders[=b]`, `-trustedProxyCIDRs <raw>`
               (a flag counts only when it was given: `flagSet.Visit`)
  env.go       loadSettingsFromEnv     : PITHOS_TRUST_FORWARDED_HEADERS, PITHOS_TRUSTED_PROXY_CIDRS
               (`""` = unset; bool = lower-case value in {"1","t","true"})
  settings.go  mergeSettings(cmdArgs, env) — layers are merged in this order, a later layer wins:
               precedence  defaults < command line < environment;
               accessors TrustForwardedHeaders() (default false), TrustedProxyCIDRs() (nil ↦ []).
and /repo/cmd/pithos.go loadRequestAuthorizer (the two accessors become lua.Options).

Both list parsers split the raw value at ',', trim the items and DROP blank items.

Switches (code as it stands = both false):
* `mergeFixed`   — `Settings.merge` as it stands copies every non-pointer (slice) field of the later
                   layer unconditionally, so a layer that does not set the list erases it; `true` =
                   fixes/C32-settings-merge-keeps-cli-slices.patch (copy only what the layer set).
* `keepUnusable` — a raw value that is not blank but yields no item (`","`) becomes the empty list,
                   which downstream means "not configured"; `true` =
                   fixes/C32-separators-only-narrow.patch (the raw text is kept as one
                   — unparsable — entry, so the list stays "configured").
Core Lean only.
-/
import Pithos.Model.ProxyTrust

namespace Pithos.ProxySettings
open Pithos.Ascii Pithos.NetParse Pithos.ProxyTrust

/-- One settings layer: what it sets, `none` = not set by this layer. -/
structure Layer where
  trust : Option Bool
  list : Option (List (List Char))
  deriving Repr, DecidableEq

/-- The list parser shared by args.go and env.go. -/
def splitItems (raw : List Char) : List (List Char) :=
  ((splitOn ',' raw).map trimSpace).filter fun p => !p.isEmpty

def parseItems (keepUnusable : Bool) (raw : List Char) : List (List Char) :=
  let r := splitItems raw
  if keepUnusable && r.isEmpty && !(trimSpace raw).isEmpty then [trimSpace raw] else r

/-- `getBoolFromEnv` on a non-empty value. -/
def envBool (raw : List Char) : Bool :=
  let v := toLower raw
  v == "1".toList || v == "t".toList || v == "true".toList

/-- Command line: the flag values when the flags were given. -/
def cliLayer (keepUnusable : Bool) (trustFlag : Option Bool) (listFlag : Option (List Char)) : Layer :=
  { trust := trustFlag, list := listFlag.map (parseItems keepUnusable) }

/-- Environment: `""` (or absent) = unset. -/
def envLayer (keepUnusable : Bool) (rawTrust rawList : List Char) : Layer :=
  { trust := if rawTrust.isEmpty then none else some (envBool rawTrust),
    list := if rawList.isEmpty then none else some (parseItems keepUnusable rawList) }

/-- `Settings.merge`: `acc` receives `l`. -/
def mergeOne (mergeFixed : Bool) (acc l : Layer) : Layer :=
  { trust := match l.trust with | some b => some b | none => acc.trust,
    list := if mergeFixed then (match l.list with | some x => some x | none => acc.list) else l.list }

/-- `mergeSettings`: layers in increasing precedence. -/
def merge (mergeFixed : Bool) (layers : List Layer) : Layer :=
  layers.foldl (mergeOne mergeFixed) { trust := none, list := none }

/-- What the authorizer is constructed with. -/
structure Effective where
  trust : Bool
  entries : List (List Char)
  deriving Repr, DecidableEq

def effective (mergeFixed : Bool) (layers : List Layer) : Effective :=
  let m := merge mergeFixed layers
  { trust := m.trust.getD false, entries := m.list.getD [] }

/-- The authorizer configuration (`Options` → parsed CIDRs). -/
def toConfig (e : Effective) : Config := { trust := e.trust, cidrs := e.entries.map parseCidr }

/-- `LoadSettings(args)` under an environment, for the two settings. -/
def load (mergeFixed keepUnusable : Bool) (cliTrust : Option Bool) (cliList : Option (List Char))
    (envTrust envList : List Char) : Effective :=
  effective mergeFixed [cliLayer keepUnusable cliTrust cliList, envLayer keepUnusable envTrust envList]

end Pithos.ProxySettings
