/-
M12 (migrator): `/repo/internal/storage/migrator/migrator.go` over two `S3.State`s.

`MigrateStorage(source, destination)`:
  1. `createMissingBuckets`: every source bucket that the destination lacks is created;
  2. for every source bucket in `ListBuckets` order: if the destination bucket lists any current
     object → `ErrDestinationNotEmpty` (the run stops; what was done so far stays); otherwise every
     *current* object of the source bucket (`ListObjects`) is read (`GetObject`, `GetObjectTagging`)
     and written to the destination through the S3 upload manager and
     `StorageToS3UploadAPIClientAdapter` — one `PutObject`, or `CreateMultipartUpload` /
     `UploadPart`… / `CompleteMultipartUpload` above the uploader's 5 MiB part size.

Which attributes of the source object arrive is not hand-written here: it is *computed* from the
T1 table `Pithos.Gen.MigratorFlow` (regenerated from the Go source on every run) by `flows`:
an attribute is carried iff `migrateSingleObject` assigns the `s3.PutObjectInput` field that
carries it from the right source path AND the adapter hands that input field to the right
parameter/option of the storage call on both the single-put and the multipart path.
The multipart path and the single-put path are observationally the same at the level compared
(content, content type, metadata, tags, class — not ETag), so the model writes with one `put`.
-/
import Pithos.Model.S3
import Pithos.Gen.MigratorFlow

namespace Pithos.Migrator
open Pithos.S3

/-- The attributes of an object the property speaks of. -/
inductive Field where
  | content | contentType | cacheControl | contentDisposition | contentEncoding | contentLanguage
  | expires | websiteRedirect | userMetadata | tags | storageClass
  deriving DecidableEq, Repr

def observableFields : List Field :=
  [.content, .contentType, .cacheControl, .contentDisposition, .contentEncoding, .contentLanguage,
   .expires, .websiteRedirect, .userMetadata, .tags, .storageClass]

def Field.name : Field → String
  | .content => "content" | .contentType => "content-type" | .cacheControl => "cache-control"
  | .contentDisposition => "content-disposition" | .contentEncoding => "content-encoding"
  | .contentLanguage => "content-language" | .expires => "expires" | .websiteRedirect => "website-redirect-location"
  | .userMetadata => "user-metadata" | .tags => "tags" | .storageClass => "storage-class"

/-- The T1 facts, as a value (so theorems can quantify over tables). -/
structure FlowTable where
  inputAssignments : List (String × List String × List String)
  bodySpool : String
  adapterFlows : List (String × String × String)
  /-- per adapter method: identifiers tested by the condition under which its options struct is built -/
  optionGuards : List (String × List String)
  /-- (method, option field, value expression) -/
  optionValues : List (String × String × String)

def genTable : FlowTable :=
  { inputAssignments := Gen.MigratorFlow.inputAssignments, bodySpool := Gen.MigratorFlow.bodySpool,
    adapterFlows := Gen.MigratorFlow.adapterFlows, optionGuards := Gen.MigratorFlow.adapterOptionGuards,
    optionValues := Gen.MigratorFlow.adapterOptionValues }

/-- Where an attribute comes from, which `PutObjectInput` field carries it, and which sink of the
storage call it has to reach on the single-put path and on the multipart path. -/
structure Route where
  src : String
  input : String
  putSink : String
  mpuMethod : String
  mpuSink : String
  /-- the option field of the storage call's options struct that carries it ("" = a plain argument) -/
  optField : String := ""

def route : Field → Route
  | .content => ⟨"tempFile", "Body", "arg:data", "UploadPart", "arg:data", ""⟩
  | .contentType => ⟨"srcObject.ContentType", "ContentType", "arg:contentType", "CreateMultipartUpload", "arg:contentType", ""⟩
  | .cacheControl => ⟨"srcObject.Metadata.CacheControl", "CacheControl", "opt:Metadata.CacheControl", "CreateMultipartUpload", "opt:Metadata.CacheControl", "Metadata"⟩
  | .contentDisposition => ⟨"srcObject.Metadata.ContentDisposition", "ContentDisposition", "opt:Metadata.ContentDisposition", "CreateMultipartUpload", "opt:Metadata.ContentDisposition", "Metadata"⟩
  | .contentEncoding => ⟨"srcObject.Metadata.ContentEncoding", "ContentEncoding", "opt:Metadata.ContentEncoding", "CreateMultipartUpload", "opt:Metadata.ContentEncoding", "Metadata"⟩
  | .contentLanguage => ⟨"srcObject.Metadata.ContentLanguage", "ContentLanguage", "opt:Metadata.ContentLanguage", "CreateMultipartUpload", "opt:Metadata.ContentLanguage", "Metadata"⟩
  | .expires => ⟨"srcObject.Metadata.Expires", "Expires", "opt:Metadata.Expires", "CreateMultipartUpload", "opt:Metadata.Expires", "Metadata"⟩
  | .websiteRedirect => ⟨"srcObject.Metadata.WebsiteRedirectLocation", "WebsiteRedirectLocation", "opt:Metadata.WebsiteRedirectLocation", "CreateMultipartUpload", "opt:Metadata.WebsiteRedirectLocation", "Metadata"⟩
  | .userMetadata => ⟨"srcObject.Metadata.UserMetadata", "Metadata", "opt:Metadata.UserMetadata", "CreateMultipartUpload", "opt:Metadata.UserMetadata", "Metadata"⟩
  | .tags => ⟨"tags", "Tagging", "opt:Tags", "CreateMultipartUpload", "opt:Tags", "Tags"⟩
  | .storageClass => ⟨"srcObject.StorageClass", "StorageClass", "opt:StorageClass", "CreateMultipartUpload", "opt:StorageClass", "StorageClass"⟩

/-- The options struct of `method` is built whenever the attribute is present: the condition guarding
its construction tests the value that carries the attribute (or there is no condition). Without this
an attribute is lost exactly when it is the only one set. -/
def guardOk (t : FlowTable) (method optField : String) : Bool :=
  optField == "" ||
  match t.optionGuards.find? (·.1 == method) with
  | none => false
  | some (_, g) =>
    g.contains "*" ||
    (match t.optionValues.find? (fun v => v.1 == method && v.2.1 == optField) with
     | some (_, _, v) => g.contains v
     | none => false)

/-- `migrateSingleObject` puts the attribute, read from the right place of the source object, into the
field of `s3.PutObjectInput` that carries it. -/
def assigned (t : FlowTable) (f : Field) : Bool :=
  let r := route f
  t.inputAssignments.any (fun a => a.1 == r.input && a.2.1.contains r.src) &&
  (f != .content || t.bodySpool == "tempFile<-readers[0]")

/-- Single-put path (objects up to the uploader's part size): adapter `PutObject`. -/
def flowsPut (t : FlowTable) (f : Field) : Bool :=
  let r := route f
  assigned t f && t.adapterFlows.contains ("PutObject", r.input, r.putSink) && guardOk t "PutObject" r.optField

/-- Multipart path (larger objects): adapter `CreateMultipartUpload` (attributes) / `UploadPart` (content). -/
def flowsMultipart (t : FlowTable) (f : Field) : Bool :=
  let r := route f
  assigned t f && t.adapterFlows.contains (r.mpuMethod, r.input, r.mpuSink) && guardOk t r.mpuMethod r.optField

/-- The attribute flows from the source object into the destination storage call, on both paths. -/
def flows (t : FlowTable) (f : Field) : Bool := flowsPut t f && flowsMultipart t f

def migratedFields (t : FlowTable) : List Field := observableFields.filter (flows t)

/-- Functions applied to the value on its way into the `PutObjectInput` (conversions). -/
def conversions (t : FlowTable) (f : Field) : List String :=
  match t.inputAssignments.find? (fun a => a.1 == (route f).input) with
  | some a => a.2.2
  | none => []

/-- Parameters of a migration run: which attributes are carried, and what happens to an `Expires`
value: `none` = dropped, `some v'` = stored as `v'` (`parseExpires` then `Format(http.TimeFormat)`;
the identity when no conversion is applied). -/
structure Params where
  carried : List Field
  ex : String → Option String

def codeParams (t : FlowTable) (httpDate : String → Option String) : Params :=
  { carried := migratedFields t,
    ex := if (conversions t .expires).contains "parseExpires" then httpDate else some }

/-- Ideal migration: everything carried, nothing converted. -/
def idealParams : Params := { carried := observableFields, ex := some }

def fieldOfMdKey (k : String) : Field :=
  if k == "!cc" then .cacheControl else if k == "!cd" then .contentDisposition
  else if k == "!ce" then .contentEncoding else if k == "!cl" then .contentLanguage
  else if k == "!ex" then .expires else if k == "!wr" then .websiteRedirect else .userMetadata

def carryEntry (P : Params) (p : String × String) : Option (String × String) :=
  if P.carried.contains (fieldOfMdKey p.1) then
    (if p.1 == "!ex" then (P.ex p.2).map fun v' => (p.1, v') else some p)
  else none

def carryMd (P : Params) (md : Pairs) : Pairs := md.filterMap (carryEntry P)

/-- What an object looks like through the storage API, as far as the property is concerned. -/
structure View where
  body : Bytes
  ct : Option String
  md : Pairs
  tags : Pairs
  cls : Option String
  deriving DecidableEq, Repr

def viewOfRow (r : Row) : View := ⟨r.content, r.ct, r.md, r.tags, r.cls⟩

/-- The view that arrives at the destination. -/
def carry (P : Params) (v : View) : View :=
  { body := if P.carried.contains .content then v.body else [],
    ct := if P.carried.contains .contentType then v.ct else none,
    md := carryMd P v.md,
    tags := if P.carried.contains .tags then v.tags else [],
    cls := if P.carried.contains .storageClass then v.cls else none }

def putOfView (b k : String) (v : View) : Op :=
  .put b k v.body { ct := v.ct, md := v.md, tags := v.tags, cls := v.cls } false .none

/-- Current objects of a bucket (`ListObjects`): latest rows that are not delete markers. -/
def currentRows (bk : Bucket) : List Row := bk.rows.filter fun r => r.latest && !r.dm

/-- The current object under a key, as the API shows it. -/
def cur (s : State) (b k : String) : Option View :=
  match findBucket s b with
  | none => none
  | some bk => match latestRow bk k with
    | some r => if r.dm then none else some (viewOfRow r)
    | none => none

def hasCurrent (s : State) (b : String) : Bool :=
  match findBucket s b with
  | some bk => !(currentRows bk).isEmpty
  | none => false

def createMissing (q : Quirks) (d : State) (names : List String) : State :=
  names.foldl (fun d b => if (findBucket d b).isSome then d else (step q d (.mkb b)).1) d

def migrateBucket (q : Quirks) (P : Params) (d : State) (b : String) (rows : List Row) : State :=
  rows.foldl (fun d r => (step q d (putOfView b r.key (carry P (viewOfRow r)))).1) d

structure Result where
  dst : State
  ok : Bool

def migrateBuckets (q : Quirks) (P : Params) : State → List Bucket → Result
  | d, [] => ⟨d, true⟩
  | d, bk :: rest =>
    if hasCurrent d bk.name then ⟨d, false⟩      -- ErrDestinationNotEmpty
    else migrateBuckets q P (migrateBucket q P d bk.name (currentRows bk)) rest

/-- `MigrateStorage`. Buckets are visited in the order `src.buckets` lists them. -/
def migrate (q : Quirks) (P : Params) (src dst : State) : Result :=
  migrateBuckets q P (createMissing q dst (src.buckets.map (·.name))) src.buckets

end Pithos.Migrator
