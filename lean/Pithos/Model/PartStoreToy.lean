/-
Toy instances of the external primitives of the part-store models (`Prims`): identity "compression",
a tagging "envelope", an all-zero "parity", a checksum "hash". They satisfy every hypothesis the C15
theorems make about the primitives (`PrimsOK`, `EC.WF`), which shows those hypotheses are consistent;
the C15 driver runs the model with them (the tie compares API-level observations only, which do not
depend on the choice).

Core Lean only.
-/
import Pithos.Model.PartStore

namespace Pithos.PartStore
open Pithos.Codec

def toyCode : EC.Code where
  parity := fun _ p data => List.replicate p ((data.headD []).map fun _ => 0)
  reconstruct := fun _ _ _ => none
  reconstructAll := fun _ _ _ => none

def toyHash (b : Bytes) : Bytes := List.replicate 31 0 ++ [UInt8.ofNat (b.foldl (fun a x => a + x.toNat) 0)]

/-- plaintext of the last tink segment: first segment 128 KiB − 40 − 16 bytes, later ones 128 KiB − 16 -/
def toyLastSeg (b : Bytes) : Bytes :=
  let first := 128 * 1024 - 40 - 16
  let seg := 128 * 1024 - 16
  if b.length ≤ first then b else
  let rem := (b.length - first) % seg
  if rem = 0 then b.drop (b.length - seg) else b.drop (b.length - rem)

def toyPrims : Prims where
  crc := fun b => b.foldl (fun a x => (a * 31 + x.toNat) % 18446744073709551616) 7
  compress := fun _ b => b
  decompress := fun _ b => some b
  shouldCompress := fun sample _ b => decide (1024 ≤ (b.take sample).length)
  tinkSeal := fun r i b => [0x54, UInt8.ofNat r, UInt8.ofNat i] ++ b
  tinkOpen := fun i x => if x.take 1 == [0x54] && x.getD 2 0 == UInt8.ofNat i then some (x.drop 3) else none
  lastSeg := toyLastSeg
  code := toyCode
  hash := toyHash

end Pithos.PartStore
