/-
M12 (bucket routing) — /repo/internal/storage/middlewares/conditional/conditional.go as a function
over a list of backing storages (`S3.State` each), a map bucket name ↦ storage index and a default
index (`lookupStorage`).

* every call with one bucket argument goes, unchanged, to `storageOf bucket`;
* `ListBuckets` asks the storage of **every map entry** (one call per entry, in Go map order) and
  then the default storage, concatenates and sorts by name — as-is without removing duplicates
  (`Fixes.dedupBuckets = false`), so a storage that is the value of two entries, or the default
  storage mapped explicitly, contributes its buckets once per entry;
* `CopyObject` / `UploadPartCopy` with source and destination on the same storage are that
  storage's own call; across storages the middleware reads the source (`HeadObject`, then
  `GetObject` with the range) from the source bucket's storage and writes to the destination
  bucket's storage with `PutObject(dst, key, contentType, body, nil, nil)` resp.
  `UploadPart(dst, key, uploadId, n, body, nil)`.  As-is (`Fixes.copyCarriesMeta = false`) the
  `PutObject` options are `nil`: the destination gets the content type only — no metadata, no
  tags, no storage class, whatever the directives say. The repaired variant passes what a
  same-storage copy stores (`copyOpts`).

Reads of the *source* storage during a cross-storage copy and `ListBuckets` do not change any
storage state (the per-storage clock of `S3.State` only ticks for calls routed to it).
Core Lean only.
-/
import Pithos.Model.S3Ext

namespace Pithos.Routing
open Pithos.S3 Pithos.S3Ext

structure Cfg where
  map  : List (String × Nat)    -- bucketToStorageMap (one entry per bucket name)
  dflt : Nat                    -- index of the default storage
  deriving Repr, DecidableEq, Inhabited

/-- `lookupStorage`. -/
def storageOf (c : Cfg) (b : String) : Nat :=
  match c.map.lookup b with
  | some i => i
  | none => c.dflt

/-- Switches between the code as it is and the proposed repairs. -/
structure Fixes where
  /-- cross-storage CopyObject passes metadata, tags and storage class to PutObject
      (fixes/C24-cross-copy-carries-metadata.patch) -/
  copyCarriesMeta : Bool
  /-- ListBuckets reports every bucket name once (fixes/C24-list-buckets-dedup.patch) -/
  dedupBuckets : Bool
  deriving Repr, DecidableEq

def Fixes.asIs : Fixes := ⟨false, false⟩
def Fixes.repaired : Fixes := ⟨true, true⟩
/-- What /repo does today — the variant the driver's tie compares the implementation with.
FLIP HERE when a fix is committed: `copyCarriesMeta := true` with
fixes/C24-cross-copy-carries-metadata.patch, `dedupBuckets := true` with
fixes/C24-list-buckets-dedup.patch. (The theorems speak of `asIs` / `repaired`, never of `code`.) -/
def Fixes.code : Fixes := { copyCarriesMeta := true, dedupBuckets := true }

abbrev Stores := List State

def getS (ss : Stores) (i : Nat) : State := ss.getD i {}

/-- How a call is routed. -/
inductive Route where
  | bucket (b : String)            -- one bucket argument
  | copy (sb db : String)          -- source and destination bucket
  | global                         -- ListBuckets
  deriving Repr, DecidableEq

def routeBase : Op → Route
  | .mkb b | .rmb b | .setVer b _ | .put b _ _ _ _ _ | .get b _ _ | .head b _ _ | .del b _ _ _
  | .append b _ _ _ | .mpu b _ _ | .uploadPart b _ _ _ _ | .complete b _ _ _ _ _ | .abort b _ _
  | .getTags b _ _ | .putTags b _ _ _ | .delTags b _ _ | .transition b _ _ _ | .list b
  | .listVersions b => .bucket b
  | .copy sb _ _ db _ _ _ _ => .copy sb db
  | .listBuckets => .global

def route : XOp → Route
  | .base op => routeBase op
  | .partCopy sb _ _ db _ _ _ _ => .copy sb db
  | .delMany b _ => .bucket b

/-- The metadata a same-storage `CopyObject` stores with the destination (the expression inside
`S3.step`'s `.copy` case; `copy_uses_copyOpts` in Lemmas/Routing.lean proves they coincide). -/
def copyOpts (replaceMeta replaceTags : Bool) (o : WriteOpts) (src : Row) : WriteOpts :=
  let strip (m : Pairs) : Pairs := m.filter fun p => p.1 != "!wr"
  let wr : Pairs := o.md.filter fun p => p.1 == "!wr"
  { ct := if replaceMeta then o.ct else src.ct
    md := if replaceMeta then o.md else sortBy (fun a b => a.1 < b.1) (strip src.md ++ wr)
    tags := if replaceTags then o.tags else src.tags
    cls := o.cls }

/-- The `PutObject` options of a cross-storage copy. -/
def crossOpts (fx : Fixes) (replaceMeta replaceTags : Bool) (o : WriteOpts) (src : Row) : WriteOpts :=
  if fx.copyCarriesMeta then copyOpts replaceMeta replaceTags o src
  else { ct := if replaceMeta then o.ct else src.ct }

/-- Remove repeated names, keeping the first occurrence. -/
def dedupFrom (seen : List String) : List String → List String
  | [] => []
  | x :: xs => if seen.contains x then dedupFrom seen xs else x :: dedupFrom (x :: seen) xs

def dedup (l : List String) : List String := dedupFrom [] l

/-- The storages `ListBuckets` asks, in order: one per map entry, then the default. -/
def listSources (c : Cfg) : List Nat := c.map.map (·.2) ++ [c.dflt]

def bucketNames (s : State) : List String := s.buckets.map (·.name)

def listBuckets (fx : Fixes) (c : Cfg) (ss : Stores) : List String :=
  let all := (listSources c).flatMap fun i => bucketNames (getS ss i)
  sortBy (· < ·) (if fx.dedupBuckets then dedup all else all)

structure RoutedOut where
  out : XOut
  /-- storages that received a call, in call order (the tie compares this with the recorders) -/
  called : List Nat
  deriving Repr, Inhabited

/-- A cross-storage copy: read from `si`, write to `di` (`si ≠ di`). -/
def crossCopy (fx : Fixes) (q : Quirks) (ss : Stores) (si di : Nat) : XOp → Stores × RoutedOut
  | .base (.copy sb sk svid db dk replaceMeta replaceTags o) =>
    match readSource (getS ss si) sb sk svid with
    | .error e => (ss, ⟨.base (.err e), [si]⟩)
    | .ok src =>
      let (d', out) := step q (getS ss di)
        (.put db dk src.content (crossOpts fx replaceMeta replaceTags o src) false .none)
      (ss.set di d', ⟨.base out, [si, di]⟩)
  | .partCopy sb sk svid db dk uid n range =>
    match readSource (getS ss si) sb sk svid with
    | .error e => (ss, ⟨.base (.err e), [si]⟩)
    | .ok src =>
      match sliceOf src.content range with
      | .error e => (ss, ⟨.base (.err e), [si]⟩)
      | .ok body =>
        let (d', out) := step q (getS ss di) (.uploadPart db dk uid n body)
        (ss.set di d', ⟨.base out, [si, di]⟩)
  | _ => (ss, ⟨.base (.err .other), []⟩)     -- not a copy: unreachable from `rstep`

def rstep (fx : Fixes) (q : Quirks) (c : Cfg) (ss : Stores) (op : XOp) : Stores × RoutedOut :=
  match route op with
  | .bucket b =>
    let i := storageOf c b
    let (s', out) := xstep q (getS ss i) op
    (ss.set i s', ⟨out, [i]⟩)
  | .copy sb db =>
    let si := storageOf c sb
    let di := storageOf c db
    if si == di then
      let (s', out) := xstep q (getS ss di) op
      (ss.set di s', ⟨out, [di]⟩)
    else crossCopy fx q ss si di op
  | .global => (ss, ⟨.base (.buckets (listBuckets fx c ss)), listSources c⟩)

def rrun (fx : Fixes) (q : Quirks) (c : Cfg) (ss : Stores) : List XOp → Stores × List RoutedOut
  | [] => (ss, [])
  | op :: ops =>
    let (s1, o) := rstep fx q c ss op
    let (s2, os) := rrun fx q c s1 ops
    (s2, o :: os)

-- ---------------------------------------------------------------- copy-source conditions

/-- An `x-amz-copy-source-if-match` / `-if-none-match` header as seen against the source object:
absent, `*`, the source's ETag, or some other ETag. -/
inductive TagCond where
  | none | star | same | other
  deriving Repr, DecidableEq, Inhabited

/-- The copy-source preconditions of a CopyObject / UploadPartCopy. The two time conditions are
given **relative to the source's Last-Modified truncated to the second** (milliseconds; negative =
the header names an earlier instant), which is all the evaluation depends on. -/
structure CopyCond where
  im  : TagCond := .none
  inm : TagCond := .none
  ius : Option Int := none      -- If-Unmodified-Since − ⌊Last-Modified⌋
  ims : Option Int := none      -- If-Modified-Since − ⌊Last-Modified⌋
  deriving Repr, DecidableEq, Inhabited

def CopyCond.isNone (c : CopyCond) : Bool := c == {}

/-- `metadatapart.evaluateCopySourceConditions` (object_read.go), the evaluator of a copy inside
one storage. `lastModified.After(since)` ⇔ `since − ⌊lastModified⌋ < 0`. -/
def condOkSame (c : CopyCond) : Bool :=
  let imPassed := c.im == .star || c.im == .same
  if c.im != .none && !imPassed then false
  else if c.inm == .star || c.inm == .same then false
  else if c.ius.any (fun d => !(c.im != .none && imPassed) && decide (d < 0)) then false
  else if c.ims.any (fun d => !decide (d < 0)) then false
  else true

/-- `conditional.copySourceConditionsSatisfied` (conditional.go), the evaluator of the cross-storage
branch — a second copy of the same code, evaluated against the `HeadObject` of the source. -/
def condOkCross (c : CopyCond) : Bool :=
  let ifMatchPassed := c.im == .star || c.im == .same
  if c.im != .none && !ifMatchPassed then false
  else if c.inm == .star || c.inm == .same then false
  else if c.ius.any (fun d => !(c.im != .none && ifMatchPassed) && decide (d < 0)) then false
  else if c.ims.any (fun d => !decide (d < 0)) then false
  else true

/-- The source a copy call reads. -/
def copySource : XOp → Option (String × String × Option (Option Nat))
  | .base (.copy sb sk svid _ _ _ _ _) => some (sb, sk, svid)
  | .partCopy sb sk svid _ _ _ _ _ => some (sb, sk, svid)
  | _ => none

/-- A copy with preconditions inside one storage (`metadatapart.CopyObject` / `UploadPartCopy`):
the source is resolved first (its errors win), then the preconditions, then the copy. Calls that
are not copies ignore `cond`. -/
def xstepIf (q : Quirks) (s : State) (cond : CopyCond) (op : XOp) : State × XOut :=
  match copySource op with
  | none => xstep q s op
  | some (sb, sk, svid) =>
    match readSource s sb sk svid with
    | .error _ => xstep q s op
    | .ok _ => if condOkSame cond then xstep q s op else (tick s, .base (.err .preconditionFailed))

/-- The middleware on a call with copy-source preconditions: same storage → that storage's call;
across storages `readSourceForCopy` evaluates them itself after `HeadObject`, before `GetObject`. -/
def rstepIf (fx : Fixes) (q : Quirks) (c : Cfg) (ss : Stores) (cond : CopyCond) (op : XOp) : Stores × RoutedOut :=
  match route op, copySource op with
  | .copy sb db, some (_, sk, svid) =>
    let si := storageOf c sb
    let di := storageOf c db
    if si == di then
      let (s', out) := xstepIf q (getS ss di) cond op
      (ss.set di s', ⟨out, [di]⟩)
    else
      match readSource (getS ss si) sb sk svid with
      | .error _ => rstep fx q c ss op
      | .ok _ =>
        if condOkCross cond then rstep fx q c ss op
        else (ss, ⟨.base (.err .preconditionFailed), [si]⟩)
  | _, _ => rstep fx q c ss op

/-- The storages whose state a call may change. -/
def targets (c : Cfg) (op : XOp) : List Nat :=
  match route op with
  | .bucket b => [storageOf c b]
  | .copy _ db => [storageOf c db]
  | .global => []

/-- The storages whose state a call's answer may depend on. -/
def sources (c : Cfg) (op : XOp) : List Nat :=
  match route op with
  | .bucket b => [storageOf c b]
  | .copy sb db => [storageOf c sb, storageOf c db]
  | .global => listSources c

/-- A row with its part structure and ETag forgotten: what remains is what C24 compares between a
cross-storage and a same-storage copy (content, content type, metadata, tags, storage class) —
and everything else a row has. -/
def flattenRow (r : Row) : Row := { r with parts := [r.content], etag := ⟨false, []⟩, seqBase := 0 }
def flattenBucket (b : Bucket) : Bucket := { b with rows := b.rows.map flattenRow }
/-- … and the storage's logical clock (a failed call ticks it; it is not observable). -/
def flatten (s : State) : State := { s with buckets := s.buckets.map flattenBucket, clock := 0 }

/-- The caller-visible outcome of a write, without the ETag: the error, or the new version id. -/
def writeOutcome : XOut → Option (Except Err (Option Nat))
  | .base (.err e) => some (.error e)
  | .base (.wrote vid _) => some (.ok vid)
  | _ => none

end Pithos.Routing
