/-
M12 (replication) — /repo/internal/storage/replication/replication.go as a function over a primary
`S3.State`, a list of secondary `S3.State`s and the in-memory map
`primaryUploadIdToSecondaryUploadIds`.

Per call (`rstep`):
 1. the call runs on the primary with the caller's arguments; an error is returned as is and
    nothing is forwarded;
 2. reads (`GetObject`, `HeadObject`, `GetObjectTagging`, listings) are not overridden: they go to
    the primary only (delegator);
 3. every other call is forwarded to the secondaries **in order, stopping at the first error**
    (which is what the caller then gets), with the arguments `fwd` describes:
      PutObject              content type, body, tags, metadata, storage class — the conditional
                             options If-None-Match:* / If-Match are dropped
      AppendObject           body only — the write offset is dropped (`opts = nil`)
      CompleteMultipartUpload  the declared part list only — conditional options dropped; the
                             upload id is the secondary's own
      UploadPart / UploadPartCopy / AbortMultipartUpload   the secondary's own upload id
      CreateMultipartUpload  unchanged; the upload ids the secondaries answer are recorded under
                             the primary's upload id
      everything else (CreateBucket, DeleteBucket, PutBucketVersioning, CopyObject,
      DeleteObject(s), Put/DeleteObjectTagging, TransitionObjectStorageClass)   unchanged,
                             including explicit version ids and If-Match values;
 4. the id map entry is removed after a successful Complete/Abort. A lookup of a primary upload id
    that has no entry yields Go's nil slice; indexing it panics (`mapMiss`), after the primary has
    already been changed.

Core Lean only.
-/
import Pithos.Model.S3Ext

namespace Pithos.Replication
open Pithos.S3 Pithos.S3Ext

/-- Calls `replicationStorage` overrides (everything but the reads). -/
def forwardedBase : Op → Bool
  | .get .. | .head .. | .getTags .. | .list .. | .listVersions .. | .listBuckets => false
  | _ => true

def forwarded : XOp → Bool
  | .base op => forwardedBase op
  | _ => true

def uidOfBase : Op → Option Nat
  | .uploadPart _ _ u _ _ => some u
  | .complete _ _ u _ _ _ => some u
  | .abort _ _ u => some u
  | _ => none

/-- The primary upload id a call carries (looked up in the id map before forwarding). -/
def uidOf : XOp → Option Nat
  | .base op => uidOfBase op
  | .partCopy _ _ _ _ _ u _ _ => some u
  | .delMany _ _ => none

/-- `completeMultipartUploadPartsOnlyOptions`. -/
def partsOnly : Option (List Nat) → Option (List Nat)
  | some [] => none
  | d => d

/-- The arguments a secondary receives; `u'` is that secondary's upload id. -/
def fwdBase (u' : Nat) : Op → Op
  | .put b k body o _ _ => .put b k body o false .none
  | .append b k body _ => .append b k body none
  | .uploadPart b k _ n body => .uploadPart b k u' n body
  | .complete b k _ declared _ _ => .complete b k u' (partsOnly declared) false .none
  | .abort b k _ => .abort b k u'
  | op => op

def fwd (u' : Nat) : XOp → XOp
  | .base op => .base (fwdBase u' op)
  | .partCopy sb sk v db dk _ n r => .partCopy sb sk v db dk u' n r
  | op => op

structure RState where
  primary : State := {}
  secs    : List State := []
  /-- primary upload id ↦ the upload id of every secondary (one entry per primary id) -/
  umap    : List (Nat × List Nat) := []
  deriving Repr, Inhabited

def init (n : Nat) : RState := { secs := List.replicate n {} }

/-- Forward one call to the secondaries in order. `us` are their upload ids (`needUid`: the call
carries one — indexing past the end of `us` is the Go panic). Returns the new secondary states,
their answers up to and including the first error, and whether the lookup panicked. -/
def forwardAll (q : Quirks) (op : XOp) (needUid : Bool) : List State → List Nat → List State × List XOut × Bool
  | [], _ => ([], [], false)
  | s :: rest, us =>
    if needUid && us.isEmpty then (s :: rest, [], true)
    else
      let (s', o) := xstep q s (fwd (us.headD 0) op)
      if o.isErr then (s' :: rest, [o], false)
      else
        let (rest', os, m) := forwardAll q op needUid rest us.tail
        (s' :: rest', o :: os, m)

def uploadUid : XOut → Option Nat
  | .base (.upload u) => some u
  | _ => none

def isMpu : XOp → Bool
  | .base (.mpu ..) => true
  | _ => false

def endsUpload : XOp → Bool
  | .base (.complete ..) | .base (.abort ..) => true
  | _ => false

structure ROut where
  /-- what the caller gets: the primary's answer, or the first error of a secondary -/
  out      : XOut
  primary  : XOut
  secs     : List XOut := []
  mapMiss  : Bool := false
  deriving Repr, Inhabited

def rstep (q : Quirks) (rs : RState) (op : XOp) : RState × ROut :=
  let (p', po) := xstep q rs.primary op
  if po.isErr || !forwarded op then
    ({ rs with primary := p' }, { out := po, primary := po })
  else
    let us : List Nat := match uidOf op with
      | none => []
      | some u => (rs.umap.lookup u).getD []
    let (secs', outs, miss) := forwardAll q op (uidOf op).isSome rs.secs us
    let failed := outs.find? (·.isErr)
    let done := failed.isNone && !miss
    let umap' :=
      if !done then rs.umap
      else if isMpu op then
        match uploadUid po with
        | some pu => (pu, outs.filterMap uploadUid) :: rs.umap.filter (·.1 != pu)
        | none => rs.umap
      else if endsUpload op then
        match uidOf op with
        | some u => rs.umap.filter (·.1 != u)
        | none => rs.umap
      else rs.umap
    ({ primary := p', secs := secs', umap := umap' },
     { out := failed.getD po, primary := po, secs := outs, mapMiss := miss })

def rrun (q : Quirks) (rs : RState) : List XOp → RState × List ROut
  | [] => (rs, [])
  | op :: ops =>
    let (r1, o) := rstep q rs op
    let (r2, os) := rrun q r1 ops
    (r2, o :: os)

-- ---------------------------------------------------------------- equivalence of replicas

/-- Forget what differs legitimately between replicas: every timestamp. (Version ids, upload ids
and row ids are creation *ordinals* in the model and therefore agree between storages that saw
the same successful calls; the real ids differ and are canonicalised to ordinals by the harness.) -/
def eraseRow (r : Row) : Row := { r with created := 0, updated := 0, wrote := 0 }
def eraseUpload (u : Upload) : Upload := { u with created := 0 }
def eraseBucket (b : Bucket) : Bucket :=
  { b with rows := b.rows.map eraseRow, uploads := b.uploads.map eraseUpload }
def erase (s : State) : State := { s with buckets := s.buckets.map eraseBucket, clock := 0 }

/-- `s ≈ t`: equal up to timestamps. Implies equality of everything C23 names (`observe`). -/
def Equiv (s t : State) : Prop := erase s = erase t

instance (s t : State) : Decidable (Equiv s t) := inferInstanceAs (Decidable (erase s = erase t))

/-- An answer without its timestamps (Last-Modified of an object view / of listed versions). -/
def eraseOut : Out → Out
  | .obj v => .obj { v with updated := 0 }
  | .versions l => .versions (l.map fun v => { v with updated := 0 })
  | o => o

def eraseXOut : XOut → XOut
  | .base o => .base (eraseOut o)
  | .many os => .many (os.map eraseOut)

/-- The replicas agree with the primary. -/
def Converged (rs : RState) : Prop := ∀ s ∈ rs.secs, Equiv rs.primary s

instance (rs : RState) : Decidable (Converged rs) :=
  inferInstanceAs (Decidable (∀ s ∈ rs.secs, Equiv rs.primary s))

end Pithos.Replication
