/-
M6 (part 1): the byte-level codecs of the part stores and their middlewares.

* `chunks n bs` — how `sql.PutPart` (n = 256 000 000) and `outbox.PutPart` (n = 8 MiB) cut a stream
  into rows (`ioutils.ReadChunk` in a loop: no row for an empty remainder), and `concat` = how the lazy
  chunk readers put them together again.
* `be16/be32/be64` — big-endian fixed-width fields (`encoding/binary.BigEndian`).
* the self-describing compression header of `compression.go` (`newHeader` / `parseHeader`), with the
  CRC-64 as a parameter.
* `stripe/unstripe` — how `erasurecoding.PutPart` cuts one stripe into `d` equally long data shards
  (zero padded) and how the read loop glues them together again (`dataBytes` truncation).

Core Lean only.
-/
namespace Pithos.Codec

abbrev Bytes := List UInt8

/-! ## chunking -/

/-- `ioutils.ReadChunk` in a loop with explicit fuel: full rows of `n` bytes, then the non-empty
remainder; no row at all for an empty input. -/
def chunksF : Nat → Nat → Bytes → List Bytes
  | 0, _, _ => []
  | f + 1, n, bs => if bs.isEmpty then [] else bs.take n :: chunksF f n (bs.drop n)

/-- `n = 0` never happens in the code (the sizes are constants); the model then returns the whole
input as one row so that the function stays total. For `n > 0` every row removes at least one byte,
so `bs.length` is enough fuel. -/
def chunks (n : Nat) (bs : Bytes) : List Bytes :=
  if n = 0 then (if bs.isEmpty then [] else [bs]) else chunksF bs.length n bs

def concat (cs : List Bytes) : Bytes := cs.flatten

/-! ## big-endian fields -/

/-- The low `w` bytes of `v`, most significant first. -/
def beN : Nat → Nat → Bytes
  | 0, _ => []
  | w + 1, v => UInt8.ofNat (v / 256 ^ w % 256) :: beN w v

def be16 (v : Nat) : Bytes := beN 2 v
def be32 (v : Nat) : Bytes := beN 4 v
def be64 (v : Nat) : Bytes := beN 8 v

def fromBE (bs : Bytes) : Nat := bs.foldl (fun acc b => acc * 256 + b.toNat) 0

/-! ## compression header (compression.go) -/

inductive Alg where
  | none | gzip | zstd
  deriving Repr, DecidableEq

def Alg.id : Alg → UInt8
  | .none => 0 | .gzip => 1 | .zstd => 2

def Alg.ofId (b : UInt8) : Option Alg :=
  if b = 0 then some .none else if b = 1 then some .gzip else if b = 2 then some .zstd else none

def headerMagic : Bytes :=
  [0x4d, 0x2b, 0x0a, 0xdc, 0xee, 0x7c, 0x44, 0xa8, 0xb0, 0x49, 0x98, 0x06, 0x7b, 0x5b, 0x84, 0x50]

def headerVersion : UInt8 := 1
def headerSize : Nat := 32
def headerPrefixSize : Nat := 24

/-- bytes 0‥23 of the header: magic, version, algorithm id, flags 0, five reserved zero bytes. -/
def headerPrefix (a : Alg) : Bytes :=
  headerMagic ++ [headerVersion, a.id, 0] ++ List.replicate 5 0

/-- `newHeader`: prefix followed by the big-endian CRC-64 of the prefix. `crc` is the checksum as a
number (`crc64.Checksum(…, ECMA)`), reduced to 64 bits by the encoding. -/
def newHeader (crc : Bytes → Nat) (a : Alg) : Bytes :=
  headerPrefix a ++ be64 (crc (headerPrefix a))

/-- `parseHeader` on exactly 32 bytes: `none` = "not a header" (the caller then treats the stream as
legacy, unframed content). -/
def parseHeader (crc : Bytes → Nat) (h : Bytes) : Option Alg :=
  if h.length ≠ headerSize then none else
  if h.take 16 ≠ headerMagic then none else
  if h.getD 16 0 ≠ headerVersion then none else
  if h.getD 18 0 ≠ 0 then none else
  if (h.take headerPrefixSize).drop 19 ≠ List.replicate 5 0 then none else
  if be64 (crc (h.take headerPrefixSize)) ≠ h.drop headerPrefixSize then none else
  Alg.ofId (h.getD 17 0)

/-! ## erasure-coding stripes -/

/-- `shardLen := (n + d - 1) / d`. -/
def shardLen (d n : Nat) : Nat := (n + d - 1) / d

/-- `bs` padded with zero bytes to length `n` (never truncates). -/
def padTo (n : Nat) (bs : Bytes) : Bytes := bs ++ List.replicate (n - bs.length) 0

/-- The `d` data shards of one stripe `x` (`copy(shards[i], stripeBuf[start:end])` into zeroed buffers). -/
def stripe (d : Nat) (x : Bytes) : List Bytes :=
  let L := shardLen d x.length
  (List.range d).map fun i => padTo L ((x.drop (i * L)).take L)

/-- The read loop's output for one stripe: the data shards glued together, cut to `dataBytes` when
that is smaller. -/
def unstripe (dataBytes : Nat) (shards : List Bytes) : Bytes :=
  let out := shards.flatten
  if dataBytes < out.length then out.take dataBytes else out

end Pithos.Codec
