/-
M4 (part 1): checksum arithmetic of /repo/internal/checksumutils/checksumutils.go.

* a bit-level *reflected* CRC over `BitVec n` for an arbitrary width `n` and (reflected)
  polynomial — the definition Go's table/slicing/hardware `hash/crc32`, `hash/crc64` realise
  (tied by the C35 harness against the standard library);
* `gf2_matrix_times`, `gf2_matrix_square`, `combine`, `encode_to_bytes`, `bitrev`,
  `createCombineFunction`, `CombineCrc32/32c/64Nvme` mirrored statement by statement
  (Go's `uint64` carrier is `BitVec sizeBits` here: every value the Go code puts into a matrix or
  a register is `< 2^sizeBits`; byte slices are `List UInt8`);
* the block dispatcher of `parallelHashWriter` (`Write` / `dispatchActive` / `Flush`) with the
  block size as a parameter. The goroutines, the two ping-pong buffers and the wait groups are
  not modelled: the model says *which* byte blocks every hash is handed and in which order.

Core Lean only.
-/
namespace Pithos.Checksum

/-! ## bit-level reflected CRC -/

/-- `iter f k x = f (f (… x))`, `k` times. -/
def iter {α : Type} (f : α → α) : Nat → α → α
  | 0, x => x
  | k + 1, x => iter f k (f x)

/-- One zero bit through the reflected register: shift right, xor the polynomial when the bit
shifted out was set. -/
def shift1 {n : Nat} (P s : BitVec n) : BitVec n :=
  if s.getLsbD 0 then (s >>> 1) ^^^ P else s >>> 1

/-- One message byte: xor into the low byte, eight bit steps. -/
def stepByte {n : Nat} (P s : BitVec n) (b : UInt8) : BitVec n :=
  iter (shift1 P) 8 (s ^^^ BitVec.ofNat n b.toNat)

/-- The raw register after the bytes `bs`, starting from `s`. -/
def raw {n : Nat} (P s : BitVec n) (bs : List UInt8) : BitVec n :=
  bs.foldl (stepByte P) s

/-- A CRC variant: reflected polynomial, initial register, final xor. -/
structure Params (n : Nat) where
  poly   : BitVec n
  init   : BitVec n
  xorOut : BitVec n

def crc {n : Nat} (p : Params n) (bs : List UInt8) : BitVec n :=
  raw p.poly p.init bs ^^^ p.xorOut

/-- CRC-32 (IEEE 802.3), `crc32.NewIEEE()`. -/
def crc32IEEE : Params 32 := ⟨0xEDB88320#32, 0xFFFFFFFF#32, 0xFFFFFFFF#32⟩
/-- CRC-32C (Castagnoli), `crc32.New(crc32.MakeTable(crc32.Castagnoli))`. -/
def crc32C : Params 32 := ⟨0x82F63B78#32, 0xFFFFFFFF#32, 0xFFFFFFFF#32⟩
/-- CRC-64/NVME, `crc64.New(crc64.MakeTable(0x9a6c9329ac4bc9b5))`. -/
def crc64NVME : Params 64 := ⟨0x9a6c9329ac4bc9b5#64, 0xFFFFFFFFFFFFFFFF#64, 0xFFFFFFFFFFFFFFFF#64⟩

/-! ## big-endian byte encodings (`hash.Hash.Sum`, `binary.BigEndian`) -/

/-- `binary.BigEndian.Uint32/Uint64` on a slice of exactly 4 / 8 bytes (any length here). -/
def decodeBE (bs : List UInt8) : Nat :=
  bs.foldl (fun acc b => acc * 256 + b.toNat) 0

/-- `binary.BigEndian.PutUint32/PutUint64`: the low `k` bytes of `v`, most significant first. -/
def encodeBE : Nat → Nat → List UInt8
  | 0, _ => []
  | k + 1, v => encodeBE k (v / 256) ++ [UInt8.ofNat (v % 256)]

/-- `h.Sum(nil)` of a CRC hash of width `n = 8·bytes`. -/
def sumBE {n : Nat} (p : Params n) (bs : List UInt8) : List UInt8 :=
  encodeBE (n / 8) (crc p bs).toNat

/-! ## `combine` and its matrices (checksumutils.go, ported from zlib via localstack) -/

/-- `gf2_matrix_times`: `for vec != 0 { if vec&1 != 0 { summary ^= mat[i] }; vec >>= 1; i++ }`.
Running off the end of `mat` with `vec ≠ 0` is an index panic in Go; with `n` rows and an `n`-bit
vector it cannot happen (the loop ends after at most `n` shifts). -/
def gf2MatrixTimesAux {n : Nat} : List (BitVec n) → BitVec n → BitVec n → BitVec n
  | [], _, summary => summary
  | row :: rest, vec, summary =>
    if vec = 0#n then summary
    else gf2MatrixTimesAux rest (vec >>> 1) (if vec.getLsbD 0 then summary ^^^ row else summary)

def gf2MatrixTimes {n : Nat} (mat : List (BitVec n)) (vec : BitVec n) : BitVec n :=
  gf2MatrixTimesAux mat vec 0#n

/-- `gf2_matrix_square`: `square[k] = gf2_matrix_times(mat, mat[k])`. -/
def gf2MatrixSquare {n : Nat} (mat : List (BitVec n)) : List (BitVec n) :=
  mat.map (gf2MatrixTimes mat)

/-- `row := 1; for k := 1; k < sizeBits; k++ { odd[k] = row; row <<= 1 }`. -/
def mkRows {n : Nat} : Nat → BitVec n → List (BitVec n)
  | 0, _ => []
  | k + 1, row => row :: mkRows k (row <<< 1)

/-- The `for { … }` loop of `combine`. `fuel` bounds the number of iterations (each iteration
shifts `len2` right at least once, so `fuel = len2` is always enough). `even`/`odd` are threaded
exactly as in Go (the incoming `even` is overwritten before it is read). -/
def combineLoop {n : Nat} : Nat → List (BitVec n) → List (BitVec n) → BitVec n → Nat → BitVec n
  | 0, _, _, crc1, _ => crc1
  | fuel + 1, _even, odd, crc1, len2 =>
    let even := gf2MatrixSquare odd
    let crc1 := if len2 % 2 = 1 then gf2MatrixTimes even crc1 else crc1
    let len2 := len2 / 2
    if len2 = 0 then crc1 else
    let odd := gf2MatrixSquare even
    let crc1 := if len2 % 2 = 1 then gf2MatrixTimes odd crc1 else crc1
    let len2 := len2 / 2
    if len2 = 0 then crc1 else
    combineLoop fuel even odd crc1 len2

/-- `combine(poly, sizeBits, init_crc, xorOut, crc1, crc2, len2)` before `encode_to_bytes`. -/
def combine {n : Nat} (poly initCrc xorOut crc1 crc2 : BitVec n) (len2 : Nat) : BitVec n :=
  if len2 = 0 then crc1 else
  let crc1 := crc1 ^^^ (initCrc ^^^ xorOut)
  let odd := poly :: mkRows (n - 1) 1#n     -- odd[0] = poly; odd[k] = 1 << (k-1)
  let even := gf2MatrixSquare odd           -- two zero bits
  let odd := gf2MatrixSquare even           -- four zero bits
  let crc1 := combineLoop len2 even odd crc1 len2
  crc1 ^^^ crc2

/-- `bitrev(x, n)`: reverse the low `n` bits. -/
def bitrevLoop : Nat → Nat → Nat → Nat
  | 0, _, y => y
  | k + 1, x, y => bitrevLoop k (x >>> 1) ((y <<< 1) ||| (x &&& 1))

def bitrev (x n : Nat) : Nat := bitrevLoop n x 0

/-- `encode_to_bytes`: 8 bytes for 64, 4 bytes for 32, panic otherwise (`none`). -/
def encodeToBytes (crc : Nat) (sizeBits : Nat) : Option (List UInt8) :=
  if sizeBits = 64 then some (encodeBE 8 crc)
  else if sizeBits = 32 then some (encodeBE 4 crc)   -- uint32(crc): `encodeBE 4` only reads the low 4 bytes
  else none

/-- `createCombineFunction(poly, sizeBits, xorOut)(crc1, crc2, len2)`. `poly` is given in normal
(MSB-first) form, possibly with the leading `x^sizeBits` term; `initCrc` is the constant 0 of the
Go code, so the register initial value handed to `combine` is `0 ^ xorOut`. -/
def createCombine (poly sizeBits xorOut : Nat) (crc1 crc2 : List UInt8) (len2 : Nat) :
    Option (List UInt8) :=
  let initCrc := 0
  let mask := 2 ^ sizeBits - 1
  let poly := bitrev (poly &&& mask) sizeBits
  let c1 := decodeBE crc1
  let c2 := decodeBE crc2
  let r := combine (BitVec.ofNat sizeBits poly) (BitVec.ofNat sizeBits (initCrc ^^^ xorOut))
    (BitVec.ofNat sizeBits xorOut) (BitVec.ofNat sizeBits c1) (BitVec.ofNat sizeBits c2) len2
  encodeToBytes r.toNat sizeBits

def combineCrc32 (a b : List UInt8) (bLen : Nat) : Option (List UInt8) :=
  createCombine 0x104C11DB7 32 0xFFFFFFFF a b bLen
def combineCrc32c (a b : List UInt8) (bLen : Nat) : Option (List UInt8) :=
  createCombine 0x1EDC6F41 32 0xFFFFFFFF a b bLen
def combineCrc64Nvme (a b : List UInt8) (bLen : Nat) : Option (List UInt8) :=
  createCombine 0xAD93D23594C93659 64 0xFFFFFFFFFFFFFFFF a b bLen

/-! ## `parallelHashWriter`: which blocks the hashes are handed -/

/-- Dispatcher state: the filled prefix of the active buffer and the blocks handed to every hash
worker so far (oldest first). -/
structure Phw where
  fill : List UInt8 := []
  out  : List (List UInt8) := []
  deriving Repr

/-- `dispatchActive`: nothing when the buffer is empty, else hand `bufs[active][:fill]` over. -/
def Phw.dispatchActive (w : Phw) : Phw :=
  if w.fill.isEmpty then w else { fill := [], out := w.out ++ [w.fill] }

/-- `Write(p)`: `for len(p) > 0 { n := copy(buf[fill:], p); fill += n; p = p[n:]; if fill == B
{ dispatchActive() } }`. `fuel` bounds the iterations (`p.length` suffices while `fill < B`). -/
def Phw.writeLoop (B : Nat) : Nat → Phw → List UInt8 → Phw
  | 0, w, _ => w
  | fuel + 1, w, p =>
    if p.isEmpty then w else
    let k := min (B - w.fill.length) p.length       -- what `copy` transfers
    let w1 : Phw := { w with fill := w.fill ++ p.take k }
    let w2 := if w1.fill.length = B then w1.dispatchActive else w1
    Phw.writeLoop B fuel w2 (p.drop k)

def Phw.write (B : Nat) (w : Phw) (p : List UInt8) : Phw := Phw.writeLoop B p.length w p

/-- `Flush`: dispatch the tail (then wait — not modelled). -/
def Phw.flush (w : Phw) : Phw := w.dispatchActive

/-- All blocks a hash has been handed after the given sequence of `Write`s and a `Flush`. -/
def dispatched (B : Nat) (writes : List (List UInt8)) : List (List UInt8) :=
  ((writes.foldl (Phw.write B) {}).flush).out

/-- `hashBlockSize`. -/
def hashBlockSize : Nat := 256 * 1024

end Pithos.Checksum
