/-
M1 — the object/version state machine of the metadata+part storage at the `storage.Storage` API
(/repo/internal/storage/metadatapart/*.go + metadatastore/sql/*.go + the object repository).

The model is *code-shaped*: it keeps one record per row of the `objects` table (completed
versions, delete markers) with the `is_latest` flag, `created_at`, `updated_at` as logical
sequence numbers, and pending uploads separately. Part contents are kept inline (`parts`), which
abstracts every part-store composition to "GetPart returns what PutPart stored" (C15).

`Quirks` switches between what the code does today and the reference S3 behaviour the
properties speak of; `Quirks.code` must agree with the implementation (tie T2), theorems are
stated for both (see Props/C01, C02, C11, C12, C13, C14).
-/
namespace Pithos.S3

abbrev Bytes := List UInt8
abbrev Pairs := List (String × String)   -- kept sorted by key (canonical)

inductive Versioning where
  | off | enabled | suspended
  deriving Repr, DecidableEq, Inhabited

/-- Symbolic ETag: MD5 of the single part, or MD5-of-part-MD5s "-N" of the part list.
Equality of symbolic ETags = equality of the concrete ones under collision-freeness. -/
structure ETag where
  multi : Bool
  parts : List Bytes
  deriving Repr, DecidableEq, Inhabited

structure Row where
  rowId   : Nat
  key     : String
  vid     : Option Nat          -- none = the "null" version; some n = n-th generated version id
  dm      : Bool := false       -- delete marker
  latest  : Bool := false
  created : Nat                 -- created_at (logical)
  updated : Nat                 -- updated_at = LastModified (logical)
  wrote   : Nat                 -- when this version's content was written (the spec's notion of "newest")
  parts   : List Bytes := []
  etag    : ETag := ⟨false, []⟩
  ct      : Option String := none
  md    : Pairs := []
  tags    : Pairs := []
  cls     : Option String := none
  /-- first `sequence_number` of the part rows: 0 for put/copy/append, 1 for rows that were
      completed multipart uploads (part numbers). AppendObject appends at `len(parts)`, which
      collides with an existing row when the base is 1 (UNIQUE(object_id, sequence_number)). -/
  seqBase : Nat := 0
  deriving Repr, DecidableEq, Inhabited

structure Upload where
  uid     : Nat
  key     : String
  created : Nat
  ct      : Option String
  md    : Pairs
  tags    : Pairs
  cls     : Option String
  parts   : List (Nat × Bytes) := []   -- (part number, content), sorted by number
  deriving Repr, DecidableEq, Inhabited

structure Bucket where
  name    : String
  ver     : Versioning := .off
  rows    : List Row := []
  uploads : List Upload := []
  deriving Repr, DecidableEq, Inhabited

structure State where
  buckets : List Bucket := []
  clock   : Nat := 0     -- one tick per operation
  nextVid : Nat := 0
  nextUid : Nat := 0
  nextRow : Nat := 0
  deriving Repr, DecidableEq, Inhabited

/-- Deviations of the current code from the reference model (all `false` = reference). -/
structure Quirks where
  /-- next-latest after a version delete is chosen by `created_at` (code) instead of by last write -/
  promoteByCreated : Bool
  /-- `updated_at` (Last-Modified) is bumped by every row save: latest-flag toggles, tagging,
      transitions, conditional-write lock updates (code) instead of only by content writes -/
  touchOnAnySave : Bool
  /-- AppendObject in a non-Enabled bucket updates the *latest row* in place, whatever it is
      (a ULID version or a delete marker), instead of the null version -/
  appendLatestInPlace : Bool
  /-- AppendObject in an Enabled bucket creates the new version without the previous version's
      metadata, tags and storage class -/
  appendEnabledDropsMeta : Bool
  deriving Repr, DecidableEq

/-- What /repo does today. `appendLatestInPlace` and `appendEnabledDropsMeta` described the code
before the fix: commit "AppendObject never mutates a versioned object or delete marker in place"
(see known-findings.json); the switches stay so that the witnesses remain provable. -/
def Quirks.code : Quirks := ⟨true, true, false, false⟩
def Quirks.beforeAppendFix : Quirks := ⟨true, true, true, true⟩
def Quirks.none : Quirks := ⟨false, false, false, false⟩

inductive Err where
  | noSuchBucket | noSuchKey | bucketAlreadyExists | bucketNotEmpty | preconditionFailed
  | methodNotAllowed | invalidWriteOffset | invalidPart | invalidPartOrder | invalidRange
  | notModified | other
  deriving Repr, DecidableEq, Inhabited

def Err.toString : Err → String
  | .noSuchBucket => "NoSuchBucket" | .noSuchKey => "NoSuchKey"
  | .bucketAlreadyExists => "BucketAlreadyExists" | .bucketNotEmpty => "BucketNotEmpty"
  | .preconditionFailed => "PreconditionFailed" | .methodNotAllowed => "MethodNotAllowed"
  | .invalidWriteOffset => "InvalidWriteOffset" | .invalidPart => "InvalidPart"
  | .invalidPartOrder => "InvalidPartOrder" | .invalidRange => "InvalidRange"
  | .notModified => "NotModified" | .other => "Other"

/-- If-Match argument: `*`, or a concrete ETag (symbolic here). -/
inductive IfMatch where
  | none | star | etag (e : ETag) | bogus   -- bogus: a value that is no object's ETag
  deriving Repr, DecidableEq, Inhabited

structure WriteOpts where
  ct   : Option String := none
  md : Pairs := []
  tags : Pairs := []
  cls  : Option String := none
  deriving Repr, DecidableEq, Inhabited

inductive Op where
  | mkb (b : String)
  | rmb (b : String)
  | setVer (b : String) (v : Versioning)
  | put (b k : String) (body : Bytes) (o : WriteOpts) (inm : Bool) (im : IfMatch)
  | get (b k : String) (vid : Option (Option Nat))     -- none = current; some none = "null"; some (some n)
  | head (b k : String) (vid : Option (Option Nat))
  | del (b k : String) (vid : Option (Option Nat)) (im : IfMatch)
  | copy (sb sk : String) (svid : Option (Option Nat)) (db dk : String)
         (replaceMeta replaceTags : Bool) (o : WriteOpts)
  | append (b k : String) (body : Bytes) (off : Option Nat)
  | mpu (b k : String) (o : WriteOpts)
  | uploadPart (b k : String) (uid : Nat) (n : Nat) (body : Bytes)
  | complete (b k : String) (uid : Nat) (declared : Option (List Nat)) (inm : Bool) (im : IfMatch)
  | abort (b k : String) (uid : Nat)
  | getTags (b k : String) (vid : Option (Option Nat))
  | putTags (b k : String) (vid : Option (Option Nat)) (tags : Pairs)
  | delTags (b k : String) (vid : Option (Option Nat))
  | transition (b k : String) (cls : String) (vid : Option (Option Nat))
  | list (b : String)
  | listVersions (b : String)
  | listBuckets
  deriving Repr, Inhabited

/-- What a GET/HEAD shows of a version. -/
structure ObjView where
  body    : Bytes
  size    : Nat
  ct      : Option String
  md    : Pairs
  tags    : Pairs
  cls     : Option String
  etag    : ETag
  vid     : Option Nat
  updated : Nat
  rowId   : Nat
  deriving Repr, DecidableEq, Inhabited

structure VerView where
  key : String
  vid : Option Nat
  latest : Bool
  dm : Bool
  size : Nat
  updated : Nat
  rowId : Nat
  cls : Option String
  deriving Repr, DecidableEq, Inhabited

inductive Out where
  | err (e : Err)
  | unit
  | wrote (vid : Option Nat) (etag : ETag)           -- put / complete / copy: version id ("null" = none) and ETag
  | obj (v : ObjView)
  | deleted (vid : Option (Option Nat)) (dm : Bool)  -- none: no version id in the result
  | appended (etag : ETag) (size : Nat)
  | upload (uid : Nat)
  | part (etag : ETag)
  | tags (t : Pairs)
  | listing (l : List (String × Nat × ETag × Option String))
  | versions (l : List VerView)
  | buckets (l : List String)
  deriving Repr, Inhabited, DecidableEq

-- ---------------------------------------------------------------- helpers

def findBucket (s : State) (b : String) : Option Bucket := s.buckets.find? (·.name == b)

def setBucket (s : State) (bk : Bucket) : State :=
  { s with buckets := s.buckets.map fun x => if x.name == bk.name then bk else x }

def Row.content (r : Row) : Bytes := r.parts.flatten
def Row.size (r : Row) : Nat := r.content.length

def latestRow (bk : Bucket) (k : String) : Option Row := bk.rows.find? fun r => r.key == k && r.latest
def rowByVid (bk : Bucket) (k : String) (v : Option Nat) : Option Row :=
  bk.rows.find? fun r => r.key == k && r.vid == v
def nullRow (bk : Bucket) (k : String) : Option Row := rowByVid bk k none

def replaceRow (bk : Bucket) (r : Row) : Bucket :=
  { bk with rows := bk.rows.map fun x => if x.rowId == r.rowId then r else x }
def removeRow (bk : Bucket) (rowId : Nat) : Bucket :=
  { bk with rows := bk.rows.filter fun x => x.rowId != rowId }
def addRow (bk : Bucket) (r : Row) : Bucket := { bk with rows := bk.rows ++ [r] }

/-- Clear the latest flag of row `r` (a row save: bumps `updated` under `touchOnAnySave`). -/
def unlatest (q : Quirks) (now : Nat) (bk : Bucket) (r : Row) : Bucket :=
  replaceRow bk { r with latest := false, updated := if q.touchOnAnySave then now else r.updated }

def touch (q : Quirks) (now : Nat) (r : Row) : Row :=
  { r with updated := if q.touchOnAnySave then now else r.updated }

def maxBy (f : Row → Nat) : List Row → Option Row
  | [] => none
  | r :: rs => match maxBy f rs with
    | none => some r
    | some m => if f m > f r then some m else some r

def ifMatchOk (im : IfMatch) (cur : Option Row) : Bool :=
  let exists_ := match cur with | some r => !r.dm | none => false
  match im with
  | .none => true
  | .star => exists_
  | .etag e => exists_ && (cur.map (·.etag) == some e)
  | .bogus => false

def singleETag (body : Bytes) : ETag := ⟨false, [body]⟩
def multiETag (parts : List Bytes) : ETag := ⟨true, parts⟩

def viewOf (r : Row) : ObjView :=
  { body := r.content, size := r.size, ct := r.ct, md := r.md, tags := r.tags, cls := r.cls,
    etag := r.etag, vid := r.vid, updated := r.updated, rowId := r.rowId }

/-- Resolve the row a read addresses; errors as the storage layer reports them. -/
def resolve (bk : Bucket) (k : String) (vid : Option (Option Nat)) : Except Err Row :=
  match vid with
  | none => match latestRow bk k with
    | none => .error .noSuchKey
    | some r => if r.dm then .error .noSuchKey else .ok r      -- CurrentDeleteMarkerError prints as NoSuchKey
  | some v => match rowByVid bk k v with
    | none => .error .noSuchKey
    | some r => if r.dm then .error .methodNotAllowed else .ok r

/-- What a write installs as the new current version of a key. -/
structure NewObj where
  parts   : List Bytes
  etag    : ETag
  o       : WriteOpts := {}
  /-- `created_at` override: a completed multipart upload keeps the time it was initiated
      (the upload row becomes the object row). -/
  created : Option Nat := none
  seqBase : Nat := 0
  deriving Repr, DecidableEq, Inhabited

def mkRow (rowId : Nat) (k : String) (vid : Option Nat) (created now : Nat) (n : NewObj) : Row :=
  { rowId := rowId, key := k, vid := vid, latest := true, created := created, updated := now, wrote := now,
    parts := n.parts, etag := n.etag, ct := n.o.ct, md := n.o.md, tags := n.o.tags, cls := n.o.cls,
    seqBase := n.seqBase }

/-- Clear the latest flag of the current latest row of `k`, if there is one. -/
def unlatestCur (q : Quirks) (now : Nat) (bk : Bucket) (k : String) : Bucket :=
  match latestRow bk k with
  | some r => unlatest q now bk r
  | none => bk

/-- Install `n` as the new current version of `k` (after all preconditions passed):
versioning enabled ⇒ a new row with a fresh version id; otherwise the null version is replaced in
place (same row: its `created_at` survives) or created. -/
def install (q : Quirks) (s : State) (bk : Bucket) (k : String) (n : NewObj) : State × Option Nat :=
  let now := s.clock
  let bk2 := unlatestCur q now bk k
  if bk.ver == .enabled then
    let row := mkRow s.nextRow k (some s.nextVid) (n.created.getD now) now n
    ({ setBucket s (addRow bk2 row) with nextVid := s.nextVid + 1, nextRow := s.nextRow + 1 }, row.vid)
  else
    match nullRow bk k with
    | some nr =>
      let row := mkRow nr.rowId k none (n.created.getD nr.created) now n
      (setBucket s (replaceRow bk2 row), none)
    | none =>
      let row := mkRow s.nextRow k none (n.created.getD now) now n
      ({ setBucket s (addRow bk2 row) with nextRow := s.nextRow + 1 }, none)

/-- The write path shared by PutObject, CopyObject, CompleteMultipartUpload and
AppendObject-as-a-new-row: `sqlMetadataStore.PutObject` / the tail of `CompleteMultipartUpload`. -/
def putRow (q : Quirks) (s : State) (bk : Bucket) (k : String) (n : NewObj)
    (inm : Bool) (im : IfMatch) : Except Err (State × Option Nat) :=
  let now := s.clock
  let cur := latestRow bk k
  let exists_ := match cur with | some r => !r.dm | none => false
  if !ifMatchOk im cur then .error .preconditionFailed
  else if inm && exists_ then .error .preconditionFailed
  else
    -- conditional writes lock (re-save) the latest row first
    let bk1 := match cur with
      | some r => if inm || im != .none then replaceRow bk (touch q now r) else bk
      | none => bk
    -- (repaired in /repo 373419f: only a null version that is the CURRENT row refuses If-None-Match;
    --  before, any null row did, also one hidden under a delete marker)
    if inm && bk.ver != .enabled && (nullRow bk1 k).any (·.latest) then .error .preconditionFailed
    else .ok (install q s bk1 k n)

/-- After deleting a latest row: promote the next one. -/
def promote (q : Quirks) (now : Nat) (bk : Bucket) (k : String) : Bucket :=
  let cands := bk.rows.filter (·.key == k)
  match maxBy (if q.promoteByCreated then (·.created) else (·.wrote)) cands with
  | none => bk
  | some r => replaceRow bk { r with latest := true, updated := if q.touchOnAnySave then now else r.updated }

def deleteOp (q : Quirks) (s : State) (bk : Bucket) (k : String) (vid : Option (Option Nat)) (im : IfMatch) :
    State × Out :=
  let now := s.clock
  -- storage-layer probe
  let probe : Option Row := match vid with
    | some v => rowByVid bk k v
    | none => if bk.ver == .suspended then nullRow bk k else latestRow bk k
  let versioned := bk.ver != .off
  if probe.isNone && !(vid.isNone && versioned) then
    if im != .none then (s, .err .preconditionFailed) else (s, .deleted none false)
  else
  match vid with
  | some v =>
    match rowByVid bk k v with
    | none => (s, .deleted (some v) false)
    | some r =>
      let imOk := match im with
        | .none => true | .star => true
        | .etag e => !r.dm && r.etag == e
        | .bogus => false
      if !imOk then (s, .err .preconditionFailed)
      else
        let bk1 := removeRow bk r.rowId
        let bk2 := if r.latest then promote q now bk1 k else bk1
        (setBucket s bk2, .deleted (some r.vid) r.dm)
  | none =>
    let cur := latestRow bk k
    if !ifMatchOk im cur then (s, .err .preconditionFailed)
    else if versioned then
      let bk1 := if bk.ver == .suspended then
          match nullRow bk k with | some n => removeRow bk n.rowId | none => bk
        else bk
      let bk2 := match cur with
        | some r => if (bk1.rows.any (·.rowId == r.rowId)) then unlatest q now bk1 r else bk1
        | none => bk1
      let dmRow : Row := { rowId := s.nextRow, key := k, vid := some s.nextVid, dm := true, latest := true,
                           created := now, updated := now, wrote := now }
      ({ setBucket s (addRow bk2 dmRow) with nextVid := s.nextVid + 1, nextRow := s.nextRow + 1 },
       .deleted (some dmRow.vid) true)
    else
      match cur with
      | some r => (setBucket s (removeRow bk r.rowId), .deleted none false)
      | none => (s, .deleted none false)

def sortedInsert (n : Nat) (body : Bytes) : List (Nat × Bytes) → List (Nat × Bytes)
  | [] => [(n, body)]
  | (m, b) :: rest =>
    if n < m then (n, body) :: (m, b) :: rest
    else if n == m then (n, body) :: rest
    else (m, b) :: sortedInsert n body rest

def contiguousFrom (i : Nat) : List (Nat × Bytes) → Bool
  | [] => true
  | (m, _) :: rest => m == i && contiguousFrom (i + 1) rest

def strictlyIncreasing : List Nat → Bool
  | [] => true
  | [_] => true
  | a :: b :: rest => a < b && strictlyIncreasing (b :: rest)

/-- `validateCompleteMultipartUploadParts`: the declared part numbers are scanned in order; the
first one that is not greater than its predecessor is InvalidPartOrder, the first one that was
never uploaded is InvalidPart. -/
def scanDeclared (prev : Nat) (stored : List Nat) : List Nat → Option Err
  | [] => none
  | d :: ds =>
    if d ≤ prev then some .invalidPartOrder
    else if !stored.contains d then some .invalidPart
    else scanDeclared d stored ds

/-- The error, if any, of the client-declared completion manifest against the uploaded parts. -/
def declaredErr (u : Upload) (declared : Option (List Nat)) : Option Err :=
  match declared with
  | none => none
  | some ds =>
    if ds.isEmpty then none
    else match scanDeclared 0 (u.parts.map (·.1)) ds with
      | some e => some e
      | none => if ds.length != u.parts.length then some .invalidPart else none

def keyLt (a b : String) : Bool := a < b

def insertSorted {α} (lt : α → α → Bool) (x : α) : List α → List α
  | [] => [x]
  | y :: ys => if lt x y then x :: y :: ys else y :: insertSorted lt x ys

def sortBy {α} (lt : α → α → Bool) (l : List α) : List α := l.foldr (insertSorted lt) []

-- ---------------------------------------------------------------- the step function

/-- One operation on a state whose clock has already been advanced (see `step`). -/
def stepT (q : Quirks) (s : State) (op : Op) : State × Out :=
  let now := s.clock
  let withBucket (b : String) (f : Bucket → State × Out) : State × Out :=
    match findBucket s b with
    | none => (s, .err .noSuchBucket)
    | some bk => f bk
  match op with
  | .mkb b =>
    if (findBucket s b).isSome then (s, .err .bucketAlreadyExists)
    else ({ s with buckets := s.buckets ++ [{ name := b }] }, .unit)
  | .rmb b => withBucket b fun bk =>
    if !bk.rows.isEmpty || !bk.uploads.isEmpty then (s, .err .bucketNotEmpty)
    else ({ s with buckets := s.buckets.filter (·.name != b) }, .unit)
  | .setVer b v => withBucket b fun bk => (setBucket s { bk with ver := v }, .unit)
  | .put b k body o inm im => withBucket b fun bk =>
    match putRow q s bk k { parts := [body], etag := singleETag body, o := o } inm im with
    | .error e => (s, .err e)
    | .ok (s', vid) => (s', .wrote vid (singleETag body))
  | .get b k vid => withBucket b fun bk =>
    match resolve bk k vid with
    | .error e => (s, .err e)
    | .ok r => (s, .obj (viewOf r))
  | .head b k vid => withBucket b fun bk =>
    match resolve bk k vid with
    | .error e => (s, .err e)
    | .ok r => (s, .obj (viewOf r))
  | .del b k vid im => withBucket b fun bk => deleteOp q s bk k vid im
  | .copy sb sk svid db dk replaceMeta replaceTags o =>
    match findBucket s sb with
    | none => (s, .err .noSuchBucket)
    | some sbk =>
      match resolve sbk sk svid with
      | .error e => (s, .err e)
      | .ok src =>
        match findBucket s db with
        | none => (s, .err .noSuchBucket)
        | some dbk =>
          let strip (m : Pairs) : Pairs := m.filter fun p => p.1 != "!wr"
          let wr : Pairs := o.md.filter fun p => p.1 == "!wr"
          let o' : WriteOpts :=
            { ct := if replaceMeta then o.ct else src.ct
              md := if replaceMeta then o.md else sortBy (fun a b => a.1 < b.1) (strip src.md ++ wr)
              tags := if replaceTags then o.tags else src.tags
              cls := o.cls }
          match putRow q s dbk dk { parts := src.parts, etag := src.etag, o := o' } false .none with
          | .error e => (s, .err e)
          | .ok (s', vid) => (s', .wrote vid src.etag)
  | .append b k body off => withBucket b fun bk =>
    let cur := latestRow bk k
    let existing : Option Row := match cur with | some r => if r.dm then none else some r | none => none
    let offOk := match off with
      | none => true
      | some n => match existing with | none => n == 0 | some r => n == r.size
    if !offOk then (s, .err .invalidWriteOffset)
    else
      let oldParts := match existing with | some r => r.parts | none => []
      let parts := oldParts ++ [body]
      let etag := multiETag parts
      let size := parts.flatten.length
      if bk.ver == .enabled then
        let o : WriteOpts := match existing with
          | some r => if q.appendEnabledDropsMeta then { ct := r.ct }
                      else { ct := r.ct, md := r.md, tags := r.tags, cls := r.cls }
          | none => {}
        match putRow q s bk k { parts := parts, etag := etag, o := o } false .none with
        | .error e => (s, .err e)
        | .ok (s', _) => (s', .appended etag size)
      else
        -- which row is extended in place?
        let target : Option Row := if q.appendLatestInPlace then cur else
          (match existing with | some r => if r.vid.isNone then some r else none | none => none)
        match target with
        | some r =>
          -- the code rejects (internal error, nothing changes) an in-place append to a row whose
          -- part rows are numbered from 1 (a completed multipart upload with at least one part)
          if r.seqBase == 1 && !r.parts.isEmpty then (s, .err .other) else
          -- in place: content type, metadata, tags, class and version id of the row are kept
          let r' : Row := { r with dm := false, latest := true, updated := now, wrote := now,
                                   parts := parts, etag := etag,
                                   seqBase := if r.parts.isEmpty then 0 else r.seqBase }
          (setBucket s (replaceRow bk r'), .appended etag size)
        | none =>
          if q.appendLatestInPlace then
            let row : Row := { rowId := s.nextRow, key := k, vid := none, latest := true,
                               created := now, updated := now, wrote := now, parts := parts, etag := etag }
            ({ setBucket s (addRow bk row) with nextRow := s.nextRow + 1 }, .appended etag size)
          else
            -- reference: behaves like a put of old ++ new into the null version, keeping metadata
            let o : WriteOpts := match existing with
              | some r => { ct := r.ct, md := r.md, tags := r.tags, cls := r.cls }
              | none => {}
            match putRow q s bk k { parts := parts, etag := etag, o := o } false .none with
            | .error e => (s, .err e)
            | .ok (s', _) => (s', .appended etag size)
  | .mpu b k o => withBucket b fun bk =>
    let u : Upload := { uid := s.nextUid, key := k, created := now, ct := o.ct, md := o.md,
                        tags := o.tags, cls := o.cls }
    ({ setBucket s { bk with uploads := bk.uploads ++ [u] } with nextUid := s.nextUid + 1 }, .upload u.uid)
  | .uploadPart b k uid n body => withBucket b fun bk =>
    match bk.uploads.find? (fun u => u.uid == uid && u.key == k) with
    | none => (s, .err .noSuchKey)
    | some u =>
      let u' := { u with parts := sortedInsert n body u.parts }
      (setBucket s { bk with uploads := bk.uploads.map fun x => if x.uid == uid then u' else x },
       .part (singleETag body))
  | .complete b k uid declared inm im => withBucket b fun bk =>
    match bk.uploads.find? (fun u => u.uid == uid && u.key == k) with
    | none => (s, .err .noSuchKey)
    | some u =>
      if !contiguousFrom 1 u.parts then (s, .err .other)
      else
        match declaredErr u declared with
        | some e => (s, .err e)
        | none =>
          let parts := u.parts.map (·.2)
          -- (an upload with no parts completes to an empty object with ETag "…-0")
          let etag := multiETag parts
          -- the upload row becomes the object row: created_at = initiation time, part rows numbered from 1
          let bk0 := { bk with uploads := bk.uploads.filter (·.uid != uid) }
          match putRow q s bk0 k { parts := parts, etag := etag, o := { ct := u.ct, md := u.md, tags := u.tags, cls := u.cls },
                                   created := some u.created, seqBase := 1 } inm im with
          | .error e => (s, .err e)
          | .ok (s', vid) => (s', .wrote vid etag)
  | .abort b k uid => withBucket b fun bk =>
    match bk.uploads.find? (fun u => u.uid == uid && u.key == k) with
    | none => (s, .err .noSuchKey)
    | some _ => (setBucket s { bk with uploads := bk.uploads.filter (·.uid != uid) }, .unit)
  -- tagging validates its target like a read does (validateTaggingTarget): delete markers are
  -- NoSuchKey (current) / MethodNotAllowed (by version id)
  | .getTags b k vid => withBucket b fun bk =>
    match resolve bk k vid with
    | .error e => (s, .err e)
    | .ok r => (s, .tags r.tags)
  | .putTags b k vid tags => withBucket b fun bk =>
    match resolve bk k vid with
    | .error e => (s, .err e)
    | .ok r => (setBucket s (replaceRow bk (touch q now { r with tags := tags })), .unit)
  | .delTags b k vid => withBucket b fun bk =>
    match resolve bk k vid with
    | .error e => (s, .err e)
    | .ok r => (setBucket s (replaceRow bk (touch q now { r with tags := [] })), .unit)
  | .transition b k cls vid => withBucket b fun bk =>
    let r := match vid with | none => latestRow bk k | some v => rowByVid bk k v
    match r with
    | none => (s, .err .noSuchKey)
    | some r =>
      if r.dm then (s, .err .noSuchKey)
      -- TransitionObject re-saves the part rows numbered from 0
      else (setBucket s (replaceRow bk (touch q now { r with cls := some cls, seqBase := 0 })), .unit)
  | .list b => withBucket b fun bk =>
    let rs := bk.rows.filter fun r => r.latest && !r.dm
    (s, .listing ((sortBy (fun a b => a.key < b.key) rs).map fun r => (r.key, r.size, r.etag, r.cls)))
  | .listVersions b => withBucket b fun bk =>
    -- ORDER BY key ASC, version id DESC with the null version last
    let lt (a b : Row) : Bool :=
      a.key < b.key || (a.key == b.key && (match a.vid, b.vid with
        | some x, some y => x > y
        | some _, none => true
        | none, _ => false))
    (s, .versions ((sortBy lt bk.rows).map fun r =>
      { key := r.key, vid := r.vid, latest := r.latest, dm := r.dm, size := r.size, updated := r.updated,
        rowId := r.rowId, cls := r.cls }))
  | .listBuckets => (s, .buckets (sortBy (· < ·) (s.buckets.map (·.name))))

/-- One operation: the logical clock ticks, then the operation runs. -/
def step (q : Quirks) (s0 : State) (op : Op) : State × Out :=
  stepT q { s0 with clock := s0.clock + 1 } op

def run (q : Quirks) (s : State) : List Op → State × List Out
  | [] => (s, [])
  | op :: ops =>
    let (s1, o) := step q s op
    let (s2, os) := run q s1 ops
    (s2, o :: os)

end Pithos.S3
