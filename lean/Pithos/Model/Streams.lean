/-
M13 (part 1): the close-hook counter of `database.WithTxReadClosers`
(/repo/internal/storage/database/tx.go) as a state machine.

The code wraps each of the `n` readers produced inside the transaction with a close hook that
decrements a shared counter and rolls the transaction back when the counter reaches zero.
`guarded = true` models the per-reader `sync.Once` around that hook (the repaired code);
`guarded = false` models a hook that fires on *every* Close call (the code before the fix).
-/
namespace Pithos.Streams

inductive Op where
  | read (i : Nat)
  | close (i : Nat)
  deriving Repr, DecidableEq

/-- What the caller observes for one operation. `unspecified`: the property does not constrain
the result (reading an already closed reader, closing a reader again). -/
inductive Out where
  | ok | fail | unspecified
  deriving Repr, DecidableEq

structure St where
  closed    : List Bool   -- per reader: Close has been called at least once
  remaining : Int         -- the shared counter (`remaining` in tx.go); Int because the unguarded hook can drive it below 0
  txDone    : Bool        -- the SQL transaction has been rolled back (reads through it now fail)
  rollbacks : Nat         -- how many times the release (rollback hooks) ran
  deriving Repr, DecidableEq

def init (n : Nat) : St :=
  -- `remaining == 0` ⇒ rollback before WithTxReadClosers returns
  { closed := List.replicate n false, remaining := n, txDone := (n == 0), rollbacks := if n == 0 then 1 else 0 }

def isClosed (s : St) (i : Nat) : Bool := s.closed.getD i true

/-- The close hook body: decrement; on reaching zero roll back (first rollback runs the hooks). -/
def fireHook (s : St) : St :=
  let r := s.remaining - 1
  if r == 0 then
    { s with remaining := r, rollbacks := if s.txDone then s.rollbacks else s.rollbacks + 1, txDone := true }
  else { s with remaining := r }

def step (guarded : Bool) (s : St) : Op → St × Out
  | .read i =>
    if i < s.closed.length then
      if isClosed s i then (s, .unspecified)
      else (s, if s.txDone then .fail else .ok)
    else (s, .unspecified)
  | .close i =>
    if i < s.closed.length then
      let first := !isClosed s i
      let s1 := { s with closed := s.closed.set i true }
      let s2 := if first || !guarded then fireHook s1 else s1
      (s2, if first then .ok else .unspecified)
    else (s, .unspecified)

def run (guarded : Bool) (s : St) : List Op → St × List Out
  | [] => (s, [])
  | op :: ops =>
    let (s1, o) := step guarded s op
    let (s2, os) := run guarded s1 ops
    (s2, o :: os)

def final (guarded : Bool) (s : St) (ops : List Op) : St := (run guarded s ops).1

def allClosed (s : St) : Bool := s.closed.all id

def openCount (s : St) : Nat := (s.closed.filter (fun b => !b)).length

end Pithos.Streams
