/-
M4 (part 2): how ETags and checksum values are selected, combined, validated and stored.

Mirrors
  checksumutils.CalculateMultipartChecksums                    (internal/checksumutils/multipart.go)
  metadatastore.ValidateChecksums                              (…/metadatastore/metadatastore.go)
  metadataPartStorage.PutObject / AppendObject / UploadPart / UploadPartCopy / CopyObject
  sqlMetadataStore.CompleteMultipartUpload / AppendObject      (…/metadatastore/sql/*.go)
as far as ETag / checksum fields are concerned. Everything else about an object (versions,
metadata, tags, conditional headers, storage classes, part ids, dedup) is left out.

The model works at the *digest level*: a request body enters as the record `Digests` that
`CalculateChecksumsStreaming` computed for it. Values are raw digest bytes plus an optional
"-N" suffix (`Sum`); the quoting / hex / base64 presentation is the harness's canonicaliser.
MD5, SHA-1 and SHA-256 are uninterpreted (`Hashes`); the CRCs are the bit-level definitions of
`Pithos.Model.Checksum`.

`strict = false` is the code as it is: `ValidateChecksums` skips a supplied value whose computed
counterpart is nil. `strict = true` is the proposed repair (fixes/C04-*.patch): such a value is
rejected.

Core Lean only.
-/
import Pithos.Model.Checksum

namespace Pithos.ObjSums
open Pithos.Checksum

abbrev Bytes := List UInt8

/-- A checksum / ETag value: raw digest bytes and the optional `-N` suffix. -/
structure Sum where
  raw : Bytes
  n : Option Nat := none
  deriving DecidableEq, Repr, Inhabited

/-- `checksumutils.ChecksumValues` (all fields `*string` in Go). -/
structure Values where
  etag   : Option Sum := none
  crc32  : Option Sum := none
  crc32c : Option Sum := none
  crc64  : Option Sum := none
  sha1   : Option Sum := none
  sha256 : Option Sum := none
  deriving DecidableEq, Repr, Inhabited

/-- The uninterpreted hashes: bytes ↦ raw digest. -/
structure Hashes where
  md5    : Bytes → Bytes
  sha1   : Bytes → Bytes
  sha256 : Bytes → Bytes

inductive CType where
  | fullObject | composite   -- (any other stored string matches neither `case`: not modelled)
  deriving DecidableEq, Repr, Inhabited

/-- What `CalculateChecksumsStreaming` returns for a body. -/
structure Digests where
  size   : Nat
  md5    : Bytes
  sha1   : Bytes
  sha256 : Bytes
  crc32  : Bytes
  crc32c : Bytes
  crc64  : Bytes
  deriving DecidableEq, Repr, Inhabited

/-- The digests of a concrete body: uninterpreted hashes, real CRCs. -/
def digestsOf (H : Hashes) (b : Bytes) : Digests :=
  { size := b.length, md5 := H.md5 b, sha1 := H.sha1 b, sha256 := H.sha256 b,
    crc32 := sumBE crc32IEEE b, crc32c := sumBE crc32C b, crc64 := sumBE crc64NVME b }

/-- The `ChecksumValues` of a streamed body: plain digests, no suffix, all six present. -/
def Digests.values (d : Digests) : Values :=
  { etag := some ⟨d.md5, none⟩, crc32 := some ⟨d.crc32, none⟩, crc32c := some ⟨d.crc32c, none⟩,
    crc64 := some ⟨d.crc64, none⟩, sha1 := some ⟨d.sha1, none⟩, sha256 := some ⟨d.sha256, none⟩ }

/-- A stored part row / `checksumutils.PartChecksums`. -/
structure PartMeta where
  etag   : Bytes
  crc32  : Option Bytes
  crc32c : Option Bytes
  crc64  : Option Bytes
  sha1   : Option Bytes
  sha256 : Option Bytes
  size   : Nat
  deriving DecidableEq, Repr, Inhabited

def Digests.partMeta (d : Digests) : PartMeta :=
  { etag := d.md5, crc32 := some d.crc32, crc32c := some d.crc32c, crc64 := some d.crc64,
    sha1 := some d.sha1, sha256 := some d.sha256, size := d.size }

/-! ## CalculateMultipartChecksums -/

/-- `CombineCrc*` never panics on 4-byte / 8-byte inputs; `[]` stands for the panic otherwise. -/
def comb32 (a b : Bytes) (n : Nat) : Bytes := (combineCrc32 a b n).getD []
def comb32c (a b : Bytes) (n : Nat) : Bytes := (combineCrc32c a b n).getD []
def comb64 (a b : Bytes) (n : Nat) : Bytes := (combineCrc64Nvme a b n).getD []

/-- FULL_OBJECT loop for one algorithm: `combined == nil ? data : Combine(combined, data, size)`;
a part without the value sets the skip flag. Result: `!skip && combined != nil`. -/
def foldFull (comb : Bytes → Bytes → Nat → Bytes) (sel : PartMeta → Option Bytes)
    (parts : List PartMeta) : Option Bytes :=
  let r := parts.foldl (fun (acc : Option Bytes × Bool) p =>
    match sel p with
    | some d => (match acc.1 with
        | none => some d
        | some c => some (comb c d p.size), acc.2)
    | none => (acc.1, true)) (none, false)
  if r.2 then none else r.1

/-- COMPOSITE loop for one algorithm: hash the concatenation of the raw part digests; a part
without the value sets the skip flag. -/
def foldComposite (hash : Bytes → Bytes) (sel : PartMeta → Option Bytes) (parts : List PartMeta) :
    Option Sum :=
  if parts.all (fun p => (sel p).isSome) then
    some ⟨hash (parts.flatMap fun p => (sel p).getD []), some parts.length⟩
  else none

def calculateMultipart (H : Hashes) (parts : List PartMeta) (ct : CType) : Values :=
  let etag : Sum := ⟨H.md5 (parts.flatMap (·.etag)), some parts.length⟩
  match ct with
  | .composite =>
    { etag := some etag
      crc32 := foldComposite (sumBE crc32IEEE) (·.crc32) parts
      crc32c := foldComposite (sumBE crc32C) (·.crc32c) parts
      crc64 := none                                 -- "not supported for checksumType Composite"
      sha1 := foldComposite H.sha1 (·.sha1) parts
      sha256 := foldComposite H.sha256 (·.sha256) parts }
  | .fullObject =>
    { etag := some etag
      crc32 := (foldFull comb32 (·.crc32) parts).map (⟨·, none⟩)
      crc32c := (foldFull comb32c (·.crc32c) parts).map (⟨·, none⟩)
      crc64 := (foldFull comb64 (·.crc64) parts).map (⟨·, none⟩)
      sha1 := none, sha256 := none }

/-! ## ValidateChecksums -/

/-- `metadatastore.ChecksumInput` (the value fields; `ETag` carries Content-MD5). -/
structure Input where
  etag   : Option Sum := none
  crc32  : Option Sum := none
  crc32c : Option Sum := none
  crc64  : Option Sum := none
  sha1   : Option Sum := none
  sha256 : Option Sum := none
  deriving DecidableEq, Repr, Inhabited

/-- One field. As-is (`strict = false`): both non-nil and different ⇒ mismatch; a supplied value
with nothing computed is skipped. Repaired (`strict = true`): that case is a mismatch too. -/
def fieldBad (strict : Bool) (supplied computed : Option Sum) : Bool :=
  match supplied, computed with
  | some s, some c => s != c
  | some _, none => strict
  | none, _ => false

/-- `true` = `ErrBadDigest`. -/
def badDigest (strict : Bool) (input : Option Input) (cv : Values) : Bool :=
  match input with
  | none => false
  | some i =>
    fieldBad strict i.etag cv.etag || fieldBad strict i.crc32 cv.crc32 ||
    fieldBad strict i.crc32c cv.crc32c || fieldBad strict i.crc64 cv.crc64 ||
    fieldBad strict i.sha1 cv.sha1 || fieldBad strict i.sha256 cv.sha256

/-! ## the object / upload state as far as checksums go -/

structure Obj where
  vals  : Values        -- etag + five checksum columns of the object row
  ctype : CType         -- checksum_type column
  size  : Nat
  parts : List PartMeta -- part rows in sequence order
  /-- The part rows carry the 1-based part numbers of a multipart upload (rows written by
  `UploadPart`, object assembled in place by `CompleteMultipartUpload`); every other write path
  numbers the rows from 0. -/
  oneBased : Bool := false
  deriving DecidableEq, Repr, Inhabited

structure Upload where
  key   : Nat
  ctype : CType
  parts : List (Nat × PartMeta)   -- (part number, row), ascending part numbers
  deriving Repr, Inhabited

structure State where
  /-- bucket versioning Enabled (configuration, never changes) -/
  versioned : Bool := false
  objects : List (Nat × Obj) := []
  uploads : List (Nat × Upload) := []
  deriving Repr, Inhabited

inductive Err where
  | badDigest | noSuchKey | noSuchUpload | invalidSequence | invalidRange
  /-- an internal error surfaced to the caller (HTTP 500) -/
  | internal
  deriving DecidableEq, Repr

/-- Result of an operation: the values it returns (fields an API does not return stay `none`),
checksum type and size where the API returns them. -/
inductive Out where
  | ok (v : Values) (ctype : Option CType) (size : Option Nat)
  | err (e : Err)
  deriving DecidableEq, Repr

def lookup {α : Type} (k : Nat) : List (Nat × α) → Option α
  | [] => none
  | (k', v) :: rest => if k' = k then some v else lookup k rest

def remove {α : Type} (k : Nat) (l : List (Nat × α)) : List (Nat × α) := l.filter (·.1 != k)

def setKey {α : Type} (k : Nat) (v : α) (l : List (Nat × α)) : List (Nat × α) := (k, v) :: remove k l

/-- Insert / replace part number `n`, keeping ascending order (sequence_number order). -/
def insertPart (n : Nat) (m : PartMeta) : List (Nat × PartMeta) → List (Nat × PartMeta)
  | [] => [(n, m)]
  | (k, v) :: rest =>
    if n < k then (n, m) :: (k, v) :: rest
    else if n = k then (n, m) :: rest
    else (k, v) :: insertPart n m rest

/-- `i+1 != partEntity.SequenceNumber ⇒ ErrUploadWithInvalidSequenceNumber`. -/
def contiguousFrom (i : Nat) : List (Nat × PartMeta) → Bool
  | [] => true
  | (k, _) :: rest => k == i && contiguousFrom (i + 1) rest

/-- `findWhollyCoveredPart`: the part whose byte span is exactly `[start, stop)`. -/
def findCovered (start stop : Nat) : Nat → List PartMeta → Option PartMeta
  | _, [] => none
  | off, p :: rest =>
    if start = off ∧ stop = off + p.size then some p else findCovered start stop (off + p.size) rest

/-- `UploadPartCopy`: share the wholly covered source part when it has a SHA-256 (and lives in the
same store — always, here), otherwise stream the range into a fresh part. -/
def chooseCopiedRow (covered : Option PartMeta) (fresh : PartMeta) : PartMeta :=
  match covered with
  | some p => if p.sha256.isSome then p else fresh
  | none => fresh

/-- `AppendObject` on an unversioned, in-place completed multipart object with at least one part. -/
def appendCollides (versioned : Bool) (old : Option Obj) : Bool :=
  !versioned && (match old with
    | some o => o.oneBased && !o.parts.isEmpty
    | none => false)

inductive Op where
  | put (key : Nat) (d : Digests) (input : Option Input)
  | create (uid key : Nat) (ct : CType)
  | uploadPart (uid n : Nat) (d : Digests) (input : Option Input)
  /-- `d`: digests of the copied byte range `[start, stop)` of the source (what streaming the
  range reader yields); the source part that exactly covers the range is reused instead. -/
  | uploadPartCopy (uid n src start stop : Nat) (d : Digests)
  | complete (uid : Nat) (input : Option Input)
  | append (key : Nat) (d : Digests) (input : Option Input)
  | copy (src dst : Nat)
  /-- ranged copy: `d` = digests of the copied range. -/
  | copyRange (src dst : Nat) (d : Digests)
  | head (key : Nat)
  | delete (key : Nat)
  deriving Repr

def step (H : Hashes) (strict : Bool) (s : State) : Op → State × Out
  | .put key d input =>
    let cv := d.values
    if badDigest strict input cv then (s, .err .badDigest) else
    let o : Obj := { vals := cv, ctype := .fullObject, size := d.size, parts := [d.partMeta] }
    ({ s with objects := setKey key o s.objects }, .ok cv none none)
  | .create uid key ct =>
    ({ s with uploads := setKey uid { key := key, ctype := ct, parts := [] } s.uploads }, .ok {} none none)
  | .uploadPart uid n d input =>
    match lookup uid s.uploads with
    | none => (s, .err .noSuchUpload)
    | some u =>
      let cv := d.values
      if badDigest strict input cv then (s, .err .badDigest) else
      ({ s with uploads := setKey uid { u with parts := insertPart n d.partMeta u.parts } s.uploads },
        .ok cv none none)
  | .uploadPartCopy uid n src start stop d =>
    match lookup src s.objects with
    | none => (s, .err .noSuchKey)
    | some so =>
      if ¬ (start < stop ∧ stop ≤ so.size) then (s, .err .invalidRange) else
      match lookup uid s.uploads with
      | none => (s, .err .noSuchUpload)
      | some u =>
        let m := chooseCopiedRow (findCovered start stop 0 so.parts) d.partMeta
        ({ s with uploads := setKey uid { u with parts := insertPart n m u.parts } s.uploads },
          .ok { etag := some ⟨m.etag, none⟩ } none none)
  | .complete uid input =>
    match lookup uid s.uploads with
    | none => (s, .err .noSuchUpload)
    | some u =>
      if ¬ contiguousFrom 1 u.parts then (s, .err .invalidSequence) else
      let parts := u.parts.map (·.2)
      let cv := calculateMultipart H parts u.ctype
      if badDigest strict input cv then (s, .err .badDigest) else
      let size := (parts.map (·.size)).sum
      let o : Obj := { vals := cv, ctype := u.ctype, size := size, parts := parts, oneBased := true }
      ({ s with objects := setKey u.key o s.objects, uploads := remove uid s.uploads }, .ok cv (some u.ctype) none)
  | .append key d input =>
    if badDigest strict input d.values then (s, .err .badDigest) else
    let old := lookup key s.objects
    -- As the code is: in an unversioned bucket the new row is saved with sequence number
    -- `len(existingParts)`, which collides with the last of the 1-based rows of an object
    -- assembled by CompleteMultipartUpload ("UNIQUE constraint failed"); the append fails.
    if appendCollides s.versioned old then (s, .err .internal) else
    let oldParts := match old with | some o => o.parts | none => []
    let oldSize := match old with | some o => o.size | none => 0
    let all := oldParts ++ [d.partMeta]
    -- only ETag and Size of every part are handed to CalculateMultipartChecksums
    let pcs := all.map fun p => ({ etag := p.etag, crc32 := none, crc32c := none, crc64 := none,
                                   sha1 := none, sha256 := none, size := p.size } : PartMeta)
    let comb := calculateMultipart H pcs .fullObject
    let o : Obj := { vals := { etag := comb.etag }, ctype := .fullObject, size := oldSize + d.size, parts := all }
    ({ s with objects := setKey key o s.objects }, .ok { etag := comb.etag } none (some (oldSize + d.size)))
  | .copy src dst =>
    match lookup src s.objects with
    | none => (s, .err .noSuchKey)
    | some so =>
      ({ s with objects := setKey dst { so with oneBased := false } s.objects }, .ok { etag := so.vals.etag } none none)
  | .copyRange src dst d =>
    match lookup src s.objects with
    | none => (s, .err .noSuchKey)
    | some _ =>
      let o : Obj := { vals := d.values, ctype := .fullObject, size := d.size, parts := [d.partMeta] }
      ({ s with objects := setKey dst o s.objects }, .ok { etag := d.values.etag } none none)
  | .head key =>
    match lookup key s.objects with
    | none => (s, .err .noSuchKey)
    | some o => (s, .ok o.vals (some o.ctype) (some o.size))
  | .delete key => ({ s with objects := remove key s.objects }, .ok {} none none)

end Pithos.ObjSums
