/-
M9 (C32): which client IP and scheme the Lua authorizer exposes to the policy script.

Mirrors /repo/internal/http/server/authorization/lua/luaauthorizer.go
  parseTrustedProxyCIDRs, isTrustedProxy, resolveClientIPAndScheme,
  parseForwardedClientIP, parseForwardedScheme, getHeaderIgnoreCase, ipInCIDR
and /repo/internal/http/server/protocol.go  getRemoteIP, getRequestScheme.

Two layers:
* the **decision logic** over parsed values (`Config`, `Req`, `resolve`) — this is what the
  theorems of `Props/C32.lean` are about;
* the **string front end** (`Raw…`, `parseConfig`, `parseReq`) that turns the configured strings,
  `RemoteAddr` and the header values into those parsed values with `Pithos.NetParse`.

`repaired = false` is the code as it stands: `parseTrustedProxyCIDRs` drops unparsable entries and
`isTrustedProxy` treats an *empty parsed* list as "trust every peer" — so a configured list with no
usable entry trusts everybody. `repaired = true` is the proposed fix
(fixes/C32-unusable-cidr-list-trusts-nobody.patch): only a list that was *not configured at all*
means "every peer".
Core Lean only.
-/
import Pithos.Model.NetParse

namespace Pithos.ProxyTrust
open Pithos.Ascii Pithos.NetParse

/-- 128-bit address value; IPv4 a.b.c.d is ::ffff:a.b.c.d. -/
abbrev Ip := Nat

/-- `ip.To4() != nil`. -/
def is4 (a : Ip) : Bool := a / 2 ^ 32 == 0xffff

abbrev Cidr := Net

/-- `(*net.IPNet).Contains`: an IPv4(-mapped) address is only ever compared with a network whose
number is IPv4(-mapped), an IPv6 address only with an IPv6 network; then the first `bits` bits
must agree. -/
def contains (c : Cidr) (a : Ip) : Bool :=
  is4 a == is4 c.base && a / 2 ^ (128 - c.bits) == c.base / 2 ^ (128 - c.bits)

inductive Scheme where
  | http | https
  deriving Repr, DecidableEq

structure Config where
  trust : Bool                  -- Options.TrustForwardedHeaders
  cidrs : List (Option Cidr)    -- Options.TrustedProxyCIDRs entry by entry; none = net.ParseCIDR failed
  deriving Repr, DecidableEq

structure Req where
  peer : Option Ip              -- IP of the TCP peer (RemoteIP); none = RemoteAddr holds no parsable IP
  tls  : Bool                   -- the connection is TLS (r.TLS != nil)
  cf   : Option (Option Ip)     -- CF-Connecting-IP: present?, parsed value
  xff  : Option (Option Ip)     -- X-Forwarded-For: present?, parsed first element
  xfp  : Option (Option Scheme) -- X-Forwarded-Proto: present?, recognised first element
  deriving Repr, DecidableEq

def peerScheme (tls : Bool) : Scheme := if tls then .https else .http

/-- The entries `parseTrustedProxyCIDRs` keeps. -/
def usable (cfg : Config) : List Cidr := cfg.cidrs.filterMap id

/-- `isTrustedProxy`. -/
def trustedProxy (repaired : Bool) (cfg : Config) (peer : Option Ip) : Bool :=
  match peer with
  | none => false
  | some a =>
    let unrestricted := if repaired then cfg.cidrs.isEmpty else (usable cfg).isEmpty
    unrestricted || (usable cfg).any (contains · a)

def useForwarded (repaired : Bool) (cfg : Config) (req : Req) : Bool :=
  cfg.trust && trustedProxy repaired cfg req.peer

/-- `resolveClientIPAndScheme` (what the script then reads as `clientIP` / `scheme`). -/
def resolve (repaired : Bool) (cfg : Config) (req : Req) : Option Ip × Scheme :=
  if !useForwarded repaired cfg req then (req.peer, peerScheme req.tls)
  else
    let ip := match req.cf with
      | some (some a) => some a
      | some none => req.peer          -- header present but unparsable: X-Forwarded-For is NOT consulted
      | none => match req.xff with
        | some (some a) => some a
        | _ => req.peer
    let sch := match req.xfp with
      | some (some s) => s
      | _ => peerScheme req.tls
    (ip, sch)

/-! ### String front end -/

structure RawConfig where
  trust : Bool
  entries : List (List Char)

structure RawReq where
  remoteAddr : List Char
  tls : Bool
  cf  : List (List Char)    -- all values of the header, in order (empty = header absent)
  xff : List (List Char)
  xfp : List (List Char)

def firstField (v : List Char) : List Char := trimSpace ((splitOn ',' v).headD [])

def parseScheme (v : List Char) : Option Scheme :=
  let f := toLower (firstField v)
  if f == "http".toList then some .http else if f == "https".toList then some .https else none

def parseConfig (c : RawConfig) : Config :=
  { trust := c.trust, cidrs := c.entries.map parseCidr }

def parseReq (r : RawReq) : Req :=
  { peer := remoteIP r.remoteAddr, tls := r.tls,
    cf := r.cf.head?.map fun v => parseIP (trimSpace v),
    xff := r.xff.head?.map fun v => parseIP (firstField v),
    xfp := r.xfp.head?.map parseScheme }

/-- `ipInCIDR` behind the script helper `httpRequest:remoteIPInCIDR(cidr)`. -/
def ipInCidr (ip : Option Ip) (cidr : List Char) : Bool :=
  match ip, parseCidr (trimSpace cidr) with
  | some a, some c => contains c a
  | _, _ => false

end Pithos.ProxyTrust
