/-
M9 (C31): what the routing table says about one request, and the per-item filter loops.

Part 1 — an executable reading of the generated route table (`Pithos.Gen.Routes`, regenerated from
/repo on every run): the host decides the mux (`MakeHostnameRoutingHandler`, the virtual-host
rewrite, the custom-domain fallback), `net/http.ServeMux` picks the most specific of the three
registered path patterns, the router's ordered `if` chain picks the handler; the handler's
authorize call names the operation (the `…Version…` variant when the query has `versionId`) and the
bucket / key / copy source it is asked about. The driver compares this prediction with what the
recording authorizer and the recording storage saw (tie).

Part 2 — the per-item hooks: the collection loop of `listAndFilterObjects` (and its two siblings)
and the three passes of `deleteObjectsHandler`, as list functions over an arbitrary `allow`.
-/
import Pithos.Gen.Routes

namespace Pithos.AuthzModel
open Pithos.Gen.Routes

/-! ## 1. Requests and route selection -/

structure Req where
  method : String
  host : String
  path : String                      -- r.URL.Path as received (decoded)
  query : List (String × String)     -- first value per name
  headers : List (String × String)   -- lower-cased name, first value
  deriving Repr

def Req.hasQuery (r : Req) (q : String) : Bool := r.query.any (·.1 == q)
def Req.queryGet (r : Req) (q : String) : String := ((r.query.find? (·.1 == q)).map (·.2)).getD ""
def Req.header (r : Req) (h : String) : String := ((r.headers.find? (·.1 == h)).map (·.2)).getD ""

def evalCond (r : Req) : Cond → Bool
  | .has q => r.hasQuery q
  | .hdr h => r.header h != ""
  | .qeq q v => r.queryGet q == v
  | .or a b => evalCond r a || evalCond r b

/-- Strip a `:port` (the code looks for the last ':' after the last ']'). Hosts in the traces have no port. -/
def hostOnly (h : String) : String := h

/-- `MakeHostnameRoutingHandler` + `MakeVirtualHostBucketAddressingMiddleware` + the fallback:
the mux that serves the request and the path it sees. -/
def effective (apiEndpoint websiteEndpoint : String) (r : Req) : Mux × String :=
  let host := hostOnly r.host
  let apiSuffix := "." ++ apiEndpoint
  let webSuffix := "." ++ websiteEndpoint
  if host == apiEndpoint then (.api, r.path)
  else if host.endsWith apiSuffix then
    let bucket := (host.dropEnd apiSuffix.length).toString
    if bucket != "" then
      -- "/" (or "") addresses the bucket itself; any other path is an object key kept verbatim
      -- ("folder/" and "folder" are different keys). The traces carry no RawPath.
      (.api, if r.path == "" || r.path == "/" then "/" ++ bucket else "/" ++ bucket ++ r.path)
    else (.api, r.path)
  else if host.endsWith webSuffix && (host.dropEnd webSuffix.length).toString != "" then
    (.website, "/" ++ (host.dropEnd webSuffix.length).toString ++ r.path)
  else (.website, "/" ++ host ++ r.path)

inductive Shape where
  | root
  | bucket (b : String)
  | object (b k : String)
  | unclean
  deriving Repr, DecidableEq

/-- The path shapes the three registered patterns distinguish. Paths ServeMux would first clean
(empty segments, dot segments) are `unclean` and not predicted. -/
def shapeOf (path : String) : Shape :=
  if path == "/" then .root
  else if !path.startsWith "/" then .unclean
  else
    let rest := (path.drop 1).toString
    match rest.splitOn "/" with
    | [] => .unclean
    | [b] => if b == "" then .unclean else .bucket b
    | b :: ks =>
      let k := "/".intercalate ks
      if b == "" then .unclean
      else if (k.splitOn "/").any (fun s => s == "." || s == "..") then .unclean
      else if ((k.splitOn "//").length > 1) then .unclean
      else .object b k

def patternOf : Shape → Option String
  | .root => some "/"
  | .bucket _ => some "/{bucket}"
  | .object _ _ => some "/{bucket}/{key...}"
  | .unclean => none

def Shape.bucket? : Shape → Option String
  | .bucket b => some b
  | .object b _ => some b
  | _ => none

def Shape.key? : Shape → Option String
  | .object _ k => some k
  | .bucket _ => some ""      -- `/{bucket}` on the website mux: r.PathValue("key") = ""
  | _ => none

/-- The routes registered for (mux, method, pattern); a GET pattern also serves HEAD when no HEAD
pattern is registered for the same path pattern (net/http). -/
def candidates (rs : List Route) (mux : Mux) (method pattern : String) : List Route :=
  let c := rs.filter (fun r => r.mux == mux && r.method == method && r.pattern == pattern)
  if c.isEmpty && method == "HEAD" then
    rs.filter (fun r => r.mux == mux && r.method == "GET" && r.pattern == pattern)
  else c

def guardsHold (req : Req) (r : Route) : Bool := r.guards.all (fun g => evalCond req g.1 == g.2)

/-- The branch of the routing table that serves the request (none: no pattern for this method and
path — ServeMux answers 405/404 itself — or an unclean path). -/
def selectRoute (rs : List Route) (mux : Mux) (effPath : String) (req : Req) : Option Route :=
  match patternOf (shapeOf effPath) with
  | none => none
  | some pat => (candidates rs mux req.method pat).find? (guardsHold req)

/-- The operation an authorize call names for this request: the last alternative whose condition holds. -/
def opOf (req : Req) (a : AuthCall) : Option Op :=
  a.ops.foldl (fun acc alt => match alt.ifQuery with
    | none => some alt.op
    | some q => if req.hasQuery q then some alt.op else acc) none

/-! ### `parseCopySource` (copy.go) -/

def hexVal? (c : Char) : Option Nat :=
  if '0' ≤ c ∧ c ≤ '9' then some (c.toNat - 48)
  else if 'a' ≤ c ∧ c ≤ 'f' then some (c.toNat - 87)
  else if 'A' ≤ c ∧ c ≤ 'F' then some (c.toNat - 55)
  else none

/-- `url.PathUnescape` on ASCII input: `%XX` decoded, everything else kept; a malformed escape is an error. -/
def pathUnescape : List Char → Option (List Char)
  | [] => some []
  | '%' :: a :: b :: rest => do
    let x ← hexVal? a
    let y ← hexVal? b
    let r ← pathUnescape rest
    pure (Char.ofNat (x * 16 + y) :: r)
  | '%' :: _ => none
  | c :: rest => do
    let r ← pathUnescape rest
    pure (c :: r)

/-- (source bucket, source key) as `parseCopySource` computes them; none = rejected. The query part
(`?versionId=…`) is cut off; one leading '/' is dropped; the bucket ends at the first '/'. -/
def parseCopySource (v : String) : Option (String × String) :=
  if v == "" then none else
  let noQuery := (v.splitOn "?").headD ""
  let t := if noQuery.startsWith "/" then (noQuery.drop 1).toString else noQuery
  match t.splitOn "/" with
  | [] => none
  | [_] => none
  | b :: ks =>
    let k := "/".intercalate ks
    if b == "" || k == "" then none
    else (pathUnescape k.toList).map (fun cs => (b, String.ofList cs))

/-- `websiteResolveKey`. -/
def websiteResolveKey (key indexSuffix : String) : String :=
  if key == "" || key.endsWith "/" then key ++ indexSuffix else key

/-! ## 2. Per-item hooks -/

/-- One page returned by the storage listing: entries, then common prefixes. -/
structure Page (α : Type) where
  objects : List α
  prefixes : List α

/-- The inner loop over one page's entries: skip denied ones, append allowed ones, stop as soon as
`max` are collected (`full = true`). -/
def collectObjects (allow : α → Bool) (max : Nat) : List α → List α → List α × Bool
  | acc, [] => (acc, false)
  | acc, x :: xs =>
    if allow x then
      let acc' := acc ++ [x]
      if acc'.length ≥ max then (acc', true) else collectObjects allow max acc' xs
    else collectObjects allow max acc xs

/-- The loop over one page's common prefixes: denied ones and already seen ones are skipped. -/
def collectPrefixes [BEq α] (allow : α → Bool) : List α → List α → List α
  | acc, [] => acc
  | acc, p :: ps =>
    if allow p && !acc.contains p then collectPrefixes allow (acc ++ [p]) ps
    else collectPrefixes allow acc ps

/-- `listAndFilterObjects` / `…MultipartUploads` / `…Parts` over the pages the storage hands out
one after the other (which pages those are is the listing's business — C06). -/
def filterLoop [BEq α] (allow : α → Bool) (max : Nat) : List (Page α) → List α × List α → List α × List α
  | [], acc => acc
  | p :: ps, (objs, prefs) =>
    match collectObjects allow max objs p.objects with
    | (objs', true) => (objs', prefs)
    | (objs', false) => filterLoop allow max ps (objs', collectPrefixes allow prefs p.prefixes)

/-- What happens to one `DeleteObjects` entry. -/
inductive EntryFate where
  | invalid   -- key does not parse: InvalidArgument in the response, never authorized
  | denied    -- hook said no: AccessDenied in the response, never reaches storage
  | passed    -- handed to storage.DeleteObjects
  deriving DecidableEq, Repr

/-- First pass of `deleteObjectsHandler`: keep the entries whose key parses. -/
def validEntries (valid : α → Bool) : List α → List α
  | [] => []
  | e :: es => if valid e then e :: validEntries valid es else validEntries valid es

/-- Second pass: ask the hook per valid entry; (denied, authorized) in request order. -/
def authorizeEntries (allow : α → Bool) : List α → List α × List α
  | [] => ([], [])
  | e :: es =>
    let (d, a) := authorizeEntries allow es
    if allow e then (d, e :: a) else (e :: d, a)

/-- The handler: what is reported invalid, what is reported AccessDenied, what storage is asked to delete. -/
def deleteObjects (valid allow : α → Bool) (es : List α) : List α × List α × List α :=
  let v := validEntries valid es
  let (d, a) := authorizeEntries allow v
  (es.filter (fun e => !valid e), d, a)

end Pithos.AuthzModel
