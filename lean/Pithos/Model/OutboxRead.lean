/-
The read path of the outbox part store at STATEMENT granularity
(/repo/internal/storage/metadatapart/partstore/outbox/outbox.go, `GetPart` and `getPartTxFree`).

`Pithos.PartStore.outboxWrap` treats a read as one atomic step — that is what a SQLite read transaction
gives. Under statement-level visibility (Postgres READ COMMITTED) a read is a little program:

    loop (at most `maxGetPartRaceRetries` times)
      e ← FindLastPartOutboxEntryByPartId                    -- statement 1
      e = none            → read the inner store
      e is a delete entry → not found
      (chunk₀, exists) ← FindPartOutboxEntryChunkByIndexWithEntryPresence e.id 0   -- statement 2
      ¬ exists            → the worker flushed and deleted `e` in between: RE-EVALUATE (continue)
      otherwise           → the content of `e` (streamed; a flush while streaming falls back to the
                            inner store, which then holds exactly that content)

and other transactions commit and the worker flushes between its statements. This model has one part
id, an abstract inner store (`Option Bytes`) and the FIFO of pending entries; a *divided* read executes
statement 1 in one state and everything else in a later state (that is the interleaving the harness can
force on the real store: `verifx.StaleRepo`). What a reader does when the entry has vanished is a
parameter (`OnVanished`), regenerated from the source for both read paths (`Pithos.Gen.OutboxRead`).

Core Lean only.
-/
import Pithos.Model.PartCodec

namespace Pithos.OutboxRead
open Pithos.Codec

structure Entry where
  seq : Nat              -- the entry's id (ULIDs: unique, increasing)
  isPut : Bool
  content : Bytes
  deriving Repr, DecidableEq

structure St where
  inner : Option Bytes := none      -- the inner store's content of the part
  queue : List Entry := []          -- pending entries of the part, oldest first
  next : Nat := 0
  deriving Repr, DecidableEq

inductive Ev where
  | put (b : Bytes)      -- a committed PutPart (pending)
  | del                  -- a committed DeletePart (pending)
  | step                 -- the worker replays the oldest entry into the inner store and deletes it
  | flush                -- worker passes until nothing is pending
  deriving Repr, DecidableEq

def applyEntry (inner : Option Bytes) (e : Entry) : Option Bytes := if e.isPut then some e.content else none

def St.apply (s : St) : Ev → St
  | .put b => { s with queue := s.queue ++ [⟨s.next, true, b⟩], next := s.next + 1 }
  | .del => { s with queue := s.queue ++ [⟨s.next, false, []⟩], next := s.next + 1 }
  | .step =>
    match s.queue with
    | [] => s
    | e :: rest => { s with inner := applyEntry s.inner e, queue := rest }
  | .flush => { s with inner := s.queue.foldl applyEntry s.inner, queue := [] }

def St.run (s : St) (evs : List Ev) : St := evs.foldl St.apply s

/-- what the store holds for the part: the newest pending entry decides, else the inner store -/
def St.abs (s : St) : Option Bytes :=
  match s.queue.getLast? with
  | some e => applyEntry s.inner e
  | none => s.inner

inductive OnVanished where
  | retry          -- `continue`: look the last entry up again
  | serveInner     -- read the inner store
  | other
  deriving Repr, DecidableEq

inductive Res where
  | found (b : Bytes)
  | notFound
  | failed           -- retries exhausted / unrecognised program
  deriving Repr, DecidableEq

def ofOpt : Option Bytes → Res
  | some b => .found b
  | none => .notFound

/-- statement 1 -/
def St.lookup (s : St) : Option Entry := s.queue.getLast?

/-- everything after a first statement that answered `first`, executed in state `s` -/
def rest (act : OnVanished) : Nat → Option Entry → St → Res
  | _, none, s => ofOpt s.inner
  | fuel, some e, s =>
    if !e.isPut then .notFound
    else if s.queue.any (·.seq == e.seq) then .found e.content
    else match act with
      | .serveInner => ofOpt s.inner
      | .other => .failed
      | .retry =>
        match fuel with
        | 0 => .failed
        | f + 1 => rest act f s.lookup s

def maxRetries : Nat := 8

/-- an undivided read -/
def read (act : OnVanished) (s : St) : Res := rest act (maxRetries - 1) s.lookup s

/-- a divided read: statement 1 in `s`, then the events `evs`, then the rest -/
def readSplit (act : OnVanished) (s : St) (evs : List Ev) : Res := rest act (maxRetries - 1) s.lookup (s.run evs)

/-- the action a regenerated decision list names for the vanished-entry branch -/
def onVanishedOf (decisions : List (String × String)) : OnVanished :=
  match decisions.lookup "!entryExists" with
  | some "retry" => .retry
  | some "serve-inner" => .serveInner
  | _ => .other

end Pithos.OutboxRead
