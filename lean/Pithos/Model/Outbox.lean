/-
M7 (part 1): the outbox part store
(/repo/internal/storage/metadatapart/partstore/outbox/outbox.go +
 /repo/internal/storage/database/sqlite/repository/partoutboxentry/sqlite.go)
as a transition system whose steps are the atomic steps the code really has: every SQL
transaction is one step, the tx-free inner-store mutation is a step of its own.

  writer      commit ops          one write transaction: SavePartOutboxEntry (+ chunks) per op, ids ascending
  worker w    claim               ClaimFirstPartOutboxEntry: first entry by id, version CAS,
                                  `claim_owner IS NULL OR claim_until <= now`, lease = now + L
              readChunks          the lazy chunk reader inside the read-only replay transaction
                                  (fails with "entry vanished" when the entry row is gone)
              innerWrite          innerPartStore.PutPart / DeletePart with a nil transaction — NOT atomic with finalize
              innerFail           the inner store reports an error (environment)
              finalize            DeletePartOutboxEntryByClaimOwner: `WHERE id = ? AND claim_owner = ?`
              release             ReleasePartOutboxEntryClaim (error path): `WHERE id = ? AND claim_owner = ?`
              extend              heartbeat ExtendPartOutboxEntryClaim: `WHERE id = ? AND claim_owner = ?` (no expiry test)
  environment tick d / leaseExpire   time passes (a lease is expired when `until ≤ now`)
              crash w             the worker process dies: its local state is lost, its claim stays
                                  in the table, a restarted worker has a new claim owner string

Reads (mirroring GetPart / GetPartIds): newest outbox entry for the part id if any, else the
inner store.

`fenced = true` is the *ideal* variant in which the inner mutation is applied only while the entry
row still exists (check and write atomic — what the comment in `openInnerFallback` assumes);
`fenced = false` is the code as it is. `committed` is a ghost field (the committed history).
-/
namespace Pithos.Outbox

abbrev Bytes := List UInt8

inductive POp where
  | put (id : Nat) (b : Bytes)
  | del (id : Nat)
  deriving Repr, DecidableEq, Inhabited

def POp.id : POp → Nat
  | .put id _ => id
  | .del id => id

/-- What a read of the part shows after the operation. -/
def POp.value : POp → Option Bytes
  | .put _ b => some b
  | .del _ => none

-- ---------------------------------------------------------------- the inner part store

abbrev Store := List (Nat × Bytes)

def Store.get : Store → Nat → Option Bytes
  | [], _ => none
  | (k, v) :: m, id => if k = id then some v else Store.get m id

def Store.del (m : Store) (id : Nat) : Store := m.filter (fun p => p.1 != id)
def Store.put (m : Store) (id : Nat) (b : Bytes) : Store := (id, b) :: Store.del m id

def Store.apply (m : Store) : POp → Store
  | .put id b => Store.put m id b
  | .del id => Store.del m id

def Store.keys (m : Store) : List Nat := m.map (·.1)

/-- The committed history folded into a store: the reference the property speaks of. -/
def committedStore (ops : List POp) : Store := ops.foldl Store.apply []

-- ---------------------------------------------------------------- the outbox table

abbrev Owner := Nat × Nat      -- (worker, incarnation): `outboxId:ULID` made in `New`

structure Entry where
  eid     : Nat               -- ULID; ascending = insertion order
  op      : POp
  owner   : Option Owner := none
  until_  : Nat := 0
  version : Nat := 0
  deriving Repr, DecidableEq, Inhabited

/-- A worker's private state between its transactions. -/
inductive Local where
  | idle
  | claimed (eid : Nat) (id : Nat)        -- PutPart entry claimed, chunks not read yet
  | ready (eid : Nat) (op : POp)          -- about to call the inner store (DeletePart: right after claim)
  | written (eid : Nat)                   -- inner mutation done, finalize pending
  | failed (eid : Nat)                    -- replay failed, release pending
  deriving Repr, DecidableEq, Inhabited

structure St where
  queue     : List Entry := []
  inner     : Store := []
  committed : List POp := []
  now       : Nat := 0
  lease     : Nat := 10
  nextEid   : Nat := 0
  loc       : Nat → Local := fun _ => .idle
  gen       : Nat → Nat := fun _ => 0

def init (lease : Nat := 10) : St := { lease := lease }

inductive Step where
  | commit (ops : List POp)
  | claim (w : Nat)
  | readChunks (w : Nat)
  | innerWrite (w : Nat)
  | innerFail (w : Nat)
  | finalize (w : Nat)
  | release (w : Nat)
  | extend (w : Nat)
  | tick (d : Nat)
  | leaseExpire
  | crash (w : Nat)
  deriving Repr, DecidableEq, Inhabited

inductive Out where
  | unit
  | disabled                        -- the step is not enabled in this state (no-op)
  | claimNone                       -- table empty
  | claimBusy                       -- first entry held by an unexpired lease
  | claimed (eid : Nat) (version : Nat)
  | readOk (b : Bytes)
  | readVanished
  | wrote
  | fencedOff                       -- (fenced variant only) entry gone: nothing written
  | finalized (deleted : Bool)
  | released (ok : Bool)
  | extended (ok : Bool)
  deriving Repr, DecidableEq, Inhabited

def mkEntries (n : Nat) : List POp → List Entry
  | [] => []
  | op :: ops => { eid := n, op := op } :: mkEntries (n + 1) ops

def setLoc (s : St) (w : Nat) (l : Local) : St :=
  { s with loc := fun x => if x = w then l else s.loc x }

def me (s : St) (w : Nat) : Owner := (w, s.gen w)

def queued (s : St) (eid : Nat) : Bool := s.queue.any (fun e => e.eid == eid)

/-- `UPDATE … WHERE id = eid AND claim_owner = o` over the table. -/
def updOwned (q : List Entry) (eid : Nat) (o : Owner) (f : Entry → Entry) : List Entry :=
  q.map fun e => if e.eid = eid ∧ e.owner = some o then f e else e

def ownedBy (q : List Entry) (eid : Nat) (o : Owner) : Bool :=
  q.any fun e => decide (e.eid = eid ∧ e.owner = some o)

def maxUntil (q : List Entry) : Nat := q.foldl (fun m e => max m e.until_) 0

def step (fenced : Bool) (s : St) : Step → St × Out
  | .commit ops =>
    ({ s with queue := s.queue ++ mkEntries s.nextEid ops,
              committed := s.committed ++ ops,
              nextEid := s.nextEid + ops.length }, .unit)
  | .claim w =>
    match s.loc w with
    | .idle =>
      match s.queue with
      | [] => (s, .claimNone)
      | h :: t =>
        if h.owner = none ∨ h.until_ ≤ s.now then
          let h' : Entry := { h with owner := some (me s w), until_ := s.now + s.lease, version := h.version + 1 }
          let l : Local := match h.op with
            | .put id _ => .claimed h.eid id
            | .del id => .ready h.eid (.del id)
          (setLoc { s with queue := h' :: t } w l, .claimed h.eid h'.version)
        else (s, .claimBusy)
    | _ => (s, .disabled)
  | .readChunks w =>
    match s.loc w with
    | .claimed eid _ =>
      match s.queue.find? (fun e => e.eid == eid) with
      | some e => (setLoc s w (.ready eid e.op), .readOk (e.op.value.getD []))
      | none => (setLoc s w (.failed eid), .readVanished)
    | _ => (s, .disabled)
  | .innerWrite w =>
    match s.loc w with
    | .ready eid op =>
      if fenced && !queued s eid then (setLoc s w (.failed eid), .fencedOff)
      else (setLoc { s with inner := s.inner.apply op } w (.written eid), .wrote)
    | _ => (s, .disabled)
  | .innerFail w =>
    match s.loc w with
    | .ready eid _ => (setLoc s w (.failed eid), .unit)
    | _ => (s, .disabled)
  | .finalize w =>
    match s.loc w with
    | .written eid =>
      let ok := ownedBy s.queue eid (me s w)
      let q' := s.queue.filter (fun e => !decide (e.eid = eid ∧ e.owner = some (me s w)))
      (setLoc { s with queue := q' } w .idle, .finalized ok)
    | _ => (s, .disabled)
  | .release w =>
    match s.loc w with
    | .failed eid =>
      let ok := ownedBy s.queue eid (me s w)
      let q' := updOwned s.queue eid (me s w)
        (fun e => { e with owner := none, until_ := 0, version := e.version + 1 })
      (setLoc { s with queue := q' } w .idle, .released ok)
    | _ => (s, .disabled)
  | .extend w =>
    -- the heartbeat runs from the claim until the replay call returns
    let go (eid : Nat) : St × Out :=
      let ok := ownedBy s.queue eid (me s w)
      let q' := updOwned s.queue eid (me s w)
        (fun e => { e with until_ := s.now + s.lease, version := e.version + 1 })
      ({ s with queue := q' }, .extended ok)
    match s.loc w with
    | .claimed eid _ => go eid
    | .ready eid _ => go eid
    | _ => (s, .disabled)
  | .tick d => ({ s with now := s.now + d }, .unit)
  | .leaseExpire => ({ s with now := max s.now (maxUntil s.queue) }, .unit)
  | .crash w =>
    (setLoc { s with gen := fun x => if x = w then s.gen w + 1 else s.gen x } w .idle, .unit)

def run (fenced : Bool) (s : St) : List Step → St
  | [] => s
  | st :: rest => run fenced (step fenced s st).1 rest

def outs (fenced : Bool) (s : St) : List Step → List Out
  | [] => []
  | st :: rest => (step fenced s st).2 :: outs fenced (step fenced s st).1 rest

-- ---------------------------------------------------------------- reads

/-- `FindLastPartOutboxEntryByPartId`: the operation of the newest entry for `id`. -/
def lastFor : List POp → Nat → Option POp
  | [], _ => none
  | op :: ops, id =>
    match lastFor ops id with
    | some o => some o
    | none => if op.id = id then some op else none

def qops (s : St) : List POp := s.queue.map (·.op)

/-- `GetPart`: the newest outbox entry for the id decides; without one, the inner store. -/
def getPart (s : St) (id : Nat) : Option Bytes :=
  match lastFor (qops s) id with
  | some op => op.value
  | none => s.inner.get id

/-- `GetPartIds` (as a list that may repeat ids; the API returns the set): inner ids, minus those
whose newest entry is a delete, plus those whose newest entry is a put. -/
def getPartIds (s : St) : List Nat :=
  (s.inner.keys ++ (qops s).map POp.id).filter fun id =>
    match lastFor (qops s) id with
    | some (.put _ _) => true
    | some (.del _) => false
    | none => (s.inner.get id).isSome

-- ---------------------------------------------------------------- the excluded trigger

/-- A step is *stale* when it is an inner mutation for an entry whose row has already been
deleted (finalized by another owner after this worker lost its lease). -/
def staleWrite (s : St) : Step → Bool
  | .innerWrite w =>
    match s.loc w with
    | .ready eid _ => !queued s eid
    | _ => false
  | _ => false

/-- No stale inner mutation anywhere along the run. -/
def noStaleWrites (fenced : Bool) (s : St) : List Step → Bool
  | [] => true
  | st :: rest => !staleWrite s st && noStaleWrites fenced (step fenced s st).1 rest

/-- The stronger, lease-phrased condition: whenever a worker mutates the inner store it still
owns the entry (no lease was lost between claim and the inner mutation). -/
def ownsAtWrite (s : St) : Step → Bool
  | .innerWrite w =>
    match s.loc w with
    | .ready eid _ => ownedBy s.queue eid (me s w)
    | _ => true
  | _ => true

def writesByOwner (fenced : Bool) (s : St) : List Step → Bool
  | [] => true
  | st :: rest => ownsAtWrite s st && writesByOwner fenced (step fenced s st).1 rest

def allIdle (s : St) (workers : List Nat) : Bool := workers.all fun w => s.loc w == .idle

-- ---------------------------------------------------------------- bounded explorer (SEARCH, not proof)

/-- Is the state a counterexample to the property (as-is model)? Queue empty, all workers idle,
and the inner store differs from the committed history on one of `ids`. -/
def badIdle (s : St) (nw : Nat) (ids : List Nat) : Bool :=
  s.queue.isEmpty && allIdle s (List.range nw) &&
    ids.any fun id => s.inner.get id != (committedStore s.committed).get id

/-- Explorer node: model state, writer transactions not yet committed, schedule so far (reversed). -/
structure XNode where
  s : St
  pending : List (List POp)
  path : List Step

def XNode.key (x : XNode) (nw : Nat) : String :=
  toString (repr (x.s.queue, x.s.inner, x.pending.length, x.s.now,
    (List.range nw).map x.s.loc, (List.range nw).map x.s.gen))

def XNode.succ (fenced : Bool) (nw : Nat) (x : XNode) : List XNode :=
  let workerSteps : List Step :=
    (List.range nw).flatMap fun w => [.claim w, .readChunks w, .innerWrite w, .finalize w, .release w, .crash w]
  let env : List Step := if x.s.queue.any (fun e => e.owner.isSome && e.until_ > x.s.now) then [.leaseExpire] else []
  let fromSteps := (workerSteps ++ env).filterMap fun st =>
    let (s', o) := step fenced x.s st
    if o == .disabled || o == .claimNone || o == .claimBusy then none
    else if st matches .crash _ then
      (match st with
       | .crash w => if x.s.loc w == .idle then none else some { x with s := s', path := st :: x.path }
       | _ => none)
    else some { x with s := s', path := st :: x.path }
  match x.pending with
  | [] => fromSteps
  | ops :: rest =>
    { s := (step fenced x.s (.commit ops)).1, pending := rest, path := .commit ops :: x.path } :: fromSteps

/-- Breadth-first search (with a visited set) for a shortest schedule of at most `depth` steps that
ends in `badIdle`. This is *search* over the model — used to find the witness schedule that is
then proved in Props/C18 and realised on the implementation; it proves nothing by itself. -/
def explore (fenced : Bool) (nw : Nat) (ids : List Nat) (commits : List (List POp)) (depth : Nat) :
    Option (List Step) × Nat := Id.run do
  let mut frontier : List XNode := [{ s := init, pending := commits, path := [] }]
  let mut seen : List String := []
  let mut visited := 0
  for _ in [0:depth + 1] do
    let mut next : List XNode := []
    for x in frontier do
      if badIdle x.s nw ids then return (some x.path.reverse, visited)
      for y in x.succ fenced nw do
        let k := y.key nw
        if !seen.contains k then
          seen := k :: seen
          visited := visited + 1
          next := y :: next
    frontier := next.reverse
  return (none, visited)

end Pithos.Outbox
