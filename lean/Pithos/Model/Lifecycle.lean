/-
M11 (C25): the lifecycle reconciler of
/repo/internal/storage/middlewares/lifecyclereconciler/lifecyclereconciler.go and the due-time /
rule-matching helpers of /repo/internal/storage/bucketlifecycle.go, as pure functions from
(rules, clock, what the inner storage listed) to the calls issued on the inner storage.

Time is `Int` nanoseconds since the Unix epoch (what `time.Time.UnixNano` gives; every time value
handled here is in UTC — `LastModified` of the SQL metadata store and of the S3 client are UTC).
For a UTC time `t.AddDate(0,0,n)` is `t + n·86400 s` (Go has no leap seconds) and
`lifecycleNextMidnightUTC t` truncates to the day and adds one day.

One function per sweep of `reconcileBucket` (each sweep lists afresh):
  expirePhase          expireObjects / expireObjectIfDue             (ListObjects)
  dmPhase              expireObjectDeleteMarkers / …IfDue            (ListObjectVersions)
  ncExpirePhase        expireNoncurrentObjectVersions / …IfDue       (ListObjectVersions)
  ncTransitionPhase    transitionNoncurrentObjectVersions / …IfDue   (ListObjectVersions)
  transitionPhase      transitionObjects / transitionObjectIfDue     (ListObjects)
  abortPhase           abortIncompleteUploads / abortUploadIfDue     (ListMultipartUploads)

`guardVersioned = false` is the code as it is (the version-addressed DeleteObject of the
noncurrent-version expiration carries no IfMatchETag); `true` is the repaired variant
(fixes/C25-noncurrent-expiration-if-match.patch). `strictDm` likewise for the expired-object
delete-marker sweep (fixes/C25-expired-delete-marker-sole-version.patch).
Not modelled: listing pagination (> 1000 entries), tag-fetch errors, cancellation, the ticker.
Core Lean only.
-/
namespace Pithos.Lifecycle

abbrev Bytes := List UInt8
abbrev Tags := List (Bytes × Bytes)

/-- one day in nanoseconds -/
def dayNs : Int := 86400000000000

/-- `lifecycleNextMidnightUTC`: the first midnight UTC strictly after `t`. -/
def nextMidnight (t : Int) : Int := (t / dayNs + 1) * dayNs

/-- `lifecycleNextMidnightUTC(t.AddDate(0, 0, n))` -/
def dueDays (t n : Int) : Int := nextMidnight (t + n * dayNs)

/-! ### rules -/

structure FilterAnd where
  pfx : Option Bytes
  tags : Tags
  gt : Option Int
  lt : Option Int
  deriving Repr, DecidableEq

structure Filter where
  pfx : Option Bytes
  tag : Option (Bytes × Bytes)
  gt : Option Int
  lt : Option Int
  and : Option FilterAnd
  deriving Repr, DecidableEq

structure Expiration where
  days : Option Int
  date : Option Int
  dm : Option Bool          -- ExpiredObjectDeleteMarker
  deriving Repr, DecidableEq

structure Transition where
  days : Option Int
  date : Option Int
  cls : Bytes
  deriving Repr, DecidableEq

structure NcExpiration where
  days : Option Int
  newer : Option Int
  deriving Repr, DecidableEq

structure NcTransition where
  days : Option Int
  newer : Option Int
  cls : Bytes
  deriving Repr, DecidableEq

structure Rule where
  enabled : Bool                      -- Status == "Enabled"
  pfx : Option Bytes                  -- legacy top-level Prefix
  filter : Option Filter
  expiration : Option Expiration
  abort : Option (Option Int)         -- AbortIncompleteMultipartUpload (≠ nil) . DaysAfterInitiation
  transitions : List Transition
  ncExpiration : Option NcExpiration
  ncTransitions : List NcTransition
  deriving Repr, DecidableEq

/-- `lifecycleRulePrefix` -/
def rulePrefix (r : Rule) : Bytes :=
  match r.pfx with
  | some p => p
  | none =>
    match r.filter with
    | none => []
    | some f =>
      match f.pfx with
      | some p => p
      | none =>
        match f.and with
        | some a => a.pfx.getD []
        | none => []

/-- the tag predicates `LifecycleRuleMatchesObject` collects -/
def filterTags (f : Filter) : Tags :=
  (match f.tag with | some t => [t] | none => []) ++ (match f.and with | some a => a.tags | none => [])

/-- size bounds after the `And` override -/
def filterGt (f : Filter) : Option Int :=
  match f.and with
  | some a => (match a.gt with | some g => some g | none => f.gt)
  | none => f.gt

def filterLt (f : Filter) : Option Int :=
  match f.and with
  | some a => (match a.lt with | some l => some l | none => f.lt)
  | none => f.lt

/-- Go map lookup `tags[k]` on the (key-unique) tag set -/
def tagLookup (tags : Tags) (k : Bytes) : Option Bytes :=
  (tags.find? (fun kv => kv.1 == k)).map (·.2)

def hasTag (tags : Tags) (t : Bytes × Bytes) : Bool := tagLookup tags t.1 == some t.2

/-- `LifecycleRuleMatchesObject` -/
def ruleMatches (r : Rule) (key : Bytes) (size : Int) (tags : Tags) : Bool :=
  if !(rulePrefix r).isPrefixOf key then false
  else match r.filter with
    | none => true
    | some f =>
      (match filterGt f with | some g => !(size ≤ g) | none => true) &&
      (match filterLt f with | some l => !(size ≥ l) | none => true) &&
      (filterTags f).all (hasTag tags)

/-- `LifecycleRuleNeedsObjectTags` -/
def needsTags (r : Rule) : Bool :=
  match r.filter with
  | none => false
  | some f => f.tag.isSome || (match f.and with | some a => !a.tags.isEmpty | none => false)

/-! ### due times (`none` = the Go function returns nil) -/

/-- `LifecycleExpirationDueTime` -/
def expirationDue (r : Rule) (created : Int) : Option Int :=
  match r.expiration with
  | none => none
  | some e =>
    match e.date with
    | some d => some d
    | none => e.days.map (dueDays created)

/-- `LifecycleTransitionDueTime` -/
def transitionDue (t : Transition) (created : Int) : Option Int :=
  match t.date with
  | some d => some d
  | none => t.days.map (dueDays created)

/-- `LifecycleAbortDueTime` -/
def abortDue (r : Rule) (initiated : Int) : Option Int :=
  match r.abort with
  | some (some n) => some (dueDays initiated n)
  | _ => none

/-- `LifecycleNoncurrentExpirationDueTime` -/
def ncExpirationDue (r : Rule) (since : Int) : Option Int :=
  match r.ncExpiration with
  | some e => e.days.map (dueDays since)
  | none => none

/-- `LifecycleNoncurrentTransitionDueTime` -/
def ncTransitionDue (t : NcTransition) (since : Int) : Option Int := t.days.map (dueDays since)

/-- `dueTime == nil || now.Before(*dueTime)` is the "skip" test; this is its negation. -/
def isDue (due : Option Int) (now : Int) : Bool :=
  match due with
  | some d => !(now < d)
  | none => false

/-! ### what the inner storage lists -/

/-- an entry of `ListObjects` -/
structure Obj where
  key : Bytes
  lm : Int               -- LastModified
  etag : Bytes
  size : Int
  cls : Bytes            -- EffectiveStorageClass(StorageClass)
  ltags : Tags           -- Tags carried by the listing entry (often empty)
  stags : Tags           -- what GetObjectTagging(key) answers
  deriving Repr, DecidableEq

/-- `tags := object.Tags; tagsFetched := len(tags) > 0`, lazily replaced by GetObjectTagging -/
def Obj.tags (o : Obj) : Tags := if o.ltags.isEmpty then o.stags else o.ltags

/-- an entry of `ListObjectVersions` -/
structure Ver where
  key : Bytes
  vid : Bytes
  dm : Bool
  latest : Bool
  lm : Int
  size : Int
  etag : Option Bytes
  cls : Bytes
  stags : Tags           -- what GetObjectTagging(key, versionId) answers
  deriving Repr, DecidableEq

structure Upl where
  key : Bytes
  uploadId : Bytes
  initiated : Int
  deriving Repr, DecidableEq

/-- a mutating call on the inner storage -/
inductive Call where
  | del (key : Bytes) (vid : Option Bytes) (ifMatch : Option Bytes)
  | trans (key : Bytes) (target : Bytes) (vid : Option Bytes) (ifMatch : Option Bytes)
  | abort (key : Bytes) (uploadId : Bytes)
  deriving Repr, DecidableEq

/-! ### rule classes of `reconcileBucket` -/

def isExpirationRule (r : Rule) : Bool :=
  r.enabled && (match r.expiration with | some e => e.days.isSome || e.date.isSome | none => false)

def isDmRule (r : Rule) : Bool :=
  r.enabled && (match r.expiration with | some e => e.dm == some true | none => false)

def isNcExpirationRule (r : Rule) : Bool := r.enabled && r.ncExpiration.isSome
def isNcTransitionRule (r : Rule) : Bool := r.enabled && !r.ncTransitions.isEmpty
def isAbortRule (r : Rule) : Bool := r.enabled && r.abort.isSome
def isTransitionRule (r : Rule) : Bool := r.enabled && !r.transitions.isEmpty

/-! ### current-version expiration -/

/-- the rule test of `expireObjectIfDue` -/
def expireRuleFires (now : Int) (o : Obj) (r : Rule) : Bool :=
  isDue (expirationDue r o.lm) now && ruleMatches r o.key o.size o.tags

/-- `expireObjectIfDue`: the first due, matching rule issues one guarded delete and returns. -/
def expireObj (rules : List Rule) (now : Int) (o : Obj) : Option Call :=
  match (rules.filter isExpirationRule).find? (expireRuleFires now o) with
  | some _ => some (.del o.key none (some o.etag))
  | none => none

def expirePhase (rules : List Rule) (now : Int) (objs : List Obj) : List Call :=
  objs.filterMap (expireObj rules now)

/-! ### current-version transition -/

/-- "pick the one with the latest due time": strict `After`, so the first of equals stays. -/
def pickLatest : Option (Int × Bytes) → List (Int × Bytes) → Option (Int × Bytes)
  | acc, [] => acc
  | none, c :: cs => pickLatest (some c) cs
  | some a, c :: cs => if a.1 < c.1 then pickLatest (some c) cs else pickLatest (some a) cs

/-- the due, class-changing transitions of one rule (`break` on a non-matching rule) -/
def ruleTransCands (now : Int) (o : Obj) (r : Rule) : List (Int × Bytes) :=
  if ruleMatches r o.key o.size o.tags then
    r.transitions.filterMap fun t =>
      match transitionDue t o.lm with
      | some d => if !(now < d) && t.cls != o.cls then some (d, t.cls) else none
      | none => none
  else []

def transCands (rules : List Rule) (now : Int) (o : Obj) : List (Int × Bytes) :=
  (rules.filter isTransitionRule).flatMap (ruleTransCands now o)

def transitionObj (rules : List Rule) (now : Int) (o : Obj) : Option Call :=
  match pickLatest none (transCands rules now o) with
  | some (_, target) => some (.trans o.key target none (some o.etag))
  | none => none

def transitionPhase (rules : List Rule) (now : Int) (objs : List Obj) : List Call :=
  objs.filterMap (transitionObj rules now)

/-! ### version sweeps: grouping, ordering, the walk -/

/-- `sort.SliceStable(versions, LastModified.After)`: stable insertion sort, newest first. -/
def insertByLm (v : Ver) : List Ver → List Ver
  | [] => [v]
  | w :: ws => if v.lm < w.lm then w :: insertByLm v ws else v :: w :: ws

def sortByLm : List Ver → List Ver
  | [] => []
  | v :: vs => insertByLm v (sortByLm vs)

/-- keys in order of first appearance -/
def keysOf : List Ver → List Bytes
  | [] => []
  | v :: vs => v.key :: (keysOf vs).filter (· != v.key)

/-- `versionsByKey[k]`, listing order kept, then sorted -/
def group (vs : List Ver) (k : Bytes) : List Ver := sortByLm (vs.filter (·.key == k))

/-- The loop over one key's sorted versions. `prev` = LastModified of the element before
(`none` at index 0), `cnt` = `newerNoncurrentVersions`. -/
def ncWalk (f : Ver → Int → Nat → Option Call) : Option Int → Nat → List Ver → List Call
  | _, _, [] => []
  | prev, cnt, v :: rest =>
    if v.latest || v.dm then ncWalk f (some v.lm) cnt rest
    else match prev with
      | none => ncWalk f (some v.lm) cnt rest
      | some p => (f v p cnt).toList ++ ncWalk f (some v.lm) (cnt + 1) rest

/-- `newerNoncurrentVersions <= int(*NewerNoncurrentVersions)` ⇒ skip -/
def retained (newer : Option Int) (cnt : Nat) : Bool :=
  match newer with
  | some n => (cnt : Int) ≤ n
  | none => false

/-! ### noncurrent-version expiration -/

def ncExpireRuleFires (now : Int) (v : Ver) (since : Int) (cnt : Nat) (r : Rule) : Bool :=
  match r.ncExpiration with
  | none => false
  | some e =>
    isDue (ncExpirationDue r since) now && !retained e.newer cnt && ruleMatches r v.key v.size v.stags

/-- `expireNoncurrentObjectVersionIfDue` -/
def ncExpireVer (guardVersioned : Bool) (rules : List Rule) (now : Int) (v : Ver) (since : Int) (cnt : Nat) :
    Option Call :=
  match (rules.filter isNcExpirationRule).find? (ncExpireRuleFires now v since cnt) with
  | some _ => some (.del v.key (some v.vid) (if guardVersioned then v.etag else none))
  | none => none

def ncExpirePhase (guardVersioned : Bool) (rules : List Rule) (now : Int) (vs : List Ver) : List Call :=
  (keysOf vs).flatMap fun k => ncWalk (ncExpireVer guardVersioned rules now) none 0 (group vs k)

/-! ### noncurrent-version transition -/

def ruleNcTransCands (now : Int) (v : Ver) (since : Int) (cnt : Nat) (r : Rule) : List (Int × Bytes) :=
  if ruleMatches r v.key v.size v.stags then
    r.ncTransitions.filterMap fun t =>
      match ncTransitionDue t since with
      | some d => if !(now < d) && !retained t.newer cnt && t.cls != v.cls then some (d, t.cls) else none
      | none => none
  else []

def ncTransCands (rules : List Rule) (now : Int) (v : Ver) (since : Int) (cnt : Nat) : List (Int × Bytes) :=
  (rules.filter isNcTransitionRule).flatMap (ruleNcTransCands now v since cnt)

/-- `transitionNoncurrentObjectVersionIfDue` -/
def ncTransitionVer (rules : List Rule) (now : Int) (v : Ver) (since : Int) (cnt : Nat) : Option Call :=
  match pickLatest none (ncTransCands rules now v since cnt) with
  | some (_, target) => some (.trans v.key target (some v.vid) v.etag)
  | none => none

def ncTransitionPhase (rules : List Rule) (now : Int) (vs : List Ver) : List Call :=
  (keysOf vs).flatMap fun k => ncWalk (ncTransitionVer rules now) none 0 (group vs k)

/-! ### expired object delete markers -/

/-- the last listed entry of the key that is both latest and a delete marker -/
def currentDm (vs : List Ver) : Option Ver := (vs.reverse.find? fun v => v.latest && v.dm)

/-- what makes the key ineligible (`candidate.hasObjectVersion`): as it is, any listed version that
is not a delete marker; `strictDm` (fixes/C25-expired-delete-marker-sole-version.patch): any listed
version other than the current delete marker, i.e. S3's "zero noncurrent versions". -/
def blocksDm (strictDm : Bool) (v : Ver) : Bool := if strictDm then !(v.latest && v.dm) else !v.dm

/-- `expireObjectDeleteMarkers` for one key (`vs` = that key's listed versions) -/
def dmKey (strictDm : Bool) (rules : List Rule) (vs : List Ver) : Option Call :=
  match currentDm vs with
  | none => none
  | some d =>
    if vs.any (blocksDm strictDm) then none
    else match (rules.filter isDmRule).find? (fun r => ruleMatches r d.key d.size []) with
      | some _ => some (.del d.key (some d.vid) none)
      | none => none

def dmPhase (strictDm : Bool) (rules : List Rule) (vs : List Ver) : List Call :=
  (keysOf vs).filterMap fun k => dmKey strictDm rules (vs.filter (·.key == k))

/-! ### incomplete multipart uploads -/

def abortRuleFires (now : Int) (u : Upl) (r : Rule) : Bool :=
  ruleMatches r u.key 0 [] && isDue (abortDue r u.initiated) now

def abortUpl (rules : List Rule) (now : Int) (u : Upl) : Option Call :=
  match (rules.filter isAbortRule).find? (abortRuleFires now u) with
  | some _ => some (.abort u.key u.uploadId)
  | none => none

def abortPhase (rules : List Rule) (now : Int) (us : List Upl) : List Call := us.filterMap (abortUpl rules now)

/-! ### which sweeps run, in which order (`reconcileBucket`) -/

inductive Phase where
  | expire | dm | ncExpire | ncTransition | transition | abort
  deriving Repr, DecidableEq

def phases (rules : List Rule) : List Phase :=
  (if rules.any isExpirationRule then [Phase.expire] else []) ++
  (if rules.any isDmRule then [Phase.dm] else []) ++
  (if rules.any isNcExpirationRule then [Phase.ncExpire] else []) ++
  (if rules.any isNcTransitionRule then [Phase.ncTransition] else []) ++
  (if rules.any isTransitionRule then [Phase.transition] else []) ++
  (if rules.any isAbortRule then [Phase.abort] else [])

/-! ### the two current-version sweeps against a store (for "expiration before transition")

`ListObjects` shows the current, non-delete-marker version of each key; a guarded delete that
succeeds removes that entry from the next listing (unversioned: the object is gone; versioned: a
delete marker becomes current). -/

def applyCall (objs : List Obj) : Call → List Obj
  | .del k none (some e) => objs.filter fun o => !(o.key == k && o.etag == e)
  | _ => objs

def currentPass (rules : List Rule) (now : Int) (objs : List Obj) : List Call × List Call :=
  let c1 := if rules.any isExpirationRule then expirePhase rules now objs else []
  let objs' := c1.foldl applyCall objs
  let c2 := if rules.any isTransitionRule then transitionPhase rules now objs' else []
  (c1, c2)

end Pithos.Lifecycle
