/-
M6 (part 3): part stores and part-store middlewares as state transformers.

A `Store` is an abstract part store: a state type with `put/get/del/ids`, a background step `tick`
(the outbox worker) and the tx-free capabilities it advertises. Each middleware of
/repo/internal/storage/metadatapart/partstore is a function `Store → Store` that mirrors its Go code
(including its defects; the switches in `Fixes` select the repaired variants). A stack is
`ws.foldr (wrap P F) (baseStore F base)`.

Granularity: one operation = one committed transaction (or one tx-free call). The `tx : Bool`
argument says whether the caller passed a transaction; the models pass it down exactly like the code
does, so the correctness theorem quantifies over it. What happens *inside* an uncommitted
transaction, on rollback or on a crash is the subject of C03/C10, not of this model.

Streams: `GetPart` returns a reader, not bytes. Two properties of that reader are visible to the
middleware above and are therefore part of the model: whether it is an `io.ReadSeeker` (tink then
uses its own seekable decrypter) and what it returns when it is read again after it has reported
EOF (tink-go 1.7's streaming reader re-serves its last segment; a second tink layer above it reads
exactly once more and fails authentication).

External functions (compressors, the tink envelope, the erasure code, SHA-256, CRC-64) are the fields
of `Prims`; theorems assume round-trip properties about them, the driver instantiates them with toys.

Core Lean only.
-/
import Pithos.Model.PartCodec
import Pithos.Model.ErasureCoding

namespace Pithos.PartStore
open Pithos.Codec

abbrev PartId := Nat

/-! ## association lists -/

abbrev KV (V : Type) := List (PartId × V)

def KV.find {V : Type} (m : KV V) (i : PartId) : Option V := (m.find? (fun e => e.1 == i)).map (·.2)
def KV.erase {V : Type} (m : KV V) (i : PartId) : KV V := m.filter (fun e => e.1 != i)
def KV.set {V : Type} (m : KV V) (i : PartId) (v : V) : KV V := (i, v) :: KV.erase m i
def KV.keys {V : Type} (m : KV V) : List PartId := m.map (·.1)

/-! ## streams, results, capabilities -/

structure Stream where
  bytes : Bytes
  seekable : Bool := false
  /-- what further `Read` calls deliver after the first EOF (`[]` = EOF again, the well-behaved case) -/
  afterEof : Bytes := []
  deriving Repr, DecidableEq

inductive GetOut where
  | notFound
  | ok (s : Stream)
  | err                      -- GetPart failed, or the stream ended with an error instead of EOF
  deriving Repr, DecidableEq

/-- the bytes a reader delivers up to its first EOF (`none`: there is no reader) -/
def GetOut.bytes? : GetOut → Option Bytes
  | .ok s => some s.bytes
  | _ => none

structure GetRes (σ : Type) where
  st : σ
  out : GetOut
  /-- a shard-store call made by an erasure-coding layer dereferenced a nil transaction -/
  panicked : Bool := false

structure Caps where
  get : Bool
  put : Bool
  del : Bool
  deriving Repr, DecidableEq

structure Store where
  σ : Type
  init : σ
  caps : Caps
  put : Bool → σ → PartId → Bytes → σ
  get : Bool → σ → PartId → GetRes σ
  del : Bool → σ → PartId → σ
  ids : σ → List PartId
  tick : σ → σ
  pending : σ → Nat

/-! ## parameters -/

structure Prims where
  crc : Bytes → Nat
  compress : Alg → Bytes → Bytes
  decompress : Alg → Bytes → Option Bytes
  /-- the sampling decision of `compression.PutPart` (sample size, algorithm, content) -/
  shouldCompress : Nat → Alg → Bytes → Bool
  /-- tink: the stream stored for a part (fresh randomness, part id, plaintext) -/
  tinkSeal : Nat → PartId → Bytes → Bytes
  tinkOpen : PartId → Bytes → Option Bytes
  /-- plaintext of the last tink segment of a part -/
  lastSeg : Bytes → Bytes
  code : EC.Code
  hash : Bytes → Bytes

structure Fixes where
  /-- sql.PutPart stores one empty row for empty content -/
  sqlEmptyRow : Bool := false
  ec : EC.Fix := {}
  /-- tink's sequential reader keeps answering EOF once it has answered EOF -/
  tinkStickyEof : Bool := false
  deriving Repr, DecidableEq

/-- the code before any of the repairs -/
def Fixes.asIs : Fixes := {}
/-- the code as it is in /repo now: the SQL empty-part repair (6ff38ea), not-found for absent
erasure-coded parts (38bdbce), the sticky EOF of the tink reader (c3b23d1) and parity healing (8d1eb6f) are
in; the two further erasure-coding repairs of C17 (`endWhenEnoughEnded`, `failWhenTooFewOpen`) are
proposed. The driver does not rely on this constant: the harness probes the tree. -/
def Fixes.current : Fixes :=
  { sqlEmptyRow := true, ec := { notFoundWhenAllMissing := true, healParity := true }, tinkStickyEof := true }
def Fixes.repaired : Fixes := { sqlEmptyRow := true, ec := EC.Fix.repaired, tinkStickyEof := true }

def sqlChunkSize : Nat := 256 * 1000 * 1000
def outboxChunkSize : Nat := 8 * 1024 * 1024

/-! ## base stores -/

/-- filesystem.go: one file per part; the reader is the `*os.File`. -/
@[reducible] def fsStore : Store where
  σ := KV Bytes
  init := []
  caps := ⟨true, true, true⟩
  put _ s i b := KV.set s i b
  get _ s i := match KV.find s i with
    | some b => ⟨s, .ok ⟨b, true, []⟩, false⟩
    | none => ⟨s, .notFound, false⟩
  del _ s i := KV.erase s i
  ids s := KV.keys s
  tick s := s
  pending _ := 0

/-- sql.go: rows (part id, chunk index, content). `PutPart` first deletes the part's rows and then
writes one row per non-empty chunk — so no row at all for empty content; `GetPart` answers not-found
when row 0 does not exist. -/
@[reducible] def sqlStore (F : Fixes) : Store where
  σ := KV (List Bytes)
  init := []
  caps := ⟨false, false, false⟩
  put _ s i b :=
    let cs := chunks sqlChunkSize b
    if cs.isEmpty then (if F.sqlEmptyRow then KV.set s i [[]] else KV.erase s i) else KV.set s i cs
  get _ s i := match KV.find s i with
    | some cs => ⟨s, .ok ⟨concat cs, false, []⟩, false⟩
    | none => ⟨s, .notFound, false⟩
  del _ s i := KV.erase s i
  ids s := KV.keys s
  tick s := s
  pending _ := 0

/-! ## compression.go -/

def compressEncode (P : Prims) (alg : Alg) (sample : Nat) (b : Bytes) : Bytes :=
  if P.shouldCompress sample alg b then newHeader P.crc alg ++ P.compress alg b
  else newHeader P.crc .none ++ b

def compressDecode (P : Prims) (s : Stream) : GetOut :=
  if s.bytes.length < headerSize then
    -- io.ReadFull hit EOF: MultiReader(header[:n], rc) — rc is read once more
    .ok ⟨s.bytes ++ s.afterEof, false, []⟩
  else match parseHeader P.crc (s.bytes.take headerSize) with
    | none => .ok ⟨s.bytes, false, []⟩                               -- legacy: no header, stream handed out as it is
    | some .none => .ok ⟨s.bytes.drop headerSize, s.seekable, s.afterEof⟩  -- the inner reader itself, positioned behind the header
    | some a => match P.decompress a (s.bytes.drop headerSize) with
      | some b => .ok ⟨b, false, []⟩
      | none => .err

@[reducible] def compressWrap (P : Prims) (alg : Alg) (sample : Nat) (S : Store) : Store where
  σ := S.σ
  init := S.init
  caps := S.caps
  put tx s i b := S.put tx s i (compressEncode P alg sample b)
  get tx s i :=
    let r := S.get tx s i
    match r.out with
    | .ok st => ⟨r.st, compressDecode P st, r.panicked⟩
    | o => ⟨r.st, o, r.panicked⟩
  del tx s i := S.del tx s i
  ids s := S.ids s
  tick s := S.tick s
  pending s := S.pending s

/-! ## tink.go (envelope and segments are opaque here; `Model/TinkSeek` has the detail) -/

def tinkDecode (P : Prims) (F : Fixes) (i : PartId) (s : Stream) : GetOut :=
  if s.bytes.isEmpty then
    -- the lazy initialiser's io.ReadFull of the 4 length bytes answers io.EOF: reads as an empty part
    .ok ⟨[], s.seekable, []⟩
  else match P.tinkOpen i s.bytes with
    | none => .err
    | some b =>
      if s.seekable then .ok ⟨b, true, []⟩                 -- seekable.go
      else if F.tinkStickyEof then .ok ⟨b, false, []⟩
      else if !s.afterEof.isEmpty then .err                 -- the extra read after the last segment gets bytes, not EOF
      else .ok ⟨b, false, P.lastSeg b⟩

@[reducible] def tinkWrap (P : Prims) (F : Fixes) (S : Store) : Store where
  σ := S.σ × Nat
  init := (S.init, 0)
  caps := S.caps
  put tx s i b := (S.put tx s.1 i (P.tinkSeal s.2 i b), s.2 + 1)
  get tx s i :=
    let r := S.get tx s.1 i
    match r.out with
    | .ok st => ⟨(r.st, s.2), tinkDecode P F i st, r.panicked⟩
    | o => ⟨(r.st, s.2), o, r.panicked⟩
  del tx s i := (S.del tx s.1 i, s.2)
  ids s := S.ids s.1
  tick s := (S.tick s.1, s.2)
  pending s := S.pending s.1

/-! ## cache.go -/

structure CacheSt (σ : Type) where
  inner : σ
  cache : KV Bytes
  hints : List PartId        -- oversizedHints

@[reducible] def cacheWrap (max : Nat) (S : Store) : Store where
  σ := CacheSt S.σ
  init := ⟨S.init, [], []⟩
  caps := S.caps
  put tx s i b :=
    let inner := S.put tx s.inner i b
    if b.length ≤ max then ⟨inner, KV.set s.cache i b, s.hints.filter (· != i)⟩
    else ⟨inner, KV.erase s.cache i, i :: s.hints.filter (· != i)⟩
  get tx s i :=
    match KV.find s.cache i with
    | some b => ⟨s, .ok ⟨b, false, []⟩, false⟩
    | none =>
      let r := S.get tx s.inner i
      if s.hints.contains i then ⟨{ s with inner := r.st }, r.out, r.panicked⟩
      else match r.out with
        | .ok st =>
          -- streamingCacheOnReadCloser: read to EOF, the cache is filled unless the part is too large
          if st.bytes.length ≤ max then
            ⟨⟨r.st, KV.set s.cache i st.bytes, s.hints.filter (· != i)⟩, .ok ⟨st.bytes, false, st.afterEof⟩, r.panicked⟩
          else
            ⟨⟨r.st, KV.erase s.cache i, i :: s.hints⟩, .ok ⟨st.bytes, false, st.afterEof⟩, r.panicked⟩
        | o => ⟨{ s with inner := r.st }, o, r.panicked⟩
  del tx s i := ⟨S.del tx s.inner i, KV.erase s.cache i, s.hints.filter (· != i)⟩
  ids s := S.ids s.inner
  tick s := { s with inner := S.tick s.inner }
  pending s := S.pending s.inner

/-! ## outbox.go -/

structure Entry where
  isPut : Bool
  id : PartId
  chunks : List Bytes
  deriving Repr, DecidableEq

/-- `FindLastPartOutboxEntryByPartId`: the newest entry of the queue that names part `i`. -/
def lastEntry : List Entry → PartId → Option Entry
  | [], _ => none
  | e :: rest, i =>
    match lastEntry rest i with
    | some e' => some e'
    | none => if e.id == i then some e else none

/-- order-preserving removal of duplicates (first occurrence wins, like the `seen` maps of the code) -/
def dedup : List PartId → List PartId
  | [] => []
  | a :: l => a :: (dedup l).filter (· != a)

@[reducible] def outboxWrap (S : Store) : Store where
  σ := S.σ × List Entry
  init := (S.init, [])
  caps := ⟨S.caps.get, false, false⟩
  put _ s i b := (s.1, s.2 ++ [⟨true, i, chunks outboxChunkSize b⟩])
  get tx s i :=
    match lastEntry s.2 i with
    | none => let r := S.get tx s.1 i; ⟨(r.st, s.2), r.out, r.panicked⟩
    | some e =>
      if e.isPut then ⟨s, .ok ⟨concat e.chunks, false, []⟩, false⟩    -- no chunk rows = empty part
      else ⟨s, .notFound, false⟩
  del _ s i := (s.1, s.2 ++ [⟨false, i, []⟩])
  ids s :=
    let inner := S.ids s.1
    let keep := inner.filter fun i => match lastEntry s.2 i with
      | some e => e.isPut
      | none => true
    let added := (dedup (s.2.map (·.id))).filter fun i =>
      (match lastEntry s.2 i with | some e => e.isPut | none => false) && !inner.contains i
    keep ++ added
  tick s :=
    match s.2 with
    | [] => (S.tick s.1, [])
    | e :: rest =>
      -- replayPutPart / replayDeletePart: tx-free when the inner store can, else in a write transaction
      if e.isPut then (S.put (!S.caps.put) s.1 e.id (concat e.chunks), rest)
      else (S.del (!S.caps.del) s.1 e.id, rest)
  pending s := s.2.length + S.pending s.1

/-! ## erasurecoding.go over `c.n` copies of the inner store -/

@[reducible] def ecWrap (P : Prims) (F : Fixes) (c : EC.Cfg) (S : Store) : Store where
  σ := Nat → S.σ
  init := fun _ => S.init
  caps := S.caps
  put tx s i b := fun k => if k < c.n then S.put tx (s k) i (EC.shardStream c P.code P.hash k b) else s k
  get tx s i :=
    let rs := (List.range c.n).map fun k => S.get tx (s k) i
    let s1 : Nat → S.σ := fun k => if k < c.n then (S.get tx (s k) i).st else s k
    let pan := rs.any (·.panicked)
    if rs.any (fun r => r.out == .err) then ⟨s1, .err, pan⟩ else
    let streams := rs.map fun r => r.out.bytes?
    match EC.read c P.code P.hash F.ec streams with
    | .notFound => ⟨s1, .notFound, pan⟩
    | .result r =>
      -- heal writers call PutPart of the shard stores with the caller's tx; a nil tx panics in stores that need one
      let canPut := tx || S.caps.put
      let s2 : Nat → S.σ := fun k => match r.heals.getD k none with
        | some h => if canPut then S.put tx (s1 k) i h else s1 k
        | none => s1 k
      ⟨s2, if r.failed then .err else .ok ⟨r.out, false, []⟩, pan || (r.heals.any Option.isSome && !canPut)⟩
  del tx s i := fun k => if k < c.n then S.del tx (s k) i else s k
  ids s := dedup ((List.range c.n).flatMap fun k => S.ids (s k))
  tick s := fun k => if k < c.n then S.tick (s k) else s k
  pending s := ((List.range c.n).map fun k => S.pending (s k)).sum

/-! ## stacks -/

inductive Mw where
  | compress (alg : Alg) (sample : Nat)
  | tink
  | cache (max : Nat)
  | outbox
  | ec (c : EC.Cfg)
  deriving Repr, DecidableEq

inductive Base where
  | fs | sql
  deriving Repr, DecidableEq

def baseStore (F : Fixes) : Base → Store
  | .fs => fsStore
  | .sql => sqlStore F

def wrap (P : Prims) (F : Fixes) : Mw → Store → Store
  | .compress a n, S => compressWrap P a n S
  | .tink, S => tinkWrap P F S
  | .cache m, S => cacheWrap m S
  | .outbox, S => outboxWrap S
  | .ec c, S => ecWrap P F c S

def stack (P : Prims) (F : Fixes) (ws : List Mw) (base : Base) : Store :=
  ws.foldr (wrap P F) (baseStore F base)

/-! ## histories -/

inductive Op where
  | put (tx : Bool) (i : PartId) (b : Bytes)
  | get (tx : Bool) (i : PartId)
  | del (tx : Bool) (i : PartId)
  | ids
  | flush
  deriving Repr, DecidableEq

inductive Obs where
  | done
  | got (o : GetOut) (panicked : Bool)
  | ids (l : List PartId)
  deriving Repr, DecidableEq

/-- Run the background worker(s) until nothing is pending. -/
def drain (S : Store) : Nat → S.σ → S.σ
  | 0, s => s
  | f + 1, s => if S.pending s = 0 then s else drain S f (S.tick s)

def step (S : Store) (s : S.σ) : Op → S.σ × Obs
  | .put tx i b => (S.put tx s i b, .done)
  | .get tx i => let r := S.get tx s i; (r.st, .got r.out r.panicked)
  | .del tx i => (S.del tx s i, .done)
  | .ids => (s, .ids (S.ids s))
  | .flush => (drain S ((S.pending s + 1) * 64) s, .done)

def run (S : Store) (s : S.σ) : List Op → List Obs
  | [] => []
  | op :: ops => let r := step S s op; r.2 :: run S r.1 ops

end Pithos.PartStore
