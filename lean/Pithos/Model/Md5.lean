/-
MD5 (RFC 1321) over byte lists — used only by the C07 driver to render the symbolic ETags of the
S3 model (`S3.ETag`) as the concrete strings the implementation returns, so that concurrent
histories can be compared without a sequential first-seen binding. The driver cross-checks this
implementation against Go's crypto/md5 on every body of every case (`md5` trace lines).
Core Lean only.
-/
namespace Pithos.Md5

def K : Array UInt32 := #[
  0xd76aa478, 0xe8c7b756, 0x242070db, 0xc1bdceee, 0xf57c0faf, 0x4787c62a, 0xa8304613, 0xfd469501,
  0x698098d8, 0x8b44f7af, 0xffff5bb1, 0x895cd7be, 0x6b901122, 0xfd987193, 0xa679438e, 0x49b40821,
  0xf61e2562, 0xc040b340, 0x265e5a51, 0xe9b6c7aa, 0xd62f105d, 0x02441453, 0xd8a1e681, 0xe7d3fbc8,
  0x21e1cde6, 0xc33707d6, 0xf4d50d87, 0x455a14ed, 0xa9e3e905, 0xfcefa3f8, 0x676f02d9, 0x8d2a4c8a,
  0xfffa3942, 0x8771f681, 0x6d9d6122, 0xfde5380c, 0xa4beea44, 0x4bdecfa9, 0xf6bb4b60, 0xbebfbc70,
  0x289b7ec6, 0xeaa127fa, 0xd4ef3085, 0x04881d05, 0xd9d4d039, 0xe6db99e5, 0x1fa27cf8, 0xc4ac5665,
  0xf4292244, 0x432aff97, 0xab9423a7, 0xfc93a039, 0x655b59c3, 0x8f0ccc92, 0xffeff47d, 0x85845dd1,
  0x6fa87e4f, 0xfe2ce6e0, 0xa3014314, 0x4e0811a1, 0xf7537e82, 0xbd3af235, 0x2ad7d2bb, 0xeb86d391]

def S : Array UInt32 := #[
  7, 12, 17, 22, 7, 12, 17, 22, 7, 12, 17, 22, 7, 12, 17, 22,
  5, 9, 14, 20, 5, 9, 14, 20, 5, 9, 14, 20, 5, 9, 14, 20,
  4, 11, 16, 23, 4, 11, 16, 23, 4, 11, 16, 23, 4, 11, 16, 23,
  6, 10, 15, 21, 6, 10, 15, 21, 6, 10, 15, 21, 6, 10, 15, 21]

def rotl (x c : UInt32) : UInt32 := (x <<< c) ||| (x >>> (32 - c))

/-- message ++ 0x80 ++ zeros ++ 64-bit little-endian bit length, a multiple of 64 bytes -/
def pad (msg : List UInt8) : List UInt8 :=
  let n := msg.length
  let zeros := (55 + 64 - n % 64) % 64
  let bits := n * 8
  msg ++ [(0x80 : UInt8)] ++ List.replicate zeros (0 : UInt8) ++
    ((List.range 8).map fun i => UInt8.ofNat ((bits >>> (8 * i)) % 256))

def word (bs : Array UInt8) (i : Nat) : UInt32 :=
  (bs[i]!).toUInt32 ||| ((bs[i + 1]!).toUInt32 <<< 8) ||| ((bs[i + 2]!).toUInt32 <<< 16) ||| ((bs[i + 3]!).toUInt32 <<< 24)

structure Regs where
  a : UInt32
  b : UInt32
  c : UInt32
  d : UInt32

def round (m : Array UInt32) (r : Regs) (i : Nat) : Regs :=
  let (f, g) :=
    if i < 16 then ((r.b &&& r.c) ||| ((~~~ r.b) &&& r.d), i)
    else if i < 32 then ((r.d &&& r.b) ||| ((~~~ r.d) &&& r.c), (5 * i + 1) % 16)
    else if i < 48 then (r.b ^^^ r.c ^^^ r.d, (3 * i + 5) % 16)
    else (r.c ^^^ (r.b ||| (~~~ r.d)), (7 * i) % 16)
  let f' := f + r.a + K[i]! + m[g]!
  { a := r.d, d := r.c, c := r.b, b := r.b + rotl f' S[i]! }

def block (h : Regs) (bs : Array UInt8) (off : Nat) : Regs :=
  let m : Array UInt32 := (Array.range 16).map fun j => word bs (off + 4 * j)
  let r := (List.range 64).foldl (round m) h
  { a := h.a + r.a, b := h.b + r.b, c := h.c + r.c, d := h.d + r.d }

def le32 (x : UInt32) : List UInt8 :=
  [x.toUInt8, (x >>> 8).toUInt8, (x >>> 16).toUInt8, (x >>> 24).toUInt8]

def md5 (msg : List UInt8) : List UInt8 :=
  let bs := (pad msg).toArray
  let h0 : Regs := ⟨0x67452301, 0xefcdab89, 0x98badcfe, 0x10325476⟩
  let h := (List.range (bs.size / 64)).foldl (fun h k => block h bs (64 * k)) h0
  le32 h.a ++ le32 h.b ++ le32 h.c ++ le32 h.d

end Pithos.Md5
