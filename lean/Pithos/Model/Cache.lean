/-
M8 (part 1): `GenericCache` (/repo/internal/cache/genericcache.go) with its eviction policies
(evictionpolicy/lfu, evictnothing), eviction checkers (fixedsizelimit, fixedkeylimit) and persistors,
and the cache part store (/repo/internal/storage/metadatapart/partstore/cache/cache.go).

§1  `Heap`   Go's container/heap (Push/Pop/Remove/Fix with up/down) on a list, with the LFU `Less`.
§2  `Checker` the two eviction checkers.
§3  `Lfu`    the LFU policy. `guarded`/`dedupe` = false mirror the code as it is: the eviction loop pops
             without looking at the heap length, and a key that is set again gets a second heap entry.
§4  `Seq`    GenericCache as a sequential machine (what the T2 differential runs).
§5  `Conc`   GenericCache + persistor cut into atomic steps at the mutex boundaries the T1 lock-region
             extractor reports (`persistor.Store/Remove` of `Set` run outside `mu`; the filesystem persistor
             truncates, then copies).
§6  `Part`   the cache part store in front of an inner part store, atomic steps.
Keys, part ids and values are numbers (the driver maps the harness's tokens).
-/
namespace Pithos.Cache

abbrev Key := Nat

/-! ## §1 container/heap -/

structure Entry where
  key  : Key
  freq : Nat
  ts   : Nat      -- lastAccessTs: a logical clock, strictly increasing with every time.Now()
  deriving DecidableEq, Repr

abbrev Heap := List Entry

/-- `MinLFUCacheHeap.Less`. -/
def less (a b : Entry) : Bool := a.freq < b.freq || (a.freq == b.freq && a.ts < b.ts)

def lessAt (h : Heap) (i j : Nat) : Bool :=
  match h[i]?, h[j]? with
  | some a, some b => less a b
  | _, _ => false

def swap (h : Heap) (i j : Nat) : Heap :=
  if hh : i < h.length ∧ j < h.length then (h.set i h[j]).set j h[i] else h

/-- `heap.up`: `for { i := (j-1)/2; if i == j || !Less(j,i) { break }; Swap(i,j); j = i }`. -/
def up : Nat → Heap → Nat → Heap
  | 0, h, _ => h
  | f + 1, h, j =>
    let i := (j - 1) / 2
    if i == j || !lessAt h j i then h else up f (swap h i j) i

/-- The smaller child: `j := j1; if j2 := j1 + 1; j2 < n && Less(j2, j1) { j = j2 }`. -/
def child (h : Heap) (j1 n : Nat) : Nat := if j1 + 1 < n && lessAt h (j1 + 1) j1 then j1 + 1 else j1

/-- `heap.down(i0, n)`; returns the heap and the final position (Go returns `i > i0`). -/
def down : Nat → Heap → Nat → Nat → Heap × Nat
  | 0, h, i, _ => (h, i)
  | f + 1, h, i, n =>
    if 2 * i + 1 ≥ n then (h, i)
    else if !lessAt h (child h (2 * i + 1) n) i then (h, i)
    else down f (swap h i (child h (2 * i + 1) n)) (child h (2 * i + 1) n) n

/-- `heap.Push`. -/
def push (h : Heap) (e : Entry) : Heap := up (h.length + 1) (h ++ [e]) h.length

/-- `heap.Pop`; `none` = the index panic of popping an empty heap. -/
def pop (h : Heap) : Option (Entry × Heap) :=
  match h with
  | [] => none
  | e0 :: t =>
    let n := (e0 :: t).length - 1
    let h2 := (down (e0 :: t).length (swap (e0 :: t) 0 n) 0 n).1
    some (h2.getLastD e0, h2.dropLast)

/-- `heap.Remove(i)` for a valid index. -/
def remove (h : Heap) (i : Nat) : Heap :=
  let n := h.length - 1
  if n = i then h.dropLast
  else
    let r := down h.length (swap h i n) i n
    (if r.2 > i then r.1 else up h.length r.1 i).dropLast

/-- `heap.Fix(i)`. -/
def fix (h : Heap) (i : Nat) : Heap :=
  let r := down h.length h i h.length
  if r.2 > i then r.1 else up h.length r.1 i

/-- Index of the first entry (array order) with the key: what the `for … range` loops of TrackGet/TrackRemove find. -/
def findKey (h : Heap) (k : Key) : Option Nat :=
  let i := h.findIdx (fun e => e.key == k)
  if i < h.length then some i else none

/-! ## §2 eviction checkers -/

inductive Limit where
  | size (max : Nat)
  | keys (max : Nat)
  deriving DecidableEq, Repr

structure Checker where
  limit   : Limit
  tracked : List (Key × Nat)   -- keySet (fixedkeylimit stores no size: 0)
  cur     : Nat                -- currentSize (fixedsizelimit only)
  deriving DecidableEq, Repr

def Checker.init (l : Limit) : Checker := ⟨l, [], 0⟩

def Checker.sizeOf (c : Checker) (k : Key) : Option Nat := (c.tracked.find? (fun p => p.1 == k)).map (·.2)

def Checker.trackSet (c : Checker) (k : Key) (sz : Nat) : Checker :=
  match c.limit with
  | .size _ =>
    { c with tracked := (k, sz) :: c.tracked.filter (fun p => p.1 != k), cur := c.cur - (c.sizeOf k).getD 0 + sz }
  | .keys _ =>
    if (c.sizeOf k).isSome then c else { c with tracked := (k, 0) :: c.tracked }

def Checker.trackRemove (c : Checker) (k : Key) : Checker :=
  { c with tracked := c.tracked.filter (fun p => p.1 != k), cur := c.cur - (c.sizeOf k).getD 0 }

def Checker.shouldEvict (c : Checker) : Bool :=
  match c.limit with
  | .size m => c.cur > m
  | .keys m => c.tracked.length > m

def Checker.keys (c : Checker) : List Key := c.tracked.map (·.1)

/-! ## §3 LFU policy -/

structure Lfu where
  chk   : Checker
  heap  : Heap
  clock : Nat
  deriving DecidableEq, Repr

def Lfu.init (l : Limit) : Lfu := ⟨Checker.init l, [], 0⟩

/-- `for ShouldEvict() { e := heap.Pop(); checker.TrackRemove(e.key); evicted = append(evicted, e.key) }`.
`none` = panic (pop of an empty heap). `guarded` adds `&& heap.Len() > 0` to the loop condition. -/
def evictLoop (guarded : Bool) : Nat → Checker → Heap → List Key → Option (Checker × Heap × List Key)
  | 0, c, h, ev => some (c, h, ev)
  | f + 1, c, h, ev =>
    if c.shouldEvict then
      match pop h with
      | none => if guarded then some (c, h, ev) else none
      | some (e, h') => evictLoop guarded f (c.trackRemove e.key) h' (ev ++ [e.key])
    else some (c, h, ev)

/-- `TrackSetAndReturnEvictedKeys`. `dedupe` first removes an existing heap entry of the key. -/
def Lfu.trackSet (guarded dedupe : Bool) (s : Lfu) (k : Key) (sz : Nat) : Option (Lfu × List Key) :=
  let h0 := if dedupe then (match findKey s.heap k with | some i => remove s.heap i | none => s.heap) else s.heap
  match evictLoop guarded (h0.length + 1) (s.chk.trackSet k sz) h0 [] with
  | none => none
  | some (c, h, ev) => some (⟨c, push h ⟨k, 0, s.clock⟩, s.clock + 1⟩, ev)

/-- `TrackGet`: the first entry with the key gets frequency+1 and a fresh timestamp, then `heap.Fix`. -/
def Lfu.trackGet (s : Lfu) (k : Key) : Lfu :=
  match findKey s.heap k with
  | none => s
  | some i =>
    match s.heap[i]? with
    | none => s
    | some e => { s with heap := fix (s.heap.set i { e with freq := e.freq + 1, ts := s.clock }) i, clock := s.clock + 1 }

/-- `TrackRemove`. -/
def Lfu.trackRemove (s : Lfu) (k : Key) : Lfu :=
  let c := s.chk.trackRemove k
  match findKey s.heap k with
  | none => { s with chk := c }
  | some i => { s with chk := c, heap := remove s.heap i }

/-- Reading the LFU variant off the extracted source facts (T1): the text of the eviction loop's
condition, and the number of `heap.Remove` calls before the loop. `none` = a shape the model does not know. -/
def guardedOfCond (cond : String) : Option Bool :=
  if cond == "lfu.evictionChecker.ShouldEvict()" then some false
  else if cond == "lfu.evictionChecker.ShouldEvict()&&lfu.minLFUCacheHeap.Len()>0" then some true
  else if cond == "lfu.evictionChecker.ShouldEvict()&&len(lfu.minLFUCacheHeap)>0" then some true
  else none

def dedupeOfRemoves (n : Nat) : Option Bool :=
  if n == 0 then some false else if n == 1 then some true else none

/-- Filesystem persistor `Store`: atomic iff it renames a finished temporary file into place and never
opens the live file for writing. -/
def fsAtomicOfOps (ops : List String) : Bool :=
  ops.contains "Rename" && !(ops.any (fun o => o.startsWith "OpenFile:filename"))

inductive Policy where
  | nothing              -- evictnothing
  | lfu (s : Lfu)
  deriving DecidableEq, Repr

def Policy.trackSet (g d : Bool) (p : Policy) (k : Key) (sz : Nat) : Option (Policy × List Key) :=
  match p with
  | .nothing => some (.nothing, [])
  | .lfu s => (s.trackSet g d k sz).map (fun r => (.lfu r.1, r.2))

def Policy.trackGet : Policy → Key → Policy
  | .nothing, _ => .nothing
  | .lfu s, k => .lfu (s.trackGet k)

def Policy.trackRemove : Policy → Key → Policy
  | .nothing, _ => .nothing
  | .lfu s, k => .lfu (s.trackRemove k)

/-! ## §4 GenericCache, sequential -/
namespace Seq

structure St where
  pol      : Policy
  store    : List (Key × Nat)    -- persistor content: key ↦ value id
  poisoned : Bool                -- a panic inside `mu.Lock()…Unlock()` (not deferred) left the mutex locked
  deriving DecidableEq, Repr

inductive Op where
  | set (k : Key) (v : Nat) (sz : Nat) (known : Bool)   -- known: size ≥ 0 passed by the caller; else streamed (size −1)
  | setFail (k : Key) (sz : Nat) (known : Bool)          -- the reader fails: persistor.Store returns an error
  | get (k : Key)
  | remove (k : Key)
  deriving DecidableEq, Repr

inductive Out where
  | setOk (evicted : List Key)
  | setErr (evicted : List Key)
  | panic
  | hit (v : Nat)
  | miss
  | removed
  | dead           -- call on a poisoned cache: blocks forever on `mu`
  deriving DecidableEq, Repr

def erase (st : List (Key × Nat)) (k : Key) : List (Key × Nat) := st.filter (fun p => p.1 != k)
def insert (st : List (Key × Nat)) (k : Key) (v : Nat) : List (Key × Nat) := (k, v) :: erase st k
def lookup (st : List (Key × Nat)) (k : Key) : Option Nat := (st.find? (fun p => p.1 == k)).map (·.2)

def step (g d : Bool) (s : St) (op : Op) : St × Out :=
  if s.poisoned then (s, .dead) else
  match op with
  | .set k v sz known =>
    if known then
      match s.pol.trackSet g d k sz with
      | none => ({ s with poisoned := true }, .panic)
      | some (p, ev) => ({ s with pol := p, store := insert (ev.foldl erase s.store) k v }, .setOk ev)
    else
      let st1 := insert s.store k v
      match s.pol.trackSet g d k sz with
      | none => ({ s with store := st1, poisoned := true }, .panic)
      | some (p, ev) => ({ s with pol := p, store := ev.foldl erase st1 }, .setOk ev)
  | .setFail k sz known =>
    if known then
      match s.pol.trackSet g d k sz with
      | none => ({ s with poisoned := true }, .panic)
      | some (p, ev) => ({ s with pol := p.trackRemove k, store := erase (ev.foldl erase s.store) k }, .setErr ev)
    else ({ s with pol := s.pol.trackRemove k, store := erase s.store k }, .setErr [])
  | .get k =>
    ({ s with pol := s.pol.trackGet k },
      match lookup s.store k with
      | some v => .hit v
      | none => .miss)
  | .remove k => ({ s with pol := s.pol.trackRemove k, store := erase s.store k }, .removed)

def run (g d : Bool) (s : St) : List Op → St × List Out
  | [] => (s, [])
  | op :: ops =>
    let r := step g d s op
    let r2 := run g d r.1 ops
    (r2.1, r.2 :: r2.2)

def init (p : Policy) : St := ⟨p, [], false⟩

end Seq

/-! ## §5 GenericCache + persistor, atomic steps -/
namespace Conc

/-- What a reader can get out of the persistor for one key. -/
inductive Val where
  | full (v : Nat)     -- the complete value of a Set
  | torn               -- a truncated / half-written file
  deriving DecidableEq, Repr

inductive SetPc where | evict | trunc | fill | post | done
  deriving DecidableEq, Repr
inductive GetPc where | open_ | read | done
  deriving DecidableEq, Repr

/-- Threads. The eviction policy is abstracted to "any keys may be evicted": `ev` is the list a
`TrackSetAndReturnEvictedKeys` call returned (chosen by the environment), removed one per step. -/
inductive Thread where
  /-- `Set(k, v)`: [evict …] (size known) → Store → [evict …] (streamed). `fails`: the reader errors
  half-way, `Store` returns the error, `Set` removes the key. -/
  | set (k : Key) (v : Nat) (known fails : Bool) (ev : List Key) (pc : SetPc)
  /-- `Get(k)`: `open_` under `mu` (miss / a handle); `read`: the caller reads the handle. -/
  | get (k : Key) (pc : GetPc) (seen : Option Val)
  /-- `Remove(k)`, one step under `mu`. -/
  | remove (k : Key) (done : Bool)
  deriving DecidableEq, Repr

structure St where
  store     : List (Key × Val)
  threads   : List Thread
  completed : List (Key × Nat)          -- (k, v): a `persistor.Store(k, v)` has completely finished
  returned  : List (Key × Val)          -- what Get callers read
  deriving DecidableEq, Repr

def sErase (st : List (Key × Val)) (k : Key) : List (Key × Val) := st.filter (fun p => p.1 != k)
def sInsert (st : List (Key × Val)) (k : Key) (v : Val) : List (Key × Val) := (k, v) :: sErase st k
def sLookup (st : List (Key × Val)) (k : Key) : Option Val := (st.find? (fun p => p.1 == k)).map (·.2)

/-- `atomicStore`: the persistor publishes a value in one step and hands out immutable snapshots
(a mutex-protected map; a file written under a temporary name and renamed). `false`: the filesystem
persistor as it is (truncate, then copy; readers read the live file). -/
def stepThread (atomicStore : Bool) (s : St) : Thread → St × Thread
  | .set k v known fails ev .evict =>
    if known then
      match ev with
      | e :: rest => ({ s with store := sErase s.store e }, .set k v known fails rest .evict)
      | [] => (s, .set k v known fails [] .trunc)
    else (s, .set k v known fails ev .trunc)
  | .set k v known fails ev .trunc =>
    if atomicStore then
      if fails then ({ s with store := sErase s.store k }, .set k v known fails ev .done)
      else ({ s with store := sInsert s.store k (.full v), completed := (k, v) :: s.completed }, .set k v known fails ev .post)
    else ({ s with store := sInsert s.store k .torn }, .set k v known fails ev .fill)
  | .set k v known fails ev .fill =>
    if fails then ({ s with store := sErase s.store k }, .set k v known fails ev .done)
    else ({ s with store := sInsert s.store k (.full v), completed := (k, v) :: s.completed }, .set k v known fails ev .post)
  | .set k v known fails ev .post =>
    if known then (s, .set k v known fails ev .done)
    else
      match ev with
      | e :: rest => ({ s with store := sErase s.store e }, .set k v known fails rest .post)
      | [] => (s, .set k v known fails [] .done)
  | .set k v known fails ev .done => (s, .set k v known fails ev .done)
  | .get k .open_ _ =>
    match sLookup s.store k with
    | none => (s, .get k .done none)                       -- ErrCacheMiss
    | some x => (s, .get k .read (some x))
  | .get k .read seen =>
    -- an atomic persistor handed out a snapshot; the filesystem persistor an open file whose current
    -- content is read now (an unlinked file keeps what it had)
    let x := if atomicStore then seen else (match sLookup s.store k with | some y => some y | none => seen)
    match x with
    | some y => ({ s with returned := (k, y) :: s.returned }, .get k .done x)
    | none => (s, .get k .done none)
  | .get k .done seen => (s, .get k .done seen)
  | .remove k false => ({ s with store := sErase s.store k }, .remove k true)
  | .remove k true => (s, .remove k true)

def step (a : Bool) (s : St) (i : Nat) : St :=
  match s.threads[i]? with
  | none => s
  | some t =>
    let r := stepThread a s t
    { r.1 with threads := r.1.threads.set i r.2 }

def run (a : Bool) (s : St) : List Nat → St
  | [] => s
  | i :: is => run a (step a s i) is

def init (ts : List Thread) : St := ⟨[], ts, [], []⟩

end Conc

/-! ## §6 cache part store -/
namespace Part

inductive GetPc where | lookup | inner | fill | done
  deriving DecidableEq, Repr

inductive Thread where
  /-- PutPart(id, v): pc 0 inner store written (transaction commits), pc 1 after-commit hook: `cache.Set`. -/
  | put (id v : Nat) (pc : Nat)
  /-- GetPart(id): `lookup` the cache; `inner` read of the inner store (the streaming reader is open);
  `fill` the stream has ended: either the caller has read it to EOF and the cache entry is written, or
  (`fails`) the inner reader broke with a non-EOF error after some bytes / the caller closed it early – the
  fill pipe is closed WITH the error, `cache.Set` fails, nothing is cached, the caller got an error. -/
  | get (id : Nat) (fails : Bool) (pc : GetPc) (snap : Option Nat)
  /-- DeletePart(id): pc 0 inner delete, pc 1 `cache.Remove` (after-commit hook, or directly without a
  transaction). `cacheFirst` is the other order: the cache entry is removed first, then the inner store deletes. -/
  | delete (id : Nat) (cacheFirst : Bool) (pc : Nat)
  deriving DecidableEq, Repr

structure St where
  inner    : List (Nat × Nat)        -- inner part store: id ↦ value
  cache    : List (Nat × Nat)
  threads  : List Thread
  puts     : List (Nat × Nat)        -- every (id, v) ever written by a PutPart
  returned : List (Nat × Option Nat) -- GetPart results: none = ErrPartNotFound
  deriving DecidableEq, Repr

def erase (st : List (Nat × Nat)) (k : Nat) : List (Nat × Nat) := st.filter (fun p => p.1 != k)
def insert (st : List (Nat × Nat)) (k v : Nat) : List (Nat × Nat) := (k, v) :: erase st k
def lookup (st : List (Nat × Nat)) (k : Nat) : Option Nat := (st.find? (fun p => p.1 == k)).map (·.2)

def stepThread (s : St) : Thread → St × Thread
  | .put id v 0 => ({ s with inner := insert s.inner id v, puts := (id, v) :: s.puts }, .put id v 1)
  | .put id v 1 => ({ s with cache := insert s.cache id v }, .put id v 2)
  | .put id v pc => (s, .put id v pc)
  | .get id fl .lookup sn =>
    match lookup s.cache id with
    | some v => ({ s with returned := (id, some v) :: s.returned }, .get id fl .done sn)
    | none => (s, .get id fl .inner sn)
  | .get id fl .inner _ =>
    match lookup s.inner id with
    | some v => (s, .get id fl .fill (some v))
    | none => ({ s with returned := (id, none) :: s.returned }, .get id fl .done none)
  | .get id fl .fill sn =>
    match sn with
    | some v =>
      if fl then (s, .get id fl .done sn)   -- failed fill: nothing stored, nothing returned (an error)
      else ({ s with cache := insert s.cache id v, returned := (id, some v) :: s.returned }, .get id fl .done sn)
    | none => (s, .get id fl .done sn)
  | .get id fl .done sn => (s, .get id fl .done sn)
  | .delete id cf 0 =>
    if cf then ({ s with cache := erase s.cache id }, .delete id cf 1) else ({ s with inner := erase s.inner id }, .delete id cf 1)
  | .delete id cf 1 =>
    if cf then ({ s with inner := erase s.inner id }, .delete id cf 2) else ({ s with cache := erase s.cache id }, .delete id cf 2)
  | .delete id cf pc => (s, .delete id cf pc)

def step (s : St) (i : Nat) : St :=
  match s.threads[i]? with
  | none => s
  | some t =>
    let r := stepThread s t
    { r.1 with threads := r.1.threads.set i r.2 }

def run (s : St) : List Nat → St
  | [] => s
  | i :: is => run (step s i) is

def init (ts : List Thread) : St := ⟨[], [], ts, [], []⟩

/-- A thread run from its first to its last step without interruption (no thread has more than 3 steps). -/
def runToEnd (s : St) (t : Thread) : St :=
  let r1 := stepThread s t
  let r2 := stepThread r1.1 r1.2
  let r3 := stepThread r2.1 r2.2
  (stepThread r3.1 r3.2).1

/-- Sequential use: every call finishes before the next one starts. -/
def serial (s : St) : List Thread → St
  | [] => s
  | t :: ts => serial (runToEnd s t) ts

end Part

end Pithos.Cache
