/-
Trace engine shared by the C08 and C09 drivers (core Lean only).

Input: the lines of one case printed by harness/cmd/verifharness/c08.go / c09.go
  cfg kind=seq|conc|c09 stack=… stores=n txfree=bits kinds=fs,sql gc=… grace=tiny|large
  op … / res …        S3-level operation and its result (s3hist.go protocol)
  x <micro…|->        part-level transaction script of that operation:
                         acq:p:st  ded:st:ck:f  raw:st:f  save:owner:seq:ck|~  rm:owner:seq|~
  orphan st p         a never-referenced part was put into store st
  anom reg p c | cnt p | miss p | idx st ck p     bookkeeping damaged through the repositories
  gc old|young ok|err fail=p,…|~     one collector pass
  gcpause obs | gcpause list st / gcresume ok|err fail=…   one pass, paused after its observation (or after
                      listing store st) while the operations in between committed
  extra st kind n     n files of kind tmp|txbackup|other in the directory of filesystem store st
                      that GetPartIds does not list (and the harness did not create)
  st rows=o:seq:p:st:ck:size,… reg=p:c:v,… idx=st:ck:p,… s0=p,…|?|~ [s1=…]
  rd b k vid etag size ok|err digest len
  wrote etag digest len / conc … / snap / quiescent / leftover …
What it does:
  tie   — runs `Pithos.Parts` (step / gcRunF) on the same scripts and compares every `st` line
          with the model state; additionally evaluates the invariant `RefInv` the theorems
          establish for every reachable state on every observed state (incl. mid-run snapshots of
          concurrent histories).  Both produce `diverge` lines.
  judge — C08: every part row's id is listed by its store; every listed object version reads
          back completely with the bytes first written under that identity.
          C09: after a fault-free collector pass at quiescence with every id older than the grace
          window, stores / registry / dedup index hold exactly the referenced set, and the next
          pass changes nothing.
-/
import Pithos.Util.Proto
import Pithos.Model.Parts
import Pithos.Gen.PartsSql

namespace Pithos.PartsTrace
open Pithos.Proto Pithos.Parts

-- ---------------------------------------------------------------- parsing

def splitList (s : String) : List String :=
  if s == "~" || s == "-" || s == "" then [] else s.splitOn ","

def nats (s : String) : List Nat := (s.splitOn ":").map String.toNat!

def optNat (s : String) : Option Nat := if s == "~" then none else some s.toNat!

structure DRow where
  owner : Nat
  seq : Nat
  pid : Nat
  store : Nat
  ck : Option Nat
  size : Nat
  deriving BEq, Repr

structure Dump where
  rows : List DRow := []
  reg : List (Nat × Nat) := []          -- pid, ref_count
  idx : List (Nat × Nat × Nat) := []    -- store, ck, pid
  stores : List (Option (List Nat)) := []
  deriving BEq, Repr

def kvOf (toks : List String) (key : String) : String :=
  match toks.find? (fun t => t.startsWith (key ++ "=")) with
  | some t => (t.drop (key.length + 1)).toString
  | none => ""

def parseRow (s : String) : DRow :=
  match s.splitOn ":" with
  | [o, q, p, st, ck, sz] => ⟨o.toNat!, q.toNat!, p.toNat!, st.toNat!, optNat ck, sz.toNat!⟩
  | _ => ⟨0, 0, 0, 0, none, 0⟩

def parseDump (toks : List String) : Dump :=
  let rows := (splitList (kvOf toks "rows")).map parseRow
  let reg := (splitList (kvOf toks "reg")).map fun s => match nats s with
    | p :: c :: _ => (p, c)
    | _ => (0, 0)
  let idx := (splitList (kvOf toks "idx")).map fun s => match nats s with
    | [st, ck, p] => (st, ck, p)
    | _ => (0, 0, 0)
  let stores := (toks.filter (fun t => match t.toList with
      | 's' :: c :: '=' :: _ => c.isDigit
      | _ => false)).map fun t =>
    match t.splitOn "=" with
    | [_, v] => if v == "?" then none else some ((splitList v).map String.toNat!)
    | _ => none
  { rows, reg, idx, stores }

def parseMicro (s : String) : Option Micro :=
  match s.splitOn ":" with
  | ["acq", p, st] => some (.acquire p.toNat! st.toNat!)
  | ["ded", st, ck, f] => some (.dedupe st.toNat! ck.toNat! f.toNat!)
  | ["raw", st, f] => some (.rawput st.toNat! f.toNat!)
  | ["save", o, q, ck] => some (.save o.toNat! q.toNat! (optNat ck))
  | ["rm", o, q] => some (.rm o.toNat! (optNat q))
  | _ => none

def fnv (bs : List UInt8) : UInt64 :=
  bs.foldl (fun h b => (h ^^^ b.toUInt64) * 1099511628211) 14695981039346656037

def hex16 (h : UInt64) : String :=
  String.ofList ((List.range 16).map fun i => hexDigit ((h.toNat >>> (4 * (15 - i))) % 16))

-- ---------------------------------------------------------------- model state helpers

def insertSorted (a : Nat) : List Nat → List Nat
  | [] => [a]
  | b :: l => if a ≤ b then a :: b :: l else b :: insertSorted a l

def sortNats (l : List Nat) : List Nat := l.foldr insertSorted []

def lookup2 (l : List ((Nat × Nat) × Nat)) (a b : Nat) : Option Nat :=
  (l.find? (fun e => e.1.1 == a && e.1.2 == b)).map (·.2)

/-- Rebuild the function-valued components as flat look-ups over the known domain (keeps the
closure chains of `upd1`/`upd2` short).  Identity on ids in `used`, keys in `cks`, stores `< n`. -/
def flatten (n : Nat) (cks : List Nat) (s : St) : St :=
  let regL := s.used.filterMap fun p => (s.reg p).map fun e => (p, e)
  let idxL := (List.range n).flatMap fun st => cks.filterMap fun ck => (s.idx st ck).map fun p => ((st, ck), p)
  let stoL := (List.range n).flatMap fun st => s.used.filterMap fun p => (s.stores st p).map fun t => ((st, p), t)
  { s with
    reg := fun p => (regL.find? (fun e => e.1 == p)).map (·.2)
    idx := fun st ck => lookup2 idxL st ck
    stores := fun st p => lookup2 stoL st p }

/-- Adopt an observed state as the model state (used after events the model does not follow). -/
def adopt (now : Nat) (used : List Nat) (d : Dump) : St :=
  let pids := (d.rows.map (·.pid) ++ d.reg.map (·.1) ++ d.idx.map (·.2.2) ++ (d.stores.filterMap id).flatten)
  let used' := pids.foldl (fun u p => if u.contains p then u else p :: u) used
  { rows := d.rows.map fun r => ⟨r.owner, r.seq, r.pid, r.store, r.ck⟩
    reg := fun p => (d.reg.find? (fun e => e.1 == p)).map fun e => (e.2, 1)
    idx := fun st ck => (d.idx.find? (fun e => e.1 == st && e.2.1 == ck)).map (·.2.2)
    stores := fun st p => match d.stores[st]? with
      | some (some l) => if l.contains p then some 0 else none
      | _ => none
    used := used', now := now, gcObs := [], gcExt := [] }

def rowLt (a b : Nat × Nat × Nat × Nat) : Bool :=
  a.1 < b.1 || (a.1 == b.1 && a.2.1 < b.2.1)

def insertRow (a : Nat × Nat × Nat × Nat) : List (Nat × Nat × Nat × Nat) → List (Nat × Nat × Nat × Nat)
  | [] => [a]
  | b :: l => if rowLt a b then a :: b :: l else b :: insertRow a l

def showNats (l : List Nat) : String := ",".intercalate (l.map toString)

/-- Differences between the model state and an observed dump (empty = equal). -/
def diffState (n : Nat) (sqlStores : List Nat) (cks : List Nat) (s : St) (d : Dump) : List String := Id.run do
  let mut out : List String := []
  let mrows := (s.rows.map fun r => (r.owner, r.seq, r.pid, r.store)).foldr insertRow []
  let drows := (d.rows.map fun r => (r.owner, r.seq, r.pid, r.store)).foldr insertRow []
  if mrows != drows then
    out := out ++ [s!"rows:model={mrows.length},impl={drows.length}"]
  let pids := sortNats ((s.used ++ d.reg.map (·.1)).eraseDups)
  for p in pids do
    let m := (s.reg p).map (·.1)
    let i := (d.reg.find? (fun e => e.1 == p)).map (·.2)
    if m != i then out := out ++ [s!"registry:part{p}:model={m},impl={i}"]
  for st in List.range n do
    for ck in (cks ++ (d.idx.filter (·.1 == st)).map (·.2.1)).eraseDups do
      let m := s.idx st ck
      let i := (d.idx.find? (fun e => e.1 == st && e.2.1 == ck)).map (·.2.2)
      if m != i then out := out ++ [s!"dedup-index:store{st}:ck{ck}:model={m},impl={i}"]
    match d.stores[st]? with
    | some (some l) =>
      let zero := if sqlStores.contains st then (d.rows.filter (fun r => r.size == 0)).map (·.pid) else []
      let m := sortNats ((s.used.filter fun p => (s.stores st p).isSome && !zero.contains p).eraseDups)
      let i := sortNats (l.filter fun p => !zero.contains p)
      if m != i then out := out ++ [s!"store{st}:model=[{showNats m}],impl=[{showNats i}]"]
    | _ => pure ()
  return out

/-- `RefInv` evaluated on an observed state (what `refinv_run` proves for every reachable state). -/
def obsInv (sqlStores : List Nat) (d : Dump) : List String := Id.run do
  let mut out : List String := []
  let pids := sortNats ((d.rows.map (·.pid) ++ d.reg.map (·.1)).eraseDups)
  for p in pids do
    let cnt := (d.rows.filter (·.pid == p)).length
    match d.reg.find? (fun e => e.1 == p) with
    | some (_, c) =>
      if c != cnt then out := out ++ [s!"refinv:registry-count:part{p}:ref_count={c},rows={cnt}"]
    | none => out := out ++ [s!"refinv:referenced-part-unregistered:part{p}:rows={cnt}"]
  for (st, ck, p) in d.idx do
    if !(d.reg.any (·.1 == p)) then out := out ++ [s!"refinv:dedup-entry-unregistered:store{st}:ck{ck}:part{p}"]
    match d.stores[st]? with
    | some (some l) =>
      let zero := sqlStores.contains st && d.rows.any (fun r => r.pid == p && r.size == 0)
      if !l.contains p && !zero then out := out ++ [s!"refinv:dedup-entry-part-absent:store{st}:part{p}"]
    | _ => pure ()
  return out

/-- The model state as a dump (to evaluate `obsInv` on the model itself). -/
def dumpOfModel (n : Nat) (cks : List Nat) (s : St) : Dump :=
  { rows := s.rows.map fun r => ⟨r.owner, r.seq, r.pid, r.store, r.ck, 1⟩
    reg := s.used.eraseDups.filterMap fun p => (s.reg p).map fun e => (p, e.1)
    idx := (List.range n).flatMap fun st => cks.filterMap fun ck => (s.idx st ck).map fun p => (st, ck, p)
    stores := (List.range n).map fun st => some (s.used.eraseDups.filter fun p => (s.stores st p).isSome) }

/-- C08 judge: a referenced part whose registry count is below the number of referencing rows
(or that has no registry row) — removing `ref_count` references deletes content that is still
referenced. -/
def underCounted (d : Dump) : List String :=
  (sortNats ((d.rows.map (·.pid)).eraseDups)).filterMap fun p =>
    let cnt := (d.rows.filter (·.pid == p)).length
    match d.reg.find? (fun e => e.1 == p) with
    | some (_, c) => if c < cnt then some s!"part{p}:ref_count={c},rows={cnt}" else none
    | none => some s!"part{p}:no-registry-row,rows={cnt}"

/-- C08 judge, part (a): every part row's id is listed by its store. -/
def missingParts (sqlStores : List Nat) (d : Dump) : List String :=
  d.rows.filterMap fun r =>
    match d.stores[r.store]? with
    | some (some l) =>
      if l.contains r.pid || (sqlStores.contains r.store && r.size == 0) then none
      else some s!"owner{r.owner}:seq{r.seq}:part{r.pid}:store{r.store}"
    | _ => none

/-- C09 judge: exactness after a collector pass. -/
def notConverged (sqlStores : List Nat) (d : Dump) : List (String × String) := Id.run do
  let mut out : List (String × String) := []
  let mut st := 0
  for l in d.stores do
    match l with
    | some l =>
      for p in l do
        if !(d.rows.any fun r => r.pid == p && r.store == st) then
          out := out ++ [("C09.orphan-part-not-reclaimed", s!"store{st}:part{p}")]
    | none => pure ()
    st := st + 1
  for (p, c) in d.reg do
    if !(d.rows.any (·.pid == p)) then
      out := out ++ [("C09.registry-entry-not-reclaimed", s!"part{p}:ref_count={c}")]
  for (s, ck, p) in d.idx do
    if !(d.rows.any (·.pid == p)) then
      out := out ++ [("C09.dedup-entry-not-reclaimed", s!"store{s}:ck{ck}:part{p}")]
  let _ := sqlStores
  return out

-- ---------------------------------------------------------------- the engine

inductive Prop08 | c08 | c09 deriving BEq

structure Eng where
  prop : Prop08
  cfg : Cfg := ⟨1, [0], fun _ => false, Pithos.Gen.partsSql⟩
  n : Nat := 1
  sqlStores : List Nat := []
  kind : String := "seq"
  m : St := St.init
  synced : Bool := true          -- the model follows the implementation (false inside concurrent phases)
  cks : List Nat := []
  opToks : List String := []
  resOk : Bool := false
  snapNext : Bool := false
  lastGcClean : Bool := false    -- the previous event was a fault-free `gc old ok`
  lastDump : Option Dump := none
  lastWasGcDump : Option Dump := none
  afterGcClean : Bool := false   -- the st line being read follows a clean gc
  prevGcClean : Bool := false    -- … and the event before that gc's st was also a clean gc (idempotence)
  expected : List (String × String × Nat) := []     -- identity ↦ digest, len
  wrote : List (String × String × Nat) := []        -- etag ↦ digest, len
  div : List String := []
  vio : List (String × String) := []
  stats : List (String × Nat) := []
  okTx : Nat := 0
  gcs : Nat := 0
  concOps : Nat := 0
  split : Option (Option (Nat × List Nat)) := none   -- a paused pass: none = after the observation; some (st, cands) = after listing st
  anomalous : Bool := false      -- the harness damaged the bookkeeping; RefInv is not expected until the next clean pass

def Eng.stat (e : Eng) (k : String) (n : Nat := 1) : Eng := { e with stats := addStats e.stats [(k, n)] }

def Eng.addDiv (e : Eng) (msgs : List String) : Eng :=
  if e.div.length ≥ 8 then e else { e with div := e.div ++ msgs.take 4 }

def Eng.addVio (e : Eng) (sig msg : String) : Eng :=
  if e.vio.length ≥ 12 then e else { e with vio := e.vio ++ [(sig, msg)] }

def learnCks (e : Eng) (d : Dump) : Eng :=
  let ks := d.rows.filterMap (·.ck) ++ d.idx.map (·.2.1)
  { e with cks := ks.foldl (fun acc k => if acc.contains k then acc else acc ++ [k]) e.cks }

def Eng.onCfg (e : Eng) (toks : List String) : Eng :=
  let n := (kvOf toks "stores").toNat!
  let bits := (kvOf toks "txfree").toList
  let kinds := (kvOf toks "kinds").splitOn ","
  -- Before fix 6ff38ea the SQL part store kept no chunk for an empty part, so such ids were exempt
  -- from listing comparisons on SQL stores; since the fix no store kind is exempt.
  let _ := kinds
  let sqlStores : List Nat := []
  let grace := if kvOf toks "grace" == "large" then 1000000 else 1
  { e with n, sqlStores, kind := kvOf toks "kind",
           cfg := ⟨grace, List.range n, fun st => bits.getD st '0' == '1', Pithos.Gen.partsSql⟩ }

def Eng.onRes (e : Eng) (toks : List String) : Eng := Id.run do
  let ok := toks.getD 1 "" == "ok"
  let kind := e.opToks.getD 1 "?"
  let mut e := { e with resOk := ok }
  e := e.stat (if ok then s!"op_{kind}_ok" else s!"op_{kind}_err")
  if toks.getD 1 "" == "panic" then
    e := e.addDiv ["panic-in-code-under-test:" ++ toks.getD 2 ""]
  -- what the harness wrote: a successful put defines the content of (bucket, key, version, etag)
  if ok && kind == "put" && e.prop == .c08 then
    match unhex (e.opToks.getD 4 "-") with
    | some body =>
      let ident := s!"{e.opToks.getD 2 ""}/{e.opToks.getD 3 ""}/{kvOf toks "vid"}/{kvOf toks "etag"}"
      e := { e with expected := (ident, hex16 (fnv body), body.length) :: e.expected.filter (·.1 != ident) }
    | none => pure ()
  return e

def Eng.onX (e : Eng) (toks : List String) : Eng := Id.run do
  let parts := toks.drop 1
  let mut e := e
  if parts == ["-"] || parts.isEmpty then return e
  let ms := parts.filterMap parseMicro
  if ms.length != parts.length then
    return e.addDiv [s!"unrecognised-script:{" ".intercalate parts}"]
  if !e.resOk then
    e := e.addDiv [s!"failed-operation-changed-part-rows:{e.opToks.getD 1 ""}"]
  e := e.stat "tx_scripts"
  e := e.stat "micro_acquire" (ms.filter (fun m => match m with | .acquire .. => true | _ => false)).length
  e := e.stat "micro_dedupe" (ms.filter (fun m => match m with | .dedupe .. => true | _ => false)).length
  e := e.stat "micro_rawput" (ms.filter (fun m => match m with | .rawput .. => true | _ => false)).length
  e := e.stat "micro_rm" (ms.filter (fun m => match m with | .rm .. => true | _ => false)).length
  if e.synced then
    match runTx e.cfg.sql e.m ms with
    | some m' =>
      let shared := m'.used.length - e.m.used.length   -- every dedupe/rawput consumes one id
      let _ := shared
      e := { e with m := m', okTx := e.okTx + 1 }
    | none => e := e.addDiv [s!"model-transaction-aborts-but-implementation-committed:{" ".intercalate parts}"]
  return e

def Eng.onGc (e : Eng) (toks : List String) : Eng := Id.run do
  let old := toks.getD 1 "" == "old"
  let ok := toks.getD 2 "" == "ok"
  let fails := (splitList (kvOf toks "fail")).map String.toNat!
  let mut e := { e with gcs := e.gcs + 1 }
  e := e.stat "gc_runs"
  if !fails.isEmpty then e := e.stat "gc_runs_with_failed_deletes"
  let clean := old && ok && fails.isEmpty
  e := { e with prevGcClean := e.lastGcClean, lastGcClean := clean, afterGcClean := clean }
  if e.synced then
    if ok then
      let m := if old then step e.cfg e.m (.tick (e.cfg.grace + 1)) else e.m
      e := { e with m := gcRunF e.cfg (fun p => fails.contains p) m }
    else
      e := { e with synced := false }   -- a pass that aborted midway is not followed; re-adopt at the next st
  return e

def Eng.onGcPause (e : Eng) (toks : List String) : Eng := Id.run do
  let mut e := e.stat "gc_paused_passes"
  if !e.synced then return e
  let m := step e.cfg e.m (.tick (e.cfg.grace + 1))
  if toks.getD 1 "" == "obs" then
    e := { e with m := step e.cfg m .gcObserve, split := some none }
  else
    let st := (toks.getD 2 "0").toNat!
    let (m', cands) := gcUntilList e.cfg m st
    e := { e with m := m', split := some (some (st, cands)) }
  return { e with lastGcClean := false }

def Eng.onGcResume (e : Eng) (toks : List String) : Eng := Id.run do
  let ok := toks.getD 1 "" == "ok"
  let fails := (splitList (kvOf toks "fail")).map String.toNat!
  let mut e := { e with gcs := e.gcs + 1 }
  e := e.stat "gc_runs"
  let clean := ok && fails.isEmpty
  e := { e with prevGcClean := false, lastGcClean := false, afterGcClean := false }
  let _ := clean
  if e.synced then
    if ok then
      match e.split with
      | some none => e := { e with m := gcResumeObs e.cfg (fun p => fails.contains p) e.m }
      | some (some (st, cands)) => e := { e with m := gcResumeList e.cfg (fun p => fails.contains p) e.m st cands }
      | none => e := e.addDiv ["gcresume-without-gcpause"]
    else e := { e with synced := false }
  return { e with split := none }

def identOf (toks : List String) : String :=
  s!"{toks.getD 1 ""}/{toks.getD 2 ""}/{toks.getD 3 ""}/{toks.getD 4 ""}"

def Eng.onRd (e : Eng) (toks : List String) : Eng := Id.run do
  -- rd b k vid etag size ok|err digest len
  if e.prop != .c08 then return e
  let mut e := e.stat "versions_read"
  let ident := identOf toks
  let size := (toks.getD 5 "0").toNat!
  if toks.getD 6 "" != "ok" then
    -- "stays readable": the version was written by an acknowledged put of known content, or it has
    -- been read completely before.  A version that could never be read did not *lose* content
    -- (that would be C01's concern); it is counted, not judged.
    if e.expected.any (·.1 == ident) then
      return e.addVio "C08.committed-version-unreadable" s!"{ident}:GetObject-or-read-failed"
    else
      return e.stat "versions_never_readable"
  let dg := toks.getD 7 ""
  let len := (toks.getD 8 "0").toNat!
  if len != size then
    e := e.addVio "C08.committed-version-short-read" s!"{ident}:listed-size={size},read={len}"
  match e.expected.find? (·.1 == ident) with
  | some (_, d0, l0) =>
    if d0 != dg || l0 != len then
      e := e.addVio "C08.committed-version-content-changed" s!"{ident}:first={d0}/{l0},now={dg}/{len}"
  | none =>
    -- concurrent cases: content written under this ETag by the harness
    match e.wrote.find? (·.1 == toks.getD 4 "") with
    | some (_, d0, l0) =>
      if d0 != dg || l0 != len then
        e := e.addVio "C08.committed-version-content-changed" s!"{ident}:wrote={d0}/{l0},now={dg}/{len}"
    | none => pure ()
    e := { e with expected := (ident, dg, len) :: e.expected }
  return e

def Eng.onSt (e : Eng) (toks : List String) : Eng := Id.run do
  let d := parseDump toks
  let mut e := learnCks e d
  let snap := e.snapNext
  e := { e with snapNext := false }
  -- tie 1: the invariant on the observed state
  -- (while the model itself is outside RefInv — the harness damaged the bookkeeping — the state
  -- comparison below is the tie; the invariant is not expected)
  let modelConsistent := !e.synced || (obsInv [] (dumpOfModel e.n e.cks e.m)).isEmpty
  if modelConsistent then
    for msg in obsInv e.sqlStores d do
      e := e.addDiv [msg]
  if e.prop == .c08 && modelConsistent then
    for msg in underCounted d do
      e := e.addVio "C08.registry-undercount" msg
  -- judge C08 (a)
  if e.prop == .c08 then
    for msg in missingParts e.sqlStores d do
      e := e.addVio "C08.referenced-part-missing" msg
  if snap then
    return e.stat "snapshots"
  -- tie 2: model state vs implementation state
  if e.synced then
    let ds := diffState e.n e.sqlStores e.cks e.m d
    if !ds.isEmpty then
      e := e.addDiv ds
      e := { e with m := adopt e.m.now e.m.used d }   -- report the first difference only, then resynchronise
    else
      e := { e with m := flatten e.n e.cks e.m }
  else if e.kind != "conc" || e.lastDump.isNone then
    pure ()
  if !e.synced then
    e := { e with m := adopt e.m.now e.m.used d, synced := true }
  -- judge C09
  if e.prop == .c09 && e.afterGcClean then
    for (sig, msg) in notConverged e.sqlStores d do
      e := e.addVio sig msg
    if e.prevGcClean then
      match e.lastWasGcDump with
      | some d0 => if d0 != d then e := e.addVio "C09.gc-pass-not-idempotent" "second-pass-changed-the-state"
      | none => pure ()
    e := e.stat "converged_checks"
  e := { e with lastWasGcDump := if e.afterGcClean then some d else none, afterGcClean := false, lastDump := some d }
  return e

def Eng.onAnom (e : Eng) (toks : List String) : Eng :=
  let e := e.stat "anomalies"
  let m := e.m
  let n (i : Nat) := (toks.getD i "0").toNat!
  let m' : St := match toks.getD 1 "" with
    | "reg" => { m with reg := upd1 m.reg (n 2) (some (n 3, 1)), used := if m.used.contains (n 2) then m.used else n 2 :: m.used }
    | "cnt" => { m with reg := fun p => if p = n 2 then (m.reg p).map (fun (c, v) => (c + 1, v + 1)) else m.reg p }
    | "miss" => { m with reg := upd1 m.reg (n 2) none }
    | "idx" => { m with idx := upd2 m.idx (n 2) (n 3) (some (n 4)), used := if m.used.contains (n 4) then m.used else n 4 :: m.used }
    | _ => m
  { e with m := m', lastGcClean := false, anomalous := true }

def Eng.line (e : Eng) (l : String) : Eng :=
  let toks := tokens l
  match toks.head? with
  | some "cfg" => e.onCfg toks
  | some "op" => { e with opToks := toks, lastGcClean := false }
  | some "res" => e.onRes toks
  | some "x" => e.onX toks
  | some "orphan" =>
    let auto := toks.getD 3 "" == "auto"
    let e := if auto then e.stat "orphans_left_by_failed_operations" else e.stat "orphans"
    let e := if auto && e.resOk then
        e.addDiv [s!"committed-operation-left-unreferenced-part:store{toks.getD 1 ""}:part{toks.getD 2 ""}"] else e
    { e with m := step e.cfg e.m (.orphan (toks.getD 1 "0").toNat! (toks.getD 2 "0").toNat!), lastGcClean := false }
  | some "anom" => e.onAnom toks
  | some "gc" => e.onGc toks
  | some "gcpause" => e.onGcPause toks
  | some "gcresume" => e.onGcResume toks
  | some "extra" =>
    -- extra <store> <kind> <n>: judged for C09 after a fault-free pass at quiescence
    if e.prop == .c09 && e.lastGcClean && (toks.getD 3 "0").toNat! > 0 then
      e.addVio "C09.unlisted-file-never-reclaimed" s!"store{toks.getD 1 ""}:{toks.getD 2 ""}:{toks.getD 3 ""}-files"
    else e
  | some "st" => e.onSt toks
  | some "rd" => e.onRd toks
  | some "rderr" => e.addDiv ["read-back-listing-failed"]
  | some "wrote" => { e with wrote := (toks.getD 1 "", toks.getD 2 "", (toks.getD 3 "0").toNat!) :: e.wrote }
  | some "conc" =>
    let oks := (toks.filter (fun t => (t.splitOn "_ok=").length == 2)).map fun t => ((t.splitOn "=").getD 1 "0").toNat!
    let e := { e with concOps := oks.foldl (· + ·) 0, synced := false }
    (e.stat "concurrent_ops_ok" e.concOps).stat "concurrent_cases"
  | some "snap" => { e with snapNext := true }
  | some "quiescent" => { e with synced := false }
  | some "leftover" =>
    -- leftover <store> <kind> <survived 0|1>: a crash-leftover file still present after GC
    if e.prop == .c09 && toks.getD 3 "" == "1" then
      e.addVio "C09.crash-leftover-file-never-reclaimed" s!"store{toks.getD 1 ""}:{toks.getD 2 ""}"
    else e
  | _ => e

def judgeCase (prop : Prop08) (_k : Nat) (lines : List String) : Verdict :=
  let e := lines.foldl Eng.line { prop := prop }
  let fp := fpLines (lines.filter fun l => l.startsWith "op " || l.startsWith "x " || l.startsWith "cfg" || l.startsWith "wrote"
                                         || l.startsWith "orphan" || l.startsWith "anom" || l.startsWith "gc ")
  let nt := if e.kind == "conc" then e.concOps ≥ 10 else e.okTx ≥ 4 && e.gcs ≥ 1
  { diverge := e.div, violations := e.vio, nontrivial := nt, fingerprint := fp,
    stats := e.stats ++ [("cases_" ++ e.kind, 1)],
    samples := [" ; ".intercalate ((lines.filter fun l => l.startsWith "op " || l.startsWith "x " || l.startsWith "gc ").take 8)] }

end Pithos.PartsTrace
