/-
M7 (C22): the notification middleware of /repo/internal/storage/notification
(storage.go: runWithNotifications / enqueueEvents / buildEntriesForEvent, the dispatcher
claim → publish → delete | release | deadLetter, nextAttemptAt; events.go: RuleMatches).

Three small pieces:
(a) `ruleMatches`: the rule matcher (event-name patterns, prefix / suffix filters) as a pure function;
(b) `attempt`: one mutation attempt through the middleware with its fault points
    {the mutation itself fails, the i-th outbox insert fails, the commit fails} → whether the
    mutation committed and which outbox rows exist afterwards. `shared = true` is the configuration
    in which mutation and outbox inserts run in ONE database transaction (the storage below uses
    the same database handle — checked at run time by the harness); `shared = false` is the
    documented best-effort mode (the mutation commits on its own before the inserts);
(c) `runScript`: the life of one outbox entry under the dispatcher, driven by the list of outcomes
    of the successive Publish calls: claim (attempts += 1) → publish → deleted | released with
    backoff | dead-lettered.
Durations are natural numbers (the code's unit is the nanosecond; the driver uses milliseconds).
Not modelled: several dispatchers competing for one outbox (lease / version CAS), lease expiry
after a crashed worker, the trigger channel and the one-second poll, metrics.
Core Lean only.
-/
namespace Pithos.Notify

abbrev Str := List Char

/-! ### (a) rule matching -/

structure FilterRule where
  name : Str
  value : Str
  deriving Repr, DecidableEq

structure Rule where
  dest : Str
  events : List Str
  filters : List FilterRule
  deriving Repr, DecidableEq

structure Event where
  name : Str
  bucket : Str           -- ObjectEvent.Bucket: the configuration consulted AND the bucket named in the payload
  key : Str
  deriving Repr, DecidableEq

def colonStar : Str := [':', '*']
def prefixName : Str := ['p', 'r', 'e', 'f', 'i', 'x']
def suffixName : Str := ['s', 'u', 'f', 'f', 'i', 'x']
def eventBridgePrefix : Str := ['e', 'v', 'e', 'n', 't', 'b', 'r', 'i', 'd', 'g', 'e', ':']

/-- `strings.TrimSuffix(s, "*")` for an `s` known to end in `*` -/
def dropLastChar (s : Str) : Str := s.dropLast

/-- one configured event against the event name: equal, or `…:*` and the name starts with `…:` -/
def eventPatternMatches (configured name : Str) : Bool :=
  configured == name || (colonStar.isSuffixOf configured && (dropLastChar configured).isPrefixOf name)

/-- a filter rule against the key; names other than prefix / suffix are ignored -/
def filterHolds (f : FilterRule) (key : Str) : Bool :=
  if f.name == prefixName then f.value.isPrefixOf key
  else if f.name == suffixName then f.value.isSuffixOf key
  else true

/-- `RuleMatches` -/
def ruleMatches (r : Rule) (e : Event) : Bool :=
  r.events.any (fun c => eventPatternMatches c e.name) && r.filters.all (fun f => filterHolds f e.key)

structure Config where
  rules : List Rule              -- allRules: topics ++ queues ++ cloud functions
  eventBridge : Bool
  deriving Repr, DecidableEq

/-- an outbox row as far as the property looks at it: destination, event name, and the bucket /
key its payload names -/
structure Row where
  dest : Str
  event : Str
  bucket : Str
  key : Str
  deriving Repr, DecidableEq

def eventBridgeDest (bucket : Str) : Str := eventBridgePrefix ++ bucket

/-- `buildEntriesForEvent` with the configuration `c` of the event's bucket -/
def entriesFor (c : Config) (e : Event) : List Row :=
  ((c.rules.filter (fun r => ruleMatches r e)).map fun r => { dest := r.dest, event := e.name, bucket := e.bucket, key := e.key }) ++
  (if c.eventBridge then [{ dest := eventBridgeDest e.bucket, event := e.name, bucket := e.bucket, key := e.key }] else [])

/-- `enqueueEvents` for the events of one mutation: each event is evaluated against
`GetBucketNotificationConfiguration(event.Bucket)` -/
def entriesForAll (cfgOf : Str → Config) (es : List Event) : List Row := es.flatMap (fun e => entriesFor (cfgOf e.bucket) e)

/-! ### which events a call through the middleware produces -/

structure Target where
  bucket : Str
  key : Str
  deriving Repr, DecidableEq

/-- the object-mutating calls of `storage.Storage` (TransitionObjectStorageClass emits only under the
lifecycle override and is left out) -/
inductive Call where
  | put (t : Target)
  | copy (src dst : Target)
  | complete (t : Target)
  | delete (t : Target) (marker : Bool)                      -- marker: the result is a new delete marker
  | deleteObjects (bucket : Str) (ks : List (Str × Bool)) (refused : List Str)
      -- entries the storage reports `Deleted` (key, marker flag) and entries it refused (`Deleted = false`:
      -- stale If-Match ETag, If-Match on a missing key) — the request as a whole succeeds
  | tagPut (t : Target)
  | tagDel (t : Target)
  | append (t : Target)
  deriving Repr, DecidableEq

def s (x : String) : Str := x.toList

def evCreatedPut : Str := s "s3:ObjectCreated:Put"
def evCreatedCopy : Str := s "s3:ObjectCreated:Copy"
def evCreatedComplete : Str := s "s3:ObjectCreated:CompleteMultipartUpload"
def evRemovedDelete : Str := s "s3:ObjectRemoved:Delete"
def evRemovedMarker : Str := s "s3:ObjectRemoved:DeleteMarkerCreated"
def evTaggingPut : Str := s "s3:ObjectTagging:Put"
def evTaggingDelete : Str := s "s3:ObjectTagging:Delete"

def removedName (marker : Bool) : Str := if marker then evRemovedMarker else evRemovedDelete

/-- the `ObjectEvent`s the overrides build (storage.go). CopyObject: `Bucket: dstBucket, Key: dstKey`.
AppendObject is not overridden: no event. -/
def codeEvents : Call → List Event
  | .put t => [{ name := evCreatedPut, bucket := t.bucket, key := t.key }]
  | .copy _ dst => [{ name := evCreatedCopy, bucket := dst.bucket, key := dst.key }]
  | .complete t => [{ name := evCreatedComplete, bucket := t.bucket, key := t.key }]
  | .delete t m => [{ name := removedName m, bucket := t.bucket, key := t.key }]
  | .deleteObjects b ks _ => ks.map fun k => { name := removedName k.2, bucket := b, key := k.1 }   -- `if !deleted.Deleted { continue }`
  | .tagPut t => [{ name := evTaggingPut, bucket := t.bucket, key := t.key }]
  | .tagDel t => [{ name := evTaggingDelete, bucket := t.bucket, key := t.key }]
  | .append _ => []

/-! ### (b) one mutation attempt -/

inductive Fault where
  | none
  | mutationFails
  | insertFails (i : Nat)      -- the i-th `repository.Save` of this attempt (0-based) fails
  | commitFails
  deriving Repr, DecidableEq

structure Outcome where
  ok : Bool            -- what the caller is told
  committed : Bool     -- the object mutation is durable
  rows : List Row      -- outbox rows of this attempt that exist afterwards
  deriving Repr, DecidableEq

/-- `runWithNotifications`. `rows` = `entriesForAll cfg events` of the mutation. -/
def attempt (shared : Bool) (rows : List Row) : Fault → Outcome
  | .none => { ok := true, committed := true, rows := rows }
  | .mutationFails => { ok := false, committed := false, rows := [] }
  | .insertFails i =>
    if i < rows.length then
      -- the error aborts the (outbox) transaction; the mutation is part of it iff `shared`
      { ok := false, committed := !shared, rows := [] }
    else { ok := true, committed := true, rows := rows }
  | .commitFails => { ok := false, committed := !shared, rows := [] }

/-! ### (c) the dispatcher on one entry -/

structure DCfg where
  maxAttempts : Nat      -- 0 = unlimited
  minBackoff : Nat
  maxBackoff : Nat
  deriving Repr, DecidableEq

/-- `nextAttemptAt`'s delay after the `attempts`-th attempt failed: min·2^(attempts−1), capped -/
def backoff (c : DCfg) (attempts : Nat) : Nat :=
  let d := c.minBackoff * 2 ^ (attempts - 1)
  if d > c.maxBackoff then c.maxBackoff else d

inductive Final where
  | pending (attempts : Nat)   -- released, waiting for its next attempt
  | delivered
  | dead
  deriving Repr, DecidableEq

/-- what one Publish call looked like -/
structure Pub where
  attempt : Nat          -- entry.Attempts as the publisher sees it (already incremented by the claim)
  ok : Bool
  delay : Nat            -- backoff scheduled after this call (0 when none is scheduled)
  deriving Repr, DecidableEq

/-- `dispatchEntry` iterated: `script` = outcomes of the successive Publish calls, `attempts` =
attempts made so far. Stops at the first success or at dead-lettering. -/
def runScript (c : DCfg) (attempts : Nat) : List Bool → Final × List Pub
  | [] => (.pending attempts, [])
  | ok :: rest =>
    let a := attempts + 1                       -- the claim
    if ok then (.delivered, [{ attempt := a, ok := true, delay := 0 }])
    else if c.maxAttempts > 0 && a ≥ c.maxAttempts then (.dead, [{ attempt := a, ok := false, delay := 0 }])
    else
      let (f, ps) := runScript c a rest
      (f, { attempt := a, ok := false, delay := backoff c a } :: ps)

/-! ### (c′) lost reports: crashes, lease expiry, failing outbox updates

The report of an attempt (DeleteByClaimOwner / ReleaseClaim / DeadLetter) can be lost: the worker
dies after the claim, or the UPDATE fails (its error is ignored). The row then stays claimed until
`claim_until` passes and is claimed again — `attempts` goes up by one more. -/

inductive PubOutcome where
  | ok | fail
  | okLost      -- published, but the delete of the row was lost
  | failLost    -- publish failed (or the worker died), and release / dead-letter was lost
  deriving Repr, DecidableEq

def PubOutcome.published : PubOutcome → Bool
  | .ok => true | .okLost => true | _ => false

/-- `runScript` with lost reports -/
def runOutcomes (c : DCfg) (attempts : Nat) : List PubOutcome → Final × List Pub
  | [] => (.pending attempts, [])
  | o :: rest =>
    let a := attempts + 1
    match o with
    | .ok => (.delivered, [{ attempt := a, ok := true, delay := 0 }])
    | .fail =>
      if c.maxAttempts > 0 && a ≥ c.maxAttempts then (.dead, [{ attempt := a, ok := false, delay := 0 }])
      else
        let (f, ps) := runOutcomes c a rest
        (f, { attempt := a, ok := false, delay := backoff c a } :: ps)
    | .okLost =>
      let (f, ps) := runOutcomes c a rest
      (f, { attempt := a, ok := true, delay := 0 } :: ps)
    | .failLost =>
      let (f, ps) := runOutcomes c a rest
      (f, { attempt := a, ok := false, delay := 0 } :: ps)

/-- The same as a transition system over ALL schedules of one entry: any interleaving of claims,
reports and lost reports, starting from any attempt count (a lowered MaxAttempts meets entries
that already have more attempts). -/
inductive Phase where
  | pending | claimed | delivered | dead
  deriving Repr, DecidableEq

structure DState where
  phase : Phase
  attempts : Nat
  lost : Nat              -- reports lost so far
  deriving Repr, DecidableEq

inductive DStep where
  | claim         -- ClaimFirst: attempts += 1
  | reportOk      -- publish succeeded, row deleted
  | reportFail    -- publish failed: dead-letter if MaxAttempts > 0 ∧ attempts ≥ MaxAttempts, else release
  | lose          -- the report never lands; the lease expires
  deriving Repr, DecidableEq

def dstep (c : DCfg) (st : DState) : DStep → DState
  | .claim => if st.phase = .pending then { st with phase := .claimed, attempts := st.attempts + 1 } else st
  | .reportOk => if st.phase = .claimed then { st with phase := .delivered } else st
  | .reportFail =>
    if st.phase = .claimed then
      if c.maxAttempts > 0 && st.attempts ≥ c.maxAttempts then { st with phase := .dead } else { st with phase := .pending }
    else st
  | .lose => if st.phase = .claimed then { st with phase := .pending, lost := st.lost + 1 } else st

def drun (c : DCfg) (st : DState) (steps : List DStep) : DState := steps.foldl (dstep c) st

end Pithos.Notify
