/-
`CondProto` — ONE conditional (If-Match) writer against an arbitrary environment of other
committing writers, at statement level, parameterised by the *shape* of the writer's code path:
how many times it reads the key's latest row before it takes the optimistic lock, after which of
those reads it compares the row's ETag with the If-Match value, and which read supplies the
(id, optimistic_lock_version) pair of the guarded statement. The shape is regenerated from the Go
sources on every run (`Pithos.Gen.CondPaths`, extractor `condpaths`); the theorems of Props/C07 say
which shapes are safe, and the kernel decides that the extracted ones are.

  read g (g = 1 … reads)   SELECT the latest row; if g ∈ compared: the row must exist and have the
                           named ETag (= part list), else PreconditionFailed
  commit                   if the read `lockGen` found a row: `UPDATE … WHERE id = ? AND
                           optimistic_lock_version = ?` with ITS id and version — 0 rows ⇒
                           PreconditionFailed, else the row is replaced;
                           if that read found no row the code takes no lock at all and writes
                           (insert, or update of whatever null version is there)
  environment              between any two steps any other writer may commit: an update of the row
                           (same id, version strictly larger — every UPDATE bumps it, T1), a
                           delete, or an insert under a fresh id.
Core Lean only.
-/
namespace Pithos.CondProto

structure Cell where
  id    : Nat
  ver   : Nat
  parts : List Nat
  deriving Repr, DecidableEq

structure Db where
  row    : Option Cell
  nextId : Nat
  deriving Repr, DecidableEq

/-- The extracted shape of a conditional write path. Generations are 1-based. -/
structure Spec where
  reads    : Nat
  compared : List Nat
  lockGen  : Nat
  deriving Repr, DecidableEq

inductive Status where
  | running
  | failed                                   -- PreconditionFailed
  | committed (before : Option Cell)         -- acknowledged; the row state it replaced
  deriving Repr, DecidableEq

structure Writer where
  pc       : Nat := 0                        -- reads done
  lockSeen : Option (Option Cell) := none    -- what read `lockGen` returned, once it happened
  st       : Status := .running
  deriving Repr, DecidableEq

/-- A commit of some other writer. -/
inductive Change where
  | update (bump : Nat) (parts : List Nat)   -- same id, version + bump + 1
  | delete
  | insert (parts : List Nat)                -- only when there is no row; fresh id, version 1
  deriving Repr, DecidableEq

inductive Ev where
  | a                       -- the conditional writer takes its next step
  | env (c : Change)        -- another writer commits
  deriving Repr, DecidableEq

def applyChange (d : Db) : Change → Db
  | .update bump parts => match d.row with
    | some r => { d with row := some { r with ver := r.ver + bump + 1, parts := parts } }
    | none => d
  | .delete => { d with row := none }
  | .insert parts => match d.row with
    | none => { row := some ⟨d.nextId, 1, parts⟩, nextId := d.nextId + 1 }
    | some _ => d

def guard (c : Cell) (d : Db) : Bool :=
  match d.row with
  | some r => r.id == c.id && r.ver == c.ver
  | none => false

def hasEtag (e : List Nat) : Option Cell → Bool
  | some c => c.parts == e
  | none => false

/-- One step of the conditional writer (`e` = the parts/ETag it names, `new` = what it writes). -/
def stepA (sp : Spec) (e new : List Nat) (d : Db) (w : Writer) : Db × Writer :=
  match w.st with
  | .running =>
    if w.pc < sp.reads then
      let g := w.pc + 1
      if sp.compared.contains g && !hasEtag e d.row then (d, { w with st := .failed })
      else (d, { w with pc := g, lockSeen := if g == sp.lockGen then some d.row else w.lockSeen })
    else
      match w.lockSeen with
      | some (some c) =>
        if guard c d then ({ d with row := some ⟨c.id, c.ver + 3, new⟩ }, { w with st := .committed d.row })
        else (d, { w with st := .failed })
      | _ =>
        -- the read that was to supply the lock found no row (or never happened): no lock is taken
        match d.row with
        | some r => ({ d with row := some { r with ver := r.ver + 2, parts := new } }, { w with st := .committed d.row })
        | none => ({ row := some ⟨d.nextId, 1, new⟩, nextId := d.nextId + 1 }, { w with st := .committed none })
  | _ => (d, w)

def step (sp : Spec) (e new : List Nat) (s : Db × Writer) : Ev → Db × Writer
  | .a => stepA sp e new s.1 s.2
  | .env c => (applyChange s.1 c, s.2)

/-- Any interleaving of the writer's statements with commits of other writers. -/
def run (sp : Spec) (e new : List Nat) (s : Db × Writer) (evs : List Ev) : Db × Writer :=
  evs.foldl (step sp e new) s

-- ---------------------------------------------------------------- the create-if-absent writer

/-- An If-None-Match:* writer in a bucket that is not versioning-Enabled: `reads` reads of the
latest row, each tested for absence (T1: every read generation is existence-checked); no lock is
taken because there is no row; then the read of the key's null version and the LAST guard, which
either tests that freshly read row (`guardFresh`, the code as it is) or a boolean computed from an
earlier read (`guardFresh = false`); then the write: replace the null version that was read, or
insert — the unique index on the latest row refuses a second insert. -/
structure InmWriter where
  pc       : Nat := 0
  nullSeen : Option Cell := none
  st       : Status := .running
  deriving Repr, DecidableEq

def stepInm (reads : Nat) (guardFresh : Bool) (new : List Nat) (d : Db) (w : InmWriter) : Db × InmWriter :=
  match w.st with
  | .running =>
    if w.pc < reads then
      if d.row.isSome then (d, { w with st := .failed }) else (d, { w with pc := w.pc + 1 })
    else if w.pc == reads then
      -- FindNullObjectVersion + the last guard
      if guardFresh && d.row.isSome then (d, { w with st := .failed })
      else (d, { w with pc := w.pc + 1, nullSeen := d.row })
    else
      match w.nullSeen with
      | some _ =>
        -- the null version that was read is removed / overwritten by id, whatever it is now
        ({ row := some ⟨d.nextId, 1, new⟩, nextId := d.nextId + 1 }, { w with st := .committed d.row })
      | none =>
        match d.row with
        | none => ({ row := some ⟨d.nextId, 1, new⟩, nextId := d.nextId + 1 }, { w with st := .committed none })
        | some _ => (d, { w with st := .failed })      -- unique-index violation → PreconditionFailed
  | _ => (d, w)

def stepI (reads : Nat) (guardFresh : Bool) (new : List Nat) (s : Db × InmWriter) : Ev → Db × InmWriter
  | .a => stepInm reads guardFresh new s.1 s.2
  | .env c => (applyChange s.1 c, s.2)

def runInm (reads : Nat) (guardFresh : Bool) (new : List Nat) (s : Db × InmWriter) (evs : List Ev) : Db × InmWriter :=
  evs.foldl (stepI reads guardFresh new) s

end Pithos.CondProto
