/-
The audit-log model instantiated with the tables regenerated from the current /repo sources
(`Pithos.Gen.AuditLog`, T1 extractor `auditlog`). Everything the drivers and the property
theorems say about "the code" goes through these definitions. Core Lean only.
-/
import Pithos.Model.AuditLog
import Pithos.Gen.AuditLog

namespace Pithos.AuditLog.Code
open Pithos.AuditLog

/-- ASCII string → bytes (the type constants are ASCII). -/
def ascii (s : String) : Bytes := s.toList.map fun c => UInt8.ofNat c.toNat

/-- `Entry.CalculateHash` of the current code. -/
def hashT : Tables where
  pre := Gen.AuditLog.hashPre
  details := fun v k =>
    match k with
    | 0 => Gen.AuditLog.hashGenesis
    | 1 => Gen.AuditLog.hashLog v
    | 2 => Gen.AuditLog.hashGrounding
    | _ => []
  tail := Gen.AuditLog.hashTail
  tGenesis := ascii Gen.AuditLog.typeGenesis
  tLog := ascii Gen.AuditLog.typeLog
  tGrounding := ascii Gen.AuditLog.typeGrounding

def binDetails (g : List (String × Nat)) (l : Nat → List (String × Nat)) (gr : List (String × Nat)) (v k : Nat) : Spec :=
  match k with
  | 0 => g
  | 1 => l v
  | 2 => gr
  | _ => []

/-- `BinarySerializer.Encode`. -/
def binW : BinTables where
  pre := Gen.AuditLog.binPreW
  details := binDetails Gen.AuditLog.binGenesisW Gen.AuditLog.binLogW Gen.AuditLog.binGroundingW
  tail := Gen.AuditLog.binTailW
  tGenesis := ascii Gen.AuditLog.typeGenesis
  tLog := ascii Gen.AuditLog.typeLog
  tGrounding := ascii Gen.AuditLog.typeGrounding

/-- `BinaryDecoder.Decode`. -/
def binR : BinTables where
  pre := Gen.AuditLog.binPreR
  details := binDetails Gen.AuditLog.binGenesisR Gen.AuditLog.binLogR Gen.AuditLog.binGroundingR
  tail := Gen.AuditLog.binTailR
  tGenesis := ascii Gen.AuditLog.typeGenesis
  tLog := ascii Gen.AuditLog.typeLog
  tGrounding := ascii Gen.AuditLog.typeGrounding

def blockSize : Nat := Gen.AuditLog.groundingBlockSize

/-- The fields a LOG / GROUNDING entry records, as the Go structs declare them. -/
def recordedLog : List String := Gen.AuditLog.logFields.map (·.1)
def recordedGrounding : List String := Gen.AuditLog.groundingFields.map (·.1)
/-- Entry-level recorded fields that are inputs of the hash (Hash and SignatureEd25519 are its outputs). -/
def recordedEntry : List String :=
  (Gen.AuditLog.entryFields.map (·.1)).filter fun f => f != "Hash" && f != "SignatureEd25519"

def hashedLogNames (v : Nat) : List String :=
  (Gen.AuditLog.hashPre ++ Gen.AuditLog.hashLog v).map (·.1) ++ Gen.AuditLog.hashTail
def hashedGroundingNames : List String :=
  (Gen.AuditLog.hashPre ++ Gen.AuditLog.hashGrounding).map (·.1) ++ Gen.AuditLog.hashTail

/-- JSON specs per (version, kind): entry-level fields followed by the details. -/
def jsonW (v k : Nat) : JSpec :=
  Gen.AuditLog.jsonEntryW ++
    (match k with
     | 1 => if v ≤ Gen.AuditLog.jsonLegacyMax then Gen.AuditLog.jsonLogLegacyW else Gen.AuditLog.jsonLogW
     | 2 => Gen.AuditLog.jsonGroundingW
     | _ => [])

def jsonR (v k : Nat) : JSpec :=
  Gen.AuditLog.jsonEntryR ++
    (match k with
     | 1 => if v ≤ Gen.AuditLog.jsonLegacyMax then Gen.AuditLog.jsonLogLegacyR else Gen.AuditLog.jsonLogR
     | 2 => Gen.AuditLog.jsonGroundingR
     | _ => [])

/-- Does `JsonSerializer.Encode` convert the timestamp to UTC before formatting it with the layout
whose zone designator is a literal "Z"? (T1: the conversions applied to `e.Timestamp`.) -/
def jsonTimeUTC : Bool := Gen.AuditLog.jsonTimeWrite.contains "UTC"

def widthOf (f : String) : Nat :=
  ((Gen.AuditLog.entryFields ++ Gen.AuditLog.logFields ++ Gen.AuditLog.groundingFields).lookup f).getD 0

/-- Go zero value of a field in the record representation. -/
def zeroOf (f : String) : Bytes := List.replicate (widthOf f) 0

end Pithos.AuditLog.Code
