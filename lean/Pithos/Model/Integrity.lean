/-
M12 (integrity validator): `/repo/internal/storage/integrity/validator.go` as a decision procedure.

What is mirrored (function by function):
* `checksumutils.CalculateChecksumsStreaming`   → `sumsOf`        (six digests of the bytes read)
* `checksumutils.CalculateMultipartChecksums`   → `multipartSums` (ETag = md5 of the part md5s + "-N";
                                                   COMPOSITE = hash of the part digests + "-N";
                                                   FULL_OBJECT = CRC combination over the parts)
* the write paths that create the records        → `AObj.toRow`    (PutObject / CompleteMultipartUpload /
                                                   AppendObject; CopyObject re-uses the source record)
* `verifyPartChecksums`, `verifyObjectChecksums` → `verifyPart`, `verifyObject`
* `findPartStore` + `partStore.GetPart`          → `Locator`, `resolve`, `Store.getPart`
* `validateObject`, `ValidateAll`, deleteCorrupted → `validateObject`, `validateAll`, `survivors`

Hash functions are parameters (`Hashes`); nothing is assumed about them here. Digests are byte
lists; an S3 ETag / checksum string is a digest with an optional `-N` suffix (`Tagged`), which is
exactly the information string equality of the real values depends on (hex/base64 of a fixed-width
digest never contains `-`).

Code variants (`Cfg`):
* `locator`  — how the validator obtains the part store it reads from.
    `notFound` : `findPartStore` finds no field implementing `partstore.PartStore`; `ValidateAll`
                 fails with "could not find PartStore in storage hierarchy" (the current code on a
                 `metadataPartStorage`, whose only part-store field is `*partstore.NamedPartStores`);
    `single`   : one store is found and every part is read from it (the current code when the
                 storage value exposes a `PartStore` field — it is handed the *default* store);
    `named`    : each part is read from the store recorded on its row (repaired code).
* `dashAware` — `false`: a one-part object always takes the "single part" comparison (current
                 code); `true`: an object ETag carrying a `-N` suffix takes the multipart comparison
                 (repaired code).
-/
namespace Pithos.Integrity

abbrev Bytes := List UInt8

/-- The hash primitives used by the checksum code, as parameters. `combine*` are
`checksumutils.CombineCrc32/Crc32c/Crc64Nvme (a, b, len b)`. -/
structure Hashes where
  md5 : Bytes → Bytes
  crc32 : Bytes → Bytes
  crc32c : Bytes → Bytes
  crc64 : Bytes → Bytes
  sha1 : Bytes → Bytes
  sha256 : Bytes → Bytes
  combine32 : Bytes → Bytes → Nat → Bytes
  combine32c : Bytes → Bytes → Nat → Bytes
  combine64 : Bytes → Bytes → Nat → Bytes

/-- A checksum string: digest plus optional `-N` suffix. -/
structure Tagged where
  digest : Bytes
  suffix : Option Nat
  deriving DecidableEq, Repr

/-- `checksumutils.ChecksumValues` / the checksum columns of a row (`none` = nil / empty string). -/
structure Sums where
  etag : Option Tagged
  crc32 : Option Tagged
  crc32c : Option Tagged
  crc64 : Option Tagged
  sha1 : Option Tagged
  sha256 : Option Tagged
  deriving DecidableEq, Repr

def plain (d : Bytes) : Option Tagged := some ⟨d, none⟩

/-- `CalculateChecksumsStreaming`: all six digests of the bytes, no suffix. -/
def sumsOf (H : Hashes) (b : Bytes) : Sums :=
  { etag := plain (H.md5 b), crc32 := plain (H.crc32 b), crc32c := plain (H.crc32c b),
    crc64 := plain (H.crc64 b), sha1 := plain (H.sha1 b), sha256 := plain (H.sha256 b) }

inductive CType where
  | fullObject | composite
  deriving DecidableEq, Repr

/-- A row of table `parts` (only what the validator reads). `store = none` is the default store. -/
structure PartRow where
  id : Nat
  store : Option Nat
  size : Nat
  recd : Sums
  deriving DecidableEq, Repr

/-- An object as listed by `ListObjects` plus its part rows. -/
structure ObjRow where
  key : Nat
  sums : Sums
  ctype : Option CType
  parts : List PartRow
  deriving DecidableEq, Repr

def digestOf (t : Option Tagged) : Bytes :=
  match t with
  | some x => x.digest
  | none => []

/-- Hash-of-digests used by COMPOSITE: defined when every part carries the checksum. -/
def compositeOf (h : Bytes → Bytes) (cs : List (Option Tagged)) : Option Tagged :=
  if cs.all Option.isSome then some ⟨h (cs.flatMap digestOf), some cs.length⟩ else none

/-- CRC combination used by FULL_OBJECT: first digest, then `combine acc d size` part by part. -/
def combineFold (comb : Bytes → Bytes → Nat → Bytes) : Option Bytes → List (Bytes × Nat) → Option Bytes
  | acc, [] => acc
  | none, (d, _) :: rest => combineFold comb (some d) rest
  | some a, (d, n) :: rest => combineFold comb (some (comb a d n)) rest

def fullObjectOf (comb : Bytes → Bytes → Nat → Bytes) (cs : List (Option Tagged × Nat)) : Option Tagged :=
  if cs.all (fun c => c.1.isSome) then
    (combineFold comb none (cs.map fun c => (digestOf c.1, c.2))).map fun d => ⟨d, none⟩
  else none

/-- `CalculateMultipartChecksums(parts, checksumType)`. -/
def multipartSums (H : Hashes) (parts : List PartRow) (ct : CType) : Sums :=
  let etag : Option Tagged := some ⟨H.md5 (parts.flatMap fun p => digestOf p.recd.etag), some parts.length⟩
  match ct with
  | .composite =>
    { etag := etag,
      crc32 := compositeOf H.crc32 (parts.map (·.recd.crc32)),
      crc32c := compositeOf H.crc32c (parts.map (·.recd.crc32c)),
      crc64 := none,
      sha1 := compositeOf H.sha1 (parts.map (·.recd.sha1)),
      sha256 := compositeOf H.sha256 (parts.map (·.recd.sha256)) }
  | .fullObject =>
    { etag := etag,
      crc32 := fullObjectOf H.combine32 (parts.map fun p => (p.recd.crc32, p.size)),
      crc32c := fullObjectOf H.combine32c (parts.map fun p => (p.recd.crc32c, p.size)),
      crc64 := fullObjectOf H.combine64 (parts.map fun p => (p.recd.crc64, p.size)),
      sha1 := none, sha256 := none }

/-- One `if a != nil && b != nil { if *a != *b { return err } }` clause. -/
def agree (a b : Option Tagged) : Bool :=
  match a, b with
  | some x, some y => x == y
  | _, _ => true

/-- The six clauses shared by `verifyPartChecksums` and both halves of `verifyObjectChecksums`. -/
def agreeAll (a b : Sums) : Bool :=
  agree a.etag b.etag && agree a.crc32 b.crc32 && agree a.crc32c b.crc32c &&
  agree a.crc64 b.crc64 && agree a.sha1 b.sha1 && agree a.sha256 b.sha256

/-- `verifyPartChecksums(part, calculated) == nil`. -/
def verifyPart (p : PartRow) (calcd : Sums) : Bool := agreeAll p.recd calcd

def hasDash (s : Sums) : Bool :=
  match s.etag with
  | some t => t.suffix.isSome
  | none => false

/-- `verifyObjectChecksums(object, parts, partChecksums) == nil`. `calcs` are the checksums
recomputed from the stored bytes, one per part (only reached when every part was readable). -/
def verifyObject (H : Hashes) (dashAware : Bool) (o : ObjRow) (calcs : List Sums) : Bool :=
  if o.parts.length == 1 && !(dashAware && hasDash o.sums) then
    match calcs with
    | c :: _ => agreeAll o.sums c      -- `partChecksums[0]`
    | [] => true                        -- unreachable: one recomputed entry per part
  else agreeAll o.sums (multipartSums H o.parts (o.ctype.getD .fullObject))

/-- A part store. `content` is what the store holds per part id (`none`: no such part).
`emptyIsMissing`: the store cannot represent an empty part — `GetPart` of one answers
`ErrPartNotFound` (the SQL part store wrote no chunk row for empty content until /repo commit
6ff38ea; the harness observes per case whether an untouched empty part reads back). -/
structure Store where
  content : Nat → Option Bytes
  emptyIsMissing : Bool

def Store.getPart (s : Store) (id : Nat) : Option Bytes :=
  match s.content id with
  | some [] => if s.emptyIsMissing then none else some []
  | r => r

/-- The configured stores: the default one and the named ones. -/
structure Stores where
  dflt : Store
  named : Nat → Option Store

def Stores.byName (ss : Stores) : Option Nat → Option Store
  | none => some ss.dflt
  | some n => ss.named n

inductive Locator where
  | notFound | single | named
  deriving DecidableEq, Repr

structure Cfg where
  locator : Locator
  dashAware : Bool
  deriving DecidableEq, Repr

/-- The code in `/repo` today, run on a `metadataPartStorage`. -/
def Cfg.asIs : Cfg := ⟨.notFound, false⟩
/-- The code in `/repo` today, run on a storage value that exposes its default part store. -/
def Cfg.asIsHosted : Cfg := ⟨.single, false⟩
/-- The repaired validator (fixes/C39-*.patch). -/
def Cfg.repaired : Cfg := ⟨.named, true⟩

/-- Which store a part is read from (`none`: the read fails). -/
def resolve (l : Locator) (ss : Stores) (p : PartRow) : Option Store :=
  match l with
  | .notFound => none
  | .single => some ss.dflt
  | .named => ss.byName p.store

def readPart (l : Locator) (ss : Stores) (p : PartRow) : Option Bytes :=
  match resolve l ss p with
  | some s => s.getPart p.id
  | none => none

inductive Outcome where
  | ok | partFailure | objectMismatch
  deriving DecidableEq, Repr

/-- The per-part loop of `validateObject`: `none` as soon as one part is unreadable or mismatching
(the code keeps looping to collect messages, but the outcome is already decided), otherwise the
recomputed checksums. -/
def checkParts (H : Hashes) (l : Locator) (ss : Stores) : List PartRow → Option (List Sums)
  | [] => some []
  | p :: ps =>
    match readPart l ss p with
    | none => none
    | some b =>
      let c := sumsOf H b
      if verifyPart p c then (checkParts H l ss ps).map (c :: ·) else none

def validateObject (H : Hashes) (cfg : Cfg) (ss : Stores) (o : ObjRow) : Outcome :=
  match checkParts H cfg.locator ss o.parts with
  | none => .partFailure
  | some calcs => if verifyObject H cfg.dashAware o calcs then .ok else .objectMismatch

def reported (H : Hashes) (cfg : Cfg) (ss : Stores) (o : ObjRow) : Bool :=
  validateObject H cfg ss o != .ok

/-- `ValidateAll`: `none` when no part store is located (the run aborts with an error before any
object is looked at), otherwise one outcome per listed object. -/
def validateAll (H : Hashes) (cfg : Cfg) (ss : Stores) (objs : List ObjRow) : Option (List (Nat × Outcome)) :=
  if cfg.locator == .notFound then none
  else some (objs.map fun o => (o.key, validateObject H cfg ss o))

/-- Keys left after a run with `deleteCorrupted` (and `force`): every failed object is passed to
`DeleteObject`. An aborted run deletes nothing. -/
def survivors (H : Hashes) (cfg : Cfg) (ss : Stores) (objs : List ObjRow) : List Nat :=
  if cfg.locator == .notFound then objs.map (·.key)
  else (objs.filter fun o => !reported H cfg ss o).map (·.key)

def deleted (H : Hashes) (cfg : Cfg) (ss : Stores) (objs : List ObjRow) : List Nat :=
  if cfg.locator == .notFound then []
  else (objs.filter fun o => reported H cfg ss o).map (·.key)

/-! ### How the records come into being (the write paths) -/

/-- A part as written: where it lives and the bytes that were acknowledged. -/
structure APart where
  id : Nat
  store : Option Nat
  orig : Bytes
  deriving DecidableEq, Repr

inductive Kind where
  | single                    -- PutObject (or a copy of such an object)
  | multipart (ct : CType)    -- CompleteMultipartUpload (any part count ≥ 0) or a copy of it
  | appended                  -- AppendObject (ETag only, FULL_OBJECT, no object-level checksums)
  deriving DecidableEq, Repr

structure AObj where
  key : Nat
  kind : Kind
  parts : List APart
  deriving DecidableEq, Repr

/-- Every write path stores the six checksums of the bytes it streamed into the store. -/
def APart.toRow (H : Hashes) (p : APart) : PartRow :=
  { id := p.id, store := p.store, size := p.orig.length, recd := sumsOf H p.orig }

def AObj.rows (H : Hashes) (o : AObj) : List PartRow := o.parts.map (APart.toRow H)

def AObj.toRow (H : Hashes) (o : AObj) : ObjRow :=
  let rows := o.rows H
  match o.kind with
  | .single =>
    { key := o.key, sums := (match rows with | r :: _ => r.recd | [] => sumsOf H []),
      ctype := some .fullObject, parts := rows }
  | .multipart ct =>
    { key := o.key, sums := multipartSums H rows ct, ctype := some ct, parts := rows }
  | .appended =>
    { key := o.key, sums := { etag := (multipartSums H rows .fullObject).etag, crc32 := none, crc32c := none,
                              crc64 := none, sha1 := none, sha256 := none },
      ctype := some .fullObject, parts := rows }

/-- A `PutObject` record always has exactly one part. -/
def AObj.WF (o : AObj) : Prop := o.kind = .single → o.parts.length = 1

instance (o : AObj) : Decidable o.WF := by unfold AObj.WF; infer_instance

/-- The store an acknowledged part was written to, by name. -/
def homeStore (ss : Stores) (p : APart) : Option Store := ss.byName p.store

/-- The property's notion of corruption: the bytes held for the part in its own store are no
longer the acknowledged ones (changed, or the part is gone, or its store is gone). -/
def corruptB (ss : Stores) (p : APart) : Bool :=
  match homeStore ss p with
  | some s => s.content p.id != some p.orig
  | none => true

def corrupt (ss : Stores) (p : APart) : Prop := corruptB ss p = true

instance (ss : Stores) (p : APart) : Decidable (corrupt ss p) := by unfold corrupt; infer_instance

end Pithos.Integrity
