/-
Executable primitives for the drivers of C28/C29/C30 (core Lean only).

The *theorems* never look inside these functions: in `Props/` every hash / MAC / checksum is an
abstract structure parameter with an explicit hypothesis. The drivers instantiate the parameters
with the implementations below so that the model can predict accept/reject of the real server
and recompute what the real AWS SDK signed. Each driver runs `selfTest` (published test vectors)
first and reports a divergence if an implementation is wrong.
-/
namespace Pithos.Crypto

abbrev Bytes := List UInt8

def ofString (s : String) : Bytes := s.toUTF8.toList

def hexNibble (n : UInt8) : UInt8 := if n < 10 then 48 + n else 87 + n

/-- lower-case hex, as `hex.EncodeToString`. -/
def hex : Bytes → Bytes
  | [] => []
  | b :: t => hexNibble (b >>> 4) :: hexNibble (b &&& 15) :: hex t

-- ---------------------------------------------------------------- SHA-256

def k256 : Array UInt32 := #[
  0x428a2f98, 0x71374491, 0xb5c0fbcf, 0xe9b5dba5, 0x3956c25b, 0x59f111f1, 0x923f82a4, 0xab1c5ed5,
  0xd807aa98, 0x12835b01, 0x243185be, 0x550c7dc3, 0x72be5d74, 0x80deb1fe, 0x9bdc06a7, 0xc19bf174,
  0xe49b69c1, 0xefbe4786, 0x0fc19dc6, 0x240ca1cc, 0x2de92c6f, 0x4a7484aa, 0x5cb0a9dc, 0x76f988da,
  0x983e5152, 0xa831c66d, 0xb00327c8, 0xbf597fc7, 0xc6e00bf3, 0xd5a79147, 0x06ca6351, 0x14292967,
  0x27b70a85, 0x2e1b2138, 0x4d2c6dfc, 0x53380d13, 0x650a7354, 0x766a0abb, 0x81c2c92e, 0x92722c85,
  0xa2bfe8a1, 0xa81a664b, 0xc24b8b70, 0xc76c51a3, 0xd192e819, 0xd6990624, 0xf40e3585, 0x106aa070,
  0x19a4c116, 0x1e376c08, 0x2748774c, 0x34b0bcb5, 0x391c0cb3, 0x4ed8aa4a, 0x5b9cca4f, 0x682e6ff3,
  0x748f82ee, 0x78a5636f, 0x84c87814, 0x8cc70208, 0x90befffa, 0xa4506ceb, 0xbef9a3f7, 0xc67178f2]

@[inline] def rotr (x : UInt32) (n : UInt32) : UInt32 := (x >>> n) ||| (x <<< (32 - n))
@[inline] def rotl (x : UInt32) (n : UInt32) : UInt32 := (x <<< n) ||| (x >>> (32 - n))

/-- Merkle–Damgård padding with a 64-bit big-endian bit length. -/
def mdPad (msg : ByteArray) : ByteArray := Id.run do
  let len := msg.size
  let mut m := msg.push 0x80
  while m.size % 64 ≠ 56 do
    m := m.push 0
  let bits : UInt64 := (UInt64.ofNat len) * 8
  for i in [0:8] do
    m := m.push (UInt8.ofNat ((bits >>> (UInt64.ofNat (8 * (7 - i)))).toNat % 256))
  return m

@[inline] def be32 (m : ByteArray) (i : Nat) : UInt32 :=
  (m.get! i).toUInt32 <<< 24 ||| (m.get! (i+1)).toUInt32 <<< 16 |||
  (m.get! (i+2)).toUInt32 <<< 8 ||| (m.get! (i+3)).toUInt32

def putBE32 (out : ByteArray) (x : UInt32) : ByteArray :=
  (((out.push (x >>> 24).toUInt8).push (x >>> 16).toUInt8).push (x >>> 8).toUInt8).push x.toUInt8

def sha256Raw (msg : ByteArray) : ByteArray := Id.run do
  let m := mdPad msg
  let mut h : Array UInt32 := #[0x6a09e667, 0xbb67ae85, 0x3c6ef372, 0xa54ff53a,
                                0x510e527f, 0x9b05688c, 0x1f83d9ab, 0x5be0cd19]
  for blk in [0:m.size / 64] do
    let mut w : Array UInt32 := Array.replicate 64 0
    for t in [0:16] do
      w := w.set! t (be32 m (blk * 64 + t * 4))
    for t in [16:64] do
      let w15 := w[t-15]!
      let w2 := w[t-2]!
      let s0 := rotr w15 7 ^^^ rotr w15 18 ^^^ (w15 >>> 3)
      let s1 := rotr w2 17 ^^^ rotr w2 19 ^^^ (w2 >>> 10)
      w := w.set! t (w[t-16]! + s0 + w[t-7]! + s1)
    let mut a := h[0]!
    let mut b := h[1]!
    let mut c := h[2]!
    let mut d := h[3]!
    let mut e := h[4]!
    let mut f := h[5]!
    let mut g := h[6]!
    let mut hh := h[7]!
    for t in [0:64] do
      let s1 := rotr e 6 ^^^ rotr e 11 ^^^ rotr e 25
      let ch := (e &&& f) ^^^ ((~~~ e) &&& g)
      let t1 := hh + s1 + ch + k256[t]! + w[t]!
      let s0 := rotr a 2 ^^^ rotr a 13 ^^^ rotr a 22
      let maj := (a &&& b) ^^^ (a &&& c) ^^^ (b &&& c)
      let t2 := s0 + maj
      hh := g; g := f; f := e; e := d + t1; d := c; c := b; b := a; a := t1 + t2
    h := #[h[0]! + a, h[1]! + b, h[2]! + c, h[3]! + d, h[4]! + e, h[5]! + f, h[6]! + g, h[7]! + hh]
  let mut out := ByteArray.empty
  for x in h do
    out := putBE32 out x
  return out

def sha256 (msg : Bytes) : Bytes := (sha256Raw (ByteArray.mk msg.toArray)).toList
def sha256hex (msg : Bytes) : Bytes := hex (sha256 msg)

/-- HMAC-SHA256 (RFC 2104). -/
def hmacSha256 (key msg : Bytes) : Bytes :=
  let k0 := if key.length > 64 then sha256 key else key
  let k := k0 ++ List.replicate (64 - k0.length) 0
  let ipad := k.map (· ^^^ 0x36)
  let opad := k.map (· ^^^ 0x5c)
  sha256 (opad ++ sha256 (ipad ++ msg))

-- ---------------------------------------------------------------- SHA-1

def sha1Raw (msg : ByteArray) : ByteArray := Id.run do
  let m := mdPad msg
  let mut h : Array UInt32 := #[0x67452301, 0xEFCDAB89, 0x98BADCFE, 0x10325476, 0xC3D2E1F0]
  for blk in [0:m.size / 64] do
    let mut w : Array UInt32 := Array.replicate 80 0
    for t in [0:16] do
      w := w.set! t (be32 m (blk * 64 + t * 4))
    for t in [16:80] do
      w := w.set! t (rotl (w[t-3]! ^^^ w[t-8]! ^^^ w[t-14]! ^^^ w[t-16]!) 1)
    let mut a := h[0]!
    let mut b := h[1]!
    let mut c := h[2]!
    let mut d := h[3]!
    let mut e := h[4]!
    for t in [0:80] do
      let (f, k) : UInt32 × UInt32 :=
        if t < 20 then ((b &&& c) ||| ((~~~ b) &&& d), 0x5A827999)
        else if t < 40 then (b ^^^ c ^^^ d, 0x6ED9EBA1)
        else if t < 60 then ((b &&& c) ||| (b &&& d) ||| (c &&& d), 0x8F1BBCDC)
        else (b ^^^ c ^^^ d, 0xCA62C1D6)
      let tmp := rotl a 5 + f + e + k + w[t]!
      e := d; d := c; c := rotl b 30; b := a; a := tmp
    h := #[h[0]! + a, h[1]! + b, h[2]! + c, h[3]! + d, h[4]! + e]
  let mut out := ByteArray.empty
  for x in h do
    out := putBE32 out x
  return out

def sha1 (msg : Bytes) : Bytes := (sha1Raw (ByteArray.mk msg.toArray)).toList

-- ---------------------------------------------------------------- reflected CRCs (bitwise)

/-- One byte of a reflected CRC with (reflected) polynomial `poly` on a `UInt64` register. -/
def crcByte (poly : UInt64) (crc : UInt64) (b : UInt8) : UInt64 := Id.run do
  let mut c := crc ^^^ b.toUInt64
  for _ in [0:8] do
    c := if c &&& 1 == 1 then (c >>> 1) ^^^ poly else c >>> 1
  return c

def crcReflected (poly : UInt64) (mask : UInt64) (msg : Bytes) : UInt64 :=
  (msg.foldl (crcByte poly) mask) ^^^ mask

def be (n : Nat) (x : UInt64) : Bytes :=
  (List.range n).map fun i => UInt8.ofNat ((x >>> (UInt64.ofNat (8 * (n - 1 - i)))).toNat % 256)

/-- CRC-32 (IEEE), big-endian bytes as `hash.Hash.Sum`. -/
def crc32 (msg : Bytes) : Bytes := be 4 (crcReflected 0xEDB88320 0xFFFFFFFF msg)
/-- CRC-32C (Castagnoli). -/
def crc32c (msg : Bytes) : Bytes := be 4 (crcReflected 0x82F63B78 0xFFFFFFFF msg)
/-- CRC-64/NVME. -/
def crc64nvme (msg : Bytes) : Bytes := be 8 (crcReflected 0x9A6C9329AC4BC9B5 0xFFFFFFFFFFFFFFFF msg)

-- ---------------------------------------------------------------- base64 (std, padded)

def b64Char (n : Nat) : UInt8 :=
  if n < 26 then UInt8.ofNat (65 + n)
  else if n < 52 then UInt8.ofNat (97 + n - 26)
  else if n < 62 then UInt8.ofNat (48 + n - 52)
  else if n == 62 then 43 else 47

def base64 : Bytes → Bytes
  | [] => []
  | [a] =>
    let n := a.toNat * 65536
    [b64Char (n / 262144 % 64), b64Char (n / 4096 % 64), 61, 61]
  | [a, b] =>
    let n := a.toNat * 65536 + b.toNat * 256
    [b64Char (n / 262144 % 64), b64Char (n / 4096 % 64), b64Char (n / 64 % 64), 61]
  | a :: b :: c :: t =>
    let n := a.toNat * 65536 + b.toNat * 256 + c.toNat
    b64Char (n / 262144 % 64) :: b64Char (n / 4096 % 64) :: b64Char (n / 64 % 64) :: b64Char (n % 64) :: base64 t

/-- Published test vectors; `[]` when every implementation is right. -/
def selfTest : List String :=
  let chk (name : String) (got want : Bytes) : List String := if got == want then [] else [name]
  chk "sha256-abc" (sha256hex (ofString "abc"))
      (ofString "ba7816bf8f01cfea414140de5dae2223b00361a396177a9cb410ff61f20015ad") ++
  chk "sha256-empty" (sha256hex [])
      (ofString "e3b0c44298fc1c149afbf4c8996fb92427ae41e4649b934ca495991b7852b855") ++
  chk "sha256-2blk" (sha256hex (ofString "abcdbcdecdefdefgefghfghighijhijkijkljklmklmnlmnomnopnopq"))
      (ofString "248d6a61d20638b8e5c026930c3e6039a33ce45964ff2167f6ecedd419db06c1") ++
  chk "hmac-rfc4231-2" (hex (hmacSha256 (ofString "Jefe") (ofString "what do ya want for nothing?")))
      (ofString "5bdcc146bf60754e6a042426089575c75a003f089d2739839dec58b964ec3843") ++
  chk "sha1-abc" (hex (sha1 (ofString "abc"))) (ofString "a9993e364706816aba3e25717850c26c9cd0d89d") ++
  chk "crc32-check" (hex (crc32 (ofString "123456789"))) (ofString "cbf43926") ++
  chk "crc32c-check" (hex (crc32c (ofString "123456789"))) (ofString "e3069283") ++
  chk "crc64nvme-check" (hex (crc64nvme (ofString "123456789"))) (ofString "ae8b14860a799888") ++
  chk "base64" (base64 (ofString "foobar") ++ base64 (ofString "fo") ++ base64 (ofString "f"))
      (ofString "Zm9vYmFyZm8=Zg==")

end Pithos.Crypto
