/-
M9 (SigV4 part): `internal/http/server/authentication/signature.go` as pure functions, plus a model
of what the AWS SDK for Go v2 signer (`aws/signer/v4`, configured as the S3 client configures it:
`DisableURIPathEscaping = true`) puts into its canonical request.

Inputs are what the Go code reads from the `*http.Request` it receives:
  method, `r.URL.EscapedPath()`, `r.URL.Query()` (decoded pairs), `r.Host`, `r.Header`, body.
`net/http` request parsing and `url.ParseQuery` are *not* modelled (they are below the model).

Switches (`Fix`): `Fix.asIs` mirrors the code before /repo e6080ab; `collapseSpaces` is the
behaviour since that commit (fixes/C29-collapse-header-spaces.patch) — `Fix.patched` is the
current tree; `sortDecoded` is an ideal-only variant (canonical query ordered like the Go SDK
orders it) for which no patch is proposed.

Hashes and MACs are parameters (`Crypto`); the drivers instantiate them with real SHA-256 /
HMAC-SHA256, the theorems keep them abstract.
-/
namespace Pithos.SigV4

abbrev Bytes := List UInt8

open Lean in
/-- `b! "host"` = the UTF-8 bytes of the literal, as an explicit list (reduces by `decide`). -/
macro "b!" s:str : term => do
  let bs := s.getString.toUTF8.toList
  let elems ← bs.toArray.mapM fun b => `(($(quote b.toNat) : UInt8))
  `(([$elems,*] : List UInt8))

structure Crypto where
  /-- lower-case hex of SHA-256 -/
  sha256hex : Bytes → Bytes
  /-- HMAC-SHA256 key message (raw bytes) -/
  hmac : Bytes → Bytes → Bytes

structure Fix where
  collapseSpaces : Bool
  sortDecoded : Bool
  deriving Repr, DecidableEq

def Fix.asIs : Fix := ⟨false, false⟩
def Fix.patched : Fix := ⟨true, false⟩
def Fix.ideal : Fix := ⟨true, true⟩

-- ---------------------------------------------------------------- bytes helpers

def hexNibbleL (n : UInt8) : UInt8 := if n < 10 then 48 + n else 87 + n
def hexNibbleU (n : UInt8) : UInt8 := if n < 10 then 48 + n else 55 + n

/-- `hex.EncodeToString` -/
def hexL : Bytes → Bytes
  | [] => []
  | b :: t => hexNibbleL (b >>> 4) :: hexNibbleL (b &&& 15) :: hexL t

def isUpper (c : UInt8) : Bool := 65 ≤ c && c ≤ 90
def isLower (c : UInt8) : Bool := 97 ≤ c && c ≤ 122
def isDigit (c : UInt8) : Bool := 48 ≤ c && c ≤ 57
def isHexChar (c : UInt8) : Bool := isDigit c || (97 ≤ c && c ≤ 102) || (65 ≤ c && c ≤ 70)
def upperHexChar (c : UInt8) : UInt8 := if 97 ≤ c && c ≤ 102 then c - 32 else c
def lowerByte (c : UInt8) : UInt8 := if isUpper c then c + 32 else c
def lower (s : Bytes) : Bytes := s.map lowerByte

def hexDigitVal (c : UInt8) : Nat :=
  if isDigit c then c.toNat - 48 else if 97 ≤ c && c ≤ 102 then c.toNat - 87 else c.toNat - 55

/-- `isUnreservedChar`: A–Z a–z 0–9 - . _ ~ -/
def isUnreserved (c : UInt8) : Bool :=
  isUpper c || isLower c || isDigit c || c == 45 || c == 46 || c == 95 || c == 126

/-- `%XX` with upper-case hex (`fmt.Fprintf("%%%02X")`, `url.QueryEscape`, smithy `EscapePath`). -/
def pct (c : UInt8) : Bytes := [37, hexNibbleU (c >>> 4), hexNibbleU (c &&& 15)]

def isSpaceByte (c : UInt8) : Bool := c == 32 || (9 ≤ c && c ≤ 13)

def trimLeft (s : Bytes) : Bytes := s.dropWhile isSpaceByte
def trimRight (s : Bytes) : Bytes := (s.reverse.dropWhile isSpaceByte).reverse
/-- `strings.TrimSpace` on ASCII white space (U+0085/U+00A0 … are not modelled; see design/C29.md). -/
def trimSpace (s : Bytes) : Bytes := trimRight (trimLeft s)

def join (sep : Bytes) : List Bytes → Bytes
  | [] => []
  | [x] => x
  | x :: y :: t => x ++ sep ++ join sep (y :: t)

/-- `strings.Split(s, string(sep))` for a one-byte separator. -/
def splitOn (sep : UInt8) : Bytes → List Bytes
  | [] => [[]]
  | c :: t =>
    if c == sep then [] :: splitOn sep t
    else match splitOn sep t with
      | [] => [[c]]
      | h :: r => (c :: h) :: r

def hasPrefix (p s : Bytes) : Bool := s.take p.length == p

def cutPrefix (p s : Bytes) : Option Bytes := if hasPrefix p s then some (s.drop p.length) else none

/-- `strings.Cut(s, " ")` -/
def cutSpace : Bytes → Option (Bytes × Bytes)
  | [] => none
  | c :: t =>
    if c == 32 then some ([], t)
    else match cutSpace t with
      | none => none
      | some (a, b) => some (c :: a, b)

/-- Lexicographic `<` on bytes = `cmp.Compare` / `sort.Strings` on Go strings. -/
def bytesLt : Bytes → Bytes → Bool
  | [], [] => false
  | [], _ :: _ => true
  | _ :: _, [] => false
  | a :: s, b :: t => a < b || (a == b && bytesLt s t)

def bytesLe (a b : Bytes) : Bool := !bytesLt b a

def pairLe (a b : Bytes × Bytes) : Bool := bytesLt a.1 b.1 || (a.1 == b.1 && bytesLe a.2 b.2)

def insertBy {α : Type} (le : α → α → Bool) (x : α) : List α → List α
  | [] => [x]
  | y :: t => if le x y then x :: y :: t else y :: insertBy le x t

/-- Insertion sort. The Go code uses `slices.SortFunc` (unstable); the two agree whenever elements
that compare equal are equal, which holds for query pairs and for header lists with distinct keys. -/
def sortBy {α : Type} (le : α → α → Bool) : List α → List α
  | [] => []
  | x :: t => insertBy le x (sortBy le t)

-- ---------------------------------------------------------------- the request

structure Req where
  method : Bytes
  /-- `r.URL.EscapedPath()` -/
  path : Bytes
  /-- `r.URL.Query()`, flattened (per key the values keep their order) -/
  query : List (Bytes × Bytes)
  host : Bytes
  /-- `r.Header`: key as stored in the map, values in order -/
  headers : List (Bytes × List Bytes)
  body : Bytes
  deriving Repr, DecidableEq

/-- `r.Header.Get(name)` (header keys are compared case-insensitively: the map holds canonical keys). -/
def headerGet (r : Req) (name : Bytes) : Bytes :=
  match r.headers.find? (fun h => lower h.1 == lower name) with
  | some (_, v :: _) => v
  | _ => []

/-- `r.URL.Query().Get(name)` -/
def queryGet (r : Req) (name : Bytes) : Bytes :=
  match r.query.find? (fun p => p.1 == name) with
  | some (_, v) => v
  | none => []

-- ---------------------------------------------------------------- server: canonical request

/-- one byte of `generateCanonicalURI` that is not the start of a valid `%XX` escape -/
def emitURIByte (c : UInt8) : Bytes :=
  if c == 47 then [47] else if isUnreserved c then [c] else pct c

/-- the loop of `generateCanonicalURI` -/
def canonURILoop : Bytes → Bytes
  | [] => []
  | c :: h1 :: h2 :: rest =>
    if c == 37 && isHexChar h1 && isHexChar h2 then
      37 :: upperHexChar h1 :: upperHexChar h2 :: canonURILoop rest
    else emitURIByte c ++ canonURILoop (h1 :: h2 :: rest)
  | c :: rest => emitURIByte c ++ canonURILoop rest

/-- percent-decoding of an escaped path (`url.PathUnescape` on a valid escaping): what the
router sees as `r.URL.Path` -/
def pctDecode : Bytes → Bytes
  | [] => []
  | c :: h1 :: h2 :: rest =>
    if c == 37 && isHexChar h1 && isHexChar h2 then
      UInt8.ofNat (hexDigitVal h1 * 16 + hexDigitVal h2) :: pctDecode rest
    else c :: pctDecode (h1 :: h2 :: rest)
  | c :: rest => c :: pctDecode rest

/-- `generateCanonicalURI` -/
def canonicalURI (escapedPath : Bytes) : Bytes :=
  if escapedPath.isEmpty then [47] else canonURILoop escapedPath

/-- `uriEncode` = `url.QueryEscape` followed by `+`→`%20`, `*`→`%2A`, `%7E`→`~`:
every byte that is not unreserved becomes `%XX`. -/
def uriEncode (s : Bytes) : Bytes := s.flatMap fun c => if isUnreserved c then [c] else pct c

def amzSignatureKey : Bytes := b! "X-Amz-Signature"

def renderQuery (ps : List (Bytes × Bytes)) : Bytes :=
  join [38] (ps.map fun p => p.1 ++ [61] ++ p.2)

/-- `generateCanonicalQueryString` -/
def canonicalQuery (fx : Fix) (q : List (Bytes × Bytes)) : Bytes :=
  let q' := q.filter (fun p => p.1 != amzSignatureKey)
  let enc := fun (p : Bytes × Bytes) => (uriEncode p.1, uriEncode p.2)
  if fx.sortDecoded then renderQuery ((sortBy pairLe q').map enc)
  else renderQuery (sortBy pairLe (q'.map enc))

/-- sequential spaces → one space (only in the repaired variant) -/
def collapse : Bytes → Bytes
  | [] => []
  | c :: t =>
    match t with
    | [] => [c]
    | d :: _ => if c == 32 && d == 32 then collapse t else c :: collapse t

def headerValue (fx : Fix) (vs : List Bytes) : Bytes :=
  let v := trimSpace (join [44] vs)
  if fx.collapseSpaces then collapse v else v

def hostKey : Bytes := b! "host"

/-- `collectSignedHeaders` -/
def collectSignedHeaders (fx : Fix) (r : Req) (signed : List Bytes) : List (Bytes × Bytes) :=
  sortBy (fun a b => bytesLe a.1 b.1)
    ((hostKey, trimSpace r.host) ::
      r.headers.filterMap fun h =>
        if signed.contains (lower h.1) then some (lower h.1, headerValue fx h.2) else none)

/-- `generateCanonicalHeaders` -/
def canonicalHeaders (hs : List (Bytes × Bytes)) : Bytes :=
  hs.flatMap fun h => h.1 ++ [58] ++ h.2 ++ [10]

/-- `generateSignedHeaders` -/
def signedHeadersString (hs : List (Bytes × Bytes)) : Bytes := join [59] (hs.map (·.1))

def unsignedPayload : Bytes := b! "UNSIGNED-PAYLOAD"
def streamingUnsigned : Bytes := b! "STREAMING-UNSIGNED-PAYLOAD"
def streamingUnsignedTrailer : Bytes := b! "STREAMING-UNSIGNED-PAYLOAD-TRAILER"
def streamingPayload : Bytes := b! "STREAMING-AWS4-HMAC-SHA256-PAYLOAD"
def streamingPayloadTrailer : Bytes := b! "STREAMING-AWS4-HMAC-SHA256-PAYLOAD-TRAILER"
def streamingECDSA : Bytes := b! "STREAMING-AWS4-ECDSA-P256-SHA256-PAYLOAD"
def streamingECDSATrailer : Bytes := b! "STREAMING-AWS4-ECDSA-P256-SHA256-PAYLOAD-TRAILER"
def contentSHA256Header : Bytes := b! "x-amz-content-sha256"

def specialPayloads : List Bytes :=
  [unsignedPayload, streamingUnsigned, streamingUnsignedTrailer, streamingPayload,
   streamingPayloadTrailer, streamingECDSA, streamingECDSATrailer]

/-- last line of `generateCanonicalRequest` -/
def payloadPart (c : Crypto) (r : Req) (presigned : Bool) : Bytes :=
  if presigned then unsignedPayload
  else
    let h := headerGet r contentSHA256Header
    if specialPayloads.contains h then h else c.sha256hex r.body

/-- The parts of the canonical request, before they are joined. -/
structure Canon where
  method : Bytes
  uri : Bytes
  query : Bytes
  headers : List (Bytes × Bytes)
  payload : Bytes
  deriving Repr, DecidableEq

/-- `generateCanonicalRequest`: join with `\n`. -/
def Canon.render (k : Canon) : Bytes :=
  k.method ++ [10] ++ k.uri ++ [10] ++ k.query ++ [10] ++ canonicalHeaders k.headers ++ [10] ++
    signedHeadersString k.headers ++ [10] ++ k.payload

def serverCanon (c : Crypto) (fx : Fix) (r : Req) (signed : List Bytes) (presigned : Bool) : Canon :=
  { method := r.method, uri := canonicalURI r.path, query := canonicalQuery fx r.query,
    headers := collectSignedHeaders fx r signed, payload := payloadPart c r presigned }

def canonicalRequest (c : Crypto) (fx : Fix) (r : Req) (signed : List Bytes) (presigned : Bool) : Bytes :=
  (serverCanon c fx r signed presigned).render

def algV4 : Bytes := b! "AWS4-HMAC-SHA256"
def algV4a : Bytes := b! "AWS4-ECDSA-P256-SHA256"

/-- `generateStringToSign` -/
def stringToSign (c : Crypto) (alg timestamp scope canonical : Bytes) : Bytes :=
  alg ++ [10] ++ timestamp ++ [10] ++ scope ++ [10] ++ c.sha256hex canonical

/-- `createSigningKey` -/
def signingKey (c : Crypto) (secret date region service request : Bytes) : Bytes :=
  c.hmac (c.hmac (c.hmac (c.hmac (b! "AWS4" ++ secret) date) region) service) request

/-- `createSignature` -/
def signature (c : Crypto) (key sts : Bytes) : Bytes := hexL (c.hmac key sts)

-- ---------------------------------------------------------------- server: parsing the credentials

structure SigParams where
  alg : Bytes
  credential : Bytes
  timestamp : Bytes
  /-- seconds -/
  expires : Nat
  signedHeaders : Bytes
  signature : Bytes
  presigned : Bool
  deriving Repr, DecidableEq

def digitsVal (ds : Bytes) : Nat := ds.foldl (fun n d => n * 10 + (d.toNat - 48)) 0

/-- `strconv.ParseInt(s, 10, 32)` -/
def parseInt32 (s : Bytes) : Option Int :=
  match s with
  | [] => none
  | c :: t =>
    let neg := c == 45
    let ds := if c == 43 || c == 45 then t else s
    if ds.isEmpty || !ds.all isDigit then none
    else
      let n := digitsVal ds
      if neg then (if n ≤ 2147483648 then some (-(n : Int)) else none)
      else (if n < 2147483648 then some (n : Int) else none)

inductive Why where
  | algorithm | expires | authFields | credential | region | unknownKey | service | request
  | timestamp | scopeDate | window | noHost | unsignedSensitive | signature | v4a | streamingAlg
  deriving Repr, DecidableEq

/-- `parseSignatureParameters` -/
def parseSigParams (r : Req) : Except Why SigParams :=
  let auth := headerGet r (b! "Authorization")
  if auth.isEmpty then
    let alg := queryGet r (b! "X-Amz-Algorithm")
    if alg != algV4 && alg != algV4a then .error .algorithm
    else match parseInt32 (queryGet r (b! "X-Amz-Expires")) with
      | none => .error .expires
      | some e =>
        if e < 1 || e > 604800 then .error .expires
        else .ok { alg := alg, credential := queryGet r (b! "X-Amz-Credential"),
                   timestamp := queryGet r (b! "X-Amz-Date"), expires := e.toNat,
                   signedHeaders := queryGet r (b! "X-Amz-SignedHeaders"),
                   signature := queryGet r amzSignatureKey, presigned := true }
  else match cutSpace auth with
    | none => .error .authFields
    | some (alg, fields) =>
      if alg != algV4 && alg != algV4a then .error .algorithm
      else match splitOn 44 fields with
        | [f0, f1, f2] =>
          match cutPrefix (b! "Credential=") (trimSpace f0), cutPrefix (b! "SignedHeaders=") (trimSpace f1),
                cutPrefix (b! "Signature=") (trimSpace f2) with
          | some cred, some sh, some sig =>
            let d := headerGet r (b! "x-amz-date")
            let ts := if d.isEmpty then headerGet r (b! "Date") else d
            .ok { alg := alg, credential := cred, timestamp := ts, expires := 300,
                  signedHeaders := sh, signature := sig, presigned := false }
          | _, _, _ => .error .authFields
        | _ => .error .authFields

-- ---------------------------------------------------------------- time.Parse("20060102T150405Z")

def num2 (a b : UInt8) : Option Nat :=
  if isDigit a && isDigit b then some ((a.toNat - 48) * 10 + (b.toNat - 48)) else none

def isLeap (y : Nat) : Bool := y % 4 == 0 && (y % 100 != 0 || y % 400 == 0)

def daysIn (m y : Nat) : Nat :=
  if m == 2 then (if isLeap y then 29 else 28)
  else if m == 4 || m == 6 || m == 9 || m == 11 then 30 else 31

/-- days since 1970-01-01 of a proleptic Gregorian date (Hinnant's `days_from_civil`). -/
def daysFromCivil (y m d : Nat) : Int :=
  let y' : Int := if m ≤ 2 then (y : Int) - 1 else y
  let era : Int := (if y' ≥ 0 then y' else y' - 399) / 400
  let yoe : Int := y' - era * 400
  let mp : Int := ((m : Int) + 9) % 12
  let doy : Int := (153 * mp + 2) / 5 + (d : Int) - 1
  let doe : Int := yoe * 365 + yoe / 4 - yoe / 100 + doy
  era * 146097 + doe - 719468

/-- `time.Parse` tolerates a fractional second after the seconds field even when the layout has
none: `.` or `,` followed by digits is consumed. -/
def skipFraction (rest : Bytes) : Bytes :=
  match rest with
  | p :: q :: more => if (p == 46 || p == 44) && isDigit q then (q :: more).dropWhile isDigit else rest
  | _ => rest

/-- Unix seconds of a timestamp accepted by `time.Parse("20060102T150405Z", ·)`; an optional
fractional second (which `time.Parse` tolerates) is skipped, i.e. times are floored to seconds. -/
def parseTimestamp (ts : Bytes) : Option Int :=
  match ts with
  | y1 :: y2 :: y3 :: y4 :: m1 :: m2 :: d1 :: d2 :: t :: h1 :: h2 :: n1 :: n2 :: s1 :: s2 :: rest =>
    match num2 y1 y2, num2 y3 y4, num2 m1 m2, num2 d1 d2, num2 h1 h2, num2 n1 n2, num2 s1 s2 with
    | some ya, some yb, some mo, some dd, some hh, some mi, some ss =>
      let y := ya * 100 + yb
      if t != 84 || skipFraction rest != [90] then none
      else if mo < 1 || mo > 12 || dd < 1 || dd > daysIn mo y || hh ≥ 24 || mi ≥ 60 || ss ≥ 60 then none
      else some (daysFromCivil y mo dd * 86400 + (hh * 3600 + mi * 60 + ss : Nat))
    | _, _, _, _, _, _, _ => none
  | _ => none

-- ---------------------------------------------------------------- checkAuthentication

structure Cred where
  accessKey : Bytes
  secret : Bytes
  deriving Repr, DecidableEq

structure Config where
  creds : List Cred
  region : Bytes
  /-- `time.Now()` in Unix seconds -/
  now : Int

/-- `mustBeSignedHeader` (argument already lower-cased) -/
def mustBeSigned (k : Bytes) : Bool := k == b! "content-md5" || hasPrefix (b! "x-amz-") k

/-- the `SignedHeaders` list as `checkAuthentication` normalises it -/
def parseSignedHeaders (s : Bytes) : List Bytes :=
  ((splitOn 59 s).map fun h => lower (trimSpace h)).filter (fun h => !h.isEmpty)

structure Accepted where
  accessKey : Bytes
  params : SigParams
  /-- credential scope `date/region/service/request` -/
  scope : Bytes
  signed : List Bytes
  deriving Repr, DecidableEq

/-- `hasAwsChunkedContentEncoding` -/
def hasAwsChunked (contentEncoding : Bytes) : Bool :=
  let first := match splitOn 44 contentEncoding with
    | f :: _ => f
    | [] => []
  lower (trimSpace first) == b! "aws-chunked"

/-- `checkAuthentication` up to and including the signature comparison and the streaming-algorithm
check. SigV4a (ECDSA) requests are answered `v4a`: the model does not verify ECDSA signatures
and the harness never produces one. -/
def checkAuth (c : Crypto) (fx : Fix) (cfg : Config) (r : Req) : Except Why Accepted :=
  match parseSigParams r with
  | .error e => .error e
  | .ok p =>
    if p.alg != algV4 then .error .v4a
    else match splitOn 47 p.credential with
      | [ak, date, region, service, request] =>
        if region != cfg.region then .error .region
        else match cfg.creds.find? (fun k => k.accessKey == ak) with
          | none => .error .unknownKey
          | some cred =>
            if service != b! "s3" then .error .service
            else if request != b! "aws4_request" then .error .request
            else match parseTimestamp p.timestamp with
              | none => .error .timestamp
              | some t =>
                if date != p.timestamp.take 8 then .error .scopeDate
                else if cfg.now < t - 900 || cfg.now > t + (p.expires : Int) then .error .window
                else
                  let signed := parseSignedHeaders p.signedHeaders
                  if !signed.contains hostKey then .error .noHost
                  else if r.headers.any (fun h => mustBeSigned (lower h.1) && !signed.contains (lower h.1)) then
                    .error .unsignedSensitive
                  else
                    let scope := join [47] [date, region, service, request]
                    let sts := stringToSign c p.alg p.timestamp scope (canonicalRequest c fx r signed p.presigned)
                    let key := signingKey c cred.secret date region service request
                    if signature c key sts != p.signature then .error .signature
                    else
                      let sha := headerGet r contentSHA256Header
                      if hasAwsChunked (headerGet r (b! "Content-Encoding")) &&
                          (sha == streamingECDSA || sha == streamingECDSATrailer) then .error .streamingAlg
                      else .ok { accessKey := ak, params := p, scope := scope, signed := signed }
      | _ => .error .credential

/-- `isAnonymousRequest` -/
def isAnonymous (r : Req) : Bool :=
  (headerGet r (b! "Authorization")).isEmpty && (queryGet r (b! "X-Amz-Credential")).isEmpty

-- ---------------------------------------------------------------- the AWS SDK signer (S3 settings)

/-- smithy `httpbinding.EscapePath(key, false)`: how the S3 client writes an object key into the URL. -/
def sdkEscapePath (s : Bytes) : Bytes :=
  s.flatMap fun c => if isUnreserved c || c == 47 then [c] else pct c

/-- `v4Internal.GetURIPath` (no opaque URL) with `DisableURIPathEscaping`. -/
def sdkURI (escapedPath : Bytes) : Bytes := if escapedPath.isEmpty then [47] else escapedPath

/-- `strings.Replace(query.Encode(), "+", "%20", -1)` after sorting each key's values:
pairs ordered by *decoded* key, then decoded value. -/
def sdkQuery (presigned : Bool) (q : List (Bytes × Bytes)) : Bytes :=
  -- a presigned URL gets its `X-Amz-Signature` parameter appended after signing
  let q' := if presigned then q.filter (fun p => p.1 != amzSignatureKey) else q
  renderQuery ((sortBy pairLe q').map fun p => (uriEncode p.1, uriEncode p.2))

def trim32 (s : Bytes) : Bytes :=
  ((s.dropWhile (· == 32)).reverse.dropWhile (· == 32)).reverse

/-- `v4Internal.StripExcessSpaces` -/
def stripExcess (s : Bytes) : Bytes := collapse (trim32 s)

/-- header value in `buildCanonicalHeaders` -/
def sdkHeaderValue (vs : List Bytes) : Bytes := join [44] (vs.map fun v => trimSpace (stripExcess v))

/-- `IgnoredHeaders` (keys are canonical MIME keys; compared here in lower case). -/
def sdkIgnored (k : Bytes) : Bool :=
  k == b! "authorization" || k == b! "user-agent" || k == b! "x-amzn-trace-id" || k == b! "expect" ||
  k == b! "transfer-encoding"

/-- Which of the headers the server received were present and signable when the SDK signed:
everything except the ignored ones and a `Content-Length: 0` (the signer signs the length only
when it is positive; the transport adds the zero length later). -/
def sdkSignedNames (r : Req) : List Bytes :=
  (r.headers.filter fun h =>
      !sdkIgnored (lower h.1) && !(lower h.1 == b! "content-length" && h.2 == [[48]])).map
    fun h => lower h.1

def sdkHeaders (r : Req) (signed : List Bytes) : List (Bytes × Bytes) :=
  sortBy (fun a b => bytesLe a.1 b.1)
    ((hostKey, stripExcess r.host) ::
      r.headers.filterMap fun h =>
        if signed.contains (lower h.1) then some (lower h.1, sdkHeaderValue h.2) else none)

/-- the payload hash the S3 client hands to the signer: the value it also sends as
`x-amz-content-sha256`; `UNSIGNED-PAYLOAD` when presigning. -/
def sdkPayload (r : Req) (presigned : Bool) : Bytes :=
  if presigned then unsignedPayload else headerGet r contentSHA256Header

def sdkCanon (r : Req) (signed : List Bytes) (presigned : Bool) : Canon :=
  { method := r.method, uri := sdkURI r.path, query := sdkQuery presigned r.query,
    headers := sdkHeaders r signed, payload := sdkPayload r presigned }

/-- the signature the SDK computes for the request -/
def sdkSignature (c : Crypto) (secret date region timestamp : Bytes) (r : Req) (signed : List Bytes)
    (presigned : Bool) : Bytes :=
  let scope := join [47] [date, region, b! "s3", b! "aws4_request"]
  signature c (signingKey c secret date region (b! "s3") (b! "aws4_request"))
    (stringToSign c algV4 timestamp scope (sdkCanon r signed presigned).render)

end Pithos.SigV4
