/-
M9 (aws-chunked part): `awsChunkReadCloser` of `internal/http/server/authentication/signature.go`
as a function from the wire body to the decoded payload (or an error), an encoder that frames a
payload the way SigV4 streaming clients do, and the configuration fact of
`internal/http/server/server.go`: the decoder exists only inside the signature middleware.

`Frame` is the abstract syntax of an aws-chunked body; `render` writes it out; `decode` is the
Go reader; `check` is the validation `decode` performs, stated directly on a frame.
-/
import Pithos.Model.Http.SigV4

namespace Pithos.Chunked
open Pithos.SigV4

inductive Err where
  | sigMismatch        -- ErrChunkSignatureMismatch
  | badLength          -- strconv.ParseUint failed
  | malformedTrailer   -- ErrMalformedTrailer
  | badDigest          -- ErrTrailerChecksumMismatch
  | shortBody          -- io.ErrUnexpectedEOF inside a chunk
  | hugeChunk          -- chunk length ≥ 2^63: the Go code slices with a negative bound and panics
  | unmodelled         -- truncated framing whose outcome depends on the consumer's buffer size
  | fuel
  deriving Repr, DecidableEq

/-- What `newAwsChunkReadCloser` is given. -/
structure Params where
  c : Crypto
  /-- base64 text of the trailer checksum of a payload (`trailerHasher`), when one is supported -/
  cksum : Option (Bytes → Bytes)
  signKey : Bytes
  timestamp : Bytes
  scope : Bytes
  /-- the seed signature (the request's own signature) -/
  seed : Bytes
  hasTrailer : Bool
  trailerSigned : Bool
  skipValidation : Bool
  /-- lower-cased, trimmed `x-amz-trailer` header -/
  trailerName : Bytes

/-- `installAwsChunkReader`: the declared trailer name is the `x-amz-trailer` header value trimmed
and lower-cased (header field names are case-insensitive) -/
def declaredTrailer (hdr : Bytes) : Bytes := lower (trimSpace hdr)

/-- the trailer-related parameters as `installAwsChunkReader` / `newAwsChunkReadCloser` derive them
from the request: `hashOf` = `checksumutils.NewChecksumTrailerHash` (knows lower-case names only),
`hasTrailer` = the payload mode ends in `-TRAILER`, `hdr` = the `x-amz-trailer` header value -/
def withDeclaredTrailer (hashOf : Bytes → Option (Bytes → Bytes)) (hasTrailer : Bool) (hdr : Bytes) (P : Params) : Params :=
  { P with hasTrailer := hasTrailer, trailerName := declaredTrailer hdr,
           cksum := if hasTrailer then hashOf (declaredTrailer hdr) else none }

def emptyHashHex (c : Crypto) : Bytes := c.sha256hex []

/-- `generateStringToSignForChunk` -/
def chunkStringToSign (P : Params) (prev data : Bytes) : Bytes :=
  algV4 ++ b! "-PAYLOAD" ++ [10] ++ P.timestamp ++ [10] ++ P.scope ++ [10] ++ prev ++ [10] ++
    emptyHashHex P.c ++ [10] ++ P.c.sha256hex data

/-- `generateStringToSignForTrailerChunk` -/
def trailerStringToSign (P : Params) (prev trailerLine : Bytes) : Bytes :=
  algV4 ++ b! "-TRAILER" ++ [10] ++ P.timestamp ++ [10] ++ P.scope ++ [10] ++ prev ++ [10] ++
    P.c.sha256hex (trailerLine ++ [10])

def chunkSig (P : Params) (prev data : Bytes) : Bytes := signature P.c P.signKey (chunkStringToSign P prev data)
def trailerSig (P : Params) (prev line : Bytes) : Bytes := signature P.c P.signKey (trailerStringToSign P prev line)

-- ---------------------------------------------------------------- low-level reading

/-- `bufio.Reader.ReadBytes('\n')`: the line including the newline, and the rest; `none` at EOF
before a newline. -/
def readLine : Bytes → Option (Bytes × Bytes)
  | [] => none
  | c :: t =>
    if c == 10 then some ([c], t)
    else match readLine t with
      | none => none
      | some (l, r) => some (c :: l, r)

def isCRLF (c : UInt8) : Bool := c == 13 || c == 10

/-- `bytes.Trim(s, "\r\n")` -/
def trimCRLF (s : Bytes) : Bytes := ((s.dropWhile isCRLF).reverse.dropWhile isCRLF).reverse

def sigSep : Bytes := b! ";chunk-signature="

/-- `bytes.SplitN(s, sep, 2)`: cut at the first occurrence of `sep`. -/
def splitAtSub (sep : Bytes) : Bytes → Option (Bytes × Bytes)
  | [] => if sep.isEmpty then some ([], []) else none
  | c :: t =>
    if hasPrefix sep (c :: t) then some ([], (c :: t).drop sep.length)
    else match splitAtSub sep t with
      | none => none
      | some (a, b) => some (c :: a, b)

/-- `strconv.ParseUint(s, 16, 64)` -/
def parseHex64 (s : Bytes) : Option Nat :=
  if s.isEmpty || !s.all isHexChar then none
  else
    let n := s.foldl (fun n d => n * 16 + hexDigitVal d) 0
    if n < 18446744073709551616 then some n else none

-- ---------------------------------------------------------------- the trailer section

/-- `readTrailerSection`: (checksum line, trailer signature). -/
def readTrailerLoop : Nat → Nat → Bytes → Bytes → Bytes → Bytes × Bytes
  | 0, _, _, ck, sg => (ck, sg)
  | fuel + 1, i, input, ck, sg =>
    let (raw, rest, eof) := match readLine input with
      | some (l, r) => (l, r, false)
      | none => (input, [], true)
    let line := trimSpace raw
    if line.isEmpty then
      if i == 0 && !eof then readTrailerLoop fuel (i + 1) rest ck sg else (ck, sg)
    else
      let (ck', sg') := match cutPrefix (b! "x-amz-trailer-signature:") line with
        | some v => (ck, trimSpace v)
        | none => (if ck.isEmpty then line else ck, sg)
      if eof then (ck', sg') else readTrailerLoop fuel (i + 1) rest ck' sg'

def readTrailerSection (input : Bytes) : Bytes × Bytes := readTrailerLoop 8 0 input [] []

/-- `strings.Cut(s, ":")` -/
def cutColon : Bytes → Option (Bytes × Bytes)
  | [] => none
  | c :: t =>
    if c == 58 then some ([], t)
    else match cutColon t with
      | none => none
      | some (a, b) => some (c :: a, b)

/-- `validateTrailerChecksum` -/
def validateTrailerChecksum (P : Params) (payload checksumLine : Bytes) : Except Err Unit :=
  match P.cksum with
  | none => if hasPrefix (b! "x-amz-checksum-") P.trailerName then .error .malformedTrailer else .ok ()
  | some f =>
    match cutColon checksumLine with
    | none => .error .malformedTrailer
    | some (name, value) =>
      if lower (trimSpace name) != P.trailerName then .error .malformedTrailer
      else if trimSpace value != f payload then .error .badDigest
      else .ok ()

/-- what `Read` does after the zero-length chunk -/
def finish (P : Params) (prev payload rest : Bytes) : Except Err Bytes :=
  if P.hasTrailer then
    let (ck, sg) := readTrailerSection rest
    if P.trailerSigned && sg != trailerSig P prev ck then .error .sigMismatch
    else match validateTrailerChecksum P payload ck with
      | .error e => .error e
      | .ok () => .ok payload
  else .ok payload   -- Discard(2): an EOF here still ends the stream cleanly

-- ---------------------------------------------------------------- the reader

/-- `awsChunkReadCloser.Read`, iterated until EOF or error; the result is everything the
consumer was given. -/
def decodeLoop (P : Params) : Nat → Bytes → Bytes → Bytes → Except Err Bytes
  | 0, _, _, _ => .error .fuel
  | fuel + 1, prev, acc, input =>
    match readLine input with
    | none => .ok acc                      -- ReadBytes: io.EOF → the stream simply ends
    | some (line, rest) =>
      let hdr := trimCRLF line
      let (hexLen, sig?) := match splitAtSub sigSep hdr with
        | some (a, b) => (a, some b)
        | none => (hdr, none)
      if sig?.isNone && !P.skipValidation then .error .sigMismatch
      else match parseHex64 hexLen with
        | none => .error .badLength
        | some n =>
          let sig := sig?.getD []
          if n == 0 then
            if !P.skipValidation && sig != chunkSig P prev [] then .error .sigMismatch
            else finish P (if P.skipValidation then prev else sig) acc rest
          else if n ≥ 9223372036854775808 then .error .hugeChunk
          else if rest.isEmpty then .ok acc  -- io.ReadFull: (0, io.EOF)
          else if rest.length < n then .error .shortBody
          else
            let data := rest.take n
            let rest2 := rest.drop n
            if rest2.length < 2 then .error .unmodelled
            else if !P.skipValidation && sig != chunkSig P prev data then .error .sigMismatch
            else decodeLoop P fuel (if P.skipValidation then prev else sig) (acc ++ data) (rest2.drop 2)

def decode (P : Params) (wire : Bytes) : Except Err Bytes :=
  decodeLoop P (wire.length + 1) P.seed [] wire

-- ---------------------------------------------------------------- frames and the encoder

/-- abstract syntax of an aws-chunked body -/
structure Frame where
  /-- non-empty data chunks with the signature each one carries (ignored when unsigned) -/
  chunks : List (Bytes × Bytes)
  finalSig : Bytes
  /-- `name:value` checksum line (empty = none) -/
  trailerLine : Bytes
  trailerSignature : Bytes
  deriving Repr, DecidableEq

def hexDigitL (n : Nat) : UInt8 := if n < 10 then UInt8.ofNat (48 + n) else UInt8.ofNat (87 + n)

/-- `fmt.Sprintf("%x", n)` -/
def toHexNat (n : Nat) : Bytes :=
  if n < 16 then [hexDigitL n] else toHexNat (n / 16) ++ [hexDigitL (n % 16)]

def crlf : Bytes := [13, 10]

def renderChunk (signed : Bool) (ch : Bytes × Bytes) : Bytes :=
  toHexNat ch.1.length ++ (if signed then sigSep ++ ch.2 else []) ++ crlf ++ ch.1 ++ crlf

/-- the wire form clients send (RFC 7230 trailer part: no blank line before the trailers) -/
def render (signed hasTrailer : Bool) (f : Frame) : Bytes :=
  (f.chunks.flatMap (renderChunk signed)) ++
  [48] ++ (if signed then sigSep ++ f.finalSig else []) ++ crlf ++
  (if hasTrailer then
    (if f.trailerLine.isEmpty then [] else f.trailerLine ++ crlf) ++
    (if signed then b! "x-amz-trailer-signature:" ++ f.trailerSignature ++ crlf else []) ++ crlf
   else crlf)

/-- cut a payload into chunks of the given sizes; what is left forms a last chunk -/
def splitSizes : List Nat → Bytes → List Bytes
  | [], p => if p.isEmpty then [] else [p]
  | n :: ns, p =>
    if n == 0 || p.isEmpty then splitSizes ns p else p.take n :: splitSizes ns (p.drop n)

/-- sign a list of chunks as a chain -/
def signChain (P : Params) : Bytes → List Bytes → List (Bytes × Bytes) × Bytes
  | prev, [] => ([], prev)
  | prev, d :: ds =>
    let s := chunkSig P prev d
    let (rest, last) := signChain P s ds
    ((d, s) :: rest, last)

/-- the `name:value` checksum line a client appends when the mode has a trailer and the declared
algorithm is one the checksum function stands for -/
def checksumLine (P : Params) (payload : Bytes) : Bytes :=
  match P.cksum with
  | some f => if P.hasTrailer then P.trailerName ++ 58 :: f payload else []
  | none => []

/-- the frame a conforming client produces for `payload` -/
def frameOf (P : Params) (payload : Bytes) (sizes : List Nat) : Frame :=
  let datas := splitSizes sizes payload
  if P.skipValidation then
    { chunks := datas.map (·, []), finalSig := [], trailerLine := checksumLine P payload, trailerSignature := [] }
  else
    let (chunks, last) := signChain P P.seed datas
    let fin := chunkSig P last []
    let line := checksumLine P payload
    { chunks := chunks, finalSig := fin, trailerLine := line,
      trailerSignature := if P.hasTrailer && P.trailerSigned then trailerSig P fin line else [] }

def encode (P : Params) (payload : Bytes) (sizes : List Nat) : Bytes :=
  render (!P.skipValidation) P.hasTrailer (frameOf P payload sizes)

-- ---------------------------------------------------------------- validation stated on frames

def checkChunks (P : Params) : Bytes → Bytes → List (Bytes × Bytes) → Except Err (Bytes × Bytes)
  | prev, acc, [] => .ok (prev, acc)
  | prev, acc, (d, s) :: t =>
    if !P.skipValidation && s != chunkSig P prev d then .error .sigMismatch
    else checkChunks P (if P.skipValidation then prev else s) (acc ++ d) t

/-- everything `decode` verifies about a frame -/
def check (P : Params) (f : Frame) : Except Err Bytes :=
  match checkChunks P P.seed [] f.chunks with
  | .error e => .error e
  | .ok (prev, acc) =>
    if !P.skipValidation && f.finalSig != chunkSig P prev [] then .error .sigMismatch
    else
      let prev' := if P.skipValidation then prev else f.finalSig
      if P.hasTrailer then
        if P.trailerSigned && f.trailerSignature != trailerSig P prev' f.trailerLine then .error .sigMismatch
        else match validateTrailerChecksum P acc f.trailerLine with
          | .error e => .error e
          | .ok () => .ok acc
      else .ok acc

-- ---------------------------------------------------------------- server configuration (server.go)

/-- How `SetupServer` treats the body of an upload that declares `Content-Encoding: aws-chunked`.
`authOn`: credentials are configured, so `MakeSignatureMiddleware` is installed and (for an
authenticated request) replaces the body by the verifying decoder. `decoderWhenAuthOff`: without
credentials `MakeAwsChunkedDecodingMiddleware` installs a framing-only decoder — `true` for the
tree since /repo c8f3b44 (fixes/C30-decode-aws-chunked-without-auth.patch); `false` is the tree
before it, which stored the body verbatim. -/
def storedBody (authOn decoderWhenAuthOff : Bool) (P : Params) (wire : Bytes) : Except Err Bytes :=
  if authOn then decode P wire
  else if decoderWhenAuthOff then decode { P with skipValidation := true, trailerSigned := false } wire
  else .ok wire

/-- How a request proves who sent it — the four ways an upload can reach the handlers. -/
inductive Carrier where
  /-- `Authorization: AWS4-HMAC-SHA256 …`; the chunk chain is seeded by its `Signature=` -/
  | header
  /-- presigned URL (`X-Amz-Signature` in the query string, which seeds the chunk chain) -/
  | presigned
  /-- credentials configured on the server, none on the request (anonymous branch) -/
  | anonymous
  /-- no credentials configured on the server -/
  | authOff
  deriving Repr, DecidableEq

/-- the framing-only decoder (`installAwsChunkReader(…, verifySignatures = false)`): no key, so
signatures are ignored; a declared checksum trailer is still validated -/
def framingOnly (P : Params) : Params := { P with skipValidation := true, trailerSigned := false }

/-- The body the upload handler reads, for every carrier. `checkAuthentication` installs the
verifying reader for *both* authenticated carriers (`if isAwsChunked` does not look at
`isPresigned`; `P.seed` is the request's own signature, wherever it travelled);
`unauthDecoder` = the tree has `decodeUnauthenticatedAwsChunkedBody` (since /repo c8f3b44). -/
def handlerBody (unauthDecoder : Bool) (carrier : Carrier) (P : Params) (wire : Bytes) : Except Err Bytes :=
  match carrier with
  | .header | .presigned => decode P wire
  | .anonymous | .authOff => if unauthDecoder then decode (framingOnly P) wire else .ok wire

end Pithos.Chunked
