/-
Shared by the drivers of C28, C29 and C30: parsing the harness' request records, the concrete
`Crypto` instance, the end-to-end prediction "what does the signature middleware + a body-reading
handler answer", and the Lean-side classification of mutations (`changesSignedComponent`).

Record lines of one request (all byte fields hex, "-" = empty):
  req <label> <mode> <now> <signerAK> <payload> <sdk 0|1>
  m <method> / p <escapedPath> / q <key> <value> … / host <host> / h <key> <value>… / body <wire body>
  (or a single line `noview` when net/http answered before any handler ran)
  obs <status> <reached 0|1> <authed 0|1> <accessKey> <bodyErr 0|1> <bodyRead>
  endreq
-/
import Pithos.Util.Proto
import Pithos.Model.Http.Crypto
import Pithos.Model.Http.SigV4
import Pithos.Model.Http.Chunked

namespace Pithos.HttpTrace
open Pithos.Proto Pithos.SigV4 Pithos.Chunked

/-- Which variant of the SigV4 model the drivers compare the implementation with:
`Fix.patched` since /repo e6080ab (fixes/C29-collapse-header-spaces.patch); `Fix.asIs` before. -/
def codeFix : Fix := Fix.patched

def realCrypto : Crypto := { sha256hex := Pithos.Crypto.sha256hex, hmac := Pithos.Crypto.hmacSha256 }

/-- `checksumutils.NewChecksumTrailerHash` + base64 -/
def trailerCksum (name : Bytes) : Option (Bytes → Bytes) :=
  if name == b! "x-amz-checksum-crc32" then some fun p => Pithos.Crypto.base64 (Pithos.Crypto.crc32 p)
  else if name == b! "x-amz-checksum-crc32c" then some fun p => Pithos.Crypto.base64 (Pithos.Crypto.crc32c p)
  else if name == b! "x-amz-checksum-crc64nvme" then some fun p => Pithos.Crypto.base64 (Pithos.Crypto.crc64nvme p)
  else if name == b! "x-amz-checksum-sha1" then some fun p => Pithos.Crypto.base64 (Pithos.Crypto.sha1 p)
  else if name == b! "x-amz-checksum-sha256" then some fun p => Pithos.Crypto.base64 (Pithos.Crypto.sha256 p)
  else none

structure Obs where
  status : Nat
  reached : Bool
  authed : Bool
  accessKey : Bytes
  bodyErr : Bool
  bodyRead : Bytes
  deriving Repr

structure Rec where
  label : String
  mode : String
  now : Int
  signer : Bytes
  payload : Bytes
  sdk : Bool
  view : Option Req
  obs : Obs
  deriving Repr

structure CaseCfg where
  region : Bytes
  creds : List Cred
  deriving Repr

def hx (s : String) : Bytes := (unhex s).getD []

/-- parse the lines of one case into its configuration and request records -/
def parseCase (lines : List String) : Option (CaseCfg × List Rec) := Id.run do
  let mut cfg : CaseCfg := { region := [], creds := [] }
  let mut recs : Array Rec := #[]
  let mut cur : Option Rec := none
  let mut rq : Req := { method := [], path := [], query := [], host := [], headers := [], body := [] }
  let mut hasView := false
  let mut bad := false
  for l in lines do
    match tokens l with
    | "cfg" :: region :: rest =>
      let rec pairs : List String → List Cred
        | a :: s :: t => { accessKey := hx a, secret := hx s } :: pairs t
        | _ => []
      cfg := { region := hx region, creds := pairs rest }
    | ["req", label, mode, now, signer, payload, sdk] =>
      cur := some { label := label, mode := mode, now := now.toInt!, signer := hx signer, payload := hx payload,
                    sdk := sdk == "1", view := none,
                    obs := { status := 0, reached := false, authed := false, accessKey := [], bodyErr := false, bodyRead := [] } }
      rq := { method := [], path := [], query := [], host := [], headers := [], body := [] }
      hasView := false
    | ["noview"] => hasView := false
    | ["m", m] => rq := { rq with method := hx m }; hasView := true
    | ["p", p] => rq := { rq with path := hx p }
    | ["q", k, v] => rq := { rq with query := rq.query ++ [(hx k, hx v)] }
    | ["host", h] => rq := { rq with host := hx h }
    | "h" :: k :: vs => rq := { rq with headers := rq.headers ++ [(hx k, vs.map hx)] }
    | ["body", b] => rq := { rq with body := hx b }
    | ["obs", st, reached, authed, ak, be, br] =>
      match cur with
      | some r =>
        cur := some { r with view := if hasView then some rq else none,
                             obs := { status := st.toNat!, reached := reached == "1", authed := authed == "1",
                                      accessKey := hx ak, bodyErr := be == "1", bodyRead := hx br } }
      | none => bad := true
    | ["endreq"] =>
      match cur with
      | some r => recs := recs.push r; cur := none
      | none => bad := true
    | _ => bad := true
  if bad || cur.isSome then return none
  return some (cfg, recs.toList)

-- ---------------------------------------------------------------- prediction

inductive Pred where
  | anonymous (body : Except Err Bytes)
  | rejected (why : Why)
  | accepted (ak : Bytes) (body : Except Err Bytes)
  deriving Repr

/-- the `Params` `checkAuthentication` hands to `newAwsChunkReadCloser` -/
def chunkParams (c : Crypto) (cfg : Config) (r : Req) (a : Accepted) : Params :=
  let sha := headerGet r contentSHA256Header
  let secret := match cfg.creds.find? (fun k => k.accessKey == a.accessKey) with
    | some k => k.secret
    | none => []
  let date := a.params.timestamp.take 8
  let hasTrailer := sha == streamingUnsignedTrailer || sha == streamingPayloadTrailer || sha == streamingECDSATrailer
  let name := declaredTrailer (headerGet r (b! "x-amz-trailer"))
  { c := c, cksum := if hasTrailer then trailerCksum name else none,
    signKey := signingKey c secret date cfg.region (b! "s3") (b! "aws4_request"),
    timestamp := a.params.timestamp, scope := a.scope, seed := a.params.signature,
    hasTrailer := hasTrailer,
    trailerSigned := sha == streamingPayloadTrailer || sha == streamingECDSATrailer,
    skipValidation := sha == streamingUnsignedTrailer || sha == streamingUnsigned,
    trailerName := name }

/-- Does the tree remove the aws-chunked framing of requests that do not pass signature
verification (`decodeUnauthenticatedAwsChunkedBody`: the anonymous branch of
`MakeSignatureMiddleware`, and `MakeAwsChunkedDecodingMiddleware` when no credentials are
configured)? `true` since /repo c8f3b44 (fixes/C30-decode-aws-chunked-without-auth.patch);
`false` mirrors the tree before it (body handed on verbatim). -/
def unauthDecoder : Bool := true

/-- `installAwsChunkReader(…, verifySignatures = false)`: framing only — no key, so chunk and
trailer signatures are ignored; a declared checksum trailer is still validated. -/
def framingOnlyParams (c : Crypto) (r : Req) : Params :=
  let sha := headerGet r contentSHA256Header
  let hasTrailer := sha == streamingUnsignedTrailer || sha == streamingPayloadTrailer || sha == streamingECDSATrailer
  let name := declaredTrailer (headerGet r (b! "x-amz-trailer"))
  { c := c, cksum := if hasTrailer then trailerCksum name else none, signKey := [], timestamp := [],
    scope := [], seed := [], hasTrailer := hasTrailer, trailerSigned := false, skipValidation := true,
    trailerName := name }

/-- the body a handler reads when the request did not pass signature verification -/
def unauthBody (c : Crypto) (r : Req) : Except Err Bytes :=
  if unauthDecoder && hasAwsChunked (headerGet r (b! "Content-Encoding")) then
    decode (framingOnlyParams c r) r.body
  else .ok r.body

/-- `MakeSignatureMiddleware` in front of a handler that reads the whole body -/
def predict (c : Crypto) (fx : Fix) (cfg : Config) (r : Req) : Pred :=
  if isAnonymous r then .anonymous (unauthBody c r)
  else match checkAuth c fx cfg r with
    | .error w => .rejected w
    | .ok a =>
      if hasAwsChunked (headerGet r (b! "Content-Encoding")) then
        .accepted a.accessKey (decode (chunkParams c cfg r a) r.body)
      else .accepted a.accessKey (.ok r.body)

def Pred.describe : Pred → String
  | .anonymous (.ok _) => "anonymous"
  | .anonymous (.error e) => s!"anonymous-body-error({repr e})"
  | .rejected w => s!"rejected({repr w})"
  | .accepted _ (.ok _) => "accepted"
  | .accepted _ (.error e) => s!"accepted-body-error({repr e})"

/-- compare a prediction with what the harness observed; `none` = agree -/
def Pred.mismatch (p : Pred) (o : Obs) : Option String :=
  match p with
  | .anonymous (.ok body) =>
    if o.status == 200 && o.reached && !o.authed && !o.bodyErr && o.bodyRead == body then none
    else some s!"model=anonymous impl=status{o.status},authed={o.authed},bodyErr={o.bodyErr},bodyEq={o.bodyRead == body}"
  | .anonymous (.error e) =>
    if o.reached && !o.authed && o.bodyErr then none
    else some s!"model=anonymous-body-error({repr e}) impl=status{o.status},reached={o.reached},bodyErr={o.bodyErr}"
  | .rejected w =>
    if o.status == 401 && !o.reached then none
    else some s!"model=rejected({repr w}) impl=status{o.status},reached={o.reached}"
  | .accepted ak (.ok body) =>
    if o.status == 200 && o.reached && o.authed && o.accessKey == ak && !o.bodyErr && o.bodyRead == body then none
    else some s!"model=accepted impl=status{o.status},reached={o.reached},authed={o.authed},bodyErr={o.bodyErr},bodyEq={o.bodyRead == body}"
  | .accepted ak (.error e) =>
    if o.reached && o.authed && o.accessKey == ak && o.bodyErr then none
    else some s!"model=accepted-body-error({repr e}) impl=status{o.status},reached={o.reached},bodyErr={o.bodyErr}"

/-- "accepted as access key `ak`": reached the handler, authenticated as `ak`, complete body. -/
def Obs.acceptedAs (o : Obs) (ak : Bytes) : Bool :=
  o.status == 200 && o.reached && o.authed && o.accessKey == ak && !o.bodyErr

-- ---------------------------------------------------------------- what a key's signature covers (C28)

/-- SigV4's canonical form of a header value: trimmed, sequential spaces collapsed -/
def specValue (vs : List Bytes) : Bytes := collapse (trimSpace (join [44] vs))

/-- The components C28 lists, read off a received request: method, canonical (decoded) path,
query parameters (as a sorted multiset, the signature parameter itself excluded), every signed
header and every `x-amz-*` / `Content-MD5` header with its value, the payload (unless an unsigned
payload was declared), credential (access key + scope), timestamp, validity, and the signature. -/
structure SignedView where
  method : Bytes
  path : Bytes
  query : List (Bytes × Bytes)
  host : Bytes
  headers : List (Bytes × Bytes)
  payload : Option (Bytes × Bytes)
  alg : Bytes
  credential : Bytes
  timestamp : Bytes
  expires : Nat
  signature : Bytes
  presigned : Bool
  deriving Repr, DecidableEq

def unsignedPayloadDeclared (r : Req) (presigned : Bool) : Bool :=
  presigned ||
    (let h := headerGet r contentSHA256Header
     h == unsignedPayload || h == streamingUnsigned || h == streamingUnsignedTrailer)

def signedView (r : Req) : Option SignedView :=
  match parseSigParams r with
  | .error _ => none
  | .ok p =>
    let signed := parseSignedHeaders p.signedHeaders
    let hs := r.headers.filterMap fun h =>
      let k := lower h.1
      if signed.contains k || mustBeSigned k then some (k, specValue h.2) else none
    some { method := r.method, path := pctDecode r.path,
           query := sortBy pairLe (r.query.filter (fun q => q.1 != amzSignatureKey)),
           host := if signed.contains hostKey then collapse (trimSpace r.host) else [],
           headers := sortBy (fun a b => pairLe a b) hs,
           payload := if unsignedPayloadDeclared r p.presigned then none
                      else some (headerGet r contentSHA256Header, r.body),
           alg := p.alg, credential := p.credential, timestamp := p.timestamp, expires := p.expires,
           signature := p.signature, presigned := p.presigned }

/-- Does the mutant differ from the signed original in a component the property lists (or in the
credential/signature material itself)? A mutant whose credentials cannot even be parsed counts
as changed. -/
def changesSignedComponent (base mutant : Req) : Bool :=
  match signedView base, signedView mutant with
  | some a, some b => a != b
  | _, _ => true

/-- Outside the validity window the property speaks of: more than 15 minutes in the future, or
older than the declared validity (presigned: `X-Amz-Expires`; header-signed: 15 minutes), with a
one-minute margin so that the judge never depends on the second the request was handled. -/
def outsideWindow (now : Int) (r : Req) : Bool :=
  match parseSigParams r with
  | .error _ => false
  | .ok p =>
    match parseTimestamp p.timestamp with
    | none => false
    | some t =>
      let validity : Int := if p.presigned then p.expires else 900
      now < t - 900 - 60 || now > t + validity + 60

end Pithos.HttpTrace
