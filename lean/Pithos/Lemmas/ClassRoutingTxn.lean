/-
The acquire phase of a transaction of the routing model: every step (`putPart`, `tryShare`,
`tryIndex`, `copyPart`, `tryAddRefs`, the loops `copyParts` / `moveParts`) keeps the
mid-transaction summary `Txn`, from which `commit_inv` re-establishes the invariant.
-/
import Pithos.Lemmas.ClassRouting

namespace Pithos.ClassRouting

theorem set2_same (f : SName → Nat → Option Nat) (st : SName) (p : Nat) (v : Option Nat) :
    set2 f st p v st p = v := by simp [set2]

theorem set2_other_pid (f : SName → Nat → Option Nat) (st st' : SName) (p p' : Nat) (v : Option Nat)
    (h : p' ≠ p) : set2 f st p v st' p' = f st' p' := by simp [set2, h]

theorem prePids_append (a b : List NewPart) : prePids (a ++ b) = prePids a ++ prePids b := by
  simp [prePids]

theorem prePids_single_true (r : PartRow) : prePids [⟨r, true⟩] = [r.pid] := rfl

theorem freshPids_append (a b : List NewPart) : freshPids (a ++ b) = freshPids a ++ freshPids b := by
  simp [freshPids]

/-- Summary of the running transaction: `acq` references taken, `pend` references of kept parts
still to be taken by the closing `TryAddPartReferences`, `news` the parts obtained. -/
structure Txn (s0 s : State) (acq pend : List Nat) (news : List NewPart) : Prop where
  mid : Mid s0 s acq
  ok : NewsOk s0 s news
  bal : ∀ p, acq.count p + pend.count p = (prePids news).count p

theorem Txn.start {s0 : State} (h : Inv s0) : Txn s0 s0 [] [] [] :=
  { mid := Mid.start h, ok := NewsOk.nil s0 s0, bal := by simp [prePids] }

theorem Txn.news_lt {s0 s : State} {acq pend : List Nat} {news : List NewPart}
    (h : Txn s0 s acq pend news) : ∀ n ∈ news, n.row.pid < s.next := by
  intro n hn
  by_cases hlt : n.row.pid < s.next
  · exact hlt
  · have := h.mid.physNew n.row.store n.row.pid (by omega)
    rw [(h.ok.held n hn).2] at this
    cases this

/-- A step that leaves the already obtained parts alone. -/
theorem Txn.move {s0 s s1 : State} {acq acq1 pend pend1 : List Nat} {news : List NewPart}
    (h : Txn s0 s acq pend news) (hmid : Mid s0 s1 acq1)
    (hphys : ∀ st p, p < s.next → s1.phys st p = s.phys st p) (hle : s.next ≤ s1.next)
    (hbal : ∀ p, acq1.count p + pend1.count p = (prePids news).count p) :
    Txn s0 s1 acq1 pend1 news := by
  refine { mid := hmid, ok := ?_, bal := hbal }
  refine { held := ?_, freshNodup := h.ok.freshNodup, freshNew := ?_ }
  · intro n hn
    have := h.ok.held n hn
    exact ⟨this.1, by rw [hphys _ _ (h.news_lt n hn)]; exact this.2⟩
  · intro p hp
    have := h.ok.freshNew p hp
    exact ⟨this.1, by omega⟩

/-- A step that also yields one more part. -/
theorem Txn.extend {s0 s s1 : State} {acq acq1 pend pend1 : List Nat} {news : List NewPart} {np : NewPart}
    (h : Txn s0 s acq pend news) (hmid : Mid s0 s1 acq1)
    (hphys : ∀ st p, p < s.next → s1.phys st p = s.phys st p) (hle : s.next ≤ s1.next)
    (hst : np.row.store ∈ s0.stores) (hheld : s1.phys np.row.store np.row.pid = some np.row.content)
    (hfresh : np.pre = false → s.next ≤ np.row.pid ∧ np.row.pid < s1.next)
    (hbal : ∀ p, acq1.count p + pend1.count p = (prePids (news ++ [np])).count p) :
    Txn s0 s1 acq1 pend1 (news ++ [np]) := by
  have hlt := h.news_lt
  refine { mid := hmid, ok := ?_, bal := hbal }
  refine { held := ?_, freshNodup := ?_, freshNew := ?_ }
  · intro n hn
    rcases List.mem_append.mp hn with hn | hn
    · have := h.ok.held n hn
      exact ⟨this.1, by rw [hphys _ _ (hlt n hn)]; exact this.2⟩
    · rw [List.mem_singleton] at hn
      subst hn
      exact ⟨hst, hheld⟩
  · rw [freshPids_append, List.nodup_append]
    refine ⟨h.ok.freshNodup, ?_, ?_⟩
    · cases hp : np.pre <;> simp [freshPids, hp]
    · intro a ha b hb
      cases hp : np.pre
      · have hb' : b = np.row.pid := by simpa [freshPids, hp] using hb
        have := (h.ok.freshNew a ha).2
        have := (hfresh hp).1
        omega
      · simp [freshPids, hp] at hb
  · intro p hp
    rw [freshPids_append, List.mem_append] at hp
    rcases hp with hp | hp
    · have := h.ok.freshNew p hp
      exact ⟨this.1, by omega⟩
    · cases hpre : np.pre
      · have hb' : p = np.row.pid := by simpa [freshPids, hpre] using hp
        have := hfresh hpre
        have := h.mid.next_le
        omega
      · simp [freshPids, hpre] at hp

-- ---------------------------------------------------------------- state transformations inside a transaction

/-- `NewRandomPartId` + `PutPart`. -/
theorem Mid.putLike {s0 s : State} {acq : List Nat} (h : Mid s0 s acq) (st : SName) (c : Option Nat) :
    Mid s0 { s with phys := set2 s.phys st s.next c, next := s.next + 1 } acq := by
  refine { ents := h.ents, cmap := h.cmap, stores := h.stores, reg := h.reg, acqLive := h.acqLive,
           physOld := ?_, physNew := ?_, next_le := ?_, idxOk := ?_ }
  · intro st' p hp
    have := h.next_le
    show set2 s.phys st s.next c st' p = _
    rw [set2_other_pid _ _ _ _ _ _ (by omega)]
    exact h.physOld st' p hp
  · intro st' p hp
    show set2 s.phys st s.next c st' p = _
    have hp' : s.next + 1 ≤ p := hp
    rw [set2_other_pid _ _ _ _ _ _ (by omega)]
    exact h.physNew st' p (by omega)
  · show s0.next ≤ s.next + 1
    have := h.next_le
    omega
  · intro st' c' p hp
    have hp' : s.idx st' c' = some p := hp
    have := h.idxOk st' c' p hp'
    show set2 s.phys st s.next c st' p = _
    have hlt : p < s.next := by
      by_cases hlt : p < s.next
      · exact hlt
      · have hn := h.physNew st' p (by omega)
        rw [this] at hn
        cases hn
    rw [set2_other_pid _ _ _ _ _ _ (by omega)]
    exact this

theorem Mid.bump {s0 s : State} {acq : List Nat} (h : Mid s0 s acq) {q : Nat} (hq : 0 < s.reg q) :
    Mid s0 { s with reg := fun p => if p = q then s.reg p + 1 else s.reg p } (acq ++ [q]) := by
  refine { ents := h.ents, cmap := h.cmap, stores := h.stores, reg := ?_, acqLive := ?_,
           physOld := h.physOld, physNew := h.physNew, next_le := h.next_le, idxOk := h.idxOk }
  · intro p
    show (if p = q then s.reg p + 1 else s.reg p) = _
    rw [List.count_append, h.reg p]
    by_cases hp : p = q
    · subst hp; simp; omega
    · have : ¬ q = p := fun e => hp e.symm
      simp [hp, this]
  · intro p hp
    rcases List.mem_append.mp hp with hp | hp
    · exact h.acqLive p hp
    · rw [List.mem_singleton] at hp
      subst hp
      by_cases hc : p ∈ acq
      · exact h.acqLive p hc
      · have := h.reg p
        rw [List.count_eq_zero_of_not_mem hc] at this
        omega

theorem Mid.dropIdx {s0 s : State} {acq : List Nat} (h : Mid s0 s acq) (q : Nat) :
    Mid s0 (dropIdx s q) acq := by
  refine { ents := h.ents, cmap := h.cmap, stores := h.stores, reg := h.reg, acqLive := h.acqLive,
           physOld := h.physOld, physNew := h.physNew, next_le := h.next_le, idxOk := ?_ }
  intro st c p hp
  have hp' : (if s.idx st c = some q then none else s.idx st c) = some p := hp
  split at hp'
  · cases hp'
  · exact h.idxOk st c p hp'

theorem Mid.tryIndex {s0 s : State} {acq : List Nat} (h : Mid s0 s acq) {st : SName} {c p : Nat}
    (hp : s.phys st p = some c) : Mid s0 (tryIndex s st c p) acq := by
  refine { ents := h.ents, cmap := h.cmap, stores := h.stores, reg := h.reg, acqLive := h.acqLive,
           physOld := h.physOld, physNew := h.physNew, next_le := h.next_le, idxOk := ?_ }
  intro st' c' p' hp'
  have hp2 : (if st' = st ∧ c' = c then (match s.idx st c with | some q => some q | none => some p)
      else s.idx st' c') = some p' := hp'
  show s.phys st' p' = some c'
  split at hp2
  · rename_i heq
    obtain ⟨h1, h2⟩ := heq
    subst h1 h2
    cases hi : s.idx st' c' with
    | none => rw [hi] at hp2; cases hp2; exact hp
    | some q => rw [hi] at hp2; cases hp2; exact h.idxOk st' c' _ hi
  · exact h.idxOk st' c' p' hp2

/-- Deleting a part written in this transaction that nothing refers to. -/
theorem Mid.delFresh {s0 s : State} {acq : List Nat} (h : Mid s0 s acq) {st : SName} {p : Nat}
    (hp : s0.next ≤ p) (hidx : ∀ st' c', s.idx st' c' ≠ some p) :
    Mid s0 { s with phys := set2 s.phys st p none } acq := by
  refine { ents := h.ents, cmap := h.cmap, stores := h.stores, reg := h.reg, acqLive := h.acqLive,
           physOld := ?_, physNew := ?_, next_le := h.next_le, idxOk := ?_ }
  · intro st' p' hp'
    show set2 s.phys st p none st' p' = _
    rw [set2_other_pid _ _ _ _ _ _ (by omega)]
    exact h.physOld st' p' hp'
  · intro st' p' hp'
    show set2 s.phys st p none st' p' = none
    unfold set2
    split
    · rfl
    · exact h.physNew st' p' hp'
  · intro st' c' p' hp'
    have hp2 : s.idx st' c' = some p' := hp'
    have hne : p' ≠ p := fun e => hidx st' c' (e ▸ hp2)
    show set2 s.phys st p none st' p' = _
    rw [set2_other_pid _ _ _ _ _ _ hne]
    exact h.idxOk st' c' p' hp2

theorem Mid.addRefs {s0 s s1 : State} {acq ids : List Nat} (h : Mid s0 s acq)
    (ha : tryAddRefs s ids = some s1) : Mid s0 s1 (acq ++ ids) ∧ s1.phys = s.phys ∧ s1.next = s.next := by
  unfold tryAddRefs at ha
  split at ha
  · rename_i hall
    cases ha
    refine ⟨?_, rfl, rfl⟩
    refine { ents := h.ents, cmap := h.cmap, stores := h.stores, reg := ?_, acqLive := ?_,
             physOld := h.physOld, physNew := h.physNew, next_le := h.next_le, idxOk := h.idxOk }
    · intro p
      show s.reg p + ids.count p = _
      rw [List.count_append, h.reg p]
      omega
    · intro p hp
      rcases List.mem_append.mp hp with hp | hp
      · exact h.acqLive p hp
      · rw [List.all_eq_true] at hall
        have hpos : 0 < s.reg p := by simpa using hall p hp
        by_cases hc : p ∈ acq
        · exact h.acqLive p hc
        · have := h.reg p
          rw [List.count_eq_zero_of_not_mem hc] at this
          omega
  · cases ha

-- ---------------------------------------------------------------- tryShare / writeFresh / copyPart

theorem tryShare_cases (s : State) (st : SName) (c : Nat) :
    (s.idx st c = none ∧ tryShare s st c = (s, none)) ∨
    (∃ q, s.idx st c = some q ∧ 0 < s.reg q ∧
      tryShare s st c = ({ s with reg := fun p => if p = q then s.reg p + 1 else s.reg p }, some q)) ∨
    (∃ q, s.idx st c = some q ∧ ¬ 0 < s.reg q ∧ tryShare s st c = (dropIdx s q, none)) := by
  unfold tryShare
  cases h : s.idx st c with
  | none => left; simp
  | some q =>
    right
    by_cases hq : 0 < s.reg q
    · left; exact ⟨q, rfl, hq, by simp [hq]⟩
    · right; exact ⟨q, rfl, hq, by simp [hq]⟩

theorem dropIdx_idx_none {s : State} {st : SName} {c q : Nat} (h : s.idx st c = some q) :
    (dropIdx s q).idx st c = none := by
  show (if s.idx st c = some q then none else s.idx st c) = none
  rw [if_pos h]

theorem writeFresh_txn {s0 s : State} {acq pend : List Nat} {news : List NewPart}
    (h : Txn s0 s acq pend news) {st : SName} (hst : st ∈ s0.stores) (c seq : Nat) :
    (∃ acq', Txn s0 (writeFresh s st c seq).1 acq' pend (news ++ [(writeFresh s st c seq).2])) ∧
    (writeFresh s st c seq).2.row.store = st ∧ (writeFresh s st c seq).2.row.content = c ∧
    (writeFresh s st c seq).2.row.seq = seq := by
  -- after PutPart
  let s1 : State := { s with phys := set2 s.phys st s.next (some c), next := s.next + 1 }
  have hm1 : Mid s0 s1 acq := h.mid.putLike st (some c)
  have hphys1 : ∀ st' p, p < s.next → s1.phys st' p = s.phys st' p := by
    intro st' p hp
    show set2 s.phys st s.next (some c) st' p = _
    rw [set2_other_pid _ _ _ _ _ _ (by omega)]
  have hheld1 : s1.phys st s.next = some c := set2_same _ _ _ _
  have hnoidx : ∀ st' c', s.idx st' c' ≠ some s.next := by
    intro st' c' hi
    have := h.mid.idxOk st' c' _ hi
    rw [h.mid.physNew st' s.next (Nat.le_refl _)] at this
    cases this
  have hw : writeFresh s st c seq = dedupeFresh s1 st c s.next seq := rfl
  rw [hw]
  unfold dedupeFresh
  rcases tryShare_cases s1 st c with ⟨hi, hts⟩ | ⟨q, hi, hq, hts⟩ | ⟨q, hi, hq, hts⟩
  · -- no index entry: the fresh part is indexed and kept
    rw [hts]
    refine ⟨⟨acq, ?_⟩, rfl, rfl, rfl⟩
    have hm2 : Mid s0 (tryIndex s1 st c s.next) acq := hm1.tryIndex hheld1
    exact h.extend hm2 hphys1 (Nat.le_succ _) hst hheld1 (fun _ => ⟨Nat.le_refl _, Nat.lt_succ_self _⟩)
      (by intro p; rw [prePids_append]; simp [prePids]; exact h.bal p)
  · -- a live indexed part: share it, delete the fresh bytes
    rw [hts]
    refine ⟨⟨acq ++ [q], ?_⟩, rfl, rfl, rfl⟩
    have hm2 := hm1.bump hq
    have hm3 := hm2.delFresh (st := st) (p := s.next) h.mid.next_le (by
      intro st' c' hi'
      exact hnoidx st' c' hi')
    have hqphys : s1.phys st q = some c := hm1.idxOk st c q hi
    have hqlt : q ≠ s.next := by
      intro e
      exact hnoidx st c (e ▸ hi)
    refine h.extend hm3 ?_ (Nat.le_succ _) hst ?_ (fun hp => by cases hp) ?_
    · intro st' p hp
      show set2 s1.phys st s.next none st' p = _
      rw [set2_other_pid _ _ _ _ _ _ (by omega)]
      exact hphys1 st' p hp
    · show set2 s1.phys st s.next none st q = some c
      rw [set2_other_pid _ _ _ _ _ _ hqlt]
      exact hqphys
    · intro p
      rw [prePids_append, prePids_single_true, List.count_append, List.count_append]
      have := h.bal p
      simp only []
      omega
  · -- a stale index entry: dropped, the fresh part is indexed in its place
    rw [hts]
    refine ⟨⟨acq, ?_⟩, rfl, rfl, rfl⟩
    have hm2 : Mid s0 (dropIdx s1 q) acq := hm1.dropIdx q
    have hm3 : Mid s0 (tryIndex (dropIdx s1 q) st c s.next) acq := hm2.tryIndex hheld1
    exact h.extend hm3 hphys1 (Nat.le_succ _) hst hheld1 (fun _ => ⟨Nat.le_refl _, Nat.lt_succ_self _⟩)
      (by intro p; rw [prePids_append]; simp [prePids]; exact h.bal p)

theorem copyPart_txn {s0 s s1 : State} {acq pend : List Nat} {news : List NewPart} (h0 : Inv s0)
    (h : Txn s0 s acq pend news) {r : PartRow} (hr : r ∈ rows s0) {dst : SName} (hdst : dst ∈ s0.stores)
    {p i : Nat} (hc : copyPart s r.store r.pid dst = some (s1, p)) :
    Txn s0 s1 acq pend (news ++ [⟨⟨p, dst, r.content, i⟩, false⟩]) ∧ s1.phys dst p = some r.content ∧
      p = s.next := by
  unfold copyPart at hc
  split at hc
  · have hsrc : s.phys r.store r.pid = some r.content := by
      rw [h.mid.physOld _ _ (h0.pid_lt hr)]
      exact (h0.held r hr).2
    rw [hsrc] at hc
    simp only [Option.some.injEq, Prod.mk.injEq] at hc
    obtain ⟨hs1, hp⟩ := hc
    subst hs1 hp
    have hm1 := h.mid.putLike dst (some r.content)
    have hheld : set2 s.phys dst s.next (some r.content) dst s.next = some r.content := set2_same _ _ _ _
    refine ⟨?_, hheld, rfl⟩
    refine h.extend hm1 ?_ (Nat.le_succ _) hdst hheld (fun _ => ⟨Nat.le_refl _, Nat.lt_succ_self _⟩) ?_
    · intro st' p hp
      show set2 s.phys dst s.next (some r.content) st' p = _
      rw [set2_other_pid _ _ _ _ _ _ (by omega)]
    · intro p; rw [prePids_append]; simp [prePids]; exact h.bal p
  · cases hc

/-- A part that stays where it is: recorded as pre-acquired, its reference is taken at the end. -/
theorem keep_txn {s0 s : State} {acq pend : List Nat} {news : List NewPart} (h0 : Inv s0)
    (h : Txn s0 s acq pend news) {r : PartRow} (hr : r ∈ rows s0) (i : Nat) :
    Txn s0 s acq (pend ++ [r.pid]) (news ++ [⟨{ r with seq := i }, true⟩]) := by
  have hh := h0.held r hr
  refine h.extend h.mid (fun _ _ _ => rfl) (Nat.le_refl _) hh.1 ?_ (fun hp => by cases hp) ?_
  · show s.phys r.store r.pid = some r.content
    rw [h.mid.physOld _ _ (h0.pid_lt hr)]
    exact hh.2
  · intro p
    rw [prePids_append, prePids_single_true, List.count_append, List.count_append]
    have := h.bal p
    simp only []
    omega

theorem sharedIds_cons_eq (dst : SName) (r : PartRow) (rs : List PartRow) (h : r.store = dst) :
    sharedIds dst (r :: rs) = r.pid :: sharedIds dst rs := by
  simp [sharedIds, h]

theorem sharedIds_cons_ne (dst : SName) (r : PartRow) (rs : List PartRow) (h : ¬ r.store = dst) :
    sharedIds dst (r :: rs) = sharedIds dst rs := by
  simp [sharedIds, h]

/-- TransitionObjectStorageClass's loop. -/
theorem moveParts_txn {s0 : State} (h0 : Inv s0) {dst : SName} (hdst : dst ∈ s0.stores) :
    ∀ (ps : List PartRow) (s : State) (acq pend : List Nat) (news : List NewPart) (i : Nat)
      (s' : State) (ns : List NewPart),
      (∀ r ∈ ps, r ∈ rows s0) → Txn s0 s acq pend news → moveParts dst s ps i = some (s', ns) →
      Txn s0 s' acq (pend ++ sharedIds dst ps) (news ++ ns) := by
  intro ps
  induction ps with
  | nil =>
    intro s acq pend news i s' ns _ h hm
    simp only [moveParts, Option.some.injEq, Prod.mk.injEq] at hm
    obtain ⟨h1, h2⟩ := hm
    subst h1 h2
    simpa [sharedIds] using h
  | cons r rs ih =>
    intro s acq pend news i s' ns hps h hm
    have hr : r ∈ rows s0 := hps r List.mem_cons_self
    have hrs : ∀ x ∈ rs, x ∈ rows s0 := fun x hx => hps x (List.mem_cons_of_mem _ hx)
    unfold moveParts at hm
    split at hm
    · rename_i hst
      cases hrec : moveParts dst s rs (i + 1) with
      | none => rw [hrec] at hm; cases hm
      | some res =>
        obtain ⟨s2, ns2⟩ := res
        rw [hrec] at hm
        simp only [Option.some.injEq, Prod.mk.injEq] at hm
        obtain ⟨h1, h2⟩ := hm
        subst h1 h2
        have hk := keep_txn h0 h hr i
        have := ih s acq (pend ++ [r.pid]) (news ++ [⟨{ r with seq := i }, true⟩]) (i + 1) s2 ns2 hrs hk hrec
        rw [sharedIds_cons_eq dst r rs hst]
        simpa [List.append_assoc] using this
    · rename_i hst
      cases hcp : copyPart s r.store r.pid dst with
      | none => rw [hcp] at hm; cases hm
      | some res1 =>
        obtain ⟨s1, p⟩ := res1
        rw [hcp] at hm
        simp only [] at hm
        cases hrec : moveParts dst s1 rs (i + 1) with
        | none => rw [hrec] at hm; cases hm
        | some res =>
          obtain ⟨s2, ns2⟩ := res
          rw [hrec] at hm
          simp only [Option.some.injEq, Prod.mk.injEq] at hm
          obtain ⟨h1, h2⟩ := hm
          subst h1 h2
          have hk := (copyPart_txn h0 h hr hdst (i := i) hcp).1
          have := ih s1 acq pend (news ++ [⟨⟨p, dst, r.content, i⟩, false⟩]) (i + 1) s2 ns2 hrs hk hrec
          rw [sharedIds_cons_ne dst r rs hst]
          simpa [List.append_assoc] using this

/-- CopyObject's loop. -/
theorem copyParts_txn {s0 : State} (h0 : Inv s0) {dst : SName} (hdst : dst ∈ s0.stores) :
    ∀ (ps : List PartRow) (s : State) (acq pend : List Nat) (news : List NewPart) (i : Nat)
      (s' : State) (ns : List NewPart),
      (∀ r ∈ ps, r ∈ rows s0) → Txn s0 s acq pend news → copyParts dst s ps i = some (s', ns) →
      ∃ acq', Txn s0 s' acq' (pend ++ sharedIds dst ps) (news ++ ns) := by
  intro ps
  induction ps with
  | nil =>
    intro s acq pend news i s' ns _ h hm
    simp only [copyParts, Option.some.injEq, Prod.mk.injEq] at hm
    obtain ⟨h1, h2⟩ := hm
    subst h1 h2
    exact ⟨acq, by simpa [sharedIds] using h⟩
  | cons r rs ih =>
    intro s acq pend news i s' ns hps h hm
    have hr : r ∈ rows s0 := hps r List.mem_cons_self
    have hrs : ∀ x ∈ rs, x ∈ rows s0 := fun x hx => hps x (List.mem_cons_of_mem _ hx)
    unfold copyParts at hm
    split at hm
    · rename_i hst
      cases hrec : copyParts dst s rs (i + 1) with
      | none => rw [hrec] at hm; cases hm
      | some res =>
        obtain ⟨s2, ns2⟩ := res
        rw [hrec] at hm
        simp only [Option.some.injEq, Prod.mk.injEq] at hm
        obtain ⟨h1, h2⟩ := hm
        subst h1 h2
        have hk := keep_txn h0 h hr i
        obtain ⟨acq', this⟩ := ih s acq (pend ++ [r.pid]) (news ++ [⟨{ r with seq := i }, true⟩]) (i + 1) s2 ns2 hrs hk hrec
        rw [sharedIds_cons_eq dst r rs hst]
        exact ⟨acq', by simpa [List.append_assoc] using this⟩
    · rename_i hst
      rw [sharedIds_cons_ne dst r rs hst]
      rcases tryShare_cases s dst r.content with ⟨hi, hts⟩ | ⟨q, hi, hq, hts⟩ | ⟨q, hi, hq, hts⟩
      · -- nothing indexed: copy the bytes and index the copy
        rw [hts] at hm
        simp only [] at hm
        cases hcp : copyPart s r.store r.pid dst with
        | none => rw [hcp] at hm; cases hm
        | some res1 =>
          obtain ⟨s1, p⟩ := res1
          rw [hcp] at hm
          simp only [] at hm
          cases hrec : copyParts dst (tryIndex s1 dst r.content p) rs (i + 1) with
          | none => rw [hrec] at hm; cases hm
          | some res =>
            obtain ⟨s2, ns2⟩ := res
            rw [hrec] at hm
            simp only [Option.some.injEq, Prod.mk.injEq] at hm
            obtain ⟨h1, h2⟩ := hm
            subst h1 h2
            obtain ⟨hk, hheld, _⟩ := copyPart_txn h0 h hr hdst (i := i) hcp
            have hk2 : Txn s0 (tryIndex s1 dst r.content p) acq pend (news ++ [⟨⟨p, dst, r.content, i⟩, false⟩]) :=
              hk.move (hk.mid.tryIndex hheld) (fun _ _ _ => rfl) (Nat.le_refl _) hk.bal
            obtain ⟨acq', this⟩ := ih _ acq pend _ (i + 1) s2 ns2 hrs hk2 hrec
            exact ⟨acq', by simpa [List.append_assoc] using this⟩
      · -- a live indexed part of the destination store with this content: share it
        rw [hts] at hm
        simp only [] at hm
        cases hrec : copyParts dst { s with reg := fun p => if p = q then s.reg p + 1 else s.reg p } rs (i + 1) with
        | none => rw [hrec] at hm; cases hm
        | some res =>
          obtain ⟨s2, ns2⟩ := res
          rw [hrec] at hm
          simp only [Option.some.injEq, Prod.mk.injEq] at hm
          obtain ⟨h1, h2⟩ := hm
          subst h1 h2
          have hk : Txn s0 { s with reg := fun p => if p = q then s.reg p + 1 else s.reg p } (acq ++ [q]) pend
              (news ++ [⟨⟨q, dst, r.content, i⟩, true⟩]) := by
            refine h.extend (h.mid.bump hq) (fun _ _ _ => rfl) (Nat.le_refl _) hdst ?_ (fun hp => by cases hp) ?_
            · exact h.mid.idxOk dst r.content q hi
            · intro p
              rw [prePids_append, prePids_single_true, List.count_append, List.count_append]
              have := h.bal p
              simp only []
              omega
          obtain ⟨acq', this⟩ := ih _ (acq ++ [q]) pend _ (i + 1) s2 ns2 hrs hk hrec
          exact ⟨acq', by simpa [List.append_assoc] using this⟩
      · -- a stale entry: dropped, then as in the first case
        rw [hts] at hm
        simp only [] at hm
        have h' : Txn s0 (dropIdx s q) acq pend news :=
          h.move (h.mid.dropIdx q) (fun _ _ _ => rfl) (Nat.le_refl _) h.bal
        cases hcp : copyPart (dropIdx s q) r.store r.pid dst with
        | none => rw [hcp] at hm; cases hm
        | some res1 =>
          obtain ⟨s1, p⟩ := res1
          rw [hcp] at hm
          simp only [] at hm
          cases hrec : copyParts dst (tryIndex s1 dst r.content p) rs (i + 1) with
          | none => rw [hrec] at hm; cases hm
          | some res =>
            obtain ⟨s2, ns2⟩ := res
            rw [hrec] at hm
            simp only [Option.some.injEq, Prod.mk.injEq] at hm
            obtain ⟨h1, h2⟩ := hm
            subst h1 h2
            obtain ⟨hk, hheld, _⟩ := copyPart_txn h0 h' hr hdst (i := i) hcp
            have hk2 : Txn s0 (tryIndex s1 dst r.content p) acq pend (news ++ [⟨⟨p, dst, r.content, i⟩, false⟩]) :=
              hk.move (hk.mid.tryIndex hheld) (fun _ _ _ => rfl) (Nat.le_refl _) hk.bal
            obtain ⟨acq', this⟩ := ih _ acq pend _ (i + 1) s2 ns2 hrs hk2 hrec
            exact ⟨acq', by simpa [List.append_assoc] using this⟩

/-- The closing `TryAddPartReferences` for the parts that stayed in place. -/
theorem addRefs_txn {s0 s s1 : State} {acq pend : List Nat} {news : List NewPart}
    (h : Txn s0 s acq pend news) (ha : tryAddRefs s pend = some s1) :
    Txn s0 s1 (acq ++ pend) [] news := by
  obtain ⟨hm, hp, hn⟩ := h.mid.addRefs ha
  refine h.move hm (fun st p _ => by rw [hp]) (by omega) ?_
  intro p
  rw [List.count_append]
  simpa using h.bal p

end Pithos.ClassRouting
