/-
Helper lemmas for the storage-class routing model (`Pithos.Model.ClassRouting`): the invariant
`Inv`, what holds in the middle of a transaction (`Mid`, `NewsOk`), and the lemma that the shared
tail of every writing call (`commit`) re-establishes the invariant (`commit_inv`).
-/
import Pithos.Model.ClassRouting

namespace Pithos.ClassRouting

/-- Number of rows of `l` that reference part id `p`. -/
def pc (l : List PartRow) (p : Nat) : Nat := (l.map (·.pid)).count p

@[simp] theorem pc_nil (p : Nat) : pc [] p = 0 := rfl

theorem pc_cons (r : PartRow) (l : List PartRow) (p : Nat) :
    pc (r :: l) p = pc l p + if r.pid = p then 1 else 0 := by
  simp [pc, List.count_cons]

theorem pc_append (a b : List PartRow) (p : Nat) : pc (a ++ b) p = pc a p + pc b p := by
  simp [pc, List.count_append]

theorem pc_pos {l : List PartRow} {p : Nat} : 0 < pc l p ↔ ∃ r ∈ l, r.pid = p := by
  simp [pc, List.count_pos_iff]

theorem pc_eq_zero {l : List PartRow} {p : Nat} : pc l p = 0 ↔ ∀ r ∈ l, r.pid ≠ p := by
  simp [pc, List.count_eq_zero]

theorem refs_eq (s : State) (p : Nat) : refs s p = pc (rows s) p := rfl

/-- Rows of the entities with id `t` and of the others partition all rows. -/
theorem pc_split (L : List Ent) (t : Nat) (p : Nat) :
    pc (L.flatMap (·.parts)) p =
      pc ((L.filter (·.id == t)).flatMap (·.parts)) p + pc ((L.filter (fun e => e.id != t)).flatMap (·.parts)) p := by
  induction L with
  | nil => simp
  | cons e L ih =>
    by_cases h : e.id = t
    · simp [List.flatMap_cons, pc_append, h, ih]; omega
    · simp [List.flatMap_cons, pc_append, h, ih]; omega

def freshPids (news : List NewPart) : List Nat := (news.filter fun n => !n.pre).map (·.row.pid)
def prePids (news : List NewPart) : List Nat := (news.filter fun n => n.pre).map (·.row.pid)
def newRows (news : List NewPart) : List PartRow := news.map (·.row)

theorem pc_newRows (news : List NewPart) (p : Nat) :
    pc (newRows news) p = (prePids news).count p + (freshPids news).count p := by
  induction news with
  | nil => simp [newRows, prePids, freshPids]
  | cons n ns ih =>
    have : newRows (n :: ns) = n.row :: newRows ns := rfl
    rw [this, pc_cons, ih]
    cases hp : n.pre
    · have h1 : prePids (n :: ns) = prePids ns := by simp [prePids, hp]
      have h2 : freshPids (n :: ns) = n.row.pid :: freshPids ns := by simp [freshPids, hp]
      rw [h1, h2, List.count_cons]
      simp only [beq_iff_eq]
      split <;> omega
    · have h1 : prePids (n :: ns) = n.row.pid :: prePids ns := by simp [prePids, hp]
      have h2 : freshPids (n :: ns) = freshPids ns := by simp [freshPids, hp]
      rw [h1, h2, List.count_cons]
      simp only [beq_iff_eq]
      split <;> omega

def entParts : Option Ent → List PartRow
  | some e => e.parts
  | none => []

/-- The invariant of the routing state. -/
structure Inv (s : State) : Prop where
  /-- every part row's recorded store is configured and physically holds the part (with the
      recorded content) -/
  held : ∀ r ∈ rows s, r.store ∈ s.stores ∧ s.phys r.store r.pid = some r.content
  /-- registry ref_count = number of part rows referencing the part id -/
  cnt : ∀ p, s.reg p = refs s p
  /-- dedup-index entries point at physically present parts of that store with that content -/
  idxOk : ∀ st c p, s.idx st c = some p → s.phys st p = some c
  physFresh : ∀ st p, s.next ≤ p → s.phys st p = none
  ids : (s.ents.map (·.id)).Nodup
  defStore : "" ∈ s.stores
  cfgOk : ∀ c n, (c, n) ∈ s.cmap → n = defaultStoreName ∨ n ∈ s.stores

theorem Inv.pid_lt {s : State} (h : Inv s) {r : PartRow} (hr : r ∈ rows s) : r.pid < s.next := by
  by_cases hlt : r.pid < s.next
  · exact hlt
  · have := h.physFresh r.store r.pid (by omega)
    rw [(h.held r hr).2] at this
    cases this

/-- In the middle of a transaction that started in `s0`: `acq` = the references taken so far. -/
structure Mid (s0 s : State) (acq : List Nat) : Prop where
  ents : s.ents = s0.ents
  cmap : s.cmap = s0.cmap
  stores : s.stores = s0.stores
  reg : ∀ p, s.reg p = s0.reg p + acq.count p
  acqLive : ∀ p ∈ acq, 0 < s0.reg p
  physOld : ∀ st p, p < s0.next → s.phys st p = s0.phys st p
  physNew : ∀ st p, s.next ≤ p → s.phys st p = none
  next_le : s0.next ≤ s.next
  idxOk : ∀ st c p, s.idx st c = some p → s.phys st p = some c

theorem Mid.start {s0 : State} (h : Inv s0) : Mid s0 s0 [] :=
  { ents := rfl, cmap := rfl, stores := rfl, reg := by simp, acqLive := by simp,
    physOld := fun _ _ _ => rfl, physNew := h.physFresh, next_le := Nat.le_refl _, idxOk := h.idxOk }

/-- The parts obtained so far in the transaction. -/
structure NewsOk (s0 s : State) (news : List NewPart) : Prop where
  held : ∀ n ∈ news, n.row.store ∈ s0.stores ∧ s.phys n.row.store n.row.pid = some n.row.content
  freshNodup : (freshPids news).Nodup
  freshNew : ∀ p ∈ freshPids news, s0.next ≤ p ∧ p < s.next

theorem NewsOk.nil (s0 s : State) : NewsOk s0 s [] :=
  { held := by simp, freshNodup := by simp [freshPids], freshNew := by simp [freshPids] }

theorem lastPerPid_sub (l : List PartRow) : ∀ r ∈ lastPerPid l, r ∈ l := by
  induction l with
  | nil => simp [lastPerPid]
  | cons x xs ih =>
    intro r hr
    unfold lastPerPid at hr
    split at hr
    · exact List.mem_cons_of_mem _ (ih r hr)
    · rcases List.mem_cons.mp hr with h | h
      · exact h ▸ List.mem_cons_self
      · exact List.mem_cons_of_mem _ (ih r h)

theorem unrefOf_zero {reg : Nat → Nat} {old : List PartRow} {r : PartRow} (hr : r ∈ unrefOf reg old) :
    zeroAfter reg (old.map (·.pid)) r.pid = true ∧ r ∈ old := by
  have := lastPerPid_sub _ r hr
  rw [List.mem_filter] at this
  exact ⟨this.2, this.1⟩

theorem zeroAfter_iff {reg : Nat → Nat} {old : List PartRow} {p : Nat} :
    zeroAfter reg (old.map (·.pid)) p = true ↔ 0 < pc old p ∧ pc old p = reg p := by
  unfold zeroAfter pc
  simp [List.count_pos_iff]

/-- What a successful `commit` produced, field by field. -/
theorem commit_some {s s' : State} {t : Nat} {old : List PartRow} {news : List NewPart} {ent : Option Ent}
    (hc : commit s t old news ent = some s') :
    s'.cmap = s.cmap ∧ s'.stores = s.stores ∧ s'.next = s.next ∧
    s'.ents = s.ents.filter (fun e => e.id != t) ++ ent.toList ∧
    (∀ p, s'.reg p = (if pc old p ≤ s.reg p then s.reg p - pc old p else s.reg p) + (freshPids news).count p) ∧
    (∀ st c, s'.idx st c = match s.idx st c with
      | some p => if zeroAfter s.reg (old.map (·.pid)) p then none else some p
      | none => none) ∧
    (∀ st p, s'.phys st p =
      if (unrefOf s.reg old).any (fun r => r.store == st && r.pid == p) then none else s.phys st p) ∧
    (∀ r ∈ unrefOf s.reg old, r.store ∈ s.stores) := by
  unfold commit at hc
  simp only [] at hc
  split at hc
  · cases hc
  · split at hc
    · cases hc
    · rename_i h1 h2
      cases hc
      refine ⟨rfl, rfl, rfl, rfl, fun p => rfl, fun st c => rfl, fun st p => rfl, ?_⟩
      intro r hr
      have h2' : ¬ ((unrefOf s.reg old).any fun r => !s.stores.contains r.store) = true := h2
      rw [List.any_eq_true] at h2'
      by_cases hm : r.store ∈ s.stores
      · exact hm
      · exact absurd ⟨r, hr, by simp [hm]⟩ h2'

theorem mem_rows {s : State} {r : PartRow} : r ∈ rows s ↔ ∃ e ∈ s.ents, r ∈ e.parts := by
  simp [rows, List.mem_flatMap]

theorem mem_partsOf {s : State} {t : Nat} {r : PartRow} :
    r ∈ partsOf s t ↔ ∃ e ∈ s.ents, e.id = t ∧ r ∈ e.parts := by
  simp [partsOf, List.mem_flatMap, List.mem_filter, and_assoc]

theorem partsOf_sub_rows {s : State} {t : Nat} {r : PartRow} (h : r ∈ partsOf s t) : r ∈ rows s := by
  obtain ⟨e, he, _, hr⟩ := mem_partsOf.mp h
  exact mem_rows.mpr ⟨e, he, hr⟩

theorem nodup_filter_map_id {L : List Ent} {t : Nat} (h : (L.map (·.id)).Nodup) :
    ((L.filter (fun e => e.id != t)).map (·.id)).Nodup := by
  induction L with
  | nil => simp
  | cons e L ih =>
    simp only [List.map_cons, List.nodup_cons] at h
    by_cases he : e.id = t
    · simp [he, ih h.2]
    · simp only [List.filter_cons, bne_iff_ne, ne_eq, he, not_false_eq_true, ↓reduceIte,
        List.map_cons, List.nodup_cons]
      refine ⟨?_, ih h.2⟩
      intro hm
      apply h.1
      rw [List.mem_map] at hm ⊢
      obtain ⟨x, hx, hxe⟩ := hm
      exact ⟨x, (List.mem_filter.mp hx).1, hxe⟩

/-- **The commit lemma.** The shared tail of every writing call re-establishes the invariant. -/
theorem commit_inv {s0 s s' : State} {acq : List Nat} {news : List NewPart} {t : Nat}
    {old : List PartRow} {ent : Option Ent}
    (h0 : Inv s0) (hm : Mid s0 s acq) (hn : NewsOk s0 s news)
    (hacq : ∀ p, acq.count p = (prePids news).count p)
    (hent : ∀ e, ent = some e → e.id = t)
    (hE1 : ∀ p, pc (entParts ent) p + pc old p = pc (partsOf s0 t) p + pc (newRows news) p)
    (hE2 : ∀ r ∈ entParts ent,
      (∃ n ∈ news, n.row.store = r.store ∧ n.row.pid = r.pid ∧ n.row.content = r.content) ∨
      (∃ r' ∈ partsOf s0 t, r'.store = r.store ∧ r'.pid = r.pid ∧ r'.content = r.content))
    (hE3 : ∀ p, pc old p ≤ pc (partsOf s0 t) p)
    (hc : commit s t old news ent = some s') : Inv s' := by
  obtain ⟨hcm, hst, hnx, hents, hreg, hidx, hphys, _⟩ := commit_some hc
  -- rows of the new state
  have hrows : ∀ p, refs s' p = pc ((s0.ents.filter (fun e => e.id != t)).flatMap (·.parts)) p + pc (entParts ent) p := by
    intro p
    rw [refs_eq, rows, hents, hm.ents, List.flatMap_append, pc_append]
    cases ent <;> simp [entParts]
  have hsplit := fun p => pc_split s0.ents t p
  have hfresh0 : ∀ p ∈ freshPids news, pc (rows s0) p = 0 := by
    intro p hp
    rw [pc_eq_zero]
    intro r hr hrp
    have := h0.pid_lt hr
    have := (hn.freshNew p hp).1
    omega
  -- the registry counts the rows again
  have hcnt : ∀ p, s'.reg p = refs s' p := by
    intro p
    rw [hreg, hrows, hm.reg, h0.cnt, refs_eq, rows, hacq]
    have e1 := hE1 p
    have e3 := hE3 p
    have sp := hsplit p
    have nr := pc_newRows news p
    simp only [partsOf] at e1 e3
    rw [if_pos (by omega)]
    omega
  have hmemrows : ∀ r, r ∈ rows s' →
      r ∈ (s0.ents.filter (fun e => e.id != t)).flatMap (·.parts) ∨ r ∈ entParts ent := by
    intro r hr
    rw [rows, hents, hm.ents, List.flatMap_append, List.mem_append] at hr
    rcases hr with h | h
    · exact Or.inl h
    · right
      cases ent <;> simp_all [entParts]
  -- a part some row of the new state references is not physically deleted
  have hkeep : ∀ r ∈ rows s', ∀ st, s'.phys st r.pid = s.phys st r.pid := by
    intro r hr st
    rw [hphys]
    split
    · rename_i hany
      rw [List.any_eq_true] at hany
      obtain ⟨u, hu, hup⟩ := hany
      have hz := (unrefOf_zero hu).1
      rw [zeroAfter_iff] at hz
      simp only [Bool.and_eq_true, beq_iff_eq] at hup
      rw [hup.2] at hz
      -- the registry of the new state is zero at this id, yet a row references it
      have hr1 : 0 < refs s' r.pid := by rw [refs_eq]; exact pc_pos.mpr ⟨r, hr, rfl⟩
      have hreg' := hreg r.pid
      rw [if_pos (by omega)] at hreg'
      have hfz : (freshPids news).count r.pid = 0 := by
        apply List.count_eq_zero_of_not_mem
        intro hmem
        have h1 := hfresh0 r.pid hmem
        have h2 := hm.reg r.pid
        have h3 := h0.cnt r.pid
        rw [refs_eq] at h3
        have h4 := hE3 r.pid
        have h5 := hsplit r.pid
        simp only [partsOf] at h4
        simp only [rows] at h1 h3
        have hz1 := hz.1
        have hz2 := hz.2
        omega
      have := hcnt r.pid
      omega
    · rfl
  have hstores : s'.stores = s0.stores := by rw [hst, hm.stores]
  refine
    { held := ?_, cnt := hcnt, idxOk := ?_, physFresh := ?_, ids := ?_, defStore := ?_, cfgOk := ?_ }
  · intro r hr
    rw [hkeep r hr, hstores]
    rcases hmemrows r hr with h | h
    · have hr0 : r ∈ rows s0 := by
        rw [List.mem_flatMap] at h
        obtain ⟨e, he, hre⟩ := h
        exact mem_rows.mpr ⟨e, (List.mem_filter.mp he).1, hre⟩
      have := h0.held r hr0
      exact ⟨this.1, by rw [hm.physOld _ _ (h0.pid_lt hr0)]; exact this.2⟩
    · rcases hE2 r h with ⟨n, hnm, h1, h2, h3⟩ | ⟨r', hr', h1, h2, h3⟩
      · have := hn.held n hnm
        rw [h1, h2, h3] at this
        exact this
      · have hr0 := partsOf_sub_rows hr'
        have := h0.held r' hr0
        have hlt := h0.pid_lt hr0
        rw [h1, h2, h3] at this
        rw [h2] at hlt
        exact ⟨this.1, by rw [hm.physOld _ _ hlt]; exact this.2⟩
  · intro st c p hp
    rw [hidx] at hp
    cases hq : s.idx st c with
    | none => rw [hq] at hp; cases hp
    | some q =>
      rw [hq] at hp
      simp only [] at hp
      by_cases hz : zeroAfter s.reg (old.map (·.pid)) q = true
      · rw [if_pos hz] at hp; cases hp
      · rw [if_neg hz] at hp
        cases hp
        rw [hphys]
        split
        · rename_i hany
          rw [List.any_eq_true] at hany
          obtain ⟨u, hu, hup⟩ := hany
          simp only [Bool.and_eq_true, beq_iff_eq] at hup
          have := (unrefOf_zero hu).1
          rw [hup.2] at this
          exact absurd this hz
        · exact hm.idxOk st c _ hq
  · intro st p hp
    rw [hphys]
    split
    · rfl
    · exact hm.physNew st p (by omega)
  · rw [hents, hm.ents, List.map_append, List.nodup_append]
    refine ⟨nodup_filter_map_id h0.ids, ?_, ?_⟩
    · cases ent <;> simp
    · intro a ha b hb
      cases ent with
      | none => simp at hb
      | some e =>
        simp only [Option.toList_some, List.map_cons, List.map_nil, List.mem_singleton] at hb
        rw [hb, hent e rfl]
        rw [List.mem_map] at ha
        obtain ⟨x, hx, hxa⟩ := ha
        have := (List.mem_filter.mp hx).2
        simp only [bne_iff_ne, ne_eq] at this
        rw [← hxa]
        exact this
  · rw [hstores]; exact h0.defStore
  · intro c n hcn
    rw [hcm, hm.cmap] at hcn
    rw [hstores]
    exact h0.cfgOk c n hcn

end Pithos.ClassRouting
