/-
Tamper evidence of the tink readers under an ideal AEAD (helper for C16): whatever bytes are presented
as the tink stream of a part, everything either reader delivers — before an error or before a clean
end — is a prefix of the plaintext that was written; the repaired seekable reader never ends cleanly
on a strict prefix.
-/
import Pithos.Lemmas.TinkHonest

namespace Pithos.Tink
open Pithos.Codec

/-- **Ideal AEAD**, relative to what the writer sealed for this part (`segs`, under `key` and nonce prefix
`pre`): a ciphertext opens only if it is exactly one of the sealed segments, under exactly the nonce
it was sealed with — prefix, segment index and last-segment flag — and then to exactly that segment's
plaintext; under any other key nothing opens. -/
structure IdealFor (A : AEAD) (key : Nat) (pre : Bytes) (segs : List Bytes) : Prop where
  only_sealed : ∀ (n : Nonce) (c m : Bytes), A.openSeg key n c = some m →
    n.pre = pre ∧ n.idx < segs.length ∧ n.last = decide (n.idx + 1 = segs.length) ∧ m = segs.getD n.idx [] ∧
      c = A.sealSeg key n m
  other_keys : ∀ k', k' ≠ key → ∀ n c, A.openSeg k' n c = none

/-- `a` is a prefix of `b` -/
def IsPrefix (a b : Bytes) : Prop := ∃ t, b = a ++ t

theorem take_flatten_prefix (segs : List Bytes) (j : Nat) : IsPrefix (segs.take j).flatten segs.flatten :=
  ⟨(segs.drop j).flatten, by rw [← List.flatten_append, List.take_append_drop]⟩

theorem take_succ_flatten (segs : List Bytes) (j : Nat) (hj : j < segs.length) :
    (segs.take (j + 1)).flatten = (segs.take j).flatten ++ segs.getD j [] := by
  rw [List.take_succ, List.flatten_append]
  simp [List.getD_eq_getElem?_getD, List.getElem?_eq_getElem hj]

theorem take_flatten_len' (css : Nat) (segs : List Bytes) (lay : SegLayout css segs) : ∀ j, j < segs.length →
    (segs.take j).flatten.length = ptStart css j := by
  intro j
  induction j with
  | zero => intro _; simp [ptStart]
  | succ j ih =>
    intro hj
    have hj' : j < segs.length := by omega
    rw [take_succ_flatten segs j hj', List.length_append, ih hj', ptStart_succ, lay.full j hj]

/-- what a successful `loadSegment j` implies under the ideal AEAD: the slice was the sealed segment `j`
itself, the reader's last-segment flag agrees with the writer's, and the reader's slot length is the
sealed segment's length -/
theorem load_ideal (A : AEAD) (hA : ∀ k n m, (A.sealSeg k n m).length = m.length + tagLen) (key : Nat) (pre : Bytes) (segs : List Bytes) (ideal : IdealFor A key pre segs)
    (keyOf : Bytes → Nat) (css : Nat) (ct : Bytes) (j : Nat) (p : Bytes)
    (hl : loadSeg A keyOf css ct j = some p) :
    j < segs.length ∧ p = segs.getD j [] ∧ (j == numSegR css ct.length - 1) = decide (j + 1 = segs.length) ∧
      ctLen css ct.length j = (segs.getD j []).length + tagLen := by
  unfold loadSeg at hl
  simp only at hl
  split at hl
  · cases hl
  · split at hl
    · cases hl
    · split at hl
      · cases hl
      · rename_i h1 h2 h3
        by_cases hk : keyOf ((ct.drop 1).take 32) = key
        · rw [hk] at hl
          obtain ⟨_, hidx, hlast, hm, hc⟩ := ideal.only_sealed _ _ _ hl
          simp only at hidx hlast hm hc
          refine ⟨hidx, hm, hlast, ?_⟩
          have hlen := congrArg List.length hc
          rw [hA, List.length_take] at hlen
          rw [List.length_take] at h3
          rw [← hm]
          omega
        · rw [ideal.other_keys _ hk] at hl
          cases hl

/-- The invariant of a full read of arbitrary bytes `ct`: what has been delivered so far is the
concatenation of the first `j` true segments, and the position is its length. -/
theorem readLoop_prefix (A : AEAD) (hA : ∀ k n m, (A.sealSeg k n m).length = m.length + tagLen) (css key : Nat) (pre : Bytes) (segs : List Bytes) (keyOf : Bytes → Nat)
    (h56 : 56 < css) (lay : SegLayout css segs) (ideal : IdealFor A key pre segs) (fix : Bool) (ct : Bytes) :
    ∀ (fuel j : Nat), j ≤ segs.length →
      (j < segs.length → (segs.take j).flatten.length = ptStart css j) →
      match readFrom A keyOf fix css ct fuel (segs.take j).flatten.length (segs.take j).flatten with
      | .ok out => IsPrefix out segs.flatten ∧
          (fix = true → ∃ j', j' ≤ segs.length ∧ out = (segs.take j').flatten ∧ ptLenR css ct.length ≤ out.length ∧
            numSegR css ct.length = segs.length ∧
            ctLen css ct.length (segs.length - 1) = (segs.getD (segs.length - 1) []).length + tagLen)
      | .err sofar => IsPrefix sofar segs.flatten := by
  intro fuel
  induction fuel with
  | zero => intro j _ _; exact take_flatten_prefix segs j
  | succ fuel ih =>
    intro j hj hpos
    rw [readFrom_succ]
    by_cases hend : (segs.take j).flatten.length ≥ ptLenR css ct.length
    · rw [if_pos hend]
      cases fix with
      | false => exact ⟨take_flatten_prefix segs j, fun hc => by cases hc⟩
      | true =>
        simp only [if_true]
        cases hl : loadSeg A keyOf css ct (numSegR css ct.length - 1) with
        | none => exact take_flatten_prefix segs j
        | some p =>
          obtain ⟨hidx, _, hflag, hlen⟩ := load_ideal A hA key pre segs ideal keyOf css ct _ p hl
          have hk : numSegR css ct.length - 1 + 1 = segs.length := by
            have : (numSegR css ct.length - 1 == numSegR css ct.length - 1) = true := beq_self_eq_true _
            rw [this] at hflag
            exact of_decide_eq_true hflag.symm
          have hk1 : 1 ≤ numSegR css ct.length := by
            -- the reader is only run on openable streams, but even otherwise: segs is non-empty
            rcases Nat.eq_zero_or_pos (numSegR css ct.length) with h0 | h0
            · rw [h0] at hk hlen hidx
              -- numSegR = 0: the loaded index is 0 and it must be the last true segment
              exact absurd hk (by
                intro hk'
                simp at hk'
                -- segs.length = 1 and numSegR = 0: then ctLen css C 0 ≥ 16 forces C ≥ 56 > 0, so numSegR ≥ 1
                have hC : 0 < ct.length := by
                  unfold ctLen at hlen
                  simp only [if_true, hdrLen, tagLen] at hlen
                  omega
                have : 0 < numSegR css ct.length := by
                  unfold numSegR
                  exact Nat.div_pos (by omega) (by omega)
                omega)
            · exact h0
          refine ⟨take_flatten_prefix segs j, fun _ => ⟨j, hj, rfl, hend, by omega, ?_⟩⟩
          rw [show segs.length - 1 = numSegR css ct.length - 1 by omega]
          exact hlen
    · rw [if_neg hend]
      cases hl : loadSeg A keyOf css ct (segFor css (segs.take j).flatten.length) with
      | none => exact take_flatten_prefix segs j
      | some p =>
        obtain ⟨hidx, hp, _, _⟩ := load_ideal A hA key pre segs ideal keyOf css ct _ p hl
        simp only
        -- which segment did the reader ask for?
        by_cases hjl : j < segs.length
        · have hps := hpos hjl
          have hseg : segFor css (segs.take j).flatten.length = j := by
            rw [hps]
            have := segFor_ptStart_add css j 0 h56 (capOf_pos css j h56)
            simpa using this
          rw [hseg] at hp hidx ⊢
          rw [hps, Nat.sub_self, List.drop_zero, hp]
          by_cases hemp : (segs.getD j []).isEmpty = true
          · rw [if_pos hemp]; exact take_flatten_prefix segs j
          · rw [if_neg hemp]
            have hnext := ih (j + 1) (by omega) (by
              intro hj1
              rw [take_succ_flatten segs j hjl, List.length_append, hps, ptStart_succ, lay.full j hj1])
            rw [take_succ_flatten segs j hjl, List.length_append, hps] at hnext
            exact hnext
        · -- everything has been delivered already; whatever opens now adds nothing
          have hje : j = segs.length := by omega
          have hall : (segs.take j).flatten = segs.flatten := by rw [hje, List.take_length]
          rw [hp]
          -- the chunk is empty or the index is out of range
          have hlo := (ptStart_segFor css (segs.take j).flatten.length h56).1
          by_cases hemp : ((segs.getD (segFor css (segs.take j).flatten.length) []).drop
              ((segs.take j).flatten.length - ptStart css (segFor css (segs.take j).flatten.length))).isEmpty = true
          · rw [if_pos hemp]; exact take_flatten_prefix segs j
          · exfalso
            apply hemp
            -- the asked segment lies entirely before the current position
            have hj' := hidx
            have hst := take_flatten_len' css segs lay _ hj'
            have hle : (segs.take (segFor css (segs.take j).flatten.length + 1)).flatten.length ≤ segs.flatten.length := by
              obtain ⟨t, ht⟩ := take_flatten_prefix segs (segFor css (segs.take j).flatten.length + 1)
              rw [ht, List.length_append]; omega
            rw [take_succ_flatten segs _ hj', List.length_append, hst] at hle
            rw [hall]
            cases hc : (segs.getD (segFor css segs.flatten.length) []).drop
                (segs.flatten.length - ptStart css (segFor css segs.flatten.length)) with
            | nil => rfl
            | cons _ _ =>
              have := congrArg List.length hc
              rw [List.length_drop, List.length_cons] at this
              rw [hall] at hle
              omega

/-- **tamper evidence, seekable reader.** Whatever bytes `ct` are presented as the tink stream (with the
honest segment size): all that a full read delivers — before a failure or before a clean end — is a
prefix of the plaintext that was written. -/
theorem seekRead_prefix (A : AEAD) (hA : ∀ k n m, (A.sealSeg k n m).length = m.length + tagLen) (css key : Nat) (pre : Bytes) (segs : List Bytes) (keyOf : Bytes → Nat)
    (h56 : 56 < css) (lay : SegLayout css segs) (ideal : IdealFor A key pre segs) (fix : Bool) (ct : Bytes) :
    match seekRead A keyOf fix css ct 0 with
    | .ok out => IsPrefix out segs.flatten
    | .err sofar => IsPrefix sofar segs.flatten := by
  unfold seekRead
  by_cases ho : (!openable css ct) = true
  · rw [if_pos ho]; exact ⟨segs.flatten, rfl⟩
  · rw [if_neg ho]
    have := readLoop_prefix A hA css key pre segs keyOf h56 lay ideal fix ct (ct.length + 2) 0 (Nat.zero_le _)
      (fun _ => by simp [ptStart])
    simp only [List.take_zero, List.flatten_nil, List.length_nil] at this
    cases hr : readFrom A keyOf fix css ct (ct.length + 2) 0 [] with
    | ok out => rw [hr] at this; exact this.1
    | err sofar => rw [hr] at this; exact this

theorem prefix_eq_of_length_ge {a b : Bytes} (h : IsPrefix a b) (hl : b.length ≤ a.length) : a = b := by
  obtain ⟨t, ht⟩ := h
  have : t = [] := by
    have := congrArg List.length ht
    rw [List.length_append] at this
    exact List.eq_nil_of_length_eq_zero (by omega)
  rw [ht, this, List.append_nil]

/-- from the reader's segment count and the length of its last slot, the ciphertext length -/
theorem length_of_geometry (css k r C : Nat) (h56 : 56 < css) (hk : 1 ≤ k)
    (hnum : numSegR css C = k) (hlast : ctLen css C (k - 1) = r + tagLen) : C = ctLenOf css k r := by
  unfold numSegR at hnum
  have hlo := Nat.div_mul_le_self (C + css - 1) css
  have hhi := Nat.lt_mul_div_succ (C + css - 1) (show 0 < css by omega)
  rw [hnum] at hlo hhi
  have hk' : k * css = (k - 1) * css + css := by
    have : k = (k - 1) + 1 := by omega
    conv => lhs; rw [this, Nat.add_mul, Nat.one_mul]
  rw [Nat.mul_comm css (k + 1), Nat.add_mul, Nat.one_mul] at hhi
  unfold ctLen at hlast
  unfold ctLenOf
  by_cases h1 : k = 1
  · subst h1
    simp only [Nat.sub_self, if_true, hdrLen, tagLen, Nat.zero_mul, Nat.zero_add] at hlast hlo hhi hk' ⊢
    omega
  · have hk1 : k - 1 ≠ 0 := by omega
    simp only [hk1, h1, if_false, tagLen, Nat.add_zero] at hlast ⊢
    generalize (k - 1) * css = X at *
    omega

/-- **tamper evidence, repaired seekable reader.** With the last segment authenticated before EOF, a read
that ends without error has delivered exactly the plaintext: no truncation, extension, reordering or
substitution of the ciphertext goes unnoticed. -/
theorem seekRead_repaired_complete (A : AEAD) (hA : ∀ k n m, (A.sealSeg k n m).length = m.length + tagLen) (css key : Nat) (pre : Bytes) (segs : List Bytes)
    (keyOf : Bytes → Nat) (h56 : 56 < css) (lay : SegLayout css segs) (ideal : IdealFor A key pre segs) (ct out : Bytes)
    (hok : seekRead A keyOf true css ct 0 = .ok out) : out = segs.flatten := by
  unfold seekRead at hok
  by_cases ho : (!openable css ct) = true
  · rw [if_pos ho] at hok; cases hok
  · rw [if_neg ho] at hok
    have := readLoop_prefix A hA css key pre segs keyOf h56 lay ideal true ct (ct.length + 2) 0 (Nat.zero_le _)
      (fun _ => by simp [ptStart])
    simp only [List.take_zero, List.flatten_nil, List.length_nil] at this
    have this' : IsPrefix out segs.flatten ∧
        (True → ∃ j', j' ≤ segs.length ∧ out = (segs.take j').flatten ∧ ptLenR css ct.length ≤ out.length ∧
          numSegR css ct.length = segs.length ∧
          ctLen css ct.length (segs.length - 1) = (segs.getD (segs.length - 1) []).length + tagLen) := by
      rw [hok] at this; exact this
    obtain ⟨hpre, hmore⟩ := this'
    obtain ⟨j', _, _, hlen, hnum, hlast⟩ := hmore trivial
    have hk : 1 ≤ segs.length := List.length_pos_iff.2 lay.ne
    have hC := length_of_geometry css segs.length _ ct.length h56 hk hnum hlast
    have hr1 : segs.length = 1 ∨ 1 ≤ (segs.getD (segs.length - 1) []).length := by
      by_cases h1 : segs.length = 1
      · exact Or.inl h1
      · exact Or.inr (lay.pos_of_multi (by omega) _ (by omega))
    have hpt := (layout_inverse css segs.length _ h56 hk lay.last_le hr1).2
    rw [← hC] at hpt
    -- the total plaintext length
    have hl1 : segs.length - 1 < segs.length := by omega
    have htot : segs.flatten.length = ptStart css (segs.length - 1) + (segs.getD (segs.length - 1) []).length := by
      have e : segs.flatten = (segs.take (segs.length - 1)).flatten ++ (segs.drop (segs.length - 1)).flatten := by
        rw [← List.flatten_append, List.take_append_drop]
      rw [e, List.length_append, take_flatten_len' css segs lay _ hl1, List.drop_eq_getElem_cons hl1]
      have : segs.drop (segs.length - 1 + 1) = [] := List.drop_eq_nil_iff.2 (by omega)
      simp [this, List.getD_eq_getElem?_getD, List.getElem?_eq_getElem hl1]
    apply prefix_eq_of_length_ge hpre
    unfold ptLenOf at hpt
    omega

/-! ## tink-go's sequential reader -/

theorem seqLoop_prefix (A : AEAD) (key : Nat) (pre' : Bytes) (pre : Bytes) (segs : List Bytes) (ideal : IdealFor A key pre segs)
    (k' : Nat) (hk' : k' = key ∨ k' ≠ key) (css : Nat) (guard : Bool) :
    ∀ (fuel j : Nat) (rest : Bytes), j ≤ segs.length →
      match seqLoop A k' pre' css guard fuel j rest (segs.take j).flatten with
      | .ok out => IsPrefix out segs.flatten
      | .err sofar => IsPrefix sofar segs.flatten := by
  intro fuel
  induction fuel with
  | zero => intro j rest _; exact take_flatten_prefix segs j
  | succ fuel ih =>
    intro j rest hj
    have hopen : ∀ (l : Bool) (c p : Bytes), A.openSeg k' ⟨pre', j, l⟩ c = some p → j < segs.length ∧ p = segs.getD j [] := by
      intro l c p ho
      rcases hk' with hk | hk
      · rw [hk] at ho
        obtain ⟨_, hidx, _, hm, _⟩ := ideal.only_sealed _ _ _ ho
        exact ⟨hidx, hm⟩
      · rw [ideal.other_keys _ hk] at ho; cases ho
    rw [seqLoop]
    by_cases h1 : (rest.isEmpty || (j != 0 && rest.length == 1)) = true
    · simp only [h1, if_true]; cases guard <;> exact take_flatten_prefix segs j
    · simp only [h1, if_false]
      by_cases h2 : rest.length ≤ (if j = 0 then css - hdrLen else css)
      · simp only [h2, if_true]
        cases ho : A.openSeg k' ⟨pre', j, true⟩ rest with
        | none => exact take_flatten_prefix segs j
        | some p =>
          obtain ⟨hjl, hp⟩ := hopen _ _ _ ho
          simp only
          rw [hp, ← take_succ_flatten segs j hjl]
          exact take_flatten_prefix segs (j + 1)
      · simp only [h2, if_false]
        cases ho : A.openSeg k' ⟨pre', j, false⟩ (rest.take (if j = 0 then css - hdrLen else css)) with
        | none => exact take_flatten_prefix segs j
        | some p =>
          obtain ⟨hjl, hp⟩ := hopen _ _ _ ho
          simp only
          rw [hp, ← take_succ_flatten segs j hjl]
          exact ih (j + 1) _ (by omega)

/-- **tamper evidence, sequential reader.** Whatever bytes are presented as the tink stream: all that
tink-go's sequential reader delivers is a prefix of the plaintext that was written. (It CAN end cleanly
on a strict prefix — see the negation witnesses.) -/
theorem seqRead_prefix (A : AEAD) (key : Nat) (pre : Bytes) (segs : List Bytes) (keyOf : Bytes → Nat)
    (ideal : IdealFor A key pre segs) (fixEof : Bool) (css : Nat) (ct : Bytes) (guard : Bool) :
    match seqRead A keyOf fixEof css ct guard with
    | .ok out => IsPrefix out segs.flatten
    | .err sofar => IsPrefix sofar segs.flatten := by
  unfold seqRead
  by_cases h1 : (ct.isEmpty && !fixEof) = true
  · rw [if_pos h1]; exact ⟨segs.flatten, rfl⟩
  · rw [if_neg h1]
    by_cases h2 : (decide (ct.length < hdrLen) || ct.headD 0 != 40) = true
    · rw [if_pos h2]; exact ⟨segs.flatten, rfl⟩
    · rw [if_neg h2]
      have := seqLoop_prefix A key ((ct.drop 33).take 7) pre segs ideal (keyOf ((ct.drop 1).take 32)) (Decidable.em _) css guard
        (ct.length + 2) 0 (ct.drop hdrLen) (Nat.zero_le _)
      simpa using this

/-- The guarded sequential reader ends without error only behind a segment that opened under the
last-segment flag — and under an ideal AEAD that is the last segment of the written stream. -/
theorem seqLoop_guarded_complete (A : AEAD) (key : Nat) (pre' : Bytes) (pre : Bytes) (segs : List Bytes) (ideal : IdealFor A key pre segs)
    (k' : Nat) (hk' : k' = key ∨ k' ≠ key) (css : Nat) :
    ∀ (fuel j : Nat) (rest out : Bytes), j ≤ segs.length →
      seqLoop A k' pre' css true fuel j rest (segs.take j).flatten = .ok out → out = segs.flatten := by
  intro fuel
  induction fuel with
  | zero => intro j rest out _ h; simp [seqLoop] at h
  | succ fuel ih =>
    intro j rest out hj h
    have hopen : ∀ (l : Bool) (c p : Bytes), A.openSeg k' ⟨pre', j, l⟩ c = some p →
        j < segs.length ∧ p = segs.getD j [] ∧ l = decide (j + 1 = segs.length) := by
      intro l c p ho
      rcases hk' with hk | hk
      · rw [hk] at ho
        obtain ⟨_, hidx, hlast, hm, _⟩ := ideal.only_sealed _ _ _ ho
        exact ⟨hidx, hm, hlast⟩
      · rw [ideal.other_keys _ hk] at ho; cases ho
    rw [seqLoop] at h
    by_cases h1 : (rest.isEmpty || (j != 0 && rest.length == 1)) = true
    · simp [h1] at h
    · simp only [h1, if_false] at h
      by_cases h2 : rest.length ≤ (if j = 0 then css - hdrLen else css)
      · simp only [h2, if_true] at h
        cases ho : A.openSeg k' ⟨pre', j, true⟩ rest with
        | none => rw [ho] at h; cases h
        | some p =>
          rw [ho] at h
          obtain ⟨hjl, hp, hl⟩ := hopen _ _ _ ho
          have hlast : j + 1 = segs.length := by simpa using hl.symm
          have h' : (segs.take j).flatten ++ p = out := by simpa using h
          rw [← h', hp, ← take_succ_flatten segs j hjl, hlast, List.take_length]
      · simp only [h2, if_false] at h
        cases ho : A.openSeg k' ⟨pre', j, false⟩ (rest.take (if j = 0 then css - hdrLen else css)) with
        | none => rw [ho] at h; cases h
        | some p =>
          rw [ho] at h
          obtain ⟨hjl, hp, _⟩ := hopen _ _ _ ho
          simp only at h
          rw [hp, ← take_succ_flatten segs j hjl] at h
          exact ih (j + 1) _ out (by omega) h

/-- **completeness of the repaired sequential path** (envelope and cut-stream repairs both present): a read
that ends without error has delivered exactly what was written. -/
theorem seqRead_guarded_complete (A : AEAD) (key : Nat) (pre : Bytes) (segs : List Bytes) (keyOf : Bytes → Nat)
    (ideal : IdealFor A key pre segs) (css : Nat) (ct out : Bytes)
    (h : seqRead A keyOf true css ct true = .ok out) : out = segs.flatten := by
  unfold seqRead at h
  simp only [Bool.not_true, Bool.and_false, Bool.false_eq_true, if_false] at h
  by_cases h2 : (decide (ct.length < hdrLen) || ct.headD 0 != 40) = true
  · rw [if_pos h2] at h; cases h
  · rw [if_neg h2] at h
    exact seqLoop_guarded_complete A key ((ct.drop 33).take 7) pre segs ideal (keyOf ((ct.drop 1).take 32)) (Decidable.em _) css
      (ct.length + 2) 0 (ct.drop hdrLen) out (Nat.zero_le _) (by simpa using h)

end Pithos.Tink
