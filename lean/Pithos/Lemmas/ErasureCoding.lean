/-
Lemmas about the erasure-coding frame format and read loop (`Pithos.Model.ErasureCoding`):
the frame and shard-header codecs round-trip, an intact set of shard streams reads back as the
original part without healing, and a part none of whose shards exists "reads" as an empty part that
is healed into existence (as the code is) or as not-found (repaired).
-/
import Pithos.Model.ErasureCoding
import Pithos.Lemmas.PartCodec

namespace Pithos.EC
open Pithos.Codec

/-- What the frame format can represent: field widths of the shard header (uint16, uint32) and of
the frame header (uint32 `dataBytes`), the constructor's own checks (`d ≥ 1`, `stripe ≥ 1024`), a
32-byte hash, and a code whose parity shards are as long as the data shards. -/
structure WF (c : Cfg) (code : Code) (H : Bytes → Bytes) : Prop where
  d_pos : 1 ≤ c.d
  n_lt : c.n < 65536
  stripe_ge : 1024 ≤ c.stripe
  stripe_lt : c.stripe < 4294967296
  stripeData_lt : c.d * c.stripe < 4294967296
  hash_len : ∀ x, (H x).length = 32
  parity_len : ∀ data L, data.length = c.d → (∀ x ∈ data, x.length = L) →
    (code.parity c.d c.p data).length = c.p ∧ ∀ x ∈ code.parity c.d c.p data, x.length = L

/-! ## list helpers -/

theorem take_append_len {α : Type} (a b : List α) (n : Nat) (h : a.length = n) : (a ++ b).take n = a := by
  subst h; simp

theorem drop_append_len {α : Type} (a b : List α) (n : Nat) (h : a.length = n) : (a ++ b).drop n = b := by
  subst h; simp

/-! ## shard header -/

theorem shardHeader_length (c : Cfg) (k : Nat) : (shardHeader c k).length = shardHeaderSize := by
  simp [shardHeader, shardMagic, be16, be32, beN_length, shardHeaderSize]

theorem parseShardHeader_shardHeader (c : Cfg) (code : Code) (H : Bytes → Bytes) (wf : WF c code H) (k : Nat) (hk : k < c.n) :
    parseShardHeader (shardHeader c k) = some (c.d, c.n, k, c.stripe) := by
  have hlen := shardHeader_length c k
  have hn := wf.n_lt
  have hd : c.d < 65536 := by have : c.d ≤ c.n := Nat.le_add_right _ _; omega
  have e : shardHeader c k = shardMagic ++ ([1] ++ (be16 c.d ++ (be16 c.n ++ (be16 k ++ be32 c.stripe)))) := by
    simp [shardHeader, List.append_assoc]
  have lm : shardMagic.length = 4 := rfl
  have l1 : ([1] : Bytes).length = 1 := rfl
  have l2a : (be16 c.d).length = 2 := beN_length 2 _
  have l2b : (be16 c.n).length = 2 := beN_length 2 _
  have l2c : (be16 k).length = 2 := beN_length 2 _
  have l4 : (be32 c.stripe).length = 4 := beN_length 4 _
  have d4 : (shardHeader c k).drop 4 = [1] ++ (be16 c.d ++ (be16 c.n ++ (be16 k ++ be32 c.stripe))) := by
    rw [e, drop_append_len _ _ _ lm]
  have d5 : (shardHeader c k).drop 5 = be16 c.d ++ (be16 c.n ++ (be16 k ++ be32 c.stripe)) := by
    rw [show (5 : Nat) = 4 + 1 from rfl, ← List.drop_drop, d4, drop_append_len _ _ _ l1]
  have d7 : (shardHeader c k).drop 7 = be16 c.n ++ (be16 k ++ be32 c.stripe) := by
    rw [show (7 : Nat) = 5 + 2 from rfl, ← List.drop_drop, d5, drop_append_len _ _ _ l2a]
  have d9 : (shardHeader c k).drop 9 = be16 k ++ be32 c.stripe := by
    rw [show (9 : Nat) = 7 + 2 from rfl, ← List.drop_drop, d7, drop_append_len _ _ _ l2b]
  have d11 : (shardHeader c k).drop 11 = be32 c.stripe := by
    rw [show (11 : Nat) = 9 + 2 from rfl, ← List.drop_drop, d9, drop_append_len _ _ _ l2c]
  have e4 : (shardHeader c k).take 4 = shardMagic := by rw [e, take_append_len _ _ _ lm]
  have g4 : (shardHeader c k).getD 4 0 = 1 := by
    have : (shardHeader c k).getD 4 0 = ((shardHeader c k).drop 4).getD 0 0 := by
      simp [List.getD_eq_getElem?_getD]
    rw [this, d4]; rfl
  have t11 : (be32 c.stripe).take 4 = be32 c.stripe := by
    rw [← l4, List.take_length]
  unfold parseShardHeader
  rw [d5, d7, d9, d11, e4, g4, hlen, take_append_len _ _ _ l2a, take_append_len _ _ _ l2b,
    take_append_len _ _ _ l2c, t11]
  have v1 : fromBE (be16 c.d) = c.d := fromBE_beN_of_lt 2 c.d (by omega)
  have v2 : fromBE (be16 c.n) = c.n := fromBE_beN_of_lt 2 c.n (by omega)
  have v3 : fromBE (be16 k) = k := fromBE_beN_of_lt 2 k (by omega)
  have v4 : fromBE (be32 c.stripe) = c.stripe := fromBE_beN_of_lt 4 c.stripe (by have := wf.stripe_lt; omega)
  simp only [v1, v2, v3, v4]
  have h1 := wf.d_pos
  have h3 := wf.stripe_ge
  have hc : ¬ (c.d < 1 ∨ c.n < c.d ∨ k ≥ c.n ∨ c.stripe < 1024) := by
    have : c.d ≤ c.n := Nat.le_add_right _ _
    omega
  have : c.d ≤ c.n := Nat.le_add_right _ _
  simp
  omega

theorem openShard_stream (c : Cfg) (code : Code) (H : Bytes → Bytes) (wf : WF c code H) (k : Nat) (hk : k < c.n)
    (rest : Bytes) : openShard c k (some (shardHeader c k ++ rest)) = some rest := by
  have hlen := shardHeader_length c k
  unfold openShard
  have h1 : ¬ (shardHeader c k ++ rest).length < shardHeaderSize := by simp [hlen]
  simp only [h1, if_false]
  rw [take_append_len _ _ _ hlen, drop_append_len _ _ _ hlen, parseShardHeader_shardHeader c code H wf k hk]
  simp

/-! ## frames -/

theorem frameHeader_length (H : Bytes → Bytes) (hH : ∀ x, (H x).length = 32) (j m : Nat) (p : Bytes) :
    (frameHeader H j m p).length = frameHeaderSize := by
  simp [frameHeader, be64, be32, beN_length, hH, frameHeaderSize]

/-- **frame_roundtrip.** A well-formed frame at the head of a reader is read back exactly: same
`dataBytes`, same payload, the reader advanced to the byte after the frame. -/
theorem readFrame_frame (H : Bytes → Bytes) (hH : ∀ x, (H x).length = 32) (j m : Nat) (p rest : Bytes)
    (hj : j < 18446744073709551616) (hm1 : 1 ≤ m) (hm : m < 4294967296)
    (hp1 : 1 ≤ p.length) (hp : p.length < 4294967296) :
    readFrame H j (frame H j m p ++ rest) = .ok m p rest := by
  have hhl := hH p
  have e : frame H j m p ++ rest = be64 j ++ (be32 m ++ (be32 p.length ++ (H p ++ (p ++ rest)))) := by
    simp [frame, frameHeader, List.append_assoc]
  rw [e]
  have l8 : (be64 j).length = 8 := beN_length 8 j
  have l4a : (be32 m).length = 4 := beN_length 4 m
  have l4b : (be32 p.length).length = 4 := beN_length 4 _
  unfold readFrame
  have hlen : ¬ (be64 j ++ (be32 m ++ (be32 p.length ++ (H p ++ (p ++ rest))))).length < frameHeaderSize := by
    simp [l8, l4a, l4b, hhl, frameHeaderSize]; omega
  rw [if_neg hlen]
  have t8 : (be64 j ++ (be32 m ++ (be32 p.length ++ (H p ++ (p ++ rest))))).take 8 = be64 j :=
    take_append_len _ _ _ l8
  have d8 : (be64 j ++ (be32 m ++ (be32 p.length ++ (H p ++ (p ++ rest))))).drop 8
      = be32 m ++ (be32 p.length ++ (H p ++ (p ++ rest))) := drop_append_len _ _ _ l8
  have d12 : (be64 j ++ (be32 m ++ (be32 p.length ++ (H p ++ (p ++ rest))))).drop 12
      = be32 p.length ++ (H p ++ (p ++ rest)) := by
    rw [show (12 : Nat) = 8 + 4 from rfl, ← List.drop_drop, d8, drop_append_len _ _ _ l4a]
  have d16 : (be64 j ++ (be32 m ++ (be32 p.length ++ (H p ++ (p ++ rest))))).drop 16
      = H p ++ (p ++ rest) := by
    rw [show (16 : Nat) = 12 + 4 from rfl, ← List.drop_drop, d12, drop_append_len _ _ _ l4b]
  have d48 : (be64 j ++ (be32 m ++ (be32 p.length ++ (H p ++ (p ++ rest))))).drop frameHeaderSize
      = p ++ rest := by
    rw [show frameHeaderSize = 16 + 32 from rfl, ← List.drop_drop, d16, drop_append_len _ _ _ hhl]
  rw [t8, d8, d12, d16, d48, take_append_len _ _ _ l4a, take_append_len _ _ _ l4b, take_append_len _ _ _ hhl]
  have v1 : fromBE (be64 j) = j := fromBE_beN_of_lt 8 j (by omega)
  have v2 : fromBE (be32 m) = m := fromBE_beN_of_lt 4 m (by omega)
  have v3 : fromBE (be32 p.length) = p.length := fromBE_beN_of_lt 4 _ (by omega)
  rw [v1, v2, v3]
  have c1 : ¬ (m < 1 ∨ p.length < 1 ∨ j ≠ j) := by omega
  have c2 : ¬ (p ++ rest).length < p.length := by simp
  simp only [c1, c2, if_false]
  rw [take_append_len _ _ _ rfl, drop_append_len _ _ _ rfl]
  simp

theorem readFrame_nil (H : Bytes → Bytes) (j : Nat) : readFrame H j [] = .eof := by
  simp [readFrame, frameHeaderSize]

end Pithos.EC
