/-
Lemmas about the erasure-coding frame format and read loop (`Pithos.Model.ErasureCoding`):
the frame and shard-header codecs round-trip, an intact set of shard streams reads back as the
original part without healing, and a part none of whose shards exists "reads" as an empty part that
is healed into existence (as the code is) or as not-found (repaired).
-/
import Pithos.Model.ErasureCoding
import Pithos.Lemmas.PartCodec

namespace Pithos.EC
open Pithos.Codec

/-- What the frame format can represent: field widths of the shard header (uint16, uint32) and of
the frame header (uint32 `dataBytes`), the constructor's own checks (`d ≥ 1`, `stripe ≥ 1024`), a
32-byte hash, and a code whose parity shards are as long as the data shards. -/
structure WF (c : Cfg) (code : Code) (H : Bytes → Bytes) : Prop where
  d_pos : 1 ≤ c.d
  n_lt : c.n < 65536
  stripe_ge : 1024 ≤ c.stripe
  stripe_lt : c.stripe < 4294967296
  stripeData_lt : c.d * c.stripe < 4294967296
  hash_len : ∀ x, (H x).length = 32
  parity_len : ∀ data L, data.length = c.d → (∀ x ∈ data, x.length = L) →
    (code.parity c.d c.p data).length = c.p ∧ ∀ x ∈ code.parity c.d c.p data, x.length = L

/-! ## list helpers -/

theorem take_append_len {α : Type} (a b : List α) (n : Nat) (h : a.length = n) : (a ++ b).take n = a := by
  subst h; simp

theorem drop_append_len {α : Type} (a b : List α) (n : Nat) (h : a.length = n) : (a ++ b).drop n = b := by
  subst h; simp

/-! ## shard header -/

theorem shardHeader_length (c : Cfg) (k : Nat) : (shardHeader c k).length = shardHeaderSize := by
  simp [shardHeader, shardMagic, be16, be32, beN_length, shardHeaderSize]

theorem parseShardHeader_shardHeader (c : Cfg) (code : Code) (H : Bytes → Bytes) (wf : WF c code H) (k : Nat) (hk : k < c.n) :
    parseShardHeader (shardHeader c k) = some (c.d, c.n, k, c.stripe) := by
  have hlen := shardHeader_length c k
  have hn := wf.n_lt
  have hd : c.d < 65536 := by have : c.d ≤ c.n := Nat.le_add_right _ _; omega
  have e : shardHeader c k = shardMagic ++ ([1] ++ (be16 c.d ++ (be16 c.n ++ (be16 k ++ be32 c.stripe)))) := by
    simp [shardHeader, List.append_assoc]
  have lm : shardMagic.length = 4 := rfl
  have l1 : ([1] : Bytes).length = 1 := rfl
  have l2a : (be16 c.d).length = 2 := beN_length 2 _
  have l2b : (be16 c.n).length = 2 := beN_length 2 _
  have l2c : (be16 k).length = 2 := beN_length 2 _
  have l4 : (be32 c.stripe).length = 4 := beN_length 4 _
  have d4 : (shardHeader c k).drop 4 = [1] ++ (be16 c.d ++ (be16 c.n ++ (be16 k ++ be32 c.stripe))) := by
    rw [e, drop_append_len _ _ _ lm]
  have d5 : (shardHeader c k).drop 5 = be16 c.d ++ (be16 c.n ++ (be16 k ++ be32 c.stripe)) := by
    rw [show (5 : Nat) = 4 + 1 from rfl, ← List.drop_drop, d4, drop_append_len _ _ _ l1]
  have d7 : (shardHeader c k).drop 7 = be16 c.n ++ (be16 k ++ be32 c.stripe) := by
    rw [show (7 : Nat) = 5 + 2 from rfl, ← List.drop_drop, d5, drop_append_len _ _ _ l2a]
  have d9 : (shardHeader c k).drop 9 = be16 k ++ be32 c.stripe := by
    rw [show (9 : Nat) = 7 + 2 from rfl, ← List.drop_drop, d7, drop_append_len _ _ _ l2b]
  have d11 : (shardHeader c k).drop 11 = be32 c.stripe := by
    rw [show (11 : Nat) = 9 + 2 from rfl, ← List.drop_drop, d9, drop_append_len _ _ _ l2c]
  have e4 : (shardHeader c k).take 4 = shardMagic := by rw [e, take_append_len _ _ _ lm]
  have g4 : (shardHeader c k).getD 4 0 = 1 := by
    have : (shardHeader c k).getD 4 0 = ((shardHeader c k).drop 4).getD 0 0 := by
      simp [List.getD_eq_getElem?_getD]
    rw [this, d4]; rfl
  have t11 : (be32 c.stripe).take 4 = be32 c.stripe := by
    rw [← l4, List.take_length]
  unfold parseShardHeader
  rw [d5, d7, d9, d11, e4, g4, hlen, take_append_len _ _ _ l2a, take_append_len _ _ _ l2b,
    take_append_len _ _ _ l2c, t11]
  have v1 : fromBE (be16 c.d) = c.d := fromBE_beN_of_lt 2 c.d (by omega)
  have v2 : fromBE (be16 c.n) = c.n := fromBE_beN_of_lt 2 c.n (by omega)
  have v3 : fromBE (be16 k) = k := fromBE_beN_of_lt 2 k (by omega)
  have v4 : fromBE (be32 c.stripe) = c.stripe := fromBE_beN_of_lt 4 c.stripe (by have := wf.stripe_lt; omega)
  simp only [v1, v2, v3, v4]
  have h1 := wf.d_pos
  have h3 := wf.stripe_ge
  have hc : ¬ (c.d < 1 ∨ c.n < c.d ∨ k ≥ c.n ∨ c.stripe < 1024) := by
    have : c.d ≤ c.n := Nat.le_add_right _ _
    omega
  have : c.d ≤ c.n := Nat.le_add_right _ _
  simp
  omega

theorem openShard_stream (c : Cfg) (code : Code) (H : Bytes → Bytes) (wf : WF c code H) (k : Nat) (hk : k < c.n)
    (rest : Bytes) : openShard c k (some (shardHeader c k ++ rest)) = some rest := by
  have hlen := shardHeader_length c k
  unfold openShard
  have h1 : ¬ (shardHeader c k ++ rest).length < shardHeaderSize := by simp [hlen]
  simp only [h1, if_false]
  rw [take_append_len _ _ _ hlen, drop_append_len _ _ _ hlen, parseShardHeader_shardHeader c code H wf k hk]
  simp

/-! ## frames -/

theorem frameHeader_length (H : Bytes → Bytes) (hH : ∀ x, (H x).length = 32) (j m : Nat) (p : Bytes) :
    (frameHeader H j m p).length = frameHeaderSize := by
  simp [frameHeader, be64, be32, beN_length, hH, frameHeaderSize]

/-- **frame_roundtrip.** A well-formed frame at the head of a reader is read back exactly: same
`dataBytes`, same payload, the reader advanced to the byte after the frame. -/
theorem readFrame_frame (H : Bytes → Bytes) (hH : ∀ x, (H x).length = 32) (j m : Nat) (p rest : Bytes)
    (hm1 : 1 ≤ m) (hm : m < 4294967296)
    (hp1 : 1 ≤ p.length) (hp : p.length < 4294967296) :
    readFrame H j (frame H j m p ++ rest) = .ok m p rest := by
  have hhl := hH p
  have e : frame H j m p ++ rest = be64 j ++ (be32 m ++ (be32 p.length ++ (H p ++ (p ++ rest)))) := by
    simp [frame, frameHeader, List.append_assoc]
  rw [e]
  have l8 : (be64 j).length = 8 := beN_length 8 j
  have l4a : (be32 m).length = 4 := beN_length 4 m
  have l4b : (be32 p.length).length = 4 := beN_length 4 _
  unfold readFrame
  have hlen : ¬ (be64 j ++ (be32 m ++ (be32 p.length ++ (H p ++ (p ++ rest))))).length < frameHeaderSize := by
    simp [l8, l4a, l4b, hhl, frameHeaderSize]; omega
  rw [if_neg hlen]
  have t8 : (be64 j ++ (be32 m ++ (be32 p.length ++ (H p ++ (p ++ rest))))).take 8 = be64 j :=
    take_append_len _ _ _ l8
  have d8 : (be64 j ++ (be32 m ++ (be32 p.length ++ (H p ++ (p ++ rest))))).drop 8
      = be32 m ++ (be32 p.length ++ (H p ++ (p ++ rest))) := drop_append_len _ _ _ l8
  have d12 : (be64 j ++ (be32 m ++ (be32 p.length ++ (H p ++ (p ++ rest))))).drop 12
      = be32 p.length ++ (H p ++ (p ++ rest)) := by
    rw [show (12 : Nat) = 8 + 4 from rfl, ← List.drop_drop, d8, drop_append_len _ _ _ l4a]
  have d16 : (be64 j ++ (be32 m ++ (be32 p.length ++ (H p ++ (p ++ rest))))).drop 16
      = H p ++ (p ++ rest) := by
    rw [show (16 : Nat) = 12 + 4 from rfl, ← List.drop_drop, d12, drop_append_len _ _ _ l4b]
  have d48 : (be64 j ++ (be32 m ++ (be32 p.length ++ (H p ++ (p ++ rest))))).drop frameHeaderSize
      = p ++ rest := by
    rw [show frameHeaderSize = 16 + 32 from rfl, ← List.drop_drop, d16, drop_append_len _ _ _ hhl]
  rw [t8, d8, d12, d16, d48, take_append_len _ _ _ l4a, take_append_len _ _ _ l4b, take_append_len _ _ _ hhl]
  have v1 : fromBE (be64 j) = j % 18446744073709551616 := fromBE_beN 8 j
  have v2 : fromBE (be32 m) = m := fromBE_beN_of_lt 4 m (by omega)
  have v3 : fromBE (be32 p.length) = p.length := fromBE_beN_of_lt 4 _ (by omega)
  rw [v1, v2, v3]
  have c1 : ¬ (m < 1 ∨ p.length < 1 ∨ j % 18446744073709551616 ≠ j % 18446744073709551616) := by omega
  have c2 : ¬ (p ++ rest).length < p.length := by simp
  simp only [c1, c2, if_false]
  rw [take_append_len _ _ _ rfl, drop_append_len _ _ _ rfl]
  simp

theorem readFrame_nil (H : Bytes → Bytes) (j : Nat) : readFrame H j [] = .eof := by
  simp [readFrame, frameHeaderSize]

/-! ## intact shards read back as the original -/

theorem zip_replicate_false_map (hacc : List Bytes) :
    ((List.replicate hacc.length false).zip hacc).map (fun (h, s) => if h then some s else none)
      = List.replicate hacc.length (none : Option Bytes) := by
  induction hacc with
  | nil => rfl
  | cons a t ih => simp [List.replicate_succ, ih]

theorem range_map_getD {α : Type} (l : List α) (d : α) : (List.range l.length).map (fun k => l.getD k d) = l := by
  apply List.ext_getElem
  · simp
  · intro i h1 h2
    simp [List.getD_eq_getElem?_getD, List.getElem?_eq_getElem h2]

theorem stripeShards_spec (c : Cfg) (code : Code) (H : Bytes → Bytes) (wf : WF c code H) (x : Bytes) :
    (stripeShards c code x).length = c.n ∧ ∀ s ∈ stripeShards c code x, s.length = shardLen c.d x.length := by
  have hl := stripe_length c.d x
  have hs := stripe_shard_length c.d x
  obtain ⟨hp1, hp2⟩ := wf.parity_len (stripe c.d x) (shardLen c.d x.length) hl hs
  refine ⟨by simp [stripeShards, hl, hp1, Cfg.n], ?_⟩
  intro s hs'
  simp only [stripeShards, List.mem_append] at hs'
  rcases hs' with h | h
  · exact hs s h
  · exact hp2 s h

theorem shardLen_le (d m : Nat) (hd : 1 ≤ d) (hm : 1 ≤ m) : shardLen d m ≤ m := by
  unfold shardLen
  apply Nat.div_le_of_le_mul
  have : m ≤ d * m := Nat.le_mul_of_pos_left m hd
  have : d * m = m + (d - 1) * m := by
    have hd' : d = 1 + (d - 1) := by omega
    calc d * m = (1 + (d - 1)) * m := by rw [← hd']
      _ = m + (d - 1) * m := by rw [Nat.add_mul, Nat.one_mul]
  have h2 : d - 1 ≤ (d - 1) * m := Nat.le_mul_of_pos_right _ hm
  omega

/-- the readers of all shards, positioned at stripe `j`, with the stripes `xs` still to come -/
def readersAt (c : Cfg) (code : Code) (H : Bytes → Bytes) (j : Nat) (xs : List Bytes) : List (Option Bytes) :=
  (List.range c.n).map fun k => some (framesFrom c code H k j xs)

theorem loop_intact (c : Cfg) (code : Code) (H : Bytes → Bytes) (wf : WF c code H) (fix : Fix)
    (hacc : List Bytes) (hl : hacc.length = c.n) :
    ∀ (xs : List Bytes) (j fuel : Nat) (acc : Bytes),
      (∀ x ∈ xs, x ≠ [] ∧ x.length ≤ c.d * c.stripe) → xs.length < fuel →
      loop c code H fix (List.replicate c.n false) fuel j (readersAt c code H j xs) acc hacc
        = ⟨acc ++ xs.flatten, false, List.replicate c.n none, []⟩ := by
  have hn1 : 1 ≤ c.n := by have := wf.d_pos; simp [Cfg.n]; omega
  intro xs
  induction xs with
  | nil =>
    intro j fuel acc _ hf
    obtain ⟨f, rfl⟩ : ∃ f, fuel = f + 1 := ⟨fuel - 1, by simp at hf; omega⟩
    have hfrs : (readersAt c code H j []).map (Option.map (readFrame H j))
        = (List.range c.n).map fun _ => some FrameRead.eof := by
      simp [readersAt, framesFrom, readFrame_nil]
    simp only [loop, hfrs]
    have hany : (List.map (fun _ => some FrameRead.eof) (List.range c.n)).any FrameRead.seen = false := by
      simp [FrameRead.seen]
    simp only [hany, Bool.not_false, if_true, List.flatten_nil, List.append_nil]
    rw [← hl, zip_replicate_false_map]
  | cons x xs ih =>
    intro j fuel acc hxs hf
    obtain ⟨f, rfl⟩ : ∃ f, fuel = f + 1 := ⟨fuel - 1, by simp at hf; omega⟩
    have hx := hxs x List.mem_cons_self
    have hx1 : 1 ≤ x.length := by
      cases x with
      | nil => exact absurd rfl hx.1
      | cons _ _ => simp
    obtain ⟨shl, shs⟩ := stripeShards_spec c code H wf x
    have hL1 : 1 ≤ shardLen c.d x.length := shardLen_pos c.d x.length wf.d_pos hx1
    have hLle : shardLen c.d x.length ≤ x.length := shardLen_le c.d x.length wf.d_pos hx1
    have hxlt : x.length < 4294967296 := by have := wf.stripeData_lt; omega
    -- every reader delivers its frame of stripe j
    have hfrs : (readersAt c code H j (x :: xs)).map (Option.map (readFrame H j))
        = (List.range c.n).map fun k => some (FrameRead.ok x.length ((stripeShards c code x).getD k [])
            (framesFrom c code H k (j + 1) xs)) := by
      simp only [readersAt, List.map_map]
      apply List.map_congr_left
      intro k hk
      have hk' : k < (stripeShards c code x).length := by rw [shl]; exact List.mem_range.1 hk
      have hlen : ((stripeShards c code x).getD k []).length = shardLen c.d x.length := by
        apply shs
        rw [List.getD_eq_getElem?_getD, List.getElem?_eq_getElem hk']
        exact List.getElem_mem hk'
      simp only [Function.comp, framesFrom, Option.map_some]
      rw [readFrame_frame H wf.hash_len j x.length _ _ hx1 hxlt (by omega) (by omega)]
    have hshards : ((List.range c.n).map fun k => some (FrameRead.ok x.length ((stripeShards c code x).getD k [])
            (framesFrom c code H k (j + 1) xs))).map FrameRead.payload = (stripeShards c code x).map some := by
      rw [List.map_map]
      conv => rhs; rw [← range_map_getD (stripeShards c code x) []]
      rw [List.map_map, shl]
      rfl
    have hrest : ((List.range c.n).map fun k => some (FrameRead.ok x.length ((stripeShards c code x).getD k [])
            (framesFrom c code H k (j + 1) xs))).map FrameRead.rest = readersAt c code H (j + 1) xs := by
      rw [List.map_map]; rfl
    have hany : ((List.range c.n).map fun k => some (FrameRead.ok x.length ((stripeShards c code x).getD k [])
            (framesFrom c code H k (j + 1) xs))).any FrameRead.seen = true := by
      rw [List.any_eq_true]
      exact ⟨_, List.mem_map.2 ⟨0, List.mem_range.2 (by omega), rfl⟩, rfl⟩
    have hdb : (((List.range c.n).map fun k => some (FrameRead.ok x.length ((stripeShards c code x).getD k [])
            (framesFrom c code H k (j + 1) xs))).findSome? FrameRead.dataBytes).getD 0 = x.length := by
      obtain ⟨m, hm⟩ : ∃ m, c.n = m + 1 := ⟨c.n - 1, by omega⟩
      rw [hm, List.range_succ_eq_map, List.map_cons, List.findSome?_cons]
      rfl
    have havail : ¬ (((stripeShards c code x).map some).filter Option.isSome).length < c.d := by
      have : ((stripeShards c code x).map some).filter Option.isSome = (stripeShards c code x).map some := by
        apply List.filter_eq_self.2
        intro a ha; obtain ⟨b, _, rfl⟩ := List.mem_map.1 ha; rfl
      rw [this, List.length_map, shl]; simp [Cfg.n]
    have hsame : sameSizes ((stripeShards c code x).map some) = true := by
      unfold sameSizes
      have : ((stripeShards c code x).map some).filterMap id = stripeShards c code x := by
        simp [List.filterMap_map]
      rw [this]
      cases hss : stripeShards c code x with
      | nil => rfl
      | cons a t =>
        simp only [List.all_eq_true, beq_iff_eq]
        intro b hb
        rw [shs b (by rw [hss]; exact List.mem_cons_of_mem _ hb), shs a (by rw [hss]; exact List.mem_cons_self)]
    have hdata : dataOf c code ((stripeShards c code x).map some) = some (stripe c.d x) := by
      unfold dataOf
      have ht : ((stripeShards c code x).map some).take c.d = (stripe c.d x).map some := by
        rw [← List.map_take]
        congr 1
        simp [stripeShards, List.take_append_of_le_length, stripe_length]
      simp only [ht]
      have : ((stripe c.d x).map some).all Option.isSome = true := by simp
      simp [this, List.filterMap_map]
    have hhacc : ((List.range hacc.length).zip hacc).map (fun (k, s) =>
          if (List.replicate c.n false).getD k false then
            s ++ frame H j x.length (healPayload c code fix ((stripeShards c code x).map some) (stripe c.d x) k)
          else s) = hacc := by
      have : ∀ k, (List.replicate c.n false).getD k false = false := by
        intro k; simp [List.getD_eq_getElem?_getD, List.getElem?_replicate]
        split <;> rfl
      simp only [this, Bool.false_eq_true, if_false]
      exact List.map_snd_zip (by simp)
    rw [loop]
    simp only [hfrs, hany, hshards, hrest, hdb, havail, hsame, hdata, hhacc, Bool.not_true, Bool.false_eq_true, if_false]
    rw [unstripe_stripe c.d x wf.d_pos]
    have := ih (j + 1) f (acc ++ x) (fun y hy => hxs y (List.mem_cons_of_mem _ hy))
      (by simp at hf; omega)
    rw [this]
    simp [List.append_assoc]

theorem frame_length_ge (H : Bytes → Bytes) (hH : ∀ x, (H x).length = 32) (j m : Nat) (p : Bytes) :
    frameHeaderSize ≤ (frame H j m p).length := by
  simp [frame, frameHeader_length H hH]

theorem framesFrom_length_ge (c : Cfg) (code : Code) (H : Bytes → Bytes) (hH : ∀ x, (H x).length = 32) (k : Nat) :
    ∀ (xs : List Bytes) (j : Nat), frameHeaderSize * xs.length ≤ (framesFrom c code H k j xs).length := by
  intro xs
  induction xs with
  | nil => intro j; simp [framesFrom]
  | cons x xs ih =>
    intro j
    simp only [framesFrom, List.length_append, List.length_cons]
    have h1 := frame_length_ge H hH j x.length ((stripeShards c code x).getD k [])
    have h2 := ih (j + 1)
    rw [Nat.mul_succ]; omega

theorem fuelFor_readersAt (c : Cfg) (code : Code) (H : Bytes → Bytes) (wf : WF c code H) (xs : List Bytes) :
    xs.length < fuelFor (readersAt c code H 0 xs) := by
  have hn1 : 1 ≤ c.n := by have := wf.d_pos; simp [Cfg.n]; omega
  obtain ⟨m, hm⟩ : ∃ m, c.n = m + 1 := ⟨c.n - 1, by omega⟩
  unfold fuelFor readersAt
  rw [hm, List.range_succ_eq_map]
  simp only [List.map_cons, List.map_map, Option.map_some, Option.getD_some, List.sum_cons]
  have h0 := framesFrom_length_ge c code H wf.hash_len 0 xs 0
  have : xs.length ≤ ((framesFrom c code H 0 0 xs).length +
      (List.map ((fun r => (Option.map List.length r).getD 0) ∘ (fun k => some (framesFrom c code H k 0 xs)) ∘ Nat.succ)
        (List.range m)).sum) / frameHeaderSize := by
    rw [Nat.le_div_iff_mul_le (by decide)]
    rw [Nat.mul_comm]; omega
  exact Nat.lt_of_le_of_lt this (Nat.lt_add_of_pos_right (by decide))

/-- **read_intact.** If every shard store returns the stream that `PutPart` wrote for the part, `GetPart`
returns exactly the part — for every content, every `d ≥ 1`, `p` and stripe size —
and heals nothing. -/
theorem read_intact (c : Cfg) (code : Code) (H : Bytes → Bytes) (wf : WF c code H) (fix : Fix) (b : Bytes) :
    read c code H fix ((List.range c.n).map fun k => some (shardStream c code H k b))
      = .result ⟨b, false, List.replicate c.n none, []⟩ := by
  have hn1 : 1 ≤ c.n := by have := wf.d_pos; simp [Cfg.n]; omega
  have hds : 0 < c.d * c.stripe := Nat.mul_pos wf.d_pos (by have := wf.stripe_ge; omega)
  unfold read
  have hall : ((List.range c.n).map fun k => some (shardStream c code H k b)).all Option.isNone = false := by
    rw [List.all_eq_false]
    exact ⟨_, List.mem_map.2 ⟨0, List.mem_range.2 (by omega), rfl⟩, by simp⟩
  simp only [hall, Bool.and_false, Bool.false_eq_true, if_false, List.length_map, List.length_range]
  have hreaders : (List.zip (List.range c.n) ((List.range c.n).map fun k => some (shardStream c code H k b))).map
        (fun (k, s) => openShard c k s) = readersAt c code H 0 (stripesOf c b) := by
    rw [List.zip_map_right, List.map_map]
    have : List.zip (List.range c.n) (List.range c.n) = (List.range c.n).map fun k => (k, k) := by
      rw [List.zip_eq_zipWith, List.zipWith_self]
    rw [this, List.map_map]
    unfold readersAt
    apply List.map_congr_left
    intro k hk
    simp only [Function.comp, Prod.map, id]
    exact openShard_stream c code H wf k (List.mem_range.1 hk) _
  rw [hreaders]
  have hopen : ¬ ((readersAt c code H 0 (stripesOf c b)).filter Option.isSome).length < c.d := by
    have : (readersAt c code H 0 (stripesOf c b)).filter Option.isSome = readersAt c code H 0 (stripesOf c b) := by
      apply List.filter_eq_self.2
      intro a ha
      unfold readersAt at ha
      obtain ⟨k, _, rfl⟩ := List.mem_map.1 ha
      rfl
    rw [this]; simp [readersAt, Cfg.n]
  simp only [hopen, decide_false, Bool.and_false, Bool.false_eq_true, if_false]
  have hheal : (readersAt c code H 0 (stripesOf c b)).map Option.isNone = List.replicate c.n false := by
    unfold readersAt
    rw [List.map_map]
    apply List.ext_getElem
    · simp
    · intro i h1 h2; simp
  have hlen : (readersAt c code H 0 (stripesOf c b)).length = c.n := by simp [readersAt]
  rw [hheal]
  simp only [List.length_zip, List.length_range, List.length_map, Nat.min_self]
  have hstr : ∀ x ∈ stripesOf c b, x ≠ [] ∧ x.length ≤ c.d * c.stripe :=
    fun x hx => chunks_mem _ b hds x hx
  rw [loop_intact c code H wf fix _ (by simp) (stripesOf c b) 0 _ [] hstr (fuelFor_readersAt c code H wf _)]
  have : (stripesOf c b).flatten = b := concat_chunks _ b
  simp [this]

/-- **read_absent.** None of the shards exists. As the code is, `GetPart` does not answer not-found: it
"heals" — writes the shard streams of the EMPTY part to every shard store — and returns an empty
stream. With the repair it answers not-found and writes nothing. -/
theorem read_absent (c : Cfg) (code : Code) (H : Bytes → Bytes) (fix : Fix) :
    read c code H fix (List.replicate c.n none) =
      if fix.notFoundWhenAllMissing then .notFound
      else if fix.failWhenTooFewOpen && decide (0 < c.d) then .result ⟨[], true, List.replicate c.n none, []⟩
      else .result ⟨[], false, (List.range c.n).map (fun k => some (shardStream c code H k [])), []⟩ := by
  unfold read
  have hall : (List.replicate c.n (none : Option Bytes)).all Option.isNone = true := by simp
  by_cases hf : fix.notFoundWhenAllMissing = true
  · simp [hf, hall]
  · have hf' : fix.notFoundWhenAllMissing = false := by simpa using hf
    simp only [hf', Bool.false_and, Bool.false_eq_true, if_false, List.length_replicate]
    have hreaders : (List.zip (List.range c.n) (List.replicate c.n (none : Option Bytes))).map
          (fun (k, s) => openShard c k s) = List.replicate c.n none := by
      apply List.ext_getElem
      · simp
      · intro i h1 h2; simp [openShard]
    rw [hreaders]
    have hnone : ((List.replicate c.n (none : Option Bytes)).filter Option.isSome).length = 0 := by simp
    rw [hnone]
    by_cases hg : (fix.failWhenTooFewOpen && decide (0 < c.d)) = true
    · simp [hg]
    simp only [hg, Bool.false_eq_true, if_false]
    have hstream : ∀ k, shardStream c code H k [] = shardHeader c k := by
      intro k; simp [shardStream, stripesOf, chunks_nil, framesFrom]
    simp only [List.map_replicate, Option.isNone_none, List.length_replicate, hstream]
    have hfuel : fuelFor (List.replicate c.n (none : Option Bytes)) = 2 := by
      simp [fuelFor, frameHeaderSize]
    rw [hfuel]
    simp only [loop, List.map_replicate, Option.map_none]
    have hany : (List.replicate c.n (none : Option FrameRead)).any FrameRead.seen = false := by
      simp [FrameRead.seen]
    simp only [hany, Bool.not_false, if_true]
    congr 1
    congr 1
    apply List.ext_getElem
    · simp
    · intro i h1 h2; simp

end Pithos.EC
