/-
What the healing read writes back (helper for C17): when no shard lies and enough shards are intact, the
stream written to every DATA shard that is being healed is exactly the stream `PutPart` wrote for it;
with the repaired heal path (`fix.healParity`) and a code that recomputes whole codewords, the same
holds for parity shards.
-/
import Pithos.Lemmas.ErasureCodingFaults

namespace Pithos.EC
open Pithos.Codec

/-- the code recomputes the whole codeword from any `d` true shards (needed by the repaired heal path only) -/
structure MDSAll (c : Cfg) (code : Code) : Prop where
  reconstructAll_ok : ∀ (data : List Bytes) (L : Nat) (avail : List (Option Bytes)),
    data.length = c.d → (∀ x ∈ data, x.length = L) → avail.length = c.n →
    (∀ k, k < c.n → avail.getD k none = none ∨ avail.getD k none = some ((data ++ code.parity c.d c.p data).getD k [])) →
    c.d ≤ (avail.filter Option.isSome).length →
    code.reconstructAll c.d c.p avail = some (data ++ code.parity c.d c.p data)

/-- which shards get their true payload in a heal frame -/
def HealsTruly (c : Cfg) (code : Code) (fix : Fix) (k : Nat) : Prop :=
  k < c.d ∨ (fix.healParity = true ∧ MDSAll c code)

theorem healPayload_true (c : Cfg) (code : Code) (H : Bytes → Bytes) (wf : WF c code H) (fix : Fix) (x : Bytes)
    (avail : List (Option Bytes)) (h : TrueOrNone (stripeShards c code x) avail)
    (hcount : c.d ≤ (avail.filter Option.isSome).length) (k : Nat) (hk : k < c.n) (ht : HealsTruly c code fix k) :
    healPayload c code fix avail (stripe c.d x) k = truePayload c code x k := by
  obtain ⟨shl, shs⟩ := stripeShards_spec c code H wf x
  unfold healPayload truePayload
  by_cases hkd : k < c.d
  · rw [if_pos hkd]
    simp only [stripeShards]
    rw [List.getD_eq_getElem?_getD, List.getD_eq_getElem?_getD, List.getElem?_append_left (by rw [stripe_length]; exact hkd)]
  · rw [if_neg hkd]
    rcases h.2 k (by rw [shl]; exact hk) with h1 | h1
    · rw [h1]
      rcases ht with ht | ⟨hf, hall⟩
      · exact absurd ht hkd
      · simp only [hf, if_true]
        have := hall.reconstructAll_ok (stripe c.d x) (shardLen c.d x.length) avail (stripe_length c.d x)
          (stripe_shard_length c.d x) (by rw [h.1, shl])
          (fun k' hk' => by have := h.2 k' (by rw [shl]; exact hk'); simpa [stripeShards] using this) hcount
        rw [this]
        rfl
    · rw [h1]

/-- the heal accumulators after one stripe -/
def haccNext (c : Cfg) (code : Code) (H : Bytes → Bytes) (fix : Fix) (healing : List Bool) (j : Nat) (x : Bytes)
    (avail : List (Option Bytes)) (hacc : List Bytes) : List Bytes :=
  (List.zip (List.range hacc.length) hacc).map fun (k, s) =>
    if healing.getD k false then s ++ frame H j x.length (healPayload c code fix avail (stripe c.d x) k) else s

theorem haccNext_length (c : Cfg) (code : Code) (H : Bytes → Bytes) (fix : Fix) (healing : List Bool) (j : Nat) (x : Bytes)
    (avail : List (Option Bytes)) (hacc : List Bytes) : (haccNext c code H fix healing j x avail hacc).length = hacc.length := by
  simp [haccNext]

theorem haccNext_getD (c : Cfg) (code : Code) (H : Bytes → Bytes) (fix : Fix) (healing : List Bool) (j : Nat) (x : Bytes)
    (avail : List (Option Bytes)) (hacc : List Bytes) (k : Nat) (hk : k < hacc.length) :
    (haccNext c code H fix healing j x avail hacc).getD k [] =
      if healing.getD k false then hacc.getD k [] ++ frame H j x.length (healPayload c code fix avail (stripe c.d x) k)
      else hacc.getD k [] := by
  unfold haccNext
  simp [List.getD_eq_getElem?_getD, List.getElem?_map, List.getElem?_zip_eq_some, hk, List.getElem?_eq_getElem hk]

/-- One stripe of the loop with honest readers, an intact one among them and at least `d` available
shards: the loop continues with the next stripe, the true stripe appended to the output. -/
theorem loop_step (c : Cfg) (code : Code) (H : Bytes → Bytes) (wf : WF c code H) (mds : MDS c code) (fix : Fix)
    (healing : List Bool) (x : Bytes) (xs : List Bytes) (j f : Nat) (readers : List (Option Bytes)) (acc : Bytes) (hacc : List Bytes)
    (hs : StripesOK c (x :: xs)) (hlen : readers.length = c.n)
    (hok : ∀ k, k < c.n → ReaderOK c code H k j (x :: xs) (readers.getD k none))
    (hk0 : ∃ k0, k0 < c.n ∧ readers.getD k0 none = some (framesFrom c code H k0 j (x :: xs)))
    (hcnt : c.d ≤ intactCount c code H j (x :: xs) readers) :
    loop c code H fix healing (f + 1) j readers acc hacc =
      loop c code H fix healing f (j + 1) ((readers.map (Option.map (readFrame H j))).map FrameRead.rest) (acc ++ x)
        (haccNext c code H fix healing j x ((readers.map (Option.map (readFrame H j))).map FrameRead.payload) hacc) ∧
    TrueOrNone (stripeShards c code x) ((readers.map (Option.map (readFrame H j))).map FrameRead.payload) ∧
    c.d ≤ (((readers.map (Option.map (readFrame H j))).map FrameRead.payload).filter Option.isSome).length ∧
    ((readers.map (Option.map (readFrame H j))).map FrameRead.rest).length = c.n ∧
    (∀ k, k < c.n → ReaderOK c code H k (j + 1) xs (((readers.map (Option.map (readFrame H j))).map FrameRead.rest).getD k none)) ∧
    (∃ k0, k0 < c.n ∧ ((readers.map (Option.map (readFrame H j))).map FrameRead.rest).getD k0 none
        = some (framesFrom c code H k0 (j + 1) xs)) ∧
    c.d ≤ intactCount c code H (j + 1) xs ((readers.map (Option.map (readFrame H j))).map FrameRead.rest) := by
  obtain ⟨k0, hk0n, hk0⟩ := hk0
  have hx := hs x List.mem_cons_self
  obtain ⟨shl, shs⟩ := stripeShards_spec c code H wf x
  have hfrsD : ∀ k, (readers.map (Option.map (readFrame H j))).getD k none = (readers.getD k none).map (readFrame H j) :=
    fun k => getD_map_opt readers _ rfl k
  have hstep : ∀ k, k < c.n → _ := fun k hk => step_reader c code H k j x xs (readers.getD k none) (hok k hk)
  have hk0f : (readers.getD k0 none).map (readFrame H j)
      = some (.ok x.length (truePayload c code x k0) (framesFrom c code H k0 (j + 1) xs)) := by
    rw [hk0]
    simp only [framesFrom, Option.map_some]
    exact congrArg some (readFrame_true c code H wf k0 hk0n j x hx _)
  have hk0lt : k0 < (readers.map (Option.map (readFrame H j))).length := by simp [hlen]; exact hk0n
  have hk0mem : (readers.getD k0 none).map (readFrame H j) ∈ readers.map (Option.map (readFrame H j)) := by
    rw [← hfrsD k0, List.getD_eq_getElem?_getD, List.getElem?_eq_getElem hk0lt]
    exact List.getElem_mem hk0lt
  have hany : (readers.map (Option.map (readFrame H j))).any FrameRead.seen = true := by
    rw [List.any_eq_true]
    exact ⟨_, hk0mem, by rw [hk0f]; rfl⟩
  have htrue : TrueOrNone (stripeShards c code x) ((readers.map (Option.map (readFrame H j))).map FrameRead.payload) := by
    refine ⟨by simp [hlen, shl], fun k hk => ?_⟩
    rw [shl] at hk
    rw [getD_map_opt _ _ rfl k, hfrsD k]
    exact (hstep k hk).1
  have hdb : ((readers.map (Option.map (readFrame H j))).findSome? FrameRead.dataBytes).getD 0 = x.length := by
    cases hfs : (readers.map (Option.map (readFrame H j))).findSome? FrameRead.dataBytes with
    | none =>
      rw [List.findSome?_eq_none_iff] at hfs
      have := hfs _ hk0mem
      rw [hk0f] at this
      cases this
    | some db =>
      obtain ⟨o, ho, hod⟩ := List.exists_of_findSome?_eq_some hfs
      obtain ⟨k, hk, hko⟩ := List.getElem_of_mem ho
      have hkn : k < c.n := by simpa [hlen] using hk
      have hok' := (hstep k hkn).2.2 db
      rw [← hfrsD k, List.getD_eq_getElem?_getD, List.getElem?_eq_getElem hk, hko] at hok'
      simp only [Option.getD_some] at hok'
      simp [hok' hod]
  have hsame : sameSizes ((readers.map (Option.map (readFrame H j))).map FrameRead.payload) = true :=
    sameSizes_of_true _ _ _ shs htrue
  have hintact' : ∀ k, k < c.n → readers.getD k none = some (framesFrom c code H k j (x :: xs)) →
      ((readers.map (Option.map (readFrame H j))).map FrameRead.rest).getD k none = some (framesFrom c code H k (j + 1) xs) := by
    intro k hk hi
    rw [getD_map_opt _ _ rfl k, hfrsD k, hi]
    simp only [framesFrom, Option.map_some]
    have := readFrame_true c code H wf k hk j x hx (framesFrom c code H k (j + 1) xs)
    unfold truePayload at this
    rw [this]; rfl
  have hcount : intactCount c code H j (x :: xs) readers
      ≤ (((readers.map (Option.map (readFrame H j))).map FrameRead.payload).filter Option.isSome).length := by
    apply available_ge c.n _ (by simp [hlen])
    intro k hk hq
    simp only [intactAt, decide_eq_true_eq] at hq
    rw [getD_map_opt _ _ rfl k, hfrsD k, hq]
    simp only [framesFrom, Option.map_some]
    have := readFrame_true c code H wf k hk j x hx (framesFrom c code H k (j + 1) xs)
    unfold truePayload at this
    rw [this]; rfl
  have hcount' : intactCount c code H j (x :: xs) readers
      ≤ intactCount c code H (j + 1) xs ((readers.map (Option.map (readFrame H j))).map FrameRead.rest) := by
    apply List.countP_mono_left
    intro k hk hq
    simp only [intactAt, decide_eq_true_eq] at hq ⊢
    exact hintact' k (List.mem_range.1 hk) hq
  have hav : ¬ (((readers.map (Option.map (readFrame H j))).map FrameRead.payload).filter Option.isSome).length < c.d := by omega
  refine ⟨?_, htrue, by omega, by simp [hlen], ?_, ⟨k0, hk0n, hintact' k0 hk0n hk0⟩, by omega⟩
  · rw [loop]
    simp only [hany, Bool.not_true, Bool.false_eq_true, if_false, hdb, hsame, hav]
    rw [dataOf_true c code H wf mds x _ htrue (by omega)]
    simp only
    rw [unstripe_stripe c.d x wf.d_pos]
    rfl
  · intro k hk
    rw [getD_map_opt _ _ rfl k, hfrsD k]
    exact (hstep k hk).2.1

theorem getD_map_bool (l : List (Option Bytes)) (k : Nat) (hk : k < l.length) :
    (l.map Option.isNone).getD k false = (l.getD k none).isNone := by
  simp only [List.getD_eq_getElem?_getD, List.getElem?_map, List.getElem?_eq_getElem hk, Option.map_some, Option.getD_some]

theorem zip_flags_getD (healing : List Bool) (hacc : List Bytes) (k : Nat) (h1 : k < healing.length) (h2 : k < hacc.length) :
    ((List.zip healing hacc).map fun (h, s) => if h then some s else none).getD k none
      = if healing.getD k false then some (hacc.getD k []) else none := by
  have hz : k < (List.zip healing hacc).length := by simp; omega
  simp only [List.getD_eq_getElem?_getD, List.getElem?_map, List.getElem?_eq_getElem hz, List.getElem_zip,
    List.getElem?_eq_getElem h1, List.getElem?_eq_getElem h2, Option.map_some, Option.getD_some]

/-- **heal streams.** Honest readers, at least `d` of them intact: the loop does not fail, and what it has
written to the heal writer of shard `k` when it ends is the accumulator's start followed by the TRUE
frames of shard `k` — for every data shard (and for parity shards with the repaired heal path). -/
theorem loop_heals (c : Cfg) (code : Code) (H : Bytes → Bytes) (wf : WF c code H) (mds : MDS c code) (fix : Fix)
    (healing : List Bool) (hhl : healing.length = c.n) :
    ∀ (xs : List Bytes) (j fuel : Nat) (readers : List (Option Bytes)) (acc : Bytes) (hacc : List Bytes),
      StripesOK c xs → readers.length = c.n → hacc.length = c.n →
      (∀ k, k < c.n → ReaderOK c code H k j xs (readers.getD k none)) →
      (∃ k0, k0 < c.n ∧ readers.getD k0 none = some (framesFrom c code H k0 j xs)) →
      xs.length < fuel → c.d ≤ intactCount c code H j xs readers →
      ∀ k, k < c.n → healing.getD k false = true → HealsTruly c code fix k →
        (loop c code H fix healing fuel j readers acc hacc).heals.getD k none
          = some (hacc.getD k [] ++ framesFrom c code H k j xs) := by
  intro xs
  induction xs with
  | nil =>
    intro j fuel readers acc hacc _ hlen hal hok _ hf _ k hk hheal _
    obtain ⟨f, rfl⟩ : ∃ f, fuel = f + 1 := ⟨fuel - 1, by simp at hf; omega⟩
    have hany : (readers.map (Option.map (readFrame H j))).any FrameRead.seen = false := by
      rw [List.any_eq_false]
      intro o ho
      obtain ⟨r, hr, rfl⟩ := List.mem_map.1 ho
      obtain ⟨i, hi, hir⟩ := List.getElem_of_mem hr
      have := hok i (hlen ▸ hi)
      rw [List.getD_eq_getElem?_getD, List.getElem?_eq_getElem hi, hir] at this
      cases r with
      | none => simp [FrameRead.seen]
      | some b =>
        simp only [Option.getD_some, ReaderOK, HonestFrom] at this
        simp [FrameRead.seen, this]
    rw [loop]
    simp only [hany, Bool.not_false, if_true, framesFrom, List.append_nil]
    rw [zip_flags_getD healing hacc k (by omega) (by omega), hheal]
    rfl
  | cons x xs ih =>
    intro j fuel readers acc hacc hs hlen hal hok hk0 hf hcnt k hk hheal ht
    obtain ⟨f, rfl⟩ : ∃ f, fuel = f + 1 := ⟨fuel - 1, by simp at hf; omega⟩
    obtain ⟨hstep, htrue, hav, hlen', hok', hk0', hcnt'⟩ :=
      loop_step c code H wf mds fix healing x xs j f readers acc hacc hs hlen hok hk0 hcnt
    rw [hstep]
    have hs' : StripesOK c xs := fun y hy => hs y (List.mem_cons_of_mem _ hy)
    rw [ih (j + 1) f _ (acc ++ x) _ hs' hlen' (by rw [haccNext_length]; exact hal) hok' hk0' (by simp at hf; omega) hcnt' k hk hheal ht]
    rw [haccNext_getD _ _ _ _ _ _ _ _ _ k (by omega), hheal]
    simp only [if_true, framesFrom, List.append_assoc]
    rw [healPayload_true c code H wf fix x _ htrue hav k hk ht]
    rfl

/-- **read_heals.** No shard lies, at least `d` shards are intact: every shard that could not be opened
(missing, or its shard header unusable) and is a data shard — or any shard, with the repaired heal path —
is rewritten with exactly the stream `PutPart` wrote for it. -/
theorem read_heals (c : Cfg) (code : Code) (H : Bytes → Bytes) (wf : WF c code H) (mds : MDS c code) (fix : Fix)
    (b : Bytes) (streams : List (Option Bytes)) (hlen : streams.length = c.n)
    (hon : ∀ k, k < c.n → ShardHonest c code H b k (streams.getD k none))
    (hfew : c.d ≤ (List.range c.n).countP (shardIntact c code H b streams)) :
    ∃ r, read c code H fix streams = .result r ∧
      ∀ k, k < c.n → openShard c k (streams.getD k none) = none → HealsTruly c code fix k →
        r.heals.getD k none = some (shardStream c code H k b) := by
  -- an intact shard exists
  have hpos : 0 < (List.range c.n).countP (shardIntact c code H b streams) := Nat.lt_of_lt_of_le wf.d_pos hfew
  rw [List.countP_pos_iff] at hpos
  obtain ⟨k0, hk0r, hq⟩ := hpos
  have hk0n := List.mem_range.1 hk0r
  simp only [shardIntact, decide_eq_true_eq] at hq
  have hk0lt : k0 < streams.length := hlen ▸ hk0n
  have hmem0 : streams.getD k0 none ∈ streams := by
    rw [List.getD_eq_getElem?_getD, List.getElem?_eq_getElem hk0lt]; exact List.getElem_mem hk0lt
  have hall : streams.all Option.isNone = false := by
    rw [List.all_eq_false]
    exact ⟨_, hmem0, by rw [hq]; simp⟩
  unfold read
  simp only [hall, Bool.and_false, Bool.false_eq_true, if_false]
  have hg : ¬ (((List.zip (List.range streams.length) streams).map fun (k, s) => openShard c k s).filter Option.isSome).length < c.d :=
    Nat.not_lt.2 (Nat.le_trans hfew (open_ge_intact c code H wf b streams hlen))
  simp only [hg, decide_false, Bool.and_false, Bool.false_eq_true, if_false]
  refine ⟨_, rfl, ?_⟩
  have hrl : ((List.zip (List.range streams.length) streams).map fun (k, s) => openShard c k s).length = c.n := by
    simp [hlen]
  have hrD : ∀ k, k < c.n →
      ((List.zip (List.range streams.length) streams).map fun (k, s) => openShard c k s).getD k none
        = openShard c k (streams.getD k none) := by
    intro k hk
    have hk' : k < streams.length := hlen ▸ hk
    simp [List.getD_eq_getElem?_getD, List.getElem?_map, List.getElem?_zip_eq_some, hk', List.getElem?_eq_getElem hk']
  have hok : ∀ k, k < c.n → ReaderOK c code H k 0 (stripesOf c b)
      (((List.zip (List.range streams.length) streams).map fun (k, s) => openShard c k s).getD k none) := by
    intro k hk; rw [hrD k hk]; exact hon k hk
  have hopen0 : ((List.zip (List.range streams.length) streams).map fun (k, s) => openShard c k s).getD k0 none
      = some (framesFrom c code H k0 0 (stripesOf c b)) := by
    rw [hrD k0 hk0n, hq]
    exact openShard_stream c code H wf k0 hk0n _
  have hfuel : (stripesOf c b).length < fuelFor ((List.zip (List.range streams.length) streams).map fun (k, s) => openShard c k s) := by
    unfold fuelFor
    have hmemr : (some (framesFrom c code H k0 0 (stripesOf c b)))
        ∈ (List.zip (List.range streams.length) streams).map fun (k, s) => openShard c k s := by
      rw [← hopen0, List.getD_eq_getElem?_getD, List.getElem?_eq_getElem (hrl ▸ hk0n)]
      exact List.getElem_mem _
    have hsum := le_sum_of_mem _ _ (List.mem_map.2 ⟨_, hmemr, rfl⟩ :
      (framesFrom c code H k0 0 (stripesOf c b)).length ∈
        ((List.zip (List.range streams.length) streams).map fun (k, s) => openShard c k s).map
          fun r => (r.map List.length).getD 0)
    have hge := framesFrom_length_ge c code H wf.hash_len k0 (stripesOf c b) 0
    have : (stripesOf c b).length ≤ (((List.zip (List.range streams.length) streams).map fun (k, s) => openShard c k s).map
          fun r => (r.map List.length).getD 0).sum / frameHeaderSize := by
      rw [Nat.le_div_iff_mul_le (by decide), Nat.mul_comm]; omega
    exact Nat.lt_of_le_of_lt this (Nat.lt_add_of_pos_right (by decide))
  have hcnt : c.d ≤ intactCount c code H 0 (stripesOf c b)
      ((List.zip (List.range streams.length) streams).map fun (k, s) => openShard c k s) := by
    refine Nat.le_trans hfew (List.countP_mono_left fun k hk hq' => ?_)
    simp only [shardIntact, decide_eq_true_eq] at hq'
    simp only [intactAt, decide_eq_true_eq]
    have hk' := List.mem_range.1 hk
    rw [hrD k hk', hq']
    exact openShard_stream c code H wf k hk' _
  intro k hk hnone ht
  have main := loop_heals c code H wf mds fix
    (((List.zip (List.range streams.length) streams).map fun (k, s) => openShard c k s).map Option.isNone)
    (by simp [hlen]) (stripesOf c b) 0 _ _ []
    ((List.range ((List.zip (List.range streams.length) streams).map fun (k, s) => openShard c k s).length).map
      fun k => shardHeader c k)
    (stripesOK_stripesOf c code H wf b) hrl (by simp [hlen]) hok ⟨k0, hk0n, hopen0⟩ hfuel hcnt k hk
    (by
      rw [getD_map_bool _ k (by rw [hrl]; exact hk), hrD k hk, hnone]; rfl)
    ht
  rw [main]
  unfold shardStream
  congr 2
  simp [List.getD_eq_getElem?_getD, List.getElem?_map, List.getElem?_range, hlen, hk]

end Pithos.EC
