/-
Helper lemmas for C26/C27 (audit log): injectivity of the length-prefixed encoding, the abstract
hash-chain theory, and what an accepting validator run establishes. Core Lean only.
-/
import Pithos.Model.AuditLog
namespace Pithos.AuditLog

theorem be32_length (n : Nat) : (be32 n).length = 4 := rfl

theorem ofNat_inj256 {a b : Nat} (h : UInt8.ofNat a = UInt8.ofNat b) : a % 256 = b % 256 := by
  have := congrArg UInt8.toNat h
  simpa [UInt8.toNat_ofNat'] using this

theorem be32_inj {n m : Nat} (hn : n < 4294967296) (hm : m < 4294967296) (h : be32 n = be32 m) : n = m := by
  simp only [be32, List.cons.injEq, and_true] at h
  obtain ⟨h1, h2, h3, h4⟩ := h
  have := ofNat_inj256 h1
  have := ofNat_inj256 h2
  have := ofNat_inj256 h3
  have := ofNat_inj256 h4
  omega

/-- One field is self-delimiting. -/
theorem encField_inj {w : Nat} {a b t1 t2 : Bytes} (ha : wfField w a = true) (hb : wfField w b = true)
    (h : encField w a ++ t1 = encField w b ++ t2) : a = b ∧ t1 = t2 := by
  unfold encField at h
  unfold wfField at ha hb
  by_cases hw : w = 0
  · simp only [hw, if_true, decide_eq_true_eq] at h ha hb
    rw [List.append_assoc, List.append_assoc] at h
    have h1 := List.append_inj h (by simp [be32_length])
    have hl := be32_inj ha hb h1.1
    exact List.append_inj h1.2 hl
  · simp only [hw, if_false, beq_iff_eq] at h ha hb
    exact List.append_inj h (by omega)

theorem wf_cons {f : String} {w : Nat} {s : Spec} {r : Rec} :
    wf ((f, w) :: s) r = true ↔ wfField w (get r f) = true ∧ wf s r = true := by
  simp [wf]

/-- The field-list encoding is injective (and prefix-free): equal encodings followed by arbitrary
tails have equal fields and equal tails. -/
theorem encFields_inj (s : Spec) (r1 r2 : Rec) (t1 t2 : Bytes)
    (h1 : wf s r1 = true) (h2 : wf s r2 = true)
    (h : encFields s r1 ++ t1 = encFields s r2 ++ t2) :
    (∀ p ∈ s, get r1 p.1 = get r2 p.1) ∧ t1 = t2 := by
  induction s generalizing t1 t2 with
  | nil => simpa [encFields] using h
  | cons p s ih =>
    obtain ⟨f, w⟩ := p
    rw [wf_cons] at h1 h2
    simp only [encFields, List.append_assoc] at h
    obtain ⟨hf, hrest⟩ := encField_inj h1.1 h2.1 h
    obtain ⟨hall, ht⟩ := ih t1 t2 h1.2 h2.2 hrest
    refine ⟨?_, ht⟩
    intro p hp
    rcases List.mem_cons.1 hp with rfl | hp
    · exact hf
    · exact hall p hp

theorem wf_append {s1 s2 : Spec} {r : Rec} : wf (s1 ++ s2) r = true ↔ wf s1 r = true ∧ wf s2 r = true := by
  simp [wf, List.all_append]

/-- Side conditions on a table of `CalculateHash`: Version and Type are written before the details
(they select the detail fields) and at most one field is written raw without a length, last. -/
structure TablesOK (T : Tables) : Prop where
  version_pre : "Version" ∈ T.pre.map (·.1)
  type_pre : "Type" ∈ T.pre.map (·.1)
  tail_le : T.tail.length ≤ 1

def wfH (T : Tables) (r : Rec) : Bool := wf (specOf T r) r

theorem mem_names {s : Spec} {f : String} (h : f ∈ s.map (·.1)) : ∃ p ∈ s, p.1 = f := by
  simpa using h

/-- **The hashed encoding is injective.** Two well-formed records with the same hash input agree on
every field the hash covers (and have the same version and kind, hence the same field list). -/
theorem hashInput_inj (T : Tables) (ok : TablesOK T) (r1 r2 : Rec)
    (w1 : wfH T r1 = true) (w2 : wfH T r2 = true) (h : hashInput T r1 = hashInput T r2) :
    hashedNames T r1 = hashedNames T r2 ∧ ∀ f ∈ hashedNames T r1, get r1 f = get r2 f := by
  unfold wfH specOf at w1 w2
  rw [wf_append] at w1 w2
  unfold hashInput at h
  obtain ⟨hpre, hrest⟩ := encFields_inj T.pre r1 r2 _ _ w1.1 w2.1 h
  have hv : get r1 "Version" = get r2 "Version" := by
    obtain ⟨p, hp, hpn⟩ := mem_names ok.version_pre
    have := hpre p hp
    rwa [hpn] at this
  have ht : get r1 "Type" = get r2 "Type" := by
    obtain ⟨p, hp, hpn⟩ := mem_names ok.type_pre
    have := hpre p hp
    rwa [hpn] at this
  have hver : version r1 = version r2 := by unfold version; rw [hv]
  have hkind : kind T r1 = kind T r2 := by unfold kind; rw [ht]
  rw [← hver, ← hkind] at hrest w2
  obtain ⟨hdet, htail⟩ := encFields_inj _ r1 r2 _ _ w1.2 w2.2 hrest
  refine ⟨by unfold hashedNames specOf; rw [hver, hkind], ?_⟩
  intro f hf
  unfold hashedNames specOf at hf
  rw [List.mem_append, List.map_append, List.mem_append] at hf
  rcases hf with (hf | hf) | hf
  · obtain ⟨p, hp, hpn⟩ := mem_names hf
    have := hpre p hp
    rwa [hpn] at this
  · obtain ⟨p, hp, hpn⟩ := mem_names hf
    have := hdet p hp
    rwa [hpn] at this
  · have hl := ok.tail_le
    match hT : T.tail, hl, hf with
    | [g], _, hf =>
      have : f = g := by simpa using hf
      subst this
      simpa [tailBytes, hT] using htail

/-! ### records -/

theorem get_set (r : Rec) (f g : String) (v : Bytes) :
    get (set r f v) g = if g = f then v else get r g := by
  unfold get set
  by_cases h : g = f
  · subst h; simp [List.lookup]
  · have : (g == f) = false := by simpa using h
    simp [List.lookup, this, h]

theorem get_set_ne (r : Rec) {f g : String} (v : Bytes) (h : g ≠ f) : get (set r f v) g = get r g := by
  rw [get_set]; simp [h]

theorem get_set_eq (r : Rec) (f : String) (v : Bytes) : get (set r f v) f = v := by
  rw [get_set]; simp

theorem encFields_congr (s : Spec) (r1 r2 : Rec) (h : ∀ p ∈ s, get r1 p.1 = get r2 p.1) :
    encFields s r1 = encFields s r2 := by
  induction s with
  | nil => rfl
  | cons p s ih =>
    obtain ⟨f, w⟩ := p
    simp only [encFields]
    rw [h (f, w) (by simp), ih (fun p hp => h p (by simp [hp]))]

/-- **A field outside the hashed list does not influence the hash input** (the converse of
injectivity: this is exactly where tamper evidence fails for a field the code forgot to hash). -/
theorem hashInput_set_unhashed (T : Tables) (r : Rec) (f : String) (v : Bytes)
    (hv : f ≠ "Version") (ht : f ≠ "Type") (hf : f ∉ hashedNames T r) :
    hashInput T (set r f v) = hashInput T r := by
  have hver : version (set r f v) = version r := by
    unfold version; rw [get_set_ne r v (Ne.symm hv)]
  have hkind : kind T (set r f v) = kind T r := by
    unfold kind; rw [get_set_ne r v (Ne.symm ht)]
  unfold hashedNames specOf at hf
  simp only [List.mem_append, List.map_append, not_or] at hf
  unfold hashInput
  rw [hver, hkind]
  have e1 : encFields T.pre (set r f v) = encFields T.pre r := by
    apply encFields_congr
    intro p hp
    apply get_set_ne
    intro h
    exact hf.1.1 (by rw [← h]; exact List.mem_map_of_mem hp)
  have e2 : encFields (T.details (version r) (kind T r)) (set r f v)
      = encFields (T.details (version r) (kind T r)) r := by
    apply encFields_congr
    intro p hp
    apply get_set_ne
    intro h
    exact hf.1.2 (by rw [← h]; exact List.mem_map_of_mem hp)
  have e3 : tailBytes T.tail (set r f v) = tailBytes T.tail r := by
    unfold tailBytes
    have : ∀ l : List String, (∀ g ∈ l, g ≠ f) → l.flatMap (get (set r f v)) = l.flatMap (get r) := by
      intro l
      induction l with
      | nil => intro _; rfl
      | cons g l ih =>
        intro hl
        simp only [List.flatMap_cons]
        rw [get_set_ne r v (hl g (by simp)), ih (fun g hg => hl g (by simp [hg]))]
    exact this T.tail (fun g hg h => hf.2 (h ▸ hg))
  rw [e1, e2, e3]

/-! ### abstract hash chains -/

section Chain
variable {α β : Type} (hash prev : α → β) (seed : β)

/-- Chain condition by position: the first entry points to the seed, every later entry to the hash
of its predecessor. -/
def ChainIdx (L : List α) : Prop :=
  (∀ e, L[0]? = some e → prev e = seed) ∧
  (∀ (i : Nat) (a b : α), L[i]? = some a → L[i+1]? = some b → prev b = hash a)

theorem getElem?_pred {L : List α} {j : Nat} {b : α} (h : L[j+1]? = some b) : ∃ c, L[j]? = some c := by
  have hlt : j + 1 < L.length := by
    rcases Nat.lt_or_ge (j+1) L.length with h1 | h1
    · exact h1
    · rw [List.getElem?_eq_none h1] at h; cases h
  exact ⟨L[j], List.getElem?_eq_getElem (by omega)⟩

theorem mem_of_getElem? {L : List α} {i : Nat} {a : α} (h : L[i]? = some a) : a ∈ L :=
  List.mem_of_getElem? h

/-- In a chain whose hashes determine the predecessor pointer and never equal the seed, all entry
hashes are pairwise distinct (a hash chain has no cycles). -/
theorem chain_distinct (L : List α)
    (hI : ∀ a ∈ L, ∀ b ∈ L, hash a = hash b → prev a = prev b)
    (hS : ∀ a ∈ L, hash a ≠ seed) (hc : ChainIdx hash prev seed L) :
    ∀ (i j : Nat) (a b : α), i < j → L[i]? = some a → L[j]? = some b → hash a ≠ hash b := by
  intro i
  induction i with
  | zero =>
    intro j a b hij ha hb heq
    obtain ⟨j', rfl⟩ : ∃ j', j = j' + 1 := ⟨j - 1, by omega⟩
    obtain ⟨c, hcj⟩ := getElem?_pred hb
    have h1 := hc.1 a ha
    have h2 := hc.2 j' c b hcj hb
    have h3 := hI a (mem_of_getElem? ha) b (mem_of_getElem? hb) heq
    exact hS c (mem_of_getElem? hcj) (by rw [← h2, ← h3, h1])
  | succ i ih =>
    intro j a b hij ha hb heq
    obtain ⟨j', rfl⟩ : ∃ j', j = j' + 1 := ⟨j - 1, by omega⟩
    obtain ⟨c, hcj⟩ := getElem?_pred hb
    obtain ⟨a0, ha0⟩ := getElem?_pred ha
    have h1 := hc.2 i a0 a ha0 ha
    have h2 := hc.2 j' c b hcj hb
    have h3 := hI a (mem_of_getElem? ha) b (mem_of_getElem? hb) heq
    exact ih j' a0 c (by omega) ha0 hcj (by rw [← h1, ← h2, h3])

/-- **Only prefixes verify.** If `L` is a chain and `L'` is a chain all of whose entry hashes occur
in `L`, then `L'` agrees with `L` hash by hash, position by position — it is `L` cut off somewhere. -/
theorem chain_prefix (L L' : List α)
    (hI : ∀ a b, (a ∈ L ∨ a ∈ L') → (b ∈ L ∨ b ∈ L') → hash a = hash b → prev a = prev b)
    (hS : ∀ a ∈ L, hash a ≠ seed)
    (hc : ChainIdx hash prev seed L) (hc' : ChainIdx hash prev seed L')
    (pool : ∀ e' ∈ L', ∃ e ∈ L, hash e' = hash e) :
    ∀ (k : Nat) (e' : α), L'[k]? = some e' → ∃ e, L[k]? = some e ∧ hash e' = hash e := by
  have hdist := chain_distinct hash prev seed L (fun a ha b hb => hI a b (Or.inl ha) (Or.inl hb)) hS hc
  intro k
  induction k with
  | zero =>
    intro e' he'
    obtain ⟨e, heL, heq⟩ := pool e' (mem_of_getElem? he')
    obtain ⟨j, hj⟩ := List.getElem?_of_mem heL
    have hp := hI e' e (Or.inr (mem_of_getElem? he')) (Or.inl heL) heq
    have h1 := hc'.1 e' he'
    cases j with
    | zero => exact ⟨e, hj, heq⟩
    | succ j' =>
      obtain ⟨c, hcj⟩ := getElem?_pred hj
      have h2 := hc.2 j' c e hcj hj
      exact absurd (by rw [← h2, ← hp, h1]) (hS c (mem_of_getElem? hcj))
  | succ k ih =>
    intro e' he'
    obtain ⟨p', hp'⟩ := getElem?_pred he'
    obtain ⟨p, hpL, hpeq⟩ := ih p' hp'
    obtain ⟨e, heL, heq⟩ := pool e' (mem_of_getElem? he')
    obtain ⟨j, hj⟩ := List.getElem?_of_mem heL
    have hpp := hI e' e (Or.inr (mem_of_getElem? he')) (Or.inl heL) heq
    have h1 := hc'.2 k p' e' hp' he'
    cases j with
    | zero =>
      have h2 := hc.1 e hj
      exact absurd (by rw [← hpeq, ← h1, hpp, h2]) (hS p (mem_of_getElem? hpL))
    | succ j' =>
      obtain ⟨c, hcj⟩ := getElem?_pred hj
      have h2 := hc.2 j' c e hcj hj
      have hcp : hash c = hash p := by rw [← h2, ← hpp, h1, hpeq]
      have : j' = k := by
        rcases Nat.lt_trichotomy j' k with h | h | h
        · exact absurd hcp (hdist j' k c p h hcj hpL)
        · exact h
        · exact absurd hcp.symm (hdist k j' p c h hpL hcj)
      subst this
      exact ⟨e, hj, heq⟩

end Chain

/-! ### what an accepting validator run establishes -/

def hashOf (e : Rec) : Bytes := get e "Hash"
def prevOf (e : Rec) : Bytes := get e "PreviousHash"
def sigOf (e : Rec) : Bytes := get e "SignatureEd25519"

def expectedPrev (C : Crypto) (s : VState) : Bytes := if s.index = 0 then C.H pithos else s.prev

theorem stepGround_ok {T : Tables} {C : Crypto} {bs : Nat} {s s' : VState} {e : Rec}
    (h : stepGround T C bs s e = .ok s') : s'.index = s.index + 1 ∧ s'.prev = hashOf e := by
  unfold stepGround at h
  repeat' split at h
  all_goals (cases h <;> exact ⟨rfl, rfl⟩)

theorem step_ok {T : Tables} {C : Crypto} {bs : Nat} {s s' : VState} {e : Rec}
    (h : step T C bs s e = .ok s') :
    C.H (hashInput T e) = hashOf e ∧ prevOf e = expectedPrev C s ∧
    sigOk C.vEd (hashOf e) (sigOf e) = true ∧ s'.index = s.index + 1 ∧ s'.prev = hashOf e := by
  unfold step stepWith at h
  split at h
  · cases h
  · rename_i h1
    split at h
    · cases h
    · rename_i h2
      split at h
      · cases h
      · rename_i h3
        split at h
        · cases h
        · rename_i h4
          split at h
          · cases h
          · rename_i h5
            have hH : C.H (hashInput T e) = hashOf e := by simpa [hashOf] using h1
            have hP : prevOf e = expectedPrev C s := by
              unfold expectedPrev prevOf
              by_cases hi : s.index = 0
              · simp only [hi, if_true]
                simpa [hi] using h3
              · simp only [hi, if_false]
                simpa [hi] using h4
            have hS : sigOk C.vEd (hashOf e) (sigOf e) = true := by
              simpa [hashOf, sigOf] using h5
            exact ⟨hH, hP, hS, stepGround_ok h⟩

def ChainRec (p : Bytes) : List Rec → Prop
  | [] => True
  | e :: es => prevOf e = p ∧ ChainRec (hashOf e) es

theorem runFrom_ok {T : Tables} {C : Crypto} {bs : Nat} :
    ∀ (L : List Rec) (s s' : VState), runFrom T C bs s L = .ok s' →
      (∀ e ∈ L, C.H (hashInput T e) = hashOf e) ∧ ChainRec (expectedPrev C s) L ∧
      (∀ e ∈ L, sigOk C.vEd (hashOf e) (sigOf e) = true) := by
  intro L
  induction L with
  | nil => intro s s' _; exact ⟨by simp, trivial, by simp⟩
  | cons e es ih =>
    intro s s' h
    unfold runFrom at h
    split at h
    · cases h
    · rename_i s1 hs1
      obtain ⟨hH, hP, hS, hi, hp⟩ := step_ok hs1
      obtain ⟨a, b, c⟩ := ih s1 s' h
      have hexp : expectedPrev C s1 = hashOf e := by
        unfold expectedPrev; rw [hi, hp]; simp
      rw [hexp] at b
      refine ⟨?_, ⟨hP, b⟩, ?_⟩
      · intro x hx
        rcases List.mem_cons.1 hx with rfl | hx
        · exact hH
        · exact a x hx
      · intro x hx
        rcases List.mem_cons.1 hx with rfl | hx
        · exact hS
        · exact c x hx

theorem chainIdx_of_rec (p : Bytes) (L : List Rec) (h : ChainRec p L) :
    ChainIdx hashOf prevOf p L := by
  induction L generalizing p with
  | nil => exact ⟨by simp, by simp⟩
  | cons e es ih =>
    obtain ⟨h1, h2⟩ := h
    obtain ⟨i1, i2⟩ := ih (hashOf e) h2
    refine ⟨?_, ?_⟩
    · intro x hx
      simp at hx; subst hx; exact h1
    · intro i a b ha hb
      cases i with
      | zero =>
        simp at ha; subst ha
        simp at hb
        exact i1 b hb
      | succ i =>
        simp at ha hb
        exact i2 i a b ha hb

/-- What `accepts` gives: every entry's stored hash is the hash of its encoding, the entries form a
chain from `H "pithos"`, and every entry signature verifies (when a verifier is configured). -/
theorem accepts_facts {T : Tables} {C : Crypto} {bs : Nat} {L : List Rec} (h : accepts T C bs L = true) :
    (∀ e ∈ L, C.H (hashInput T e) = hashOf e) ∧ ChainIdx hashOf prevOf (C.H pithos) L ∧
    (∀ e ∈ L, sigOk C.vEd (hashOf e) (sigOf e) = true) := by
  unfold accepts run at h
  split at h
  · rename_i s' hs
    obtain ⟨a, b, c⟩ := runFrom_ok L {} s' hs
    exact ⟨a, chainIdx_of_rec _ _ (by simpa [expectedPrev] using b), c⟩
  · cases h

/-! ### lengths (the seed `H "pithos"` is not the hash of any entry) -/

def minLen (s : Spec) : Nat := (s.map fun p => if p.2 = 0 then 4 else p.2).sum

theorem encFields_length_ge (s : Spec) (r : Rec) (h : wf s r = true) : minLen s ≤ (encFields s r).length := by
  induction s with
  | nil => simp [minLen]
  | cons p s ih =>
    obtain ⟨f, w⟩ := p
    rw [wf_cons] at h
    have := ih h.2
    have hf := h.1
    unfold wfField at hf
    simp only [encFields, List.length_append, minLen, List.map_cons, List.sum_cons] at *
    unfold encField
    by_cases hw : w = 0
    · simp [hw, be32_length]; omega
    · simp [hw] at hf ⊢; omega

/-! ### binary decoder inverts the encoder -/

theorem beNat_be32 {n : Nat} (h : n < 4294967296) : beNat (be32 n) = n := by
  simp only [beNat, be32, List.foldl_cons, List.foldl_nil, UInt8.toNat_ofNat']
  omega

theorem take?_append (a b : Bytes) : take? a.length (a ++ b) = some (a, b) := by
  simp [take?]

theorem decField_encField {w : Nat} {b : Bytes} (h : wfField w b = true) (rest : Bytes) :
    decField w (encField w b ++ rest) = some (b, rest) := by
  unfold wfField at h
  unfold decField encField
  by_cases hw : w = 0
  · simp only [hw, if_true, decide_eq_true_eq] at h ⊢
    rw [List.append_assoc]
    have := take?_append (be32 b.length) (b ++ rest)
    rw [be32_length] at this
    rw [this]
    simp only [beNat_be32 h]
    exact take?_append b rest
  · simp only [hw, if_false, beq_iff_eq] at h ⊢
    rw [← h]; exact take?_append b rest

theorem decFields_encFields (s : Spec) (r : Rec) (h : wf s r = true) (rest : Bytes) :
    decFields s (encFields s r ++ rest) = some (proj s r, rest) := by
  induction s with
  | nil => simp [decFields, encFields, proj]
  | cons p s ih =>
    obtain ⟨f, w⟩ := p
    rw [wf_cons] at h
    simp only [encFields, decFields, List.append_assoc]
    rw [decField_encField h.1]
    simp only [ih h.2]
    simp [proj]

theorem get_proj (s : Spec) (r : Rec) (f : String) (h : f ∈ s.map (·.1)) : get (proj s r) f = get r f := by
  induction s with
  | nil => simp at h
  | cons p s ih =>
    obtain ⟨g, w⟩ := p
    by_cases hfg : f = g
    · subst hfg; simp [proj, get]
    · have : (f == g) = false := by simpa using hfg
      have hm : f ∈ s.map (·.1) := by simpa [hfg] using h
      have := ih hm
      simp only [proj, get, List.map_cons, List.lookup] at this ⊢
      simpa [‹(f == g) = false›] using this

theorem get_append_left (a b : Rec) (f : String) (h : f ∈ a.map (·.1)) : get (a ++ b) f = get a f := by
  induction a with
  | nil => simp at h
  | cons p a ih =>
    obtain ⟨g, v⟩ := p
    by_cases hfg : f = g
    · subst hfg; simp [get, List.lookup]
    · have hb : (f == g) = false := by simpa using hfg
      have hm : f ∈ a.map (·.1) := by simpa [hfg] using h
      have := ih hm
      simp only [get, List.cons_append, List.lookup, hb] at this ⊢
      exact this

theorem get_append_right (a b : Rec) (f : String) (h : f ∉ a.map (·.1)) : get (a ++ b) f = get b f := by
  induction a with
  | nil => rfl
  | cons p a ih =>
    obtain ⟨g, v⟩ := p
    have hfg : f ≠ g := by intro h'; apply h; simp [h']
    have hb : (f == g) = false := by simpa using hfg
    have hm : f ∉ a.map (·.1) := by intro h'; apply h; simp [h']
    have := ih hm
    simp only [get, List.cons_append, List.lookup, hb] at this ⊢
    exact this

theorem proj_names (s : Spec) (r : Rec) : (proj s r).map (·.1) = s.map (·.1) := by
  simp [proj]

theorem proj_append (s1 s2 : Spec) (r : Rec) : proj (s1 ++ s2) r = proj s1 r ++ proj s2 r := by
  simp [proj]

/-- Reading back the fields of `s` from the projection gives the record's values. -/
theorem get_proj_all (s : Spec) (r : Rec) : ∀ f ∈ s.map (·.1), get (proj s r) f = get r f :=
  fun f h => get_proj s r f h

/-- **Binary serializer round trip** for one entry followed by arbitrary further bytes: the decoder
(with the same tables) consumes exactly the entry's bytes and returns the record restricted to the
fields of its version and kind. -/
theorem binDecode_binEncode (T : BinTables)
    (hv : "Version" ∈ T.pre.map (·.1)) (ht : "Type" ∈ T.pre.map (·.1))
    (r : Rec) (hw : wf (binSpec T r) r = true) (rest : Bytes) :
    binDecode T (binEncode T r ++ rest) = some (proj (binSpec T r) r, rest) := by
  unfold binSpec at hw
  rw [wf_append, wf_append] at hw
  obtain ⟨w1, w2, w3⟩ := hw
  unfold binDecode binEncode
  simp only [List.append_assoc]
  rw [decFields_encFields T.pre r w1]
  have hver : version (proj T.pre r) = version r := by
    unfold version; rw [get_proj T.pre r _ hv]
  have hkind : T.kind (proj T.pre r) = T.kind r := by
    unfold BinTables.kind; rw [get_proj T.pre r _ ht]
  simp only [hver, hkind]
  rw [decFields_encFields _ r w2]
  simp only []
  rw [decFields_encFields T.tail r w3]
  simp [binSpec, proj_append]


theorem binEncode_ne_nil (T : BinTables) (r : Rec) (hw : wf (binSpec T r) r = true)
    (hlong : 0 < minLen T.pre) : binEncode T r ≠ [] := by
  unfold binSpec at hw
  rw [wf_append] at hw
  have := encFields_length_ge T.pre r hw.1
  intro h
  have hl := congrArg List.length h
  unfold binEncode at hl
  simp only [List.length_append, List.length_nil] at hl
  omega

/-- **Binary serializer round trip for a whole file**: decoding the concatenation of the encodings
of any list of well-formed records yields those records (restricted to their fields), in order. -/
theorem binDecodeAll_roundtrip (T : BinTables)
    (hv : "Version" ∈ T.pre.map (·.1)) (ht : "Type" ∈ T.pre.map (·.1)) (hlong : 0 < minLen T.pre)
    (L : List Rec) (hw : ∀ r ∈ L, wf (binSpec T r) r = true) :
    binDecodeAll T L.length (L.flatMap (binEncode T)) = some (L.map fun r => proj (binSpec T r) r) := by
  induction L with
  | nil => simp [binDecodeAll]
  | cons r L ih =>
    have hr := hw r (by simp)
    have hne := binEncode_ne_nil T r hr hlong
    simp only [List.flatMap_cons, List.length_cons, binDecodeAll]
    have : (binEncode T r ++ List.flatMap (binEncode T) L).isEmpty = false := by
      cases h : binEncode T r with
      | nil => exact absurd h hne
      | cons a t => rfl
    rw [this]
    simp only [Bool.false_eq_true, if_false]
    rw [binDecode_binEncode T hv ht r hr]
    simp only [ih (fun r hr => hw r (by simp [hr]))]
    simp

/-! ### JSON serializer round trip -/

theorem lookup_jsonWrite_not_mem (lf : Leaf) (s : JSpec) (r : Rec) (p : String)
    (h : p ∉ s.map (·.2.1)) : (jsonWrite lf s r).lookup p = none := by
  induction s with
  | nil => rfl
  | cons x s ih =>
    obtain ⟨f, q, om, c⟩ := x
    have hpq : p ≠ q := by intro h'; apply h; simp [h']
    have hm : p ∉ s.map (·.2.1) := by intro h'; apply h; simp [h']
    have hb : (p == q) = false := by simpa using hpq
    simp only [jsonWrite]
    split
    · exact ih hm
    · simp only [List.lookup, hb]; exact ih hm

/-- What the decoder finds under path `p` when the writer's spec holds `(f, p, om, c)` and paths are
not reused: nothing if the value was omitted, otherwise the encoded leaf. -/
theorem lookup_jsonWrite (lf : Leaf) (s : JSpec) (r : Rec) (f p c : String) (om : Bool)
    (hmem : (f, p, om, c) ∈ s) (hnd : (s.map (·.2.1)).Nodup) :
    (jsonWrite lf s r).lookup p =
      if om && omitted c (get r f) then none else some (lf.enc c (get r f)) := by
  induction s with
  | nil => simp at hmem
  | cons x s ih =>
    obtain ⟨f', q, om', c'⟩ := x
    simp only [List.map_cons, List.nodup_cons] at hnd
    rcases List.mem_cons.1 hmem with h | h
    · cases h
      simp only [jsonWrite]
      split
      · exact lookup_jsonWrite_not_mem lf s r p hnd.1
      · simp [List.lookup]
    · have hpq : p ≠ q := by
        intro h'
        apply hnd.1
        rw [← h']
        exact List.mem_map_of_mem (f := fun x : String × String × Bool × String => x.2.1) h
      have hb : (p == q) = false := by simpa using hpq
      simp only [jsonWrite]
      split
      · exact ih h hnd.2
      · simp only [List.lookup, hb]; exact ih h hnd.2

/-- **JSON serializer round trip** (structure of the encoding; leaf codecs are parameters):
if every field the decoder reads is written under the same path with the same codec, no path is
used twice, the leaf codecs round-trip, and an omitted value is the Go zero value, then decoding
what was encoded returns every read field unchanged. -/
theorem json_roundtrip (lf : Leaf) (zero : String → Bytes) (sW sR : JSpec) (r : Rec)
    (hleaf : ∀ c b, lf.dec c (lf.enc c b) = b)
    (hnd : (sW.map (·.2.1)).Nodup)
    (hsub : ∀ x ∈ sR, ∃ om, (x.1, x.2.1, om, x.2.2.2) ∈ sW)
    (hzero : ∀ x ∈ sW, x.2.2.1 = true → omitted x.2.2.2 (get r x.1) = true → get r x.1 = zero x.1) :
    ∀ f ∈ sR.map (·.1), get (jsonRead lf zero sR (jsonWrite lf sW r)) f = get r f := by
  induction sR with
  | nil => intro f hf; simp at hf
  | cons x sR ih =>
    obtain ⟨g, p, om0, c⟩ := x
    intro f hf
    by_cases hfg : f = g
    · subst hfg
      obtain ⟨om, hmem⟩ := hsub (f, p, om0, c) (by simp)
      simp only [jsonRead, get, List.lookup, beq_self_eq_true, Option.getD_some]
      rw [lookup_jsonWrite lf sW r f p c om hmem hnd]
      by_cases ho : (om && omitted c (get r f)) = true
      · simp only [ho, if_true]
        simp only [Bool.and_eq_true] at ho
        exact (hzero _ hmem ho.1 ho.2).symm
      · simp only [ho]
        simp [hleaf, get]
    · have hb : (f == g) = false := by simpa using hfg
      have hm : f ∈ sR.map (·.1) := by simpa [hfg] using hf
      have := ih (fun x hx => hsub x (by simp [hx])) f hm
      simp only [jsonRead, get, List.lookup, hb] at this ⊢
      exact this


/-- The hash input only depends on the hashed fields (and on Version / Type, which select them). -/
theorem hashInput_congr (T : Tables) (r r' : Rec)
    (hv : get r' "Version" = get r "Version") (ht : get r' "Type" = get r "Type")
    (h : ∀ f ∈ hashedNames T r, get r' f = get r f) : hashInput T r' = hashInput T r := by
  have hver : version r' = version r := by unfold version; rw [hv]
  have hkind : kind T r' = kind T r := by unfold kind; rw [ht]
  unfold hashedNames specOf at h
  unfold hashInput
  rw [hver, hkind]
  have e1 : encFields T.pre r' = encFields T.pre r :=
    encFields_congr _ _ _ fun p hp => h p.1 (by simp only [List.map_append, List.mem_append]; exact Or.inl (Or.inl (List.mem_map_of_mem hp)))
  have e2 : encFields (T.details (version r) (kind T r)) r' = encFields (T.details (version r) (kind T r)) r :=
    encFields_congr _ _ _ fun p hp => h p.1 (by simp only [List.map_append, List.mem_append]; exact Or.inl (Or.inr (List.mem_map_of_mem hp)))
  have e3 : tailBytes T.tail r' = tailBytes T.tail r := by
    unfold tailBytes
    have : ∀ l : List String, (∀ g ∈ l, get r' g = get r g) → l.flatMap (get r') = l.flatMap (get r) := by
      intro l
      induction l with
      | nil => intro _; rfl
      | cons g l ih =>
        intro hl
        simp only [List.flatMap_cons]
        rw [hl g (by simp), ih (fun g hg => hl g (by simp [hg]))]
    exact this T.tail fun g hg => h g (by simp only [List.mem_append]; exact Or.inr hg)
  rw [e1, e2, e3]


end Pithos.AuditLog
