/-
The seekable decrypting reader as a state machine (`Pithos.Tink.rRead`, `rRun`): with the repaired
`loadSegment` (a failed load forgets the buffered segment) every byte any `Read` of any `Seek`/`Read`
history hands out is a byte of the written plaintext at the position the read was issued at — whatever
bytes are presented as the stream, also after reads that failed (helpers for C16).
-/
import Pithos.Lemmas.TinkTamper

namespace Pithos.Tink
open Pithos.Codec

/-- what is buffered is a true segment -/
def RInv (segs : List Bytes) (s : RState) : Prop :=
  ∀ j, s.segIdx = some j → j < segs.length ∧ s.buf = segs.getD j []

theorem rLoad_inv (A : AEAD) (hA : ∀ k n m, (A.sealSeg k n m).length = m.length + tagLen) (key : Nat) (pre : Bytes)
    (segs : List Bytes) (ideal : IdealFor A key pre segs) (keyOf : Bytes → Nat) (css : Nat) (ct : Bytes) (j : Nat) (s : RState)
    (hinv : RInv segs s) :
    RInv segs (rLoad A keyOf true css ct j s).2 ∧ (rLoad A keyOf true css ct j s).2.pos = s.pos ∧
      ((rLoad A keyOf true css ct j s).1 = true → (rLoad A keyOf true css ct j s).2.segIdx = some j) := by
  unfold rLoad
  cases hl : loadSeg A keyOf css ct j with
  | some seg =>
    obtain ⟨hidx, hp, _, _⟩ := load_ideal A hA key pre segs ideal keyOf css ct j seg hl
    refine ⟨?_, rfl, fun _ => rfl⟩
    intro j' hj'
    simp only [Option.some.injEq] at hj'
    subst hj'
    exact ⟨hidx, hp⟩
  | none =>
    simp only
    by_cases hc : (decide (ctLen css ct.length j < tagLen) || decide (j ≥ 4294967296)) = true
    · rw [if_pos hc]
      refine ⟨hinv, rfl, ?_⟩
      intro h; cases h
    · rw [if_neg hc, if_pos trivial]
      refine ⟨?_, rfl, ?_⟩
      · intro j' hj'; cases hj'
      · intro h; cases h

theorem IsPrefix.take {a b : Bytes} (h : IsPrefix a b) (n : Nat) : IsPrefix (a.take n) b := by
  obtain ⟨t, rfl⟩ := h
  exact ⟨a.drop n ++ t, by rw [← List.append_assoc, List.take_append_drop]⟩

/-- the rest of the segment that holds `pos` is where the plaintext continues from `pos` -/
theorem seg_rest_prefix (css : Nat) (segs : List Bytes) (h56 : 56 < css) (lay : SegLayout css segs) (pos : Nat)
    (hj : segFor css pos < segs.length) :
    IsPrefix ((segs.getD (segFor css pos) []).drop (pos - ptStart css (segFor css pos))) (segs.flatten.drop pos) := by
  have hlen := take_flatten_len' css segs lay _ hj
  have hle := (ptStart_segFor css pos h56).1
  have hsplit : segs.flatten = (segs.take (segFor css pos)).flatten ++
      (segs.getD (segFor css pos) [] ++ (segs.drop (segFor css pos + 1)).flatten) := by
    conv => lhs; rw [← List.take_append_drop (segFor css pos) segs]
    rw [List.flatten_append, List.drop_eq_getElem_cons hj, List.flatten_cons]
    simp [List.getD_eq_getElem?_getD, List.getElem?_eq_getElem hj]
  rw [hsplit, List.drop_append, List.drop_append, hlen]
  have h0 : (segs.take (segFor css pos)).flatten.drop pos = [] := List.drop_eq_nil_iff.2 (by omega)
  rw [h0, List.nil_append]
  exact ⟨_, rfl⟩

/-- **one read never lies** (repaired `loadSegment`, ideal AEAD, any presented bytes, any reader state that
buffers a true segment or nothing). -/
theorem rRead_sound (A : AEAD) (hA : ∀ k n m, (A.sealSeg k n m).length = m.length + tagLen) (css key : Nat) (pre : Bytes)
    (segs : List Bytes) (keyOf : Bytes → Nat) (h56 : 56 < css) (lay : SegLayout css segs) (ideal : IdealFor A key pre segs)
    (fixEof : Bool) (ct : Bytes) (n : Nat) (s : RState) (hinv : RInv segs s) :
    RInv segs (rRead A keyOf fixEof true css ct n s).2 ∧
      ∀ b, (rRead A keyOf fixEof true css ct n s).1 = .bytes b → IsPrefix b (segs.flatten.drop s.pos) := by
  unfold rRead
  by_cases hend : s.pos ≥ ptLenR css ct.length
  · rw [if_pos hend]
    by_cases hf : (fixEof && !s.lastVerified) = true
    · rw [if_pos hf]
      refine ⟨(rLoad_inv A hA key pre segs ideal keyOf css ct _ s hinv).1, fun b hb => ?_⟩
      simp only at hb
      split at hb <;> cases hb
    · rw [if_neg hf]
      exact ⟨hinv, fun b hb => by cases hb⟩
  · rw [if_neg hend]
    simp only
    by_cases hbuf : s.segIdx = some (segFor css s.pos)
    · -- served from the buffer
      simp only [hbuf, if_true, Bool.not_true, Bool.false_eq_true, if_false]
      obtain ⟨hidx, hb⟩ := hinv _ hbuf
      refine ⟨?_, fun b hbb => ?_⟩
      · intro j' hj'
        simp only [Option.some.injEq] at hj'
        subst hj'
        exact ⟨hidx, hb⟩
      simp only [RRes.bytes.injEq] at hbb
      rw [← hbb, hb]
      exact (seg_rest_prefix css segs h56 lay s.pos hidx).take n
    · simp only [hbuf, if_false]
      obtain ⟨hinv', _, hsome⟩ := rLoad_inv A hA key pre segs ideal keyOf css ct (segFor css s.pos) s hinv
      by_cases hok : (rLoad A keyOf true css ct (segFor css s.pos) s).1 = true
      · simp only [hok, Bool.not_true, Bool.false_eq_true, if_false]
        obtain ⟨hidx, hb⟩ := hinv' _ (hsome hok)
        refine ⟨fun j' hj' => hinv' j' hj', fun b hbb => ?_⟩
        simp only [RRes.bytes.injEq] at hbb
        rw [← hbb, hb]
        exact (seg_rest_prefix css segs h56 lay s.pos hidx).take n
      · have hok' : (rLoad A keyOf true css ct (segFor css s.pos) s).1 = false := by simpa using hok
        simp only [hok', Bool.not_false, if_true]
        exact ⟨hinv', fun b hbb => by cases hbb⟩

/-- **a history never lies.** Every `Read` of every `Seek`/`Read` history on one reader — reads after failed
reads included — hands out bytes of the plaintext at the position it was issued at. -/
theorem rRun_sound (A : AEAD) (hA : ∀ k n m, (A.sealSeg k n m).length = m.length + tagLen) (css key : Nat) (pre : Bytes)
    (segs : List Bytes) (keyOf : Bytes → Nat) (h56 : 56 < css) (lay : SegLayout css segs) (ideal : IdealFor A key pre segs)
    (fixEof : Bool) (ct : Bytes) :
    ∀ (ops : List ROp) (s : RState), RInv segs s →
      ∀ p b, (p, RRes.bytes b) ∈ rRun A keyOf fixEof true css ct ops s → IsPrefix b (segs.flatten.drop p) := by
  intro ops
  induction ops with
  | nil => intro s _ p b h; cases h
  | cons op ops ih =>
    intro s hinv p b h
    cases op with
    | seek a =>
      simp only [rRun] at h
      exact ih { s with pos := a } (fun j hj => hinv j hj) p b h
    | read n =>
      simp only [rRun, List.mem_cons] at h
      obtain ⟨hinv', hb⟩ := rRead_sound A hA css key pre segs keyOf h56 lay ideal fixEof ct n s hinv
      rcases h with h | h
      · simp only [Prod.mk.injEq] at h
        obtain ⟨rfl, hr⟩ := h
        exact hb b hr.symm
      · exact ih _ hinv' p b h

/-! ## a clean end only at the true end (the reader that authenticates the last segment before EOF) -/

/-- If the reader's LAST segment loads under the ideal AEAD, the plaintext length the reader derived from
the (unauthenticated) ciphertext length is the true one. -/
theorem ptLen_of_last_loaded (A : AEAD) (hA : ∀ k n m, (A.sealSeg k n m).length = m.length + tagLen) (css key : Nat) (pre : Bytes)
    (segs : List Bytes) (keyOf : Bytes → Nat) (h56 : 56 < css) (lay : SegLayout css segs) (ideal : IdealFor A key pre segs)
    (ct p : Bytes) (hl : loadSeg A keyOf css ct (numSegR css ct.length - 1) = some p) :
    ptLenR css ct.length = segs.flatten.length := by
  obtain ⟨hidx, _, hflag, hlen⟩ := load_ideal A hA key pre segs ideal keyOf css ct _ p hl
  have hk : numSegR css ct.length - 1 + 1 = segs.length := by
    have : (numSegR css ct.length - 1 == numSegR css ct.length - 1) = true := beq_self_eq_true _
    rw [this] at hflag
    exact of_decide_eq_true hflag.symm
  have hk1 : 1 ≤ numSegR css ct.length := by
    rcases Nat.eq_zero_or_pos (numSegR css ct.length) with h0 | h0
    · rw [h0] at hk hlen
      have hC : 0 < ct.length := by
        unfold ctLen at hlen
        simp only [if_true, hdrLen, tagLen] at hlen
        omega
      have : 0 < numSegR css ct.length := by
        unfold numSegR
        exact Nat.div_pos (by omega) (by omega)
      omega
    · exact h0
  have hnum : numSegR css ct.length = segs.length := by omega
  have hlast : ctLen css ct.length (segs.length - 1) = (segs.getD (segs.length - 1) []).length + tagLen := by
    rw [show segs.length - 1 = numSegR css ct.length - 1 by omega]; exact hlen
  have hks : 1 ≤ segs.length := List.length_pos_iff.2 lay.ne
  have hC := length_of_geometry css segs.length _ ct.length h56 hks hnum hlast
  have hr1 : segs.length = 1 ∨ 1 ≤ (segs.getD (segs.length - 1) []).length := by
    by_cases h1 : segs.length = 1
    · exact Or.inl h1
    · exact Or.inr (lay.pos_of_multi (by omega) _ (by omega))
  have hpt := (layout_inverse css segs.length _ h56 hks lay.last_le hr1).2
  rw [← hC] at hpt
  have hl1 : segs.length - 1 < segs.length := by omega
  have htot : segs.flatten.length = ptStart css (segs.length - 1) + (segs.getD (segs.length - 1) []).length := by
    have e : segs.flatten = (segs.take (segs.length - 1)).flatten ++ (segs.drop (segs.length - 1)).flatten := by
      rw [← List.flatten_append, List.take_append_drop]
    rw [e, List.length_append, take_flatten_len' css segs lay _ hl1, List.drop_eq_getElem_cons hl1]
    have : segs.drop (segs.length - 1 + 1) = [] := List.drop_eq_nil_iff.2 (by omega)
    simp [this, List.getD_eq_getElem?_getD, List.getElem?_eq_getElem hl1]
  unfold ptLenOf at hpt
  omega

/-- `lastVerified` means what it says: the last segment HAS been authenticated -/
def RInvV (css : Nat) (ct : Bytes) (segs : List Bytes) (s : RState) : Prop :=
  RInv segs s ∧ (s.lastVerified = true → ptLenR css ct.length = segs.flatten.length)

theorem rLoad_invV (A : AEAD) (hA : ∀ k n m, (A.sealSeg k n m).length = m.length + tagLen) (css key : Nat) (pre : Bytes)
    (segs : List Bytes) (keyOf : Bytes → Nat) (h56 : 56 < css) (lay : SegLayout css segs) (ideal : IdealFor A key pre segs)
    (ct : Bytes) (j : Nat) (s : RState) (hinv : RInvV css ct segs s) :
    RInvV css ct segs (rLoad A keyOf true css ct j s).2 := by
  refine ⟨(rLoad_inv A hA key pre segs ideal keyOf css ct j s hinv.1).1, ?_⟩
  unfold rLoad
  cases hl : loadSeg A keyOf css ct j with
  | some seg =>
    simp only [Bool.or_eq_true, beq_iff_eq]
    rintro (hv | hj)
    · exact hinv.2 hv
    · rw [hj] at hl
      exact ptLen_of_last_loaded A hA css key pre segs keyOf h56 lay ideal ct seg hl
  | none =>
    simp only
    by_cases hc : (decide (ctLen css ct.length j < tagLen) || decide (j ≥ 4294967296)) = true
    · rw [if_pos hc]; exact hinv.2
    · rw [if_neg hc, if_pos trivial]; exact hinv.2

/-- **one read: a clean end only at the true end** (last segment authenticated before EOF, buffer repair in). -/
theorem rRead_eof_sound (A : AEAD) (hA : ∀ k n m, (A.sealSeg k n m).length = m.length + tagLen) (css key : Nat) (pre : Bytes)
    (segs : List Bytes) (keyOf : Bytes → Nat) (h56 : 56 < css) (lay : SegLayout css segs) (ideal : IdealFor A key pre segs)
    (ct : Bytes) (n : Nat) (s : RState) (hinv : RInvV css ct segs s) :
    RInvV css ct segs (rRead A keyOf true true css ct n s).2 ∧
      ((rRead A keyOf true true css ct n s).1 = .eof → segs.flatten.length ≤ s.pos) := by
  have hsound := rRead_sound A hA css key pre segs keyOf h56 lay ideal true ct n s hinv.1
  unfold rRead at hsound ⊢
  by_cases hend : s.pos ≥ ptLenR css ct.length
  · rw [if_pos hend] at hsound ⊢
    by_cases hv : s.lastVerified = true
    · simp only [hv, Bool.not_true, Bool.and_false, Bool.false_eq_true, if_false]
      exact ⟨hinv, fun _ => by rw [← hinv.2 hv]; exact hend⟩
    · have hv' : s.lastVerified = false := by simpa using hv
      simp only [hv', Bool.not_false, Bool.and_true, if_true]
      have hI := rLoad_invV A hA css key pre segs keyOf h56 lay ideal ct (numSegR css ct.length - 1) s hinv
      refine ⟨hI, fun he => ?_⟩
      -- the load of the last segment succeeded
      unfold rLoad at he hI
      cases hl : loadSeg A keyOf css ct (numSegR css ct.length - 1) with
      | some seg =>
        rw [← ptLen_of_last_loaded A hA css key pre segs keyOf h56 lay ideal ct seg hl]; exact hend
      | none =>
        rw [hl] at he
        simp only at he
        split at he <;> simp at he
  · rw [if_neg hend] at hsound ⊢
    simp only at hsound ⊢
    refine ⟨⟨hsound.1, ?_⟩, fun he => ?_⟩
    · -- `lastVerified` of the new state
      by_cases hbuf : s.segIdx = some (segFor css s.pos)
      · simp only [hbuf, if_true, Bool.not_true, Bool.false_eq_true, if_false]
        exact hinv.2
      · simp only [hbuf, if_false]
        have hI := rLoad_invV A hA css key pre segs keyOf h56 lay ideal ct (segFor css s.pos) s hinv
        by_cases hok : (rLoad A keyOf true css ct (segFor css s.pos) s).1 = true
        · simp only [hok, Bool.not_true, Bool.false_eq_true, if_false]
          exact hI.2
        · have hok' : (rLoad A keyOf true css ct (segFor css s.pos) s).1 = false := by simpa using hok
          simp only [hok', Bool.not_false, if_true]
          exact hI.2
    · -- inside the plaintext a read never answers EOF
      by_cases hbuf : s.segIdx = some (segFor css s.pos)
      · simp [hbuf] at he
      · simp only [hbuf, if_false] at he
        split at he <;> cases he

/-- **a history ends cleanly only at the true end.** -/
theorem rRun_eof_sound (A : AEAD) (hA : ∀ k n m, (A.sealSeg k n m).length = m.length + tagLen) (css key : Nat) (pre : Bytes)
    (segs : List Bytes) (keyOf : Bytes → Nat) (h56 : 56 < css) (lay : SegLayout css segs) (ideal : IdealFor A key pre segs)
    (ct : Bytes) :
    ∀ (ops : List ROp) (s : RState), RInvV css ct segs s →
      ∀ p, (p, RRes.eof) ∈ rRun A keyOf true true css ct ops s → segs.flatten.length ≤ p := by
  intro ops
  induction ops with
  | nil => intro s _ p h; cases h
  | cons op ops ih =>
    intro s hinv p h
    cases op with
    | seek a =>
      simp only [rRun] at h
      exact ih { s with pos := a } ⟨fun j hj => hinv.1 j hj, hinv.2⟩ p h
    | read n =>
      simp only [rRun, List.mem_cons] at h
      obtain ⟨hinv', he⟩ := rRead_eof_sound A hA css key pre segs keyOf h56 lay ideal ct n s hinv
      rcases h with h | h
      · simp only [Prod.mk.injEq] at h
        obtain ⟨rfl, hr⟩ := h
        exact he hr.symm
      · exact ih _ hinv' p h

end Pithos.Tink
