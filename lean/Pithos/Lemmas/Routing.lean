/-
Helper lemmas for C24 (Props/C24.lean): list facts for the routed store list, the `ListBuckets`
de-duplication, the `putRow` lemma behind `cross_copy_eq_same_copy`, and the placement invariant
(which uses the bucket-name frame lemmas of Lemmas/Replication.lean).
-/
import Pithos.Model.Routing
import Pithos.Lemmas.Replication

namespace Pithos.Routing
open Pithos.S3 Pithos.S3Ext

-- ---------------------------------------------------------------- store list

theorem getS_set_ne (ss : Stores) (i j : Nat) (s : State) (h : j ≠ i) : getS (ss.set i s) j = getS ss j := by
  simp [getS, List.getD, List.getElem?_set_ne (Ne.symm h)]

theorem getS_set_eq (ss : Stores) (i : Nat) (s : State) (h : i < ss.length) : getS (ss.set i s) i = s := by
  simp [getS, List.getD, h]

theorem crossCopy_fst_getElem? (fx : Fixes) (q : Quirks) (ss : Stores) (si di : Nat) (op : XOp) (j : Nat)
    (h : j ≠ di) : (crossCopy fx q ss si di op).1[j]? = ss[j]? := by
  unfold crossCopy
  split
  · split
    · rfl
    · simp [List.getElem?_set_ne (Ne.symm h)]
  · split
    · rfl
    · split
      · rfl
      · simp [List.getElem?_set_ne (Ne.symm h)]
  · rfl

theorem crossCopy_length (fx : Fixes) (q : Quirks) (ss : Stores) (si di : Nat) (op : XOp) :
    (crossCopy fx q ss si di op).1.length = ss.length := by
  unfold crossCopy
  split
  · split <;> simp
  · split
    · rfl
    · split <;> simp
  · rfl

-- ---------------------------------------------------------------- dedup

theorem mem_dedupFrom (seen l : List String) (x : String) :
    x ∈ dedupFrom seen l ↔ x ∈ l ∧ x ∉ seen := by
  induction l generalizing seen with
  | nil => simp [dedupFrom]
  | cons y ys ih =>
    unfold dedupFrom
    by_cases hy : seen.contains y = true
    · simp only [hy, if_true, ih]
      have hy' : y ∈ seen := by simpa using hy
      constructor
      · rintro ⟨h1, h2⟩; exact ⟨List.mem_cons_of_mem _ h1, h2⟩
      · rintro ⟨h1, h2⟩
        rcases List.mem_cons.mp h1 with rfl | h
        · exact absurd hy' h2
        · exact ⟨h, h2⟩
    · simp only [hy, Bool.false_eq_true, if_false, List.mem_cons, ih]
      have hy' : y ∉ seen := by simpa using hy
      constructor
      · rintro (rfl | ⟨h1, h2⟩)
        · exact ⟨Or.inl rfl, hy'⟩
        · exact ⟨Or.inr h1, fun h => h2 (Or.inr h)⟩
      · rintro ⟨h1 | h1, h2⟩
        · exact Or.inl h1
        · by_cases hxy : x = y
          · exact Or.inl hxy
          · exact Or.inr ⟨h1, fun h => by rcases h with h | h; exact hxy h; exact h2 h⟩

theorem nodup_dedupFrom (seen l : List String) : (dedupFrom seen l).Nodup := by
  induction l generalizing seen with
  | nil => simp [dedupFrom]
  | cons y ys ih =>
    unfold dedupFrom
    by_cases hy : seen.contains y = true
    · simp only [hy, if_true]; exact ih seen
    · simp only [hy, Bool.false_eq_true, if_false, List.nodup_cons]
      refine ⟨?_, ih _⟩
      intro h
      have := (mem_dedupFrom (y :: seen) ys y).mp h
      exact this.2 (List.mem_cons_self ..)

theorem mem_dedup (l : List String) (x : String) : x ∈ dedup l ↔ x ∈ l := by
  simp [dedup, mem_dedupFrom]

theorem nodup_dedup (l : List String) : (dedup l).Nodup := nodup_dedupFrom [] l

-- ---------------------------------------------------------------- insertion sort is a permutation

theorem insertSorted_perm {α} (lt : α → α → Bool) (x : α) (l : List α) :
    (insertSorted lt x l).Perm (x :: l) := by
  induction l with
  | nil => simp [insertSorted]
  | cons y ys ih =>
    unfold insertSorted
    split
    · exact List.Perm.refl _
    · exact (List.Perm.cons y ih).trans (List.Perm.swap x y ys)

theorem sortBy_perm {α} (lt : α → α → Bool) (l : List α) : (sortBy lt l).Perm l := by
  induction l with
  | nil => simp [sortBy]
  | cons x xs ih =>
    have : sortBy lt (x :: xs) = insertSorted lt x (sortBy lt xs) := by simp [sortBy]
    rw [this]
    exact (insertSorted_perm lt x _).trans (List.Perm.cons x ih)

-- ---------------------------------------------------------------- flatten

theorem flattenRow_mkRow (rowId : Nat) (k : String) (vid : Option Nat) (cr now : Nat) (n₁ n₂ : NewObj)
    (hp : n₁.parts.flatten = n₂.parts.flatten) (ho : n₁.o = n₂.o) :
    flattenRow (mkRow rowId k vid cr now n₁) = flattenRow (mkRow rowId k vid cr now n₂) := by
  simp [flattenRow, mkRow, Row.content, hp, ho]

theorem flatten_setBucket (s : State) (bk : Bucket) :
    flatten (setBucket s bk) = setBucket (flatten s) (flattenBucket bk) := by
  simp only [flatten, setBucket, List.map_map]
  congr 1
  apply List.map_congr_left
  intro x _
  simp only [Function.comp]
  by_cases h : x.name == bk.name <;> simp [h, flattenBucket]

theorem flattenBucket_addRow (bk : Bucket) (r : Row) :
    flattenBucket (addRow bk r) = addRow (flattenBucket bk) (flattenRow r) := by
  simp [flattenBucket, addRow]

theorem flattenBucket_replaceRow (bk : Bucket) (r : Row) :
    flattenBucket (replaceRow bk r) = replaceRow (flattenBucket bk) (flattenRow r) := by
  simp only [flattenBucket, replaceRow, List.map_map]
  congr 1
  apply List.map_congr_left
  intro x _
  simp only [Function.comp]
  by_cases h : x.rowId == r.rowId <;> simp [h, flattenRow]

theorem mkRow_vid (a : Nat) (k : String) (v : Option Nat) (c n : Nat) (x : NewObj) : (mkRow a k v c n x).vid = v := rfl

theorem flatten_with2 (s : State) (a b : Nat) :
    flatten { s with nextVid := a, nextRow := b } = { flatten s with nextVid := a, nextRow := b } := rfl
theorem flatten_with1 (s : State) (b : Nat) :
    flatten { s with nextRow := b } = { flatten s with nextRow := b } := rfl

theorem install_flatten (q : Quirks) (s : State) (bk : Bucket) (k : String) (n₁ n₂ : NewObj)
    (hp : n₁.parts.flatten = n₂.parts.flatten) (ho : n₁.o = n₂.o) (hc : n₁.created = n₂.created) :
    (flatten (install q s bk k n₁).1, (install q s bk k n₁).2) =
    (flatten (install q s bk k n₂).1, (install q s bk k n₂).2) := by
  unfold install
  simp only [hc]
  split
  · simp only [flatten_with2, flatten_setBucket, flattenBucket_addRow,
      flattenRow_mkRow _ _ _ _ _ n₁ n₂ hp ho, mkRow_vid]
  · split
    · simp only [flatten_setBucket, flattenBucket_replaceRow, flattenRow_mkRow _ _ _ _ _ n₁ n₂ hp ho]
    · simp only [flatten_with1, flatten_setBucket, flattenBucket_addRow,
        flattenRow_mkRow _ _ _ _ _ n₁ n₂ hp ho]

theorem putRow_flatten (q : Quirks) (s : State) (bk : Bucket) (k : String) (n₁ n₂ : NewObj)
    (inm : Bool) (im : IfMatch)
    (hp : n₁.parts.flatten = n₂.parts.flatten) (ho : n₁.o = n₂.o) (hc : n₁.created = n₂.created) :
    (putRow q s bk k n₁ inm im).map (fun x => (flatten x.1, x.2)) =
    (putRow q s bk k n₂ inm im).map (fun x => (flatten x.1, x.2)) := by
  unfold putRow
  simp only []
  repeat' split
  all_goals first
    | rfl
    | (simp only [Except.map]; exact congrArg Except.ok (install_flatten q s _ k n₁ n₂ hp ho hc))
-- ---------------------------------------------------------------- cross-storage copy

theorem findBucket_clock (s : State) (c : Nat) (b : String) : findBucket { s with clock := c } b = findBucket s b := rfl
theorem flatten_clock (s : State) (c : Nat) : flatten { s with clock := c } = flatten s := rfl

theorem except_map_cases {α β ε} {f : α → β} {x y : Except ε α} (h : x.map f = y.map f) :
    (∃ e, x = .error e ∧ y = .error e) ∨ (∃ a b, x = .ok a ∧ y = .ok b ∧ f a = f b) := by
  cases x <;> cases y <;> simp [Except.map] at h
  · exact Or.inl ⟨_, rfl, by rw [h]⟩
  · exact Or.inr ⟨_, _, rfl, rfl, h⟩

theorem cross_copy_eq_same_copy_aux (fx : Fixes) (q : Quirks) (c : Cfg) (ss : Stores) (s : State)
    (sb sk db dk : String) (svid : Option (Option Nat)) (rm rt : Bool) (o : WriteOpts)
    (hne : storageOf c sb ≠ storageOf c db)
    (hdi : storageOf c db < ss.length)
    (hsrc : findBucket (getS ss (storageOf c sb)) sb = findBucket s sb)
    (hdst : getS ss (storageOf c db) = s)
    (hopts : ∀ sbk src, findBucket s sb = some sbk → resolve sbk sk svid = .ok src →
      crossOpts fx rm rt o src = copyOpts rm rt o src) :
    flatten (getS (rstep fx q c ss (.base (.copy sb sk svid db dk rm rt o))).1 (storageOf c db))
      = flatten (step q s (.copy sb sk svid db dk rm rt o)).1
    ∧ writeOutcome (rstep fx q c ss (.base (.copy sb sk svid db dk rm rt o))).2.out
      = writeOutcome (.base (step q s (.copy sb sk svid db dk rm rt o)).2) := by
  have hne' : (storageOf c sb == storageOf c db) = false := by simpa using hne
  simp only [rstep, route, routeBase, hne', crossCopy, readSource, hsrc, step, stepT, findBucket_clock]
  cases hfb : findBucket s sb with
  | none => simp [hdst, flatten_clock, writeOutcome]
  | some sbk =>
    simp only []
    cases hr : resolve sbk sk svid with
    | error e => simp [hdst, flatten_clock, writeOutcome]
    | ok src =>
      simp only [hdst]
      cases hdb : findBucket s db with
      | none => simp [getS_set_eq _ _ _ hdi, flatten_clock, writeOutcome]
      | some dbk =>
        simp only [Bool.false_eq_true, if_false]
        generalize hs' : ({ s with clock := s.clock + 1 } : State) = s'
        have hfl : flatten s' = flatten s := by subst hs'; rfl
        have hpf := putRow_flatten q s' dbk dk
          { parts := [src.content], etag := singleETag src.content, o := crossOpts fx rm rt o src }
          { parts := src.parts, etag := src.etag, o := copyOpts rm rt o src } false .none
          (by simp [Row.content]) (hopts sbk src hfb hr) rfl
        simp only [copyOpts] at hpf
        rcases except_map_cases hpf with ⟨e, h1, h2⟩ | ⟨⟨a1, a2⟩, ⟨b1, b2⟩, h1, h2, hab⟩
        · simp [h1, h2, getS_set_eq _ _ _ hdi, writeOutcome]
        · simp only [Prod.mk.injEq] at hab
          simp [h1, h2, getS_set_eq _ _ _ hdi, writeOutcome, hab.1, hab.2]

theorem cross_part_copy_aux (fx : Fixes) (q : Quirks) (c : Cfg) (ss : Stores) (s : State)
    (sb sk db dk : String) (svid : Option (Option Nat)) (uid n : Nat) (range : Option (Nat × Nat))
    (hne : storageOf c sb ≠ storageOf c db)
    (hdi : storageOf c db < ss.length)
    (hsrc : findBucket (getS ss (storageOf c sb)) sb = findBucket s sb)
    (hdst : getS ss (storageOf c db) = s) :
    flatten (getS (rstep fx q c ss (.partCopy sb sk svid db dk uid n range)).1 (storageOf c db))
      = flatten (xstep q s (.partCopy sb sk svid db dk uid n range)).1
    ∧ (rstep fx q c ss (.partCopy sb sk svid db dk uid n range)).2.out
      = (xstep q s (.partCopy sb sk svid db dk uid n range)).2 := by
  have hne' : (storageOf c sb == storageOf c db) = false := by simpa using hne
  simp only [rstep, route, hne', crossCopy, readSource, hsrc, xstep, Bool.false_eq_true, if_false]
  cases hfb : findBucket s sb with
  | none => simp [hdst, tick, flatten_clock]
  | some sbk =>
    simp only []
    cases hr : resolve sbk sk svid with
    | error e => simp [hdst, tick, flatten_clock]
    | ok src =>
      simp only []
      cases hsl : sliceOf src.content range with
      | error e => simp [hdst, tick, flatten_clock]
      | ok body => simp [hdst, getS_set_eq _ _ _ hdi]

-- ---------------------------------------------------------------- locality

theorem flatMap_congr' {α β} (l : List α) (f g : α → List β) (h : ∀ a ∈ l, f a = g a) : l.flatMap f = l.flatMap g := by
  induction l with
  | nil => rfl
  | cons x xs ih =>
    simp only [List.flatMap_cons]
    rw [h x (List.mem_cons_self ..), ih (fun a ha => h a (List.mem_cons_of_mem _ ha))]

theorem crossCopy_reads_only (fx : Fixes) (q : Quirks) (ss ss' : Stores) (si di : Nat) (op : XOp)
    (hs : getS ss si = getS ss' si) (hd : getS ss di = getS ss' di) :
    (crossCopy fx q ss si di op).2 = (crossCopy fx q ss' si di op).2 ∧
    (di < ss.length → di < ss'.length → getS (crossCopy fx q ss si di op).1 di = getS (crossCopy fx q ss' si di op).1 di) := by
  unfold crossCopy
  split
  · rw [hs, hd]
    split
    · exact ⟨rfl, fun _ _ => hd⟩
    · exact ⟨rfl, fun h1 h2 => by simp [getS_set_eq _ _ _ h1, getS_set_eq _ _ _ h2]⟩
  · rw [hs, hd]
    split
    · exact ⟨rfl, fun _ _ => hd⟩
    · split
      · exact ⟨rfl, fun _ _ => hd⟩
      · exact ⟨rfl, fun h1 h2 => by simp [getS_set_eq _ _ _ h1, getS_set_eq _ _ _ h2]⟩
  · exact ⟨rfl, fun _ _ => hd⟩

-- ---------------------------------------------------------------- ListBuckets

theorem nodup_flatMap_of {α β} (l : List α) (f : α → List β) (hl : l.Nodup)
    (hown : ∀ i ∈ l, (f i).Nodup)
    (hdisj : ∀ i ∈ l, ∀ j ∈ l, i ≠ j → ∀ n, n ∈ f i → n ∉ f j) : (l.flatMap f).Nodup := by
  induction l with
  | nil => simp
  | cons x xs ih =>
    simp only [List.flatMap_cons]
    have hx : x ∉ xs := (List.nodup_cons.mp hl).1
    have hxs : xs.Nodup := (List.nodup_cons.mp hl).2
    refine List.nodup_append.mpr ⟨hown x (List.mem_cons_self ..), ?_, ?_⟩
    · exact ih hxs (fun i hi => hown i (List.mem_cons_of_mem _ hi))
        (fun i hi j hj => hdisj i (List.mem_cons_of_mem _ hi) j (List.mem_cons_of_mem _ hj))
    · intro a ha b hb hab
      obtain ⟨j, hj, hbj⟩ := List.mem_flatMap.mp hb
      have hne : x ≠ j := fun h => hx (h ▸ hj)
      exact hdisj x (List.mem_cons_self ..) j (List.mem_cons_of_mem _ hj) hne a ha (hab ▸ hbj)

theorem mem_listBuckets (fx : Fixes) (c : Cfg) (ss : Stores) (n : String) :
    n ∈ listBuckets fx c ss ↔ ∃ i ∈ listSources c, n ∈ bucketNames (getS ss i) := by
  unfold listBuckets
  rw [(sortBy_perm _ _).mem_iff]
  split
  · rw [mem_dedup]; simp [List.mem_flatMap]
  · simp [List.mem_flatMap]

-- ---------------------------------------------------------------- placement

/-- Every bucket lives in the storage its name is routed to, and a storage holds a name once. -/
def Placed (c : Cfg) (ss : Stores) : Prop :=
  ∀ i s, ss[i]? = some s → (bucketNames s).Nodup ∧ ∀ n ∈ bucketNames s, storageOf c n = i

theorem bucketNames_eq (s : State) : bucketNames s = Replication.names s := rfl

/-- A storage that runs a call routed to it by bucket `b` keeps `Placed`. -/
theorem placed_after {c : Cfg} {i : Nat} {s : State} (q : Quirks) (op : XOp)
    (h : (bucketNames s).Nodup ∧ ∀ n ∈ bucketNames s, storageOf c n = i)
    (hmk : ∀ b, op = .base (.mkb b) → storageOf c b = i) :
    (bucketNames (xstep q s op).1).Nodup ∧ ∀ n ∈ bucketNames (xstep q s op).1, storageOf c n = i := by
  simp only [bucketNames_eq] at h ⊢
  rcases Replication.xstep_names q s op with he | ⟨b, hop, hb, he⟩ | ⟨b, _, hsub⟩
  · rw [he]; exact h
  · rw [he]
    refine ⟨List.nodup_append.mpr ⟨h.1, by simp, ?_⟩, ?_⟩
    · intro a ha x hx
      simp only [List.mem_singleton] at hx
      subst hx; intro hab; subst hab; exact hb ha
    · intro n hn
      rcases List.mem_append.mp hn with hn | hn
      · exact h.2 n hn
      · simp only [List.mem_singleton] at hn; subst hn; exact hmk _ hop
  · exact ⟨h.1.sublist hsub, fun n hn => h.2 n (hsub.subset hn)⟩

theorem getS_of_getElem? {ss : Stores} {i : Nat} {s : State} (h : ss[i]? = some s) : getS ss i = s := by
  simp [getS, List.getD, h]

theorem placed_set {c : Cfg} {ss : Stores} (hp : Placed c ss) (i : Nat) (s' : State)
    (hs' : ∀ s, ss[i]? = some s → (bucketNames s').Nodup ∧ ∀ n ∈ bucketNames s', storageOf c n = i) :
    Placed c (ss.set i s') := by
  intro j t ht
  by_cases hji : j = i
  · subst hji
    rw [List.getElem?_set] at ht
    split at ht
    · rename_i hlt
      split at ht
      · cases ht
        have : ∃ s, ss[j]? = some s := ⟨ss[j], by simp⟩
        obtain ⟨s, hs⟩ := this
        exact hs' s hs
      · cases ht
    · exact hp j t ht
  · rw [List.getElem?_set_ne (Ne.symm hji)] at ht
    exact hp j t ht

/-- **Placement is invariant**: whatever the call, buckets stay in the storage their name is
routed to (a bucket is only ever created by a CreateBucket, which is routed by its own name). -/
theorem placed_step (fx : Fixes) (q : Quirks) (c : Cfg) (ss : Stores) (op : XOp) (hp : Placed c ss) :
    Placed c (rstep fx q c ss op).1 := by
  unfold rstep
  split
  · next b hb =>
    dsimp only
    refine placed_set hp _ _ fun s hs => ?_
    rw [getS_of_getElem? hs]
    refine placed_after q op (hp _ s hs) fun b' hop => ?_
    subst hop
    simp only [route, routeBase, Route.bucket.injEq] at hb
    rw [hb]
  · next sb db hb =>
    dsimp only
    split
    · refine placed_set hp _ _ fun s hs => ?_
      rw [getS_of_getElem? hs]
      refine placed_after q op (hp _ s hs) fun b' hop => ?_
      subst hop
      simp [route, routeBase] at hb
    · unfold crossCopy
      split
      · split
        · exact hp
        · refine placed_set hp _ _ fun s hs => ?_
          rw [getS_of_getElem? hs]
          exact placed_after q (.base (.put _ _ _ _ false .none)) (hp _ s hs) (fun b' hop => by cases hop)
      · split
        · exact hp
        · split
          · exact hp
          · refine placed_set hp _ _ fun s hs => ?_
            rw [getS_of_getElem? hs]
            exact placed_after q (.base (.uploadPart _ _ _ _ _)) (hp _ s hs) (fun b' hop => by cases hop)
      · exact hp
  · exact hp

theorem placed_run (fx : Fixes) (q : Quirks) (c : Cfg) (ops : List XOp) (ss : Stores) (hp : Placed c ss) :
    Placed c (rrun fx q c ss ops).1 := by
  induction ops generalizing ss with
  | nil => exact hp
  | cons op ops ih => simp only [rrun]; exact ih _ (placed_step fx q c ss op hp)

theorem placed_empty (c : Cfg) (n : Nat) : Placed c (List.replicate n {}) := by
  intro i s hs
  have : s = {} := by
    have := List.mem_of_getElem? hs
    simp only [List.mem_replicate] at this
    exact this.2
  subst this
  exact ⟨by simp [bucketNames], by simp [bucketNames]⟩

theorem placed_getS {c : Cfg} {ss : Stores} (hp : Placed c ss) (i : Nat) :
    (bucketNames (getS ss i)).Nodup ∧ ∀ n ∈ bucketNames (getS ss i), storageOf c n = i := by
  cases h : ss[i]? with
  | some s => rw [getS_of_getElem? h]; exact hp i s h
  | none => simp [getS, List.getD, h, bucketNames]

end Pithos.Routing
