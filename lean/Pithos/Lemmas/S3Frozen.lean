/-
C13 core: an existing non-null version never changes. For every operation other than the explicit
delete of that very version, in a bucket whose versioning is Enabled or Suspended, a row with a
version id is still present afterwards with the same key, version id, delete-marker flag, parts
(content, size) and ETag — and, when Last-Modified is not bumped by mere row saves
(`touchOnAnySave = false`), the same `updated` value.
-/
import Pithos.Lemmas.S3Read

namespace Pithos.S3

def frozenEq (q : Quirks) (a b : Row) : Prop :=
  a.rowId = b.rowId ∧ a.key = b.key ∧ a.vid = b.vid ∧ a.dm = b.dm ∧ a.parts = b.parts ∧ a.etag = b.etag ∧
    (q.touchOnAnySave = false → a.updated = b.updated)

theorem frozenEq.refl (q : Quirks) (a : Row) : frozenEq q a a := ⟨rfl, rfl, rfl, rfl, rfl, rfl, fun _ => rfl⟩

theorem frozenEq.trans {q : Quirks} {a b c : Row} (h1 : frozenEq q a b) (h2 : frozenEq q b c) : frozenEq q a c :=
  ⟨h1.1.trans h2.1, h1.2.1.trans h2.2.1, h1.2.2.1.trans h2.2.2.1, h1.2.2.2.1.trans h2.2.2.2.1,
   h1.2.2.2.2.1.trans h2.2.2.2.2.1, h1.2.2.2.2.2.1.trans h2.2.2.2.2.2.1,
   fun hq => (h1.2.2.2.2.2.2 hq).trans (h2.2.2.2.2.2.2 hq)⟩

/-- `r` survives in `rows'` up to the frozen fields. -/
def KeepsRow (q : Quirks) (r : Row) (rows' : List Row) : Prop := ∃ r' ∈ rows', frozenEq q r r'

theorem keeps_self {q : Quirks} {r : Row} {rows : List Row} (h : r ∈ rows) : KeepsRow q r rows := ⟨r, h, frozenEq.refl q r⟩

theorem keeps_filter {q : Quirks} {r : Row} {rows : List Row} (f : Row → Bool) (h : KeepsRow q r rows)
    (hf : ∀ x ∈ rows, x.rowId = r.rowId → f x = true) : KeepsRow q r (rows.filter f) := by
  obtain ⟨r', hr', he⟩ := h
  exact ⟨r', List.mem_filter.2 ⟨hr', hf r' hr' he.1.symm⟩, he⟩

theorem keeps_append {q : Quirks} {r : Row} {rows : List Row} (y : Row) (h : KeepsRow q r rows) : KeepsRow q r (rows ++ [y]) := by
  obtain ⟨r', hr', he⟩ := h
  exact ⟨r', List.mem_append_left _ hr', he⟩

theorem mem_repl_other {rows : List Row} {y x : Row} (hx : x ∈ rows) (hne : x.rowId ≠ y.rowId) : x ∈ repl rows y := by
  unfold repl
  exact List.mem_map.2 ⟨x, hx, by simp [hne]⟩

theorem mem_repl_same {rows : List Row} {y x : Row} (hx : x ∈ rows) (he : x.rowId = y.rowId) : y ∈ repl rows y := by
  unfold repl
  exact List.mem_map.2 ⟨x, hx, by simp [he]⟩

/-- Replacing by id keeps `r` when the replacement either has another id, or is frozen-equal to the
row of that id (`rows` has pairwise distinct ids, so that row is unique). -/
theorem keeps_repl {q : Quirks} {r : Row} {rows : List Row} {y : Row} (hn : (ids rows).Nodup)
    (h : KeepsRow q r rows) (hy : ∀ x ∈ rows, x.rowId = y.rowId → x.rowId = r.rowId → frozenEq q x y) :
    KeepsRow q r (repl rows y) := by
  obtain ⟨r', hr', he⟩ := h
  by_cases hid : r'.rowId = y.rowId
  · exact ⟨y, mem_repl_same hr' hid, he.trans (hy r' hr' hid he.1.symm)⟩
  · exact ⟨r', mem_repl_other hr' hid, he⟩

theorem ids_nodup_of_keeps {rows : List Row} {n : Nat} (h : RowsInv n rows) : (ids rows).Nodup := h.nodup

-- bucket-level

theorem keeps_unlatest {q : Quirks} {r : Row} {bk : Bucket} {n : Nat} (now : Nat) (c : Row) (hb : RowsInv n bk.rows)
    (h : KeepsRow q r bk.rows) (hc : c ∈ bk.rows) : KeepsRow q r (unlatest q now bk c).rows := by
  rw [unlatest_rows]
  apply keeps_repl hb.nodup h
  intro x hx hxy _
  have : x = c := eq_of_id_eq hb.nodup hx hc hxy
  subst this
  refine ⟨rfl, rfl, rfl, rfl, rfl, rfl, ?_⟩
  intro hq; simp [hq]

theorem keeps_unlatestCur {q : Quirks} {r : Row} {bk : Bucket} {n : Nat} (now : Nat) (k : String) (hb : RowsInv n bk.rows)
    (h : KeepsRow q r bk.rows) : KeepsRow q r (unlatestCur q now bk k).rows := by
  unfold unlatestCur
  cases hl : latestRow bk k with
  | none => exact h
  | some c => exact keeps_unlatest now c hb h (latestRow_some hl).1

theorem keeps_touch {q : Quirks} {r : Row} {bk : Bucket} {n : Nat} (now : Nat) (c c' : Row) (hb : RowsInv n bk.rows)
    (h : KeepsRow q r bk.rows) (hc : c ∈ bk.rows) (hid : c'.rowId = c.rowId)
    (hfz : c'.key = c.key ∧ c'.vid = c.vid ∧ c'.dm = c.dm ∧ c'.parts = c.parts ∧ c'.etag = c.etag ∧ c'.updated = c.updated) :
    KeepsRow q r (replaceRow bk (touch q now c')).rows := by
  rw [replaceRow_rows]
  apply keeps_repl hb.nodup h
  intro x hx hxy _
  have hxc : x = c := eq_of_id_eq hb.nodup hx hc (by simpa [touch, hid] using hxy)
  subst hxc
  refine ⟨by simp [touch, hid], by simp [touch, hfz.1], by simp [touch, hfz.2.1], by simp [touch, hfz.2.2.1],
    by simp [touch, hfz.2.2.2.1], by simp [touch, hfz.2.2.2.2.1], ?_⟩
  intro hq; simp [touch, hq, hfz.2.2.2.2.2]

/-- `install` (any write path) keeps every row that has a version id. -/
theorem keeps_install (q : Quirks) (s : State) (bk : Bucket) (k : String) (n : NewObj) (r : Row)
    (hb : RowsInv s.nextRow bk.rows) (h : KeepsRow q r bk.rows) (hv : r.vid ≠ none) :
    ∃ bk', (install q s bk k n).1.buckets = (setBucket s bk').buckets ∧ bk'.name = bk.name ∧ KeepsRow q r bk'.rows := by
  unfold install
  have h2 := keeps_unlatestCur (q := q) s.clock k hb h
  have hb2 := inv_unlatestCur q s.clock bk k hb
  simp only []
  split
  · exact ⟨_, rfl, by rw [addRow_name, unlatestCur_name], by rw [addRow_rows]; exact keeps_append _ h2⟩
  · split
    · rename_i nr hnr
      refine ⟨_, rfl, by rw [replaceRow_name, unlatestCur_name], ?_⟩
      rw [replaceRow_rows]
      apply keeps_repl hb2.nodup h2
      intro x hx hxy hxr
      -- x has the id of the null row and of r: impossible, r has a version id
      exfalso
      obtain ⟨hmem, _, hnv⟩ := rowByVid_mem (by simpa [nullRow] using hnr)
      obtain ⟨r0, hr0, he0⟩ := h
      -- r0 ∈ bk.rows has r's id; nr ∈ bk.rows has the same id ⇒ r0 = nr ⇒ r.vid = none
      have : r0 = nr := eq_of_id_eq hb.nodup hr0 hmem (by rw [← he0.1, ← hxr, hxy]; simp [mkRow])
      apply hv
      rw [he0.2.2.1, this, hnv]
    · exact ⟨_, rfl, by rw [addRow_name, unlatestCur_name], by rw [addRow_rows]; exact keeps_append _ h2⟩

theorem keeps_putRow {q : Quirks} {s : State} {bk : Bucket} {k : String} {n : NewObj} {inm : Bool} {im : IfMatch}
    {s' : State} {vid : Option Nat} (r : Row) (hb : RowsInv s.nextRow bk.rows) (h : KeepsRow q r bk.rows) (hv : r.vid ≠ none)
    (hok : putRow q s bk k n inm im = .ok (s', vid)) :
    ∃ bk', s'.buckets = (setBucket s bk').buckets ∧ bk'.name = bk.name ∧ KeepsRow q r bk'.rows := by
  obtain ⟨bk1, hbk1, hx⟩ := putRow_ok hok
  have hs : s' = (install q s bk1 k n).1 := by rw [← hx]
  rw [hs]
  rcases hbk1 with rfl | ⟨c, hl, rfl⟩
  · exact keeps_install q s _ k n r hb h hv
  · have hc := (latestRow_some hl).1
    obtain ⟨bk', h1, h2, h3⟩ := keeps_install q s (replaceRow bk (touch q s.clock c)) k n r
      (touch_inv q s.clock bk c hb hc)
      (keeps_touch s.clock c c hb h hc rfl ⟨rfl, rfl, rfl, rfl, rfl, rfl⟩) hv
    exact ⟨bk', h1, h2, h3⟩

end Pithos.S3
