/-
Helper lemmas for C21 (model: Pithos.Model.OutboxStorage): flushing, waiting, and commuting a
written-through operation past the independent rest of the table.
-/
import Pithos.Model.OutboxStorage

namespace Pithos.OutboxStorage

variable {σ Op Out : Type}

/-- What the theorems assume of the inner storage semantics and the wait scopes. `R` is the
equivalence "the two storages answer every future operation alike". -/
structure Sound (I : Inner σ Op Out) (P : Policy σ Op) (R : σ → σ → Prop) : Prop where
  refl : ∀ s, R s s
  symm : ∀ {s t}, R s t → R t s
  trans : ∀ {s t u}, R s t → R t u → R s u
  /-- equivalent storages answer alike and stay equivalent -/
  congr : ∀ {s t} (op : Op), R s t → (I.step s op).2 = (I.step t op).2 ∧ R (I.step s op).1 (I.step t op).1
  /-- an operation that can be written through commutes with every queued entry outside its wait scopes -/
  commute : ∀ (t : σ) (a e : Op), (∃ u, P.queues u a = false) → Indep I P a e →
    (I.step (I.step t e).1 a).2 = (I.step t a).2 ∧
    R (I.step (I.step t e).1 a).1 (I.step (I.step t a).1 e).1

theorem seqState_cons (I : Inner σ Op Out) (t : σ) (e : Op) (q : List Op) :
    seqState I t (e :: q) = seqState I (I.step t e).1 q := rfl

theorem seqState_append (I : Inner σ Op Out) (t : σ) (q r : List Op) :
    seqState I t (q ++ r) = seqState I (seqState I t q) r := by
  simp [seqState, List.foldl_append]

theorem seqState_congr {I : Inner σ Op Out} {P : Policy σ Op} {R : σ → σ → Prop} (h : Sound I P R)
    (q : List Op) {s t : σ} (hr : R s t) : R (seqState I s q) (seqState I t q) := by
  induction q generalizing s t with
  | nil => exact hr
  | cons e q ih => exact ih (h.congr e hr).2

theorem flushN_eq (I : Inner σ Op Out) (n : Nat) (s : St σ Op) :
    flushN I n s = { inner := seqState I s.inner (s.queue.take n), queue := s.queue.drop n } := by
  induction n generalizing s with
  | zero => simp [flushN, seqState]
  | succ n ih =>
    cases hq : s.queue with
    | nil => simp [flushN, hq, seqState]; cases s; simp_all
    | cons e q => simp [flushN, hq, ih, seqState]

theorem pending_flushN (I : Inner σ Op Out) (n : Nat) (s : St σ Op) :
    pending I (flushN I n s) = pending I s := by
  rw [flushN_eq]
  simp only [pending]
  rw [← seqState_append, List.take_append_drop]

theorem needFor_drop (I : Inner σ Op Out) (sc : Scope) (q : List Op) :
    ∀ e ∈ q.drop (needFor I sc q), sc.mem (I.addr e) = false := by
  induction q with
  | nil => intro e he; simp at he
  | cons a q ih =>
    intro e he
    simp only [needFor] at he
    by_cases hr : needFor I sc q > 0
    · simp only [hr, if_true, List.drop_succ_cons] at he
      exact ih e he
    · simp only [hr, if_false] at he
      have hz : needFor I sc q = 0 := by omega
      by_cases ha : sc.mem (I.addr a) = true
      · simp only [ha, if_true, List.drop_succ_cons, List.drop_zero] at he
        exact ih e (by rw [hz]; simpa using he)
      · simp only [ha] at he
        simp only [Bool.false_eq_true, if_false, List.drop_zero, List.mem_cons] at he
        rcases he with rfl | he
        · simpa using ha
        · exact ih e (by rw [hz]; simpa using he)

/-- After waiting for a list of scopes the table is a suffix of what it was, the replayed table
is unchanged, and no remaining entry lies in any of the scopes. -/
theorem wait_all (I : Inner σ Op Out) (scs : List Scope) (s : St σ Op) :
    let s1 := scs.foldl (waitScope I) s
    pending I s1 = pending I s ∧ (∃ m, s1.queue = s.queue.drop m) ∧
    ∀ e ∈ s1.queue, ∀ sc ∈ scs, sc.mem (I.addr e) = false := by
  induction scs generalizing s with
  | nil => exact ⟨rfl, ⟨0, by simp⟩, fun e _ sc hsc => by cases hsc⟩
  | cons sc scs ih =>
    simp only [List.foldl_cons]
    have h1 := ih (waitScope I s sc)
    obtain ⟨hp, ⟨m, hm⟩, hno⟩ := h1
    have hq : (waitScope I s sc).queue = s.queue.drop (needFor I sc s.queue) := by
      simp [waitScope, flushN_eq]
    refine ⟨?_, ?_, ?_⟩
    · rw [hp]; exact pending_flushN I _ s
    · exact ⟨needFor I sc s.queue + m, by rw [hm, hq, List.drop_drop]⟩
    · intro e he sc' hsc'
      rcases List.mem_cons.1 hsc' with rfl | h'
      · have : e ∈ s.queue.drop (needFor I sc' s.queue) := by
          rw [hm, hq] at he
          exact List.mem_of_mem_drop he
        exact needFor_drop I sc' s.queue e this
      · exact hno e he sc' h'

/-- A written-through operation applied *before* the independent rest of the table returns what it
returns *after* it, and leaves an equivalent storage. -/
theorem commute_past {I : Inner σ Op Out} {P : Policy σ Op} {R : σ → σ → Prop} (h : Sound I P R)
    (a : Op) (ha : ∃ u, P.queues u a = false) (q : List Op) (hq : ∀ e ∈ q, Indep I P a e) (t : σ) :
    (I.step (seqState I t q) a).2 = (I.step t a).2 ∧
    R (I.step (seqState I t q) a).1 (seqState I (I.step t a).1 q) := by
  induction q generalizing t with
  | nil => exact ⟨rfl, h.refl _⟩
  | cons e q ih =>
    have he := hq e List.mem_cons_self
    have hq' : ∀ x ∈ q, Indep I P a x := fun x hx => hq x (List.mem_cons_of_mem _ hx)
    obtain ⟨ho, hr⟩ := ih hq' (I.step t e).1
    obtain ⟨co, cr⟩ := h.commute t a e ha he
    refine ⟨?_, ?_⟩
    · rw [seqState_cons, ho, co]
    · rw [seqState_cons, seqState_cons]
      exact h.trans hr (seqState_congr h q cr)

theorem drain_eq_pending (I : Inner σ Op Out) (s : St σ Op) : drain I s = pending I s := by
  simp [drain, flushN_eq, pending]

/-- **A rejected operation leaves the outbox unchanged**: no entry is added, the inner storage is
only what flushing entries that were already queued makes of it (on the queue path: nothing at all
happens), so the replayed table is exactly what it was. -/
theorem rejected_unchanged (I : Inner σ Op Out) (P : Policy σ Op) (s : St σ Op) (op : Op)
    (hr : P.rejects op = true) :
    (accept I P s op).2.2.2 = false ∧ (accept I P s op).2.1 = I.rejected op ∧
    pending I (accept I P s op).1 = pending I s ∧
    (∃ m, (accept I P s op).1.queue = s.queue.drop m) ∧
    (P.queues s.inner op = true → (accept I P s op).1 = s) := by
  by_cases hq : P.queues s.inner op = true
  · simp [accept, hq, hr]
    exact ⟨0, by simp⟩
  · have hq' : P.queues s.inner op = false := by simpa using hq
    obtain ⟨hp, hm, _⟩ := wait_all I (P.scopes op) s
    simp [accept, hq', hr]
    exact ⟨hp, hm⟩

/-- The simulation: whatever the worker's flush points, the log agrees with the sequential
execution of the accepted operations and the replayed table stays equivalent to that sequential
state. -/
theorem run_sound {I : Inner σ Op Out} {P : Policy σ Op} {R : σ → σ → Prop} (h : Sound I P R)
    (evs : List (Event Op)) (s : St σ Op) (t : σ) (hinv : R (pending I s) t) :
    Agree I t (run I P s evs).2 ∧
    R (pending I (run I P s evs).1) (seqState I t (acceptedOps (run I P s evs).2)) := by
  induction evs generalizing s t with
  | nil => exact ⟨trivial, hinv⟩
  | cons ev evs ih =>
    cases ev with
    | flush =>
      simp only [run]
      exact ih _ t (by rw [pending_flushN]; exact hinv)
    | accept op =>
      by_cases hrj : P.rejects op = true
      · -- rejected: nothing happens to the replayed table, the sequential state does not move
        obtain ⟨hacc, hout, hp, _, _⟩ := rejected_unchanged I P s op hrj
        have hinv' : R (pending I (accept I P s op).1) t := by rw [hp]; exact hinv
        obtain ⟨ha, hr⟩ := ih _ _ hinv'
        simp only [run, Agree, acceptedOps, List.filter_cons, hacc]
        refine ⟨?_, ?_⟩
        · simpa using ⟨hout, ha⟩
        · simpa [acceptedOps] using hr
      · have hrf : P.rejects op = false := by simpa using hrj
        by_cases hqm : P.queues s.inner op = true
        · -- queued
          have hacc : accept I P s op = ({ s with queue := s.queue ++ [op] }, I.ack op, false, true) := by
            simp [accept, hqm, hrf]
          have hinv' : R (pending I { s with queue := s.queue ++ [op] }) (I.step t op).1 := by
            simp only [pending, seqState_append]
            exact (h.congr op hinv).2
          obtain ⟨ha, hr⟩ := ih _ _ hinv'
          simp only [run, hacc, Agree, acceptedOps, List.filter_cons]
          refine ⟨?_, ?_⟩
          · simpa using ha
          · simpa [acceptedOps, seqState_cons] using hr
        · -- written through
          have hqf : P.queues s.inner op = false := by simpa using hqm
          obtain ⟨hp, _, hno⟩ := wait_all I (P.scopes op) s
          have hacc : accept I P s op =
              ({ ((P.scopes op).foldl (waitScope I) s) with
                   inner := (I.step ((P.scopes op).foldl (waitScope I) s).inner op).1 },
               (I.step ((P.scopes op).foldl (waitScope I) s).inner op).2, true, true) := by
            simp [accept, hqf, hrf]
          generalize hs1 : (P.scopes op).foldl (waitScope I) s = s1 at hp hno hacc
          have hind : ∀ e ∈ s1.queue, Indep I P op e := fun e he sc hsc => hno e he sc hsc
          obtain ⟨co, cr⟩ := commute_past h op ⟨s.inner, hqf⟩ s1.queue hind s1.inner
          have hinv1 : R (pending I s1) t := by rw [hp]; exact hinv
          have hout : (I.step s1.inner op).2 = (I.step t op).2 := by
            rw [← co]; exact (h.congr op hinv1).1
          have hinv' : R (pending I { s1 with inner := (I.step s1.inner op).1 }) (I.step t op).1 := by
            simp only [pending]
            exact h.trans (h.symm cr) (h.congr op hinv1).2
          obtain ⟨ha, hr⟩ := ih _ _ hinv'
          simp only [run, hacc, Agree, acceptedOps, List.filter_cons]
          refine ⟨?_, ?_⟩
          · simpa using ⟨hout, ha⟩
          · simpa [acceptedOps, seqState_cons] using hr

end Pithos.OutboxStorage
