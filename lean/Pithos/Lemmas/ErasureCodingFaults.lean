/-
The read/heal loop of the erasure-coding store under faults (helpers for C17).

A shard reader is *honest* when every frame it ever yields is the true frame of that stripe (it may
stop early — missing, truncated, detectably corrupted — but it never lies, and nothing frame-like
follows the last true frame). Main results, for an MDS code:
* `loop_enough_intact` — if at least `d` readers are intact and all others honest, the loop delivers
  exactly the remaining stripes without failing, and the heal stream of every DATA shard that is
  being healed is its true remaining stream;
* `loop_some_intact` — if at least one reader is intact and all others honest, the loop either fails
  or delivers exactly the remaining stripes.
-/
import Pithos.Lemmas.ErasureCoding

namespace Pithos.EC
open Pithos.Codec

/-- the true payload of shard `k` for stripe `x` -/
def truePayload (c : Cfg) (code : Code) (x : Bytes) (k : Nat) : Bytes := (stripeShards c code x).getD k []

/-- Honest reader of shard `k`, positioned at stripe `j` with the true stripes `xs` still to come. -/
def HonestFrom (c : Cfg) (code : Code) (H : Bytes → Bytes) (k : Nat) : Nat → List Bytes → Bytes → Prop
  | j, [], r => readFrame H j r = .eof
  | j, x :: xs, r =>
    match readFrame H j r with
    | .eof => True
    | .bad => True
    | .ok db p rest => db = x.length ∧ p = truePayload c code x k ∧ HonestFrom c code H k (j + 1) xs rest

/-- MDS: whenever at least `d` shards are present and every present shard is the true one, the code
recovers the data shards (and, for the repaired heal path, the whole codeword). -/
structure MDS (c : Cfg) (code : Code) : Prop where
  reconstruct_ok : ∀ (data : List Bytes) (L : Nat) (avail : List (Option Bytes)),
    data.length = c.d → (∀ x ∈ data, x.length = L) → avail.length = c.n →
    (∀ k, k < c.n → avail.getD k none = none ∨ avail.getD k none = some ((data ++ code.parity c.d c.p data).getD k [])) →
    c.d ≤ (avail.filter Option.isSome).length →
    code.reconstruct c.d c.p avail = some data

/-! ## one stripe -/

/-- every present shard is the true one -/
def TrueOrNone (all : List Bytes) (avail : List (Option Bytes)) : Prop :=
  avail.length = all.length ∧ ∀ k, k < all.length → avail.getD k none = none ∨ avail.getD k none = some (all.getD k [])

theorem sameSizes_of_true (all : List Bytes) (avail : List (Option Bytes)) (L : Nat)
    (hL : ∀ s ∈ all, s.length = L) (h : TrueOrNone all avail) : sameSizes avail = true := by
  have hmem : ∀ b ∈ avail.filterMap id, b.length = L := by
    intro b hb
    rw [List.mem_filterMap] at hb
    obtain ⟨o, ho, hob⟩ := hb
    obtain ⟨i, hi, hio⟩ := List.getElem_of_mem ho
    have hi' : i < all.length := h.1 ▸ hi
    have hg : avail.getD i none = o := by
      rw [List.getD_eq_getElem?_getD, List.getElem?_eq_getElem hi, hio]; rfl
    rcases h.2 i hi' with h1 | h1
    · rw [hg] at h1; subst h1; cases hob
    · rw [hg] at h1; subst h1
      simp only [id, Option.some.injEq] at hob
      subst hob
      apply hL
      rw [List.getD_eq_getElem?_getD, List.getElem?_eq_getElem hi']
      exact List.getElem_mem hi'
  unfold sameSizes
  cases hfm : avail.filterMap id with
  | nil => rfl
  | cons a t =>
    simp only [List.all_eq_true, beq_iff_eq]
    intro b hb
    rw [hmem b (by rw [hfm]; exact List.mem_cons_of_mem _ hb), hmem a (by rw [hfm]; exact List.mem_cons_self)]

theorem take_all_present (all : List Bytes) (avail : List (Option Bytes)) (d : Nat) (hd : d ≤ all.length)
    (h : TrueOrNone all avail) (hp : ∀ k, k < d → avail.getD k none ≠ none) :
    (avail.take d).all Option.isSome = true ∧ (avail.take d).filterMap id = all.take d := by
  have hEq : avail.take d = (all.take d).map some := by
    apply List.ext_getElem
    · simp [h.1]
    · intro i h1 h2
      have hid : i < d := by simp at h1; omega
      have hia : i < all.length := by omega
      have hiv : i < avail.length := by rw [h.1]; exact hia
      rcases h.2 i hia with h3 | h3
      · exact absurd h3 (hp i hid)
      · simp only [List.getElem_take, List.getElem_map]
        rw [List.getD_eq_getElem?_getD, List.getElem?_eq_getElem hiv] at h3
        rw [List.getD_eq_getElem?_getD, List.getElem?_eq_getElem hia] at h3
        simpa using h3
  rw [hEq]
  constructor
  · rw [List.all_eq_true]
    intro o ho
    obtain ⟨b, _, rfl⟩ := List.mem_map.1 ho
    rfl
  · rw [List.filterMap_map]
    induction all.take d with
    | nil => rfl
    | cons a t ih => simp [List.filterMap_cons, ih]

theorem dataOf_true (c : Cfg) (code : Code) (H : Bytes → Bytes) (wf : WF c code H) (mds : MDS c code) (x : Bytes)
    (avail : List (Option Bytes)) (h : TrueOrNone (stripeShards c code x) avail)
    (hcount : c.d ≤ (avail.filter Option.isSome).length) :
    dataOf c code avail = some (stripe c.d x) := by
  obtain ⟨shl, shs⟩ := stripeShards_spec c code H wf x
  unfold dataOf
  by_cases hall : (avail.take c.d).all Option.isSome = true
  · simp only [hall, if_true]
    have hp : ∀ k, k < c.d → avail.getD k none ≠ none := by
      intro k hk hn
      rw [List.all_eq_true] at hall
      have hkl : k < (avail.take c.d).length := by
        simp [h.1, shl, Cfg.n]; omega
      have := hall _ (List.getElem_mem hkl)
      rw [List.getElem_take] at this
      have hka : k < avail.length := by rw [h.1, shl]; simp [Cfg.n]; omega
      rw [List.getD_eq_getElem?_getD, List.getElem?_eq_getElem hka] at hn
      simp at hn
      rw [hn] at this
      cases this
    have := (take_all_present _ avail c.d (by rw [shl]; simp [Cfg.n]) h hp).2
    rw [this]
    simp [stripeShards, List.take_append_of_le_length, stripe_length]
  · simp only [hall]
    apply mds.reconstruct_ok (stripe c.d x) (shardLen c.d x.length) avail (stripe_length c.d x)
      (stripe_shard_length c.d x) (by rw [h.1, shl])
    · intro k hk
      have := h.2 k (by rw [shl]; exact hk)
      simpa [stripeShards] using this
    · exact hcount

/-! ## readers -/

def ReaderOK (c : Cfg) (code : Code) (H : Bytes → Bytes) (k j : Nat) (xs : List Bytes) : Option Bytes → Prop
  | none => True
  | some r => HonestFrom c code H k j xs r

def StripesOK (c : Cfg) (xs : List Bytes) : Prop := ∀ x ∈ xs, x ≠ [] ∧ x.length ≤ c.d * c.stripe

theorem readFrame_true (c : Cfg) (code : Code) (H : Bytes → Bytes) (wf : WF c code H) (k : Nat) (hk : k < c.n)
    (j : Nat) (x : Bytes) (hx : x ≠ [] ∧ x.length ≤ c.d * c.stripe) (rest : Bytes) :
    readFrame H j (frame H j x.length (truePayload c code x k) ++ rest) = .ok x.length (truePayload c code x k) rest := by
  have hx1 : 1 ≤ x.length := by
    cases x with
    | nil => exact absurd rfl hx.1
    | cons _ _ => simp
  obtain ⟨shl, shs⟩ := stripeShards_spec c code H wf x
  have hL1 : 1 ≤ shardLen c.d x.length := shardLen_pos c.d x.length wf.d_pos hx1
  have hLle : shardLen c.d x.length ≤ x.length := shardLen_le c.d x.length wf.d_pos hx1
  have hxlt : x.length < 4294967296 := by have := wf.stripeData_lt; omega
  have hk' : k < (stripeShards c code x).length := by rw [shl]; exact hk
  have hlen : (truePayload c code x k).length = shardLen c.d x.length := by
    apply shs
    unfold truePayload
    rw [List.getD_eq_getElem?_getD, List.getElem?_eq_getElem hk']
    exact List.getElem_mem hk'
  exact readFrame_frame H wf.hash_len j x.length _ _ hx1 hxlt (by omega) (by omega)

/-- an intact reader is honest -/
theorem honest_intact (c : Cfg) (code : Code) (H : Bytes → Bytes) (wf : WF c code H) (k : Nat) (hk : k < c.n) :
    ∀ (xs : List Bytes) (j : Nat), StripesOK c xs → HonestFrom c code H k j xs (framesFrom c code H k j xs) := by
  intro xs
  induction xs with
  | nil => intro j _; simp [HonestFrom, framesFrom, readFrame_nil]
  | cons x xs ih =>
    intro j hs
    simp only [HonestFrom, framesFrom]
    have := readFrame_true c code H wf k hk j x (hs x List.mem_cons_self) (framesFrom c code H k (j + 1) xs)
    unfold truePayload at this
    rw [this]
    exact ⟨rfl, rfl, ih (j + 1) fun y hy => hs y (List.mem_cons_of_mem _ hy)⟩

/-- What one iteration of the stripe loop sees, reader by reader. -/
theorem step_reader (c : Cfg) (code : Code) (H : Bytes → Bytes) (k j : Nat) (x : Bytes) (xs : List Bytes) (r : Option Bytes)
    (h : ReaderOK c code H k j (x :: xs) r) :
    (FrameRead.payload (r.map (readFrame H j)) = none ∨ FrameRead.payload (r.map (readFrame H j)) = some (truePayload c code x k)) ∧
    ReaderOK c code H k (j + 1) xs (FrameRead.rest (r.map (readFrame H j))) ∧
    (∀ db, FrameRead.dataBytes (r.map (readFrame H j)) = some db → db = x.length) := by
  cases r with
  | none => exact ⟨Or.inl rfl, trivial, fun db h => by cases h⟩
  | some b =>
    simp only [ReaderOK, HonestFrom] at h
    simp only [Option.map_some]
    cases hf : readFrame H j b with
    | eof => exact ⟨Or.inl rfl, trivial, fun db h => by cases h⟩
    | bad => exact ⟨Or.inl rfl, trivial, fun db h => by cases h⟩
    | ok db p rest =>
      rw [hf] at h
      obtain ⟨h1, h2, h3⟩ := h
      refine ⟨Or.inr (by simp [FrameRead.payload, h2]), h3, fun db' hdb => ?_⟩
      simp only [FrameRead.dataBytes, Option.some.injEq] at hdb
      omega

/-! ## the loop with honest readers -/

def intactAt (c : Cfg) (code : Code) (H : Bytes → Bytes) (j : Nat) (xs : List Bytes) (readers : List (Option Bytes)) (k : Nat) : Bool :=
  decide (readers.getD k none = some (framesFrom c code H k j xs))

/-- number of intact readers -/
def intactCount (c : Cfg) (code : Code) (H : Bytes → Bytes) (j : Nat) (xs : List Bytes) (readers : List (Option Bytes)) : Nat :=
  (List.range c.n).countP (intactAt c code H j xs readers)

theorem getD_map_opt {α β : Type} (l : List (Option α)) (f : Option α → Option β) (hf : f none = none) (k : Nat) :
    (l.map f).getD k none = f (l.getD k none) := by
  simp only [List.getD_eq_getElem?_getD, List.getElem?_map]
  cases l[k]? <;> simp [hf]

theorem available_ge (n : Nat) (avail : List (Option Bytes)) (hl : avail.length = n) (q : Nat → Bool)
    (hq : ∀ k, k < n → q k = true → (avail.getD k none).isSome = true) :
    (List.range n).countP q ≤ (avail.filter Option.isSome).length := by
  have h1 : avail = (List.range n).map fun k => avail.getD k none := by
    rw [← hl]; exact (range_map_getD avail none).symm
  have h2 : (avail.filter Option.isSome).length = (List.range n).countP fun k => (avail.getD k none).isSome := by
    rw [← List.countP_eq_length_filter]
    conv => lhs; rw [h1]
    rw [List.countP_map]
    rfl
  rw [h2]
  apply List.countP_mono_left
  intro k hk
  exact hq k (List.mem_range.1 hk)

theorem loop_honest (c : Cfg) (code : Code) (H : Bytes → Bytes) (wf : WF c code H) (mds : MDS c code) (fix : Fix)
    (healing : List Bool) :
    ∀ (xs : List Bytes) (j fuel : Nat) (readers : List (Option Bytes)) (acc : Bytes) (hacc : List Bytes),
      StripesOK c xs → readers.length = c.n →
      (∀ k, k < c.n → ReaderOK c code H k j xs (readers.getD k none)) →
      (∃ k0, k0 < c.n ∧ readers.getD k0 none = some (framesFrom c code H k0 j xs)) →
      xs.length < fuel →
      ((loop c code H fix healing fuel j readers acc hacc).failed = false →
          (loop c code H fix healing fuel j readers acc hacc).out = acc ++ xs.flatten) ∧
      (c.d ≤ intactCount c code H j xs readers → (loop c code H fix healing fuel j readers acc hacc).failed = false) := by
  intro xs
  induction xs with
  | nil =>
    intro j fuel readers acc hacc _ hlen hok _ hf
    obtain ⟨f, rfl⟩ : ∃ f, fuel = f + 1 := ⟨fuel - 1, by simp at hf; omega⟩
    -- no reader shows anything frame-like: the loop ends cleanly
    have hany : (readers.map (Option.map (readFrame H j))).any FrameRead.seen = false := by
      rw [List.any_eq_false]
      intro o ho
      obtain ⟨r, hr, rfl⟩ := List.mem_map.1 ho
      obtain ⟨k, hk, hkr⟩ := List.getElem_of_mem hr
      have := hok k (hlen ▸ hk)
      rw [List.getD_eq_getElem?_getD, List.getElem?_eq_getElem hk, hkr] at this
      cases r with
      | none => simp [FrameRead.seen]
      | some b =>
        simp only [Option.getD_some, ReaderOK, HonestFrom] at this
        simp [FrameRead.seen, this]
    rw [loop]
    simp [hany]
  | cons x xs ih =>
    intro j fuel readers acc hacc hs hlen hok hk0 hf
    obtain ⟨f, rfl⟩ : ∃ f, fuel = f + 1 := ⟨fuel - 1, by simp at hf; omega⟩
    obtain ⟨k0, hk0n, hk0⟩ := hk0
    have hx := hs x List.mem_cons_self
    have hs' : StripesOK c xs := fun y hy => hs y (List.mem_cons_of_mem _ hy)
    obtain ⟨shl, shs⟩ := stripeShards_spec c code H wf x
    -- per-reader facts
    have hfrsD : ∀ k, (readers.map (Option.map (readFrame H j))).getD k none = (readers.getD k none).map (readFrame H j) :=
      fun k => getD_map_opt readers _ rfl k
    have hstep : ∀ k, k < c.n → _ := fun k hk => step_reader c code H k j x xs (readers.getD k none) (hok k hk)
    have hk0f : (readers.getD k0 none).map (readFrame H j)
        = some (.ok x.length (truePayload c code x k0) (framesFrom c code H k0 (j + 1) xs)) := by
      rw [hk0]
      simp only [framesFrom, Option.map_some]
      exact congrArg some (readFrame_true c code H wf k0 hk0n j x hx _)
    have hk0lt : k0 < (readers.map (Option.map (readFrame H j))).length := by simp [hlen]; exact hk0n
    have hk0mem : (readers.getD k0 none).map (readFrame H j) ∈ readers.map (Option.map (readFrame H j)) := by
      rw [← hfrsD k0, List.getD_eq_getElem?_getD, List.getElem?_eq_getElem hk0lt]
      exact List.getElem_mem hk0lt
    have hany : (readers.map (Option.map (readFrame H j))).any FrameRead.seen = true := by
      rw [List.any_eq_true]
      exact ⟨_, hk0mem, by rw [hk0f]; rfl⟩
    have htrue : TrueOrNone (stripeShards c code x) ((readers.map (Option.map (readFrame H j))).map FrameRead.payload) := by
      refine ⟨by simp [hlen, shl], fun k hk => ?_⟩
      rw [shl] at hk
      rw [getD_map_opt _ _ rfl k, hfrsD k]
      exact (hstep k hk).1
    have hdb : ((readers.map (Option.map (readFrame H j))).findSome? FrameRead.dataBytes).getD 0 = x.length := by
      cases hfs : (readers.map (Option.map (readFrame H j))).findSome? FrameRead.dataBytes with
      | none =>
        rw [List.findSome?_eq_none_iff] at hfs
        have := hfs _ hk0mem
        rw [hk0f] at this
        cases this
      | some db =>
        obtain ⟨o, ho, hod⟩ := List.exists_of_findSome?_eq_some hfs
        obtain ⟨k, hk, hko⟩ := List.getElem_of_mem ho
        have hkn : k < c.n := by simpa [hlen] using hk
        have hok' := (hstep k hkn).2.2 db
        rw [← hfrsD k, List.getD_eq_getElem?_getD, List.getElem?_eq_getElem hk, hko] at hok'
        simp only [Option.getD_some] at hok'
        simp [hok' hod]
    have hsame : sameSizes ((readers.map (Option.map (readFrame H j))).map FrameRead.payload) = true :=
      sameSizes_of_true _ _ _ shs htrue
    -- the next state
    have hlen' : ((readers.map (Option.map (readFrame H j))).map FrameRead.rest).length = c.n := by simp [hlen]
    have hok' : ∀ k, k < c.n → ReaderOK c code H k (j + 1) xs
        (((readers.map (Option.map (readFrame H j))).map FrameRead.rest).getD k none) := by
      intro k hk
      rw [getD_map_opt _ _ rfl k, hfrsD k]
      exact (hstep k hk).2.1
    have hintact' : ∀ k, k < c.n → readers.getD k none = some (framesFrom c code H k j (x :: xs)) →
        ((readers.map (Option.map (readFrame H j))).map FrameRead.rest).getD k none = some (framesFrom c code H k (j + 1) xs) := by
      intro k hk hi
      rw [getD_map_opt _ _ rfl k, hfrsD k, hi]
      simp only [framesFrom, Option.map_some]
      have := readFrame_true c code H wf k hk j x hx (framesFrom c code H k (j + 1) xs)
      unfold truePayload at this
      rw [this]; rfl
    have hk0' : ∃ k0, k0 < c.n ∧ ((readers.map (Option.map (readFrame H j))).map FrameRead.rest).getD k0 none
        = some (framesFrom c code H k0 (j + 1) xs) := ⟨k0, hk0n, hintact' k0 hk0n hk0⟩
    have hcount : intactCount c code H j (x :: xs) readers
        ≤ (((readers.map (Option.map (readFrame H j))).map FrameRead.payload).filter Option.isSome).length := by
      apply available_ge c.n _ (by simp [hlen])
      intro k hk hq
      simp only [intactAt, decide_eq_true_eq] at hq
      rw [getD_map_opt _ _ rfl k, hfrsD k, hq]
      simp only [framesFrom, Option.map_some]
      have := readFrame_true c code H wf k hk j x hx (framesFrom c code H k (j + 1) xs)
      unfold truePayload at this
      rw [this]; rfl
    have hcount' : intactCount c code H j (x :: xs) readers
        ≤ intactCount c code H (j + 1) xs ((readers.map (Option.map (readFrame H j))).map FrameRead.rest) := by
      apply List.countP_mono_left
      intro k hk hq
      simp only [intactAt, decide_eq_true_eq] at hq ⊢
      exact hintact' k (List.mem_range.1 hk) hq
    rw [loop]
    simp only [hany, Bool.not_true, Bool.false_eq_true, if_false, hdb, hsame]
    by_cases hav : (((readers.map (Option.map (readFrame H j))).map FrameRead.payload).filter Option.isSome).length < c.d
    · -- too few shards in this stripe: the stream fails
      simp only [hav, if_true]
      -- (the intact reader shows a valid frame, so this is not the repaired "enough readers ended" end)
      have hsome : ((readers.map (Option.map (readFrame H j))).map FrameRead.payload).any Option.isSome = true := by
        rw [List.any_eq_true]
        exact ⟨_, List.mem_map.2 ⟨_, hk0mem, rfl⟩, by rw [hk0f]; rfl⟩
      simp only [hsome, Bool.not_true, Bool.and_false, Bool.false_and, Bool.false_eq_true, if_false]
      exact ⟨(fun h => by cases h), (fun hd => by omega)⟩
    · simp only [hav, if_false]
      rw [dataOf_true c code H wf mds x _ htrue (by omega)]
      simp only
      rw [unstripe_stripe c.d x wf.d_pos]
      have IH := fun hacc' => ih (j + 1) f _ (acc ++ x) hacc' hs' hlen' hok' hk0' (by simp at hf; omega)
      refine ⟨fun h => ?_, fun hd => ?_⟩
      · rw [(IH _).1 h]; simp [List.append_assoc]
      · exact (IH _).2 (by omega)

/-! ## the whole read -/

/-- A shard store's answer is honest w.r.t. the part `b`: missing, unusable at open, or an honest reader. -/
def ShardHonest (c : Cfg) (code : Code) (H : Bytes → Bytes) (b : Bytes) (k : Nat) (s : Option Bytes) : Prop :=
  ReaderOK c code H k 0 (stripesOf c b) (openShard c k s)

def shardIntact (c : Cfg) (code : Code) (H : Bytes → Bytes) (b : Bytes) (streams : List (Option Bytes)) (k : Nat) : Bool :=
  decide (streams.getD k none = some (shardStream c code H k b))

theorem le_sum_of_mem (l : List Nat) (a : Nat) (h : a ∈ l) : a ≤ l.sum := by
  induction l with
  | nil => cases h
  | cons x t ih =>
    simp only [List.mem_cons] at h
    simp only [List.sum_cons]
    rcases h with rfl | h
    · omega
    · have := ih h; omega

theorem stripesOK_stripesOf (c : Cfg) (code : Code) (H : Bytes → Bytes) (wf : WF c code H) (b : Bytes) :
    StripesOK c (stripesOf c b) :=
  fun x hx => chunks_mem _ b (Nat.mul_pos wf.d_pos (by have := wf.stripe_ge; omega)) x hx

/-- every intact shard opens: at least as many open readers as intact shards -/
theorem open_ge_intact (c : Cfg) (code : Code) (H : Bytes → Bytes) (wf : WF c code H) (b : Bytes)
    (streams : List (Option Bytes)) (hlen : streams.length = c.n) :
    (List.range c.n).countP (shardIntact c code H b streams)
      ≤ (((List.zip (List.range streams.length) streams).map fun (k, s) => openShard c k s).filter Option.isSome).length := by
  have hrl : ((List.zip (List.range streams.length) streams).map fun (k, s) => openShard c k s).length = c.n := by
    simp [hlen]
  have hrD : ∀ k, k < c.n →
      ((List.zip (List.range streams.length) streams).map fun (k, s) => openShard c k s).getD k none
        = openShard c k (streams.getD k none) := by
    intro k hk
    have hk' : k < streams.length := hlen ▸ hk
    simp [List.getD_eq_getElem?_getD, List.getElem?_map, List.getElem?_zip_eq_some, hk', List.getElem?_eq_getElem hk']
  apply available_ge c.n _ hrl
  intro k hk hq
  simp only [shardIntact, decide_eq_true_eq] at hq
  rw [hrD k hk, hq]
  have := openShard_stream c code H wf k hk (framesFrom c code H k 0 (stripesOf c b))
  unfold shardStream
  rw [this]
  rfl

/-- **read_honest.** If no shard store lies about the part `b` and at least one holds its intact shard:
the read either fails or returns exactly `b`; and it does not fail when at least `d` shards are intact. -/
theorem read_honest (c : Cfg) (code : Code) (H : Bytes → Bytes) (wf : WF c code H) (mds : MDS c code) (fix : Fix)
    (b : Bytes) (streams : List (Option Bytes)) (hlen : streams.length = c.n)
    (hon : ∀ k, k < c.n → ShardHonest c code H b k (streams.getD k none))
    (hint : ∃ k0, k0 < c.n ∧ streams.getD k0 none = some (shardStream c code H k0 b)) :
    ∃ r, read c code H fix streams = .result r ∧ (r.failed = false → r.out = b) ∧
      (c.d ≤ (List.range c.n).countP (shardIntact c code H b streams) → r.failed = false) := by
  obtain ⟨k0, hk0n, hk0⟩ := hint
  have hk0lt : k0 < streams.length := hlen ▸ hk0n
  have hmem0 : streams.getD k0 none ∈ streams := by
    rw [List.getD_eq_getElem?_getD, List.getElem?_eq_getElem hk0lt]; exact List.getElem_mem hk0lt
  have hall : streams.all Option.isNone = false := by
    rw [List.all_eq_false]
    exact ⟨_, hmem0, by rw [hk0]; simp⟩
  unfold read
  simp only [hall, Bool.and_false, Bool.false_eq_true, if_false]
  -- the readers
  have hrl : ((List.zip (List.range streams.length) streams).map fun (k, s) => openShard c k s).length = c.n := by
    simp [hlen]
  have hrD : ∀ k, k < c.n →
      ((List.zip (List.range streams.length) streams).map fun (k, s) => openShard c k s).getD k none
        = openShard c k (streams.getD k none) := by
    intro k hk
    have hk' : k < streams.length := hlen ▸ hk
    simp [List.getD_eq_getElem?_getD, List.getElem?_map, List.getElem?_zip_eq_some, hk', List.getElem?_eq_getElem hk']
  have hok : ∀ k, k < c.n → ReaderOK c code H k 0 (stripesOf c b)
      (((List.zip (List.range streams.length) streams).map fun (k, s) => openShard c k s).getD k none) := by
    intro k hk; rw [hrD k hk]; exact hon k hk
  have hopen0 : ((List.zip (List.range streams.length) streams).map fun (k, s) => openShard c k s).getD k0 none
      = some (framesFrom c code H k0 0 (stripesOf c b)) := by
    rw [hrD k0 hk0n, hk0]
    exact openShard_stream c code H wf k0 hk0n _
  have hfuel : (stripesOf c b).length < fuelFor ((List.zip (List.range streams.length) streams).map fun (k, s) => openShard c k s) := by
    unfold fuelFor
    have hmemr : (some (framesFrom c code H k0 0 (stripesOf c b)))
        ∈ (List.zip (List.range streams.length) streams).map fun (k, s) => openShard c k s := by
      rw [← hopen0, List.getD_eq_getElem?_getD, List.getElem?_eq_getElem (hrl ▸ hk0n)]
      exact List.getElem_mem _
    have hsum := le_sum_of_mem _ _ (List.mem_map.2 ⟨_, hmemr, rfl⟩ :
      (framesFrom c code H k0 0 (stripesOf c b)).length ∈
        ((List.zip (List.range streams.length) streams).map fun (k, s) => openShard c k s).map
          fun r => (r.map List.length).getD 0)
    have hge := framesFrom_length_ge c code H wf.hash_len k0 (stripesOf c b) 0
    have : (stripesOf c b).length ≤ (((List.zip (List.range streams.length) streams).map fun (k, s) => openShard c k s).map
          fun r => (r.map List.length).getD 0).sum / frameHeaderSize := by
      rw [Nat.le_div_iff_mul_le (by decide), Nat.mul_comm]; omega
    exact Nat.lt_of_le_of_lt this (Nat.lt_add_of_pos_right (by decide))
  -- intact shards open
  have hintactOpen : (List.range c.n).countP (shardIntact c code H b streams)
      ≤ (((List.zip (List.range streams.length) streams).map fun (k, s) => openShard c k s).filter Option.isSome).length := by
    apply available_ge c.n _ hrl
    intro k hk hq
    simp only [shardIntact, decide_eq_true_eq] at hq
    rw [hrD k hk, hq]
    have := openShard_stream c code H wf k hk (framesFrom c code H k 0 (stripesOf c b))
    unfold shardStream
    rw [this]
    rfl
  by_cases hg : (fix.failWhenTooFewOpen && decide ((((List.zip (List.range streams.length) streams).map
      fun (k, s) => openShard c k s).filter Option.isSome).length < c.d)) = true
  · -- repaired: fewer than `d` shards open, the read fails at once
    simp only [hg, if_true]
    refine ⟨_, rfl, (fun h => by cases h), fun hd => ?_⟩
    simp only [Bool.and_eq_true, decide_eq_true_eq] at hg
    exact absurd (Nat.le_trans hd hintactOpen) (Nat.not_le.2 hg.2)
  simp only [hg, Bool.false_eq_true, if_false]
  refine ⟨_, rfl, ?_⟩
  have main := loop_honest c code H wf mds fix
    (((List.zip (List.range streams.length) streams).map fun (k, s) => openShard c k s).map Option.isNone)
    (stripesOf c b) 0 _ _ [] ((List.range ((List.zip (List.range streams.length) streams).map fun (k, s) => openShard c k s).length).map
      fun k => shardHeader c k) (stripesOK_stripesOf c code H wf b) hrl hok ⟨k0, hk0n, hopen0⟩ hfuel
  refine ⟨fun hf => ?_, fun hd => main.2 (Nat.le_trans hd ?_)⟩
  · have := main.1 hf
    rw [this]
    simp only [List.nil_append]
    exact concat_chunks _ b
  · apply List.countP_mono_left
    intro k hk hq
    simp only [shardIntact, decide_eq_true_eq] at hq
    simp only [intactAt, decide_eq_true_eq]
    have hk' := List.mem_range.1 hk
    rw [hrD k hk', hq]
    exact openShard_stream c code H wf k hk' _

end Pithos.EC
