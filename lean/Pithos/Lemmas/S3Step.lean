/-
Preservation of the row invariant (`Inv`, Pithos.Lemmas.S3Inv) by every operation of the storage
model, for every setting of the quirk switches.
-/
import Pithos.Lemmas.S3Inv

namespace Pithos.S3

theorem maxBy_mem (f : Row → Nat) : ∀ (l : List Row) (r : Row), maxBy f l = some r → r ∈ l
  | [], r, h => by simp [maxBy] at h
  | a :: t, r, h => by
    unfold maxBy at h
    cases hm : maxBy f t with
    | none => simp [hm] at h; subst h; simp
    | some m =>
      simp [hm] at h
      split at h
      · injection h with h; subst h; exact List.mem_cons_of_mem _ (maxBy_mem f t m hm)
      · injection h with h; subst h; simp

/-- Two rows of a list with pairwise distinct ids and the same id are the same row. -/
theorem eq_of_id_eq {rows : List Row} (hn : (ids rows).Nodup) {a b : Row} (ha : a ∈ rows) (hb : b ∈ rows)
    (he : a.rowId = b.rowId) : a = b := by
  induction rows with
  | nil => cases ha
  | cons x t ih =>
    simp only [ids, List.map_cons, List.nodup_cons] at hn
    rcases List.mem_cons.1 ha with rfl | hat <;> rcases List.mem_cons.1 hb with rfl | hbt
    · rfl
    · exfalso; apply hn.1; rw [he]; exact List.mem_map.2 ⟨b, hbt, rfl⟩
    · exfalso; apply hn.1; rw [← he]; exact List.mem_map.2 ⟨a, hat, rfl⟩
    · exact ih hn.2 hat hbt

/-- Removing (by id) a row that is latest for `k` leaves no latest row of `k`. -/
theorem lc_remove_latest {n : Nat} {rows : List Row} (h : RowsInv n rows) {r : Row} {k : String}
    (hr : r ∈ rows) (hk : r.key = k) (hl : r.latest = true) :
    lc (rows.filter (fun x => x.rowId != r.rowId)) k = 0 := by
  have hone := h.one k
  unfold lc at *
  have hsplit := List.countP_eq_countP_filter_add rows (fun x => x.key == k && x.latest) (fun x => x.rowId != r.rowId)
  have hpos : 0 < (rows.filter (fun a => !(a.rowId != r.rowId))).countP (fun x => x.key == k && x.latest) := by
    rw [List.countP_pos_iff]
    exact ⟨r, List.mem_filter.2 ⟨hr, by simp⟩, by simp [hk, hl]⟩
  omega

theorem inv_promote (q : Quirks) (now : Nat) (bk : Bucket) (k : String) {n : Nat}
    (h : RowsInv n bk.rows) (hz : lc bk.rows k = 0) : RowsInv n (promote q now bk k).rows := by
  unfold promote
  simp only []
  split
  · exact h
  · rename_i r hr
    have hm := maxBy_mem _ _ _ hr
    have hm' := List.mem_filter.1 hm
    rw [replaceRow_rows]
    refine h.repl_raise hm'.1 rfl ?_
    have : r.key = k := by simpa using hm'.2
    simpa [this] using hz

theorem inv_tick {s : State} (h : Inv s) : Inv { s with clock := s.clock + 1 } := h

theorem inv_ite {c : Prop} [Decidable c] {a b : State × Out} (ha : Inv a.1) (hb : Inv b.1) :
    Inv (if c then a else b).1 := by
  split <;> assumption

theorem inv_dite {c : Prop} [Decidable c] {a b : State × Out} (ha : c → Inv a.1) (hb : ¬c → Inv b.1) :
    Inv (if c then a else b).1 := by
  split
  · exact ha ‹_›
  · exact hb ‹_›

theorem inv_deleteOp (q : Quirks) (s : State) (bk : Bucket) (k : String) (vid : Option (Option Nat)) (im : IfMatch)
    (h : Inv s) (hb : RowsInv s.nextRow bk.rows) : Inv (deleteOp q s bk k vid im).1 := by
  cases vid with
  | some v =>
    unfold deleteOp
    simp only []
    apply inv_ite
    · apply inv_ite <;> exact h
    · cases hv : rowByVid bk k v with
      | none => exact h
      | some r =>
        simp only []
        apply inv_ite
        · exact h
        · obtain ⟨hr, hk, _⟩ := rowByVid_mem hv
          apply inv_setBucket h
          have h1 : RowsInv s.nextRow (removeRow bk r.rowId).rows := by rw [removeRow_rows]; exact hb.filter _
          by_cases hl : r.latest = true
          · simp only [hl, if_true]
            apply inv_promote q s.clock _ k h1
            rw [removeRow_rows]; exact lc_remove_latest hb hr hk hl
          · simp only [hl]; exact h1
  | none =>
    unfold deleteOp
    simp only []
    apply inv_ite
    · apply inv_ite <;> exact h
    · apply inv_ite
      · exact h
      · apply inv_ite
        · -- versioned: (suspended: drop the null row) ; clear the latest flag ; add a delete marker
          apply inv_bump h (Nat.le_succ _)
          rw [addRow_rows]
          -- bk1
          have hbk1 : ∀ (b1 : Bucket), (∃ f : Row → Bool, b1.rows = bk.rows.filter f) →
              RowsInv s.nextRow b1.rows ∧ lc b1.rows k ≤ lc bk.rows k := by
            intro b1 ⟨f, hf⟩
            rw [hf]; exact ⟨hb.filter f, lc_filter_le _ _ _⟩
          generalize hb1 : (if (bk.ver == Versioning.suspended) = true then
              match nullRow bk k with
              | some n => removeRow bk n.rowId
              | none => bk
            else bk) = bk1
          have hsub : ∃ f : Row → Bool, bk1.rows = bk.rows.filter f := by
            rw [← hb1]
            split
            · split
              · rename_i n _; exact ⟨fun x => x.rowId != n.rowId, rfl⟩
              · exact ⟨fun _ => true, (List.filter_eq_self.2 (fun _ _ => rfl)).symm⟩
            · exact ⟨fun _ => true, (List.filter_eq_self.2 (fun _ _ => rfl)).symm⟩
          obtain ⟨f, hf⟩ := hsub
          have ⟨hinv1, hle1⟩ := hbk1 bk1 ⟨f, hf⟩
          cases hc : latestRow bk k with
          | none =>
            simp only []
            have hz : lc bk.rows k = 0 := latestRow_none hc
            exact hinv1.add (by simp) (Or.inl (by simp; omega))
          | some r =>
            simp only []
            obtain ⟨hr, hk, hlat⟩ := latestRow_some hc
            split
            · rename_i hany
              -- r is still present in bk1
              have hrin : r ∈ bk1.rows := by
                obtain ⟨x, hx, hxe⟩ := List.any_eq_true.1 hany
                have hx' : x ∈ bk.rows := by rw [hf] at hx; exact (List.mem_filter.1 hx).1
                have : x = r := eq_of_id_eq hb.nodup hx' hr (by simpa using hxe)
                rw [← this]; exact hx
              have h2 := inv_unlatest q s.clock bk1 r hinv1 hrin
              refine h2.add (by simp) (Or.inl ?_)
              simp only [unlatest_rows]
              generalize hy : ({ r with latest := false, updated := if q.touchOnAnySave then s.clock else r.updated } : Row) = y
              have hyl : y.latest = false := by rw [← hy]
              have hyid : y.rowId = r.rowId := by rw [← hy]
              have hcc := countP_repl (fun x => x.key == k && x.latest) bk1.rows r y hinv1.nodup hrin hyid
              have hone := hb.one k
              unfold lc at *
              have hpr : (r.key == k && r.latest) = true := by simp [hk, hlat]
              have hpy : (y.key == k && y.latest) = false := by simp [hyl]
              simp only [hpr, hpy, if_true] at hcc
              simp at hcc
              show List.countP (fun x => x.key == k && x.latest) (repl bk1.rows y) = 0
              omega
            · rename_i hany
              -- r was removed: bk1 = bk minus a row with r's id
              refine hinv1.add (by simp) (Or.inl ?_)
              simp
              have hnot : r ∉ bk1.rows := by
                intro hin; apply hany
                exact List.any_eq_true.2 ⟨r, hin, by simp⟩
              -- every latest row of k in bk1 is a latest row of k in bk, i.e. r (uniqueness) — but r ∉ bk1
              unfold lc
              rw [List.countP_eq_zero]
              intro x hx hp
              have hx' : x ∈ bk.rows := by rw [hf] at hx; exact (List.mem_filter.1 hx).1
              simp at hp
              have := latestRow_eq_of_unique (hb.one k) hx' hp.1 hp.2
              rw [hc] at this
              injection this with this
              apply hnot; rw [this]; exact hx
        · -- unversioned: remove the current row
          cases hc : latestRow bk k with
          | none => exact h
          | some r => simp only []; apply inv_setBucket h; rw [removeRow_rows]; exact hb.filter _

/-- Buckets whose rows are unchanged keep the invariant. -/
theorem inv_setBucket_sameRows {s : State} {bk bk' : Bucket} (h : Inv s) (hm : bk ∈ s.buckets)
    (hr : bk'.rows = bk.rows) : Inv (setBucket s bk') :=
  inv_setBucket h (by rw [hr]; exact h bk hm)

theorem inv_ofPutRow {q : Quirks} {s : State} {bk : Bucket} {k : String} {n : NewObj} {inm : Bool} {im : IfMatch}
    {f : State × Option Nat → State × Out} (h : Inv s) (hb : RowsInv s.nextRow bk.rows)
    (hf : ∀ x, (f x).1 = x.1) :
    Inv (match putRow q s bk k n inm im with
         | .error e => (s, Out.err e)
         | .ok x => f x).1 := by
  cases hp : putRow q s bk k n inm im with
  | error e => exact h
  | ok x =>
    simp only []
    rw [hf]
    obtain ⟨s', vid⟩ := x
    exact inv_putRow q s bk k n inm im h hb hp

theorem resolve_mem {bk : Bucket} {k : String} {vid : Option (Option Nat)} {r : Row}
    (h : resolve bk k vid = .ok r) : r ∈ bk.rows := by
  unfold resolve at h
  cases vid with
  | none =>
    simp only [] at h
    cases hl : latestRow bk k with
    | none => simp [hl] at h
    | some r0 =>
      simp only [hl] at h
      by_cases hd : r0.dm = true
      · simp [hd] at h
      · simp [hd] at h; subst h; exact (latestRow_some hl).1
  | some v =>
    simp only [] at h
    cases hl : rowByVid bk k v with
    | none => simp [hl] at h
    | some r0 =>
      simp only [hl] at h
      by_cases hd : r0.dm = true
      · simp [hd] at h
      · simp [hd] at h; subst h; exact (rowByVid_mem hl).1

theorem inv_bump' {s : State} {bk : Bucket} {m : Nat} (h : Inv s) (hm : s.nextRow ≤ m)
    (hb : RowsInv m bk.rows) : Inv { setBucket s bk with nextRow := m } := by
  intro b hbm
  have hbm' : b ∈ (setBucket s bk).buckets := hbm
  rcases mem_setBucket hbm' with rfl | hold
  · exact hb
  · exact (h b hold).mono hm

theorem stepT_inv (q : Quirks) (s : State) (op : Op) (h : Inv s) : Inv (stepT q s op).1 := by
  cases op with
  | mkb b =>
    simp only [stepT]
    apply inv_ite
    · exact h
    · intro bk hbk
      simp only [List.mem_append, List.mem_singleton] at hbk
      rcases hbk with hbk | rfl
      · exact h bk hbk
      · exact RowsInv.nil _
  | rmb b =>
    simp only [stepT]
    cases hfb : findBucket s b with
    | none => exact h
    | some bk =>
      simp only []
      apply inv_ite
      · exact h
      · intro b' hb'
        exact h b' (List.mem_filter.1 hb').1
  | setVer b v =>
    simp only [stepT]
    cases hfb : findBucket s b with
    | none => exact h
    | some bk => exact inv_setBucket_sameRows h (findBucket_mem hfb) rfl
  | put b k body o inm im =>
    simp only [stepT]
    cases hfb : findBucket s b with
    | none => exact h
    | some bk =>
      simp only []
      cases hp : putRow q s bk k { parts := [body], etag := singleETag body, o := o } inm im with
      | error e => exact h
      | ok x => obtain ⟨s', vid⟩ := x; exact inv_putRow q s bk k _ inm im h (h bk (findBucket_mem hfb)) hp
  | get b k vid =>
    simp only [stepT]
    cases hfb : findBucket s b with
    | none => exact h
    | some bk => simp only []; cases resolve bk k vid <;> exact h
  | head b k vid =>
    simp only [stepT]
    cases hfb : findBucket s b with
    | none => exact h
    | some bk => simp only []; cases resolve bk k vid <;> exact h
  | del b k vid im =>
    simp only [stepT]
    cases hfb : findBucket s b with
    | none => exact h
    | some bk => exact inv_deleteOp q s bk k vid im h (h bk (findBucket_mem hfb))
  | copy sb sk svid db dk rm rt o =>
    simp only [stepT]
    cases hsb : findBucket s sb with
    | none => exact h
    | some sbk =>
      simp only []
      cases hres : resolve sbk sk svid with
      | error e => exact h
      | ok src =>
        simp only []
        cases hdb : findBucket s db with
        | none => exact h
        | some dbk =>
          simp only []
          generalize hn : ({ parts := src.parts, etag := src.etag, o := _ } : NewObj) = n
          cases hp : putRow q s dbk dk n false IfMatch.none with
          | error e => exact h
          | ok x => obtain ⟨s', vid⟩ := x; exact inv_putRow q s dbk dk n false .none h (h dbk (findBucket_mem hdb)) hp
  | append b k body off =>
    simp only [stepT]
    cases hfb : findBucket s b with
    | none => exact h
    | some bk =>
      have hbk := h bk (findBucket_mem hfb)
      simp only []
      apply inv_ite
      · exact h
      · apply inv_ite
        · -- enabled: a new version through putRow
          generalize hn : (NewObj.mk _ _ _ _ _) = n
          cases hp : putRow q s bk k n false IfMatch.none with
          | error e => exact h
          | ok x => obtain ⟨s', vid⟩ := x; exact inv_putRow q s bk k n false .none h hbk hp
        · -- in place / new null row / reference put
          generalize htgt : (if q.appendLatestInPlace = true then latestRow bk k else
              match (match latestRow bk k with | some r => if r.dm = true then none else some r | none => none) with
              | some r => if r.vid.isNone = true then some r else none
              | none => none) = tgt
          cases tgt with
          | some r =>
            simp only []
            apply inv_ite
            · exact h
            · -- r is the current latest row of k in both variants
              have hr : r ∈ bk.rows ∧ r.key = k ∧ r.latest = true := by
                by_cases hq : q.appendLatestInPlace = true
                · simp only [hq, if_true] at htgt; exact latestRow_some htgt
                · simp only [hq] at htgt
                  cases hl : latestRow bk k with
                  | none => simp [hl] at htgt
                  | some r0 =>
                    simp only [hl] at htgt
                    have h0 := latestRow_some hl
                    by_cases hdm : r0.dm = true
                    · simp [hdm] at htgt
                    · simp only [hdm] at htgt
                      by_cases hv : r0.vid.isNone = true
                      · simp [hv] at htgt; subst htgt; exact h0
                      · simp [hv] at htgt
              apply inv_setBucket h
              rw [replaceRow_rows]
              exact hbk.repl_keep hr.1 rfl rfl (fun _ => hr.2.2)
          | none =>
            simp only []
            apply inv_dite
            · -- no row is latest for k (quirk variant): add a fresh null row
              intro hq
              simp only [hq, if_true] at htgt
              apply inv_bump' h (Nat.le_succ _)
              rw [addRow_rows]
              exact hbk.add rfl (Or.inl (latestRow_none htgt))
            · intro _
              generalize hn : (NewObj.mk _ _ _ _ _) = n
              cases hp : putRow q s bk k n false IfMatch.none with
              | error e => exact h
              | ok x => obtain ⟨s', vid⟩ := x; exact inv_putRow q s bk k n false .none h hbk hp
  | mpu b k o =>
    simp only [stepT]
    cases hfb : findBucket s b with
    | none => exact h
    | some bk =>
      simp only []
      intro b' hb'
      have hb'' : b' ∈ (setBucket s { bk with uploads := bk.uploads ++ [_] }).buckets := hb'
      rcases mem_setBucket hb'' with rfl | hold
      · exact h bk (findBucket_mem hfb)
      · exact h b' hold
  | uploadPart b k uid n body =>
    simp only [stepT]
    cases hfb : findBucket s b with
    | none => exact h
    | some bk =>
      simp only []
      cases bk.uploads.find? (fun u => u.uid == uid && u.key == k) with
      | none => exact h
      | some u => exact inv_setBucket_sameRows h (findBucket_mem hfb) rfl
  | complete b k uid declared inm im =>
    simp only [stepT]
    cases hfb : findBucket s b with
    | none => exact h
    | some bk =>
      simp only []
      cases bk.uploads.find? (fun u => u.uid == uid && u.key == k) with
      | none => exact h
      | some u =>
        simp only []
        apply inv_ite
        · exact h
        · cases declaredErr u declared with
          | some e => exact h
          | none =>
            simp only []
            generalize hn : (NewObj.mk _ _ _ _ _) = n
            generalize hb0 : ({ bk with uploads := bk.uploads.filter (fun x => x.uid != uid) } : Bucket) = bk0
            have hbk0 : RowsInv s.nextRow bk0.rows := by rw [← hb0]; exact h bk (findBucket_mem hfb)
            cases hp : putRow q s bk0 k n inm im with
            | error e => exact h
            | ok x => obtain ⟨s', vid⟩ := x; exact inv_putRow q s bk0 k n inm im h hbk0 hp
  | abort b k uid =>
    simp only [stepT]
    cases hfb : findBucket s b with
    | none => exact h
    | some bk =>
      simp only []
      cases bk.uploads.find? (fun u => u.uid == uid && u.key == k) with
      | none => exact h
      | some u => exact inv_setBucket_sameRows h (findBucket_mem hfb) rfl
  | getTags b k vid =>
    simp only [stepT]
    cases hfb : findBucket s b with
    | none => exact h
    | some bk => simp only []; cases resolve bk k vid <;> exact h
  | putTags b k vid tags =>
    simp only [stepT]
    cases hfb : findBucket s b with
    | none => exact h
    | some bk =>
      simp only []
      cases hres : resolve bk k vid with
      | error e => exact h
      | ok r =>
        simp only []
        apply inv_setBucket h
        rw [replaceRow_rows]
        exact (h bk (findBucket_mem hfb)).repl_keep (resolve_mem hres) rfl rfl (by simp [touch])
  | delTags b k vid =>
    simp only [stepT]
    cases hfb : findBucket s b with
    | none => exact h
    | some bk =>
      simp only []
      cases hres : resolve bk k vid with
      | error e => exact h
      | ok r =>
        simp only []
        apply inv_setBucket h
        rw [replaceRow_rows]
        exact (h bk (findBucket_mem hfb)).repl_keep (resolve_mem hres) rfl rfl (by simp [touch])
  | transition b k cls vid =>
    simp only [stepT]
    cases hfb : findBucket s b with
    | none => exact h
    | some bk =>
      simp only []
      have key : ∀ (ro : Option Row), (∀ r, ro = some r → r ∈ bk.rows) →
          Inv (match ro with
            | none => (s, Out.err Err.noSuchKey)
            | some r => if r.dm = true then (s, Out.err Err.noSuchKey)
              else (setBucket s (replaceRow bk (touch q s.clock { r with cls := some cls, seqBase := 0 })), Out.unit)).1 := by
        intro ro hro
        cases ro with
        | none => exact h
        | some r =>
          simp only []
          apply inv_ite
          · exact h
          · apply inv_setBucket h
            rw [replaceRow_rows]
            exact (h bk (findBucket_mem hfb)).repl_keep (hro r rfl) rfl rfl (by simp [touch])
      cases vid with
      | none => exact key (latestRow bk k) (fun r hr => (latestRow_some hr).1)
      | some v => exact key (rowByVid bk k v) (fun r hr => (rowByVid_mem hr).1)
  | list b =>
    simp only [stepT]
    cases hfb : findBucket s b with
    | none => exact h
    | some bk => exact h
  | listVersions b =>
    simp only [stepT]
    cases hfb : findBucket s b with
    | none => exact h
    | some bk => exact h
  | listBuckets => simp only [stepT]; exact h

theorem step_inv (q : Quirks) (s0 : State) (op : Op) (h0 : Inv s0) : Inv (step q s0 op).1 :=
  stepT_inv q _ op h0

end Pithos.S3
