/-
Helper lemmas for C40 (lazy part-sequence reader): what one `pull`/`read` does, the download
invariant `Good`, progress of snapshot readers, and the range arithmetic of `planFrom`.
-/
import Pithos.Model.LazyReader
namespace Pithos.LazyReader

def remaining (orig : PartId → Bytes) (r : Reader) : Bytes := r.cur.getD [] ++ target orig r.todo

theorem target_cons (orig : PartId → Bytes) (p : PartRange) (ps : List PartRange) :
    target orig (p :: ps) = openPart (orig p.id) p ++ target orig ps := by
  simp [target]

/-- What one `pull` does, given that every part still to open is absent or unchanged. -/
theorem pull_spec (orig : PartId → Bytes) (store : Store) (n : Nat) (hn : 0 < n) (todo : List PartRange)
    (hs : ∀ p ∈ todo, store p.id = none ∨ store p.id = some (orig p.id)) :
    (∀ p ∈ (pull store n todo).1.todo, p ∈ todo) ∧
    match (pull store n todo).2 with
    | .data bs => bs ≠ [] ∧ bs ++ remaining orig (pull store n todo).1 = target orig todo
    | .eof => target orig todo = []
    | .err => True := by
  induction todo with
  | nil => simp [pull, target]
  | cons p rest ih =>
    have ihr := ih (fun q hq => hs q (List.mem_cons_of_mem _ hq))
    have hp := hs p (List.mem_cons_self ..)
    rcases hp with hnone | hsome
    · simp only [pull, hnone]
      exact ⟨fun q hq => List.mem_cons_of_mem _ hq, trivial⟩
    · simp only [pull, hsome]
      by_cases he : (openPart (orig p.id) p).isEmpty = true
      · simp only [he, if_true]
        refine ⟨fun q hq => List.mem_cons_of_mem _ (ihr.1 q hq), ?_⟩
        have hnil : openPart (orig p.id) p = [] := by simpa using he
        have := ihr.2
        revert this
        cases h : (pull store n rest).2 with
        | data bs => simp [target_cons, hnil]
        | eof => simp [target_cons, hnil]
        | err => simp
      · simp only [he]
        refine ⟨fun q hq => List.mem_cons_of_mem _ hq, ?_⟩
        simp only [Bool.false_eq_true, if_false]
        have hne : openPart (orig p.id) p ≠ [] := by simpa using he
        refine ⟨?_, ?_⟩
        · intro h
          have := List.take_eq_nil_iff.1 h
          rcases this with h0 | h0
          · omega
          · exact hne h0
        · simp [remaining, target_cons, ← List.append_assoc, List.take_append_drop]

theorem read_spec (orig : PartId → Bytes) (store : Store) (n : Nat) (hn : 0 < n) (r : Reader)
    (hs : ∀ p ∈ r.todo, store p.id = none ∨ store p.id = some (orig p.id)) :
    (∀ p ∈ (read store r n).1.todo, p ∈ r.todo) ∧
    match (read store r n).2 with
    | .data bs => bs ≠ [] ∧ bs ++ remaining orig (read store r n).1 = remaining orig r
    | .eof => remaining orig r = []
    | .err => True := by
  unfold read
  cases hc : r.cur with
  | none =>
    have := pull_spec orig store n hn r.todo hs
    simpa [remaining, hc] using this
  | some bs =>
    by_cases he : bs.isEmpty = true
    · have hnil : bs = [] := by simpa using he
      have := pull_spec orig store n hn r.todo hs
      simpa [remaining, hc, he, hnil] using this
    · simp only [he, Bool.false_eq_true, if_false]
      have hne : bs ≠ [] := by simpa using he
      refine ⟨fun q hq => hq, ?_, ?_⟩
      · intro h
        rcases List.take_eq_nil_iff.1 h with h0 | h0
        · omega
        · exact hne h0
      · simp [remaining, hc, ← List.append_assoc, List.take_append_drop]

/-- The invariant of a download. -/
def Good (orig : PartId → Bytes) (ps : List PartRange) (r : Reader) (seen : Seen) : Prop :=
  (∀ p ∈ r.todo, p ∈ ps) ∧
  match seen.ended with
  | none => seen.delivered ++ remaining orig r = target orig ps
  | some true => seen.delivered = target orig ps
  | some false => seen.delivered <+: target orig ps

theorem good_prefix {orig ps r seen} (h : Good orig ps r seen) :
    seen.delivered <+: target orig ps ∧ (seen.ended = some true → seen.delivered = target orig ps) := by
  obtain ⟨_, h2⟩ := h
  cases he : seen.ended with
  | none => simp only [he] at h2; exact ⟨⟨_, h2⟩, by simp⟩
  | some b =>
    cases b with
    | true => simp only [he] at h2; exact ⟨by rw [h2]; exact List.prefix_refl _, fun _ => h2⟩
    | false => simp only [he] at h2; exact ⟨h2, by simp⟩

/-- Events a download may meet: reads with a non-empty buffer; store changes that keep the parts
of the resolved version absent-or-unchanged (irrelevant for a snapshot reader). -/
def EvOK' (snapshot : Bool) (orig : PartId → Bytes) (ps : List PartRange) : Ev → Prop
  | .read n => 0 < n
  | .store s => snapshot = true ∨ StoreOK orig ps s

theorem run_good (orig : PartId → Bytes) (ps : List PartRange) (evs : List Ev) (snapshot : Bool)
    (hev : ∀ e ∈ evs, EvOK' snapshot orig ps e) (store : Store) (r : Reader) (seen : Seen)
    (hst : StoreOK orig ps store) (hg : Good orig ps r seen) :
    ∃ r', Good orig ps r' (run snapshot store r seen evs) := by
  induction evs generalizing store r seen with
  | nil => exact ⟨r, hg⟩
  | cons e evs ih =>
    have hrest : ∀ e ∈ evs, EvOK' snapshot orig ps e := fun e he => hev e (List.mem_cons_of_mem _ he)
    have he := hev e (List.mem_cons_self ..)
    cases e with
    | store s =>
      simp only [run]
      cases snapshot with
      | false =>
        have hs : StoreOK orig ps s := by
          rcases he with h | h
          · exact absurd h (by simp)
          · exact h
        exact ih hrest s r seen hs hg
      | true => exact ih hrest store r seen hst hg
    | read n =>
      have hn : 0 < n := he
      simp only [run]
      by_cases hend : seen.ended.isSome = true
      · simp only [hend, if_true]
        exact ih hrest store r seen hst hg
      · simp only [hend, Bool.false_eq_true, if_false]
        have hnone : seen.ended = none := by
          cases h : seen.ended with
          | none => rfl
          | some b => simp [h] at hend
        obtain ⟨hmem, hinv⟩ := hg
        simp only [hnone] at hinv
        have hs : ∀ p ∈ r.todo, store p.id = none ∨ store p.id = some (orig p.id) := fun p hp => hst p (hmem p hp)
        have hr := read_spec orig store n hn r hs
        rcases hrd : read store r n with ⟨r', out⟩
        rw [hrd] at hr
        obtain ⟨hm', hout⟩ := hr
        have hmem' : ∀ p ∈ r'.todo, p ∈ ps := fun p hp => hmem p (hm' p hp)
        cases out with
        | data bs =>
          simp only at hout ⊢
          apply ih hrest store r' _ hst
          refine ⟨hmem', ?_⟩
          simp only [hnone]
          rw [List.append_assoc, hout.2, hinv]
        | eof =>
          simp only at hout ⊢
          apply ih hrest store r' _ hst
          refine ⟨hmem', ?_⟩
          simp only
          rw [← hinv, hout, List.append_nil]
        | err =>
          simp only at hout ⊢
          apply ih hrest store r' _ hst
          refine ⟨hmem', ?_⟩
          simp only
          exact ⟨_, hinv⟩

-- ---------------------------------------------------------------- snapshot (SQL-backed) readers

def readCount : List Ev → Nat
  | [] => 0
  | .read _ :: evs => readCount evs + 1
  | .store _ :: evs => readCount evs

theorem pull_no_err (store : Store) (n : Nat) (todo : List PartRange)
    (hs : ∀ p ∈ todo, store p.id ≠ none) : (pull store n todo).2 ≠ .err := by
  induction todo with
  | nil => simp [pull]
  | cons p rest ih =>
    have hp := hs p (List.mem_cons_self ..)
    have ihr := ih (fun q hq => hs q (List.mem_cons_of_mem _ hq))
    cases h : store p.id with
    | none => exact absurd h hp
    | some bytes =>
      simp only [pull, h]
      split
      · exact ihr
      · simp

theorem read_no_err (store : Store) (n : Nat) (r : Reader)
    (hs : ∀ p ∈ r.todo, store p.id ≠ none) : (read store r n).2 ≠ .err := by
  unfold read
  cases hc : r.cur with
  | none => exact pull_no_err store n r.todo hs
  | some bs =>
    simp only
    split
    · exact pull_no_err store n r.todo hs
    · simp

theorem pull_todo_sub (store : Store) (n : Nat) (todo : List PartRange) :
    ∀ p ∈ (pull store n todo).1.todo, p ∈ todo := by
  induction todo with
  | nil => simp [pull]
  | cons p rest ih =>
    simp only [pull]
    split
    · intro q hq; exact List.mem_cons_of_mem _ hq
    · split
      · intro q hq; exact List.mem_cons_of_mem _ (ih q hq)
      · intro q hq; exact List.mem_cons_of_mem _ hq

theorem read_todo_sub (store : Store) (n : Nat) (r : Reader) :
    ∀ p ∈ (read store r n).1.todo, p ∈ r.todo := by
  unfold read
  cases hc : r.cur with
  | none => exact pull_todo_sub store n r.todo
  | some bs =>
    simp only
    split
    · exact pull_todo_sub store n r.todo
    · intro q hq; exact hq

/-- With every part present the stream never ends with an error, and every read makes progress:
it delivers at least one byte or ends the stream. -/
theorem run_snapshot_progress (store : Store) (evs : List Ev) (hev : ∀ e ∈ evs, ∀ n, e = .read n → 0 < n)
    (r : Reader) (seen : Seen) (hs : ∀ p ∈ r.todo, store p.id ≠ none) (hne : seen.ended ≠ some false) :
    (run true store r seen evs).ended ≠ some false ∧
    ((run true store r seen evs).ended.isSome = true ∨
      seen.delivered.length + readCount evs ≤ (run true store r seen evs).delivered.length) := by
  induction evs generalizing r seen with
  | nil => simp [run, readCount, hne]
  | cons e evs ih =>
    have hrest : ∀ e ∈ evs, ∀ n, e = .read n → 0 < n := fun e he => hev e (List.mem_cons_of_mem _ he)
    cases e with
    | store s =>
      simp only [run, if_true, readCount]
      exact ih hrest r seen hs hne
    | read n =>
      have hn : 0 < n := hev _ (List.mem_cons_self ..) n rfl
      simp only [run, readCount]
      by_cases hend : seen.ended.isSome = true
      · simp only [hend, if_true]
        have := ih hrest r seen hs hne
        refine ⟨this.1, Or.inl ?_⟩
        -- once ended, the stream stays ended
        have stay : ∀ (evs : List Ev) (r : Reader), (run true store r seen evs).ended = seen.ended := by
          intro evs
          induction evs with
          | nil => intro r; rfl
          | cons e evs ih2 =>
            intro r
            cases e with
            | store s => simp only [run, if_true]; exact ih2 r
            | read m => simp only [run, hend, if_true]; exact ih2 r
        rw [stay]; exact hend
      · simp only [hend, Bool.false_eq_true, if_false]
        have hne' := read_no_err store n r hs
        have hsub := read_todo_sub store n r
        have hspec : ∀ bs, (read store r n).2 = .data bs → bs ≠ [] := by
          intro bs hbs
          unfold read at hbs
          cases hc : r.cur with
          | none =>
            rw [hc] at hbs
            simp only at hbs
            -- pull delivers a non-empty chunk
            have : ∀ (todo : List PartRange), (pull store n todo).2 = .data bs → bs ≠ [] := by
              intro todo
              induction todo with
              | nil => simp [pull]
              | cons p rest ih3 =>
                simp only [pull]
                split
                · simp
                · split
                  · exact ih3
                  · rename_i hne2
                    intro h
                    have h := Out.data.inj h
                    subst h
                    intro h0
                    rcases List.take_eq_nil_iff.1 h0 with h1 | h1
                    · omega
                    · simp [h1] at hne2
            exact this r.todo hbs
          | some cur =>
            rw [hc] at hbs
            simp only at hbs
            split at hbs
            · have : ∀ (todo : List PartRange), (pull store n todo).2 = .data bs → bs ≠ [] := by
                intro todo
                induction todo with
                | nil => simp [pull]
                | cons p rest ih3 =>
                  simp only [pull]
                  split
                  · simp
                  · split
                    · exact ih3
                    · rename_i hne2
                      intro h
                      have h := Out.data.inj h
                      subst h
                      intro h0
                      rcases List.take_eq_nil_iff.1 h0 with h1 | h1
                      · omega
                      · simp [h1] at hne2
              exact this r.todo hbs
            · rename_i hne2
              have h := Out.data.inj hbs
              subst h
              intro h0
              rcases List.take_eq_nil_iff.1 h0 with h1 | h1
              · omega
              · simp [h1] at hne2
        rcases hrd : read store r n with ⟨r', out⟩
        rw [hrd] at hne' hsub hspec
        have hs' : ∀ p ∈ r'.todo, store p.id ≠ none := fun p hp => hs p (hsub p hp)
        cases out with
        | data bs =>
          simp only
          have hb := hspec bs rfl
          have := ih hrest r' { seen with delivered := seen.delivered ++ bs } hs' hne
          refine ⟨this.1, ?_⟩
          rcases this.2 with h | h
          · exact Or.inl h
          · right
            simp only [List.length_append] at h
            have : 0 < bs.length := List.length_pos_iff.2 hb
            omega
        | eof =>
          simp only
          have := ih hrest r' { seen with ended := some true } hs' (by simp)
          refine ⟨this.1, Or.inl ?_⟩
          have stay : ∀ (evs : List Ev) (r : Reader) (sn : Seen), sn.ended.isSome = true →
              (run true store r sn evs).ended = sn.ended := by
            intro evs
            induction evs with
            | nil => intro r sn _; rfl
            | cons e evs ih2 =>
              intro r sn hsn
              cases e with
              | store s => simp only [run, if_true]; exact ih2 r sn hsn
              | read m => simp only [run, hsn, if_true]; exact ih2 r sn hsn
          rw [stay _ _ _ (by simp)]; simp
        | err => exact absurd rfl hne'

-- ---------------------------------------------------------------- createRangeReader

/-- `createRangeReader`'s arithmetic selects exactly the requested slice: for parts with contents
`cs` stored under the ids `idx, idx+1, …` and starting at absolute offset `start`, the planned
ranges deliver the bytes at the absolute positions `[lo, hi)`. -/
theorem planFrom_target (skipEmpty : Bool) (lo hi : Nat) (orig : PartId → Bytes) (cs : List Bytes) :
    ∀ (idx start : Nat), (∀ j (h : j < cs.length), orig (idx + j) = cs[j]) →
    target orig (planFrom skipEmpty lo hi idx start (cs.map List.length))
      = (cs.flatten.drop (lo - start)).take (hi - max lo start) := by
  induction cs with
  | nil => intro idx start _; simp [planFrom, target]
  | cons c rest ih =>
    intro idx start horig
    have hc : orig idx = c := by have := horig 0 (by simp); simpa using this
    have hrest : ∀ j (h : j < rest.length), orig (idx + 1 + j) = rest[j] := by
      intro j hj
      have := horig (j + 1) (by simp; omega)
      simpa [Nat.add_assoc, Nat.add_comm 1 j] using this
    have ihr := ih (idx + 1) (start + c.length) hrest
    simp only [List.map_cons, planFrom, List.flatten_cons]
    by_cases h1 : lo ≥ start + c.length
    · simp only [h1, if_true]
      rw [ihr]
      have e1 : lo - start = c.length + (lo - (start + c.length)) := by omega
      have e2 : max lo start = max lo (start + c.length) := by omega
      rw [e1, e2, ← List.drop_drop, List.drop_left]
    · simp only [h1, if_false]
      by_cases h2 : hi ≤ start
      · simp only [h2, if_true]
        have : hi - max lo start = 0 := by omega
        simp [target, this]
      · simp only [h2, if_false]
        have key : (((c ++ rest.flatten).drop (lo - start)).take (hi - max lo start))
            = ((c.drop (if lo > start then lo - start else 0)).take
                ((if hi < start + c.length then hi - start else c.length) - (if lo > start then lo - start else 0)))
              ++ ((rest.flatten.drop (lo - (start + c.length))).take (hi - max lo (start + c.length))) := by
          have ha : (if lo > start then lo - start else 0) = lo - start := by split <;> omega
          rw [ha]
          have hle : lo - start ≤ c.length := by omega
          rw [List.drop_append_of_le_length hle]
          have e0 : lo - (start + c.length) = 0 := by omega
          rw [e0, List.drop_zero]
          have e3 : max lo (start + c.length) = start + c.length := by omega
          rw [e3, List.take_append]
          congr 1
          · by_cases h3 : hi < start + c.length
            · simp only [h3, if_true]
              congr 1; omega
            · simp only [h3, if_false]
              rw [List.take_of_length_le, List.take_of_length_le] <;> simp <;> omega
          · congr 1
            simp only [List.length_drop]
            omega
        rw [key, ← ihr]
        generalize (if lo > start then lo - start else 0) = a
        generalize (if hi < start + c.length then hi - start else c.length) = b
        by_cases hz : (skipEmpty && (b - a == 0)) = true
        · simp only [hz, if_true]
          have hz' : b - a = 0 := by
            have h' := hz
            simp only [Bool.and_eq_true] at h'
            simpa using h'.2
          rw [hz']; simp
        · simp only [hz, Bool.false_eq_true, if_false]
          rw [target_cons]
          simp [openPart, hc]

theorem plan_target (orig : PartId → Bytes) (cs : List Bytes) (lo hi : Nat)
    (horig : ∀ j (h : j < cs.length), orig j = cs[j]) :
    target orig (plan (cs.map List.length) lo hi) = (cs.flatten.drop lo).take (hi - lo) := by
  have := planFrom_target planSkipsEmptyRanges lo hi orig cs 0 0 (by simpa using horig)
  simpa [plan] using this


end Pithos.LazyReader
