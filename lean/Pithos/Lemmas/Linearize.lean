/-
Helper lemmas for C07: soundness of the linearization certificate checker, and the standard
argument that operations which take effect atomically between invocation and response form a
linearizable history.
-/
import Pithos.Model.Linearize
namespace Pithos.Lin
variable {St Op Out Obs : Type}

theorem filterMap_getElem?_range' {α} (pre l : List α) :
    (List.range' pre.length l.length).filterMap (fun i => (pre ++ l)[i]?) = l := by
  induction l generalizing pre with
  | nil => simp
  | cons a t ih =>
    have h := ih (pre ++ [a])
    simp only [List.length_append, List.length_singleton, List.append_assoc, List.singleton_append] at h
    simp only [List.length_cons, List.range'_succ, List.filterMap_cons]
    have : (pre ++ a :: t)[pre.length]? = some a := by simp
    rw [this, h]

theorem filterMap_getElem?_range {α} (l : List α) : (List.range l.length).filterMap (fun i => l[i]?) = l := by
  have := filterMap_getElem?_range' [] l
  simpa [List.range_eq_range'] using this

theorem pick_perm (h : List (Ev Op Obs)) (order : List Nat) (hp : order.isPerm (List.range h.length) = true) :
    (pick h order).Perm h := by
  have hperm : order.Perm (List.range h.length) := List.isPerm_iff.1 hp
  have := hperm.filterMap (fun i => h[i]?)
  rw [filterMap_getElem?_range] at this
  exact this

theorem realTimeB_iff (l : List (Ev Op Obs)) : realTimeB l = true ↔ RealTime l := by
  induction l with
  | nil => simp [realTimeB, RealTime]
  | cons a rest ih =>
    simp only [realTimeB, RealTime, Bool.and_eq_true, List.pairwise_cons, List.all_eq_true]
    constructor
    · rintro ⟨h1, h2⟩
      refine ⟨fun b hb => ?_, ih.1 h2⟩
      have := h1 b hb
      simpa using this
    · rintro ⟨h1, h2⟩
      refine ⟨fun b hb => ?_, ih.2 h2⟩
      have := h1 b hb
      simpa using this

/-- **checkCert_sound**: an index order accepted by the certificate checker is a linearization. -/
theorem checkCert_sound (step : St → Op → St × Out) (agree : Out → Obs → Bool) (s : St)
    (h : List (Ev Op Obs)) (order : List Nat) (hc : checkCert step agree s h order = true) :
    Linearizable step agree s h := by
  simp only [checkCert, Bool.and_eq_true] at hc
  obtain ⟨⟨hp, hr⟩, hl⟩ := hc
  exact ⟨pick h order, pick_perm h order hp, (realTimeB_iff _).1 hr, hl⟩

/-- **atomic_ops_linearizable**: if every operation of a concurrent history takes effect atomically at
a point `pt` between its invocation and its response (`order` lists the operations by effect point and
is what the sequential specification executed), the history is linearizable. -/
theorem atomic_ops_linearizable (step : St → Op → St × Out) (agree : Out → Obs → Bool) (s : St)
    (h order : List (Ev Op Obs)) (pt : Ev Op Obs → Nat)
    (hperm : order.Perm h)
    (hsorted : order.Pairwise (fun a b => pt a < pt b))
    (hwithin : ∀ e ∈ h, e.inv ≤ pt e ∧ pt e ≤ e.resp)
    (hlegal : Legal step agree s order) :
    Linearizable step agree s h := by
  refine ⟨order, hperm, ?_, hlegal⟩
  refine hsorted.imp_of_mem ?_
  intro a b ha hb hab hlt
  have h1 := hwithin a (hperm.subset ha)
  have h2 := hwithin b (hperm.subset hb)
  omega

end Pithos.Lin
