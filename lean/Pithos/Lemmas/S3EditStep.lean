/-
Every operation edits the rows of at most one bucket (`EditedState`); hence `VInv` — in every
bucket (key, version id) pairs are pairwise distinct and version ids are below the counter — holds
in every reachable state (for the append behaviour since /repo 8a5dc41).
-/
import Pithos.Lemmas.S3Edit

namespace Pithos.S3

theorem edited_putRow {q : Quirks} {s : State} {bk : Bucket} {k : String} {n : NewObj} {inm : Bool} {im : IfMatch}
    {s' : State} {vid : Option Nat} (hb : RowsInv s.nextRow bk.rows) (hok : putRow q s bk k n inm im = .ok (s', vid)) :
    ∃ X, s'.buckets = (setBucket s X).buckets ∧ X.name = bk.name ∧ s.nextVid ≤ s'.nextVid ∧
      Edited s.nextVid s'.nextVid bk.rows X.rows := by
  obtain ⟨bk1, hbk1, hx⟩ := putRow_ok hok
  have hs : s' = (install q s bk1 k n).1 := by rw [← hx]
  rw [hs]
  rcases hbk1 with rfl | ⟨c, hl, rfl⟩
  · exact edited_install q s _ k n hb
  · have hc := (latestRow_some hl).1
    obtain ⟨X, h1, h2, h3, h4⟩ := edited_install q s (replaceRow bk (touch q s.clock c)) k n (touch_inv q s.clock bk c hb hc)
    exact ⟨X, h1, by rw [h2, replaceRow_name], h3, edited_of_pre (pre_touch s.clock hb hc rfl rfl) h4⟩

/-- Shape of `deleteOp` for the edit calculus. -/
def EShape (s : State) (bk : Bucket) (st : State) : Prop :=
  (st.buckets = s.buckets ∧ st.nextVid = s.nextVid) ∨
    ∃ X, st.buckets = (setBucket s X).buckets ∧ X.name = bk.name ∧ s.nextVid ≤ st.nextVid ∧
      (RowsInv s.nextRow bk.rows → Edited s.nextVid st.nextVid bk.rows X.rows)

theorem eshape_ite {s : State} {bk : Bucket} {c : Prop} [Decidable c] {x y : State × Out}
    (hx : EShape s bk x.1) (hy : EShape s bk y.1) : EShape s bk (if c then x else y).1 := by
  split <;> assumption

theorem deleteOp_edited (q : Quirks) (s : State) (bk : Bucket) (k : String) (vid : Option (Option Nat)) (im : IfMatch) :
    EShape s bk (deleteOp q s bk k vid im).1 := by
  cases vid with
  | some v =>
    unfold deleteOp
    simp only []
    apply eshape_ite
    · apply eshape_ite <;> exact Or.inl ⟨rfl, rfl⟩
    · cases hv : rowByVid bk k v with
      | none => exact Or.inl ⟨rfl, rfl⟩
      | some c =>
        simp only []
        apply eshape_ite
        · exact Or.inl ⟨rfl, rfl⟩
        · right
          refine ⟨_, rfl, ?_, Nat.le_refl _, ?_⟩
          · split
            · unfold promote; simp only []; split
              · exact removeRow_name _ _
              · rw [replaceRow_name, removeRow_name]
            · exact removeRow_name _ _
          · intro hb
            have h1 : RowsInv s.nextRow (removeRow bk c.rowId).rows := by rw [removeRow_rows]; exact hb.filter _
            split
            · exact edited_pre (pre_trans (pre_removeRow bk c.rowId) (pre_promote s.clock k h1))
            · exact edited_pre (pre_removeRow bk c.rowId)
  | none =>
    unfold deleteOp
    simp only []
    apply eshape_ite
    · apply eshape_ite <;> exact Or.inl ⟨rfl, rfl⟩
    · apply eshape_ite
      · exact Or.inl ⟨rfl, rfl⟩
      · apply eshape_ite
        · right
          generalize hb1 : (if (bk.ver == Versioning.suspended) = true then
              match nullRow bk k with
              | some n => removeRow bk n.rowId
              | none => bk
            else bk) = bk1
          have hbk1 : bk1.name = bk.name ∧ Pre bk.rows bk1.rows ∧ (RowsInv s.nextRow bk.rows → RowsInv s.nextRow bk1.rows) ∧
              ∀ y ∈ bk1.rows, y ∈ bk.rows := by
            rw [← hb1]
            split
            · cases hn : nullRow bk k with
              | none => exact ⟨rfl, Pre.refl _, fun h => h, fun _ h => h⟩
              | some nr =>
                simp only []
                exact ⟨removeRow_name _ _, pre_removeRow bk nr.rowId, fun h => by rw [removeRow_rows]; exact h.filter _,
                  fun y hy => by rw [removeRow_rows] at hy; exact (List.mem_filter.1 hy).1⟩
            · exact ⟨rfl, Pre.refl _, fun h => h, fun _ h => h⟩
          refine ⟨_, rfl, ?_, Nat.le_succ _, ?_⟩
          · rw [addRow_name]
            cases hc : latestRow bk k with
            | none => exact hbk1.1
            | some c =>
              simp only []
              split
              · unfold unlatest; rw [replaceRow_name]; exact hbk1.1
              · exact hbk1.1
          · intro hb
            obtain ⟨_, hpre1, hinv1, hsub⟩ := hbk1
            rw [addRow_rows]
            cases hc : latestRow bk k with
            | none => exact ⟨_, hpre1, Or.inr ⟨_, rfl, Or.inr ⟨rfl, Nat.lt_succ_self _⟩⟩⟩
            | some c =>
              simp only []
              split
              · rename_i hany
                obtain ⟨x, hx, hxe⟩ := List.any_eq_true.1 hany
                have hxc : x = c := eq_of_id_eq hb.nodup (hsub x hx) (latestRow_some hc).1 (by simpa using hxe)
                exact ⟨_, pre_trans hpre1 (pre_unlatest s.clock (hinv1 hb) (by rw [← hxc]; exact hx)),
                  Or.inr ⟨_, rfl, Or.inr ⟨rfl, Nat.lt_succ_self _⟩⟩⟩
              · exact ⟨_, hpre1, Or.inr ⟨_, rfl, Or.inr ⟨rfl, Nat.lt_succ_self _⟩⟩⟩
        · cases hc : latestRow bk k with
          | none => exact Or.inl ⟨rfl, rfl⟩
          | some c =>
            simp only []
            right
            exact ⟨_, rfl, removeRow_name _ _, Nat.le_refl _, fun _ => edited_pre (pre_removeRow bk c.rowId)⟩

-- ------------------------------------------------------------------ state level

def EditedState (s s' : State) : Prop :=
  s.nextVid ≤ s'.nextVid ∧
    ∀ bk' ∈ s'.buckets, bk'.rows = [] ∨ ∃ bk ∈ s.buckets, Edited s.nextVid s'.nextVid bk.rows bk'.rows

theorem es_refl (s : State) : EditedState s s :=
  ⟨Nat.le_refl _, fun bk' h => Or.inr ⟨bk', h, edited_refl _ _ _⟩⟩

theorem es_same {s s' : State} (hb : s'.buckets = s.buckets) (hv : s'.nextVid = s.nextVid) : EditedState s s' :=
  ⟨by rw [hv]; exact Nat.le_refl _, fun bk' h => Or.inr ⟨bk', by rw [← hb]; exact h, edited_refl _ _ _⟩⟩

theorem es_update {s s' : State} {bk1 X : Bucket} (hst : s'.buckets = (setBucket s X).buckets) (hm : bk1 ∈ s.buckets)
    (hle : s.nextVid ≤ s'.nextVid) (he : Edited s.nextVid s'.nextVid bk1.rows X.rows) : EditedState s s' := by
  refine ⟨hle, ?_⟩
  intro bk' hbk'
  rw [hst] at hbk'
  rcases mem_setBucket hbk' with rfl | hold
  · exact Or.inr ⟨bk1, hm, he⟩
  · exact Or.inr ⟨bk', hold, edited_refl _ _ _⟩

theorem es_ite {s : State} {c : Prop} [Decidable c] {x y : State × Out}
    (hx : EditedState s x.1) (hy : EditedState s y.1) : EditedState s (if c then x else y).1 := by
  split <;> assumption

theorem es_putRow {q : Quirks} {s : State} {bk1 bkx : Bucket} {k : String} {n : NewObj} {inm : Bool} {im : IfMatch}
    {s' : State} {vid : Option Nat} (hinv : Inv s) (hm : bk1 ∈ s.buckets) (hrows : bkx.rows = bk1.rows)
    (hok : putRow q s bkx k n inm im = .ok (s', vid)) : EditedState s s' := by
  obtain ⟨X, h1, _, h3, h4⟩ := edited_putRow (by rw [hrows]; exact hinv bk1 hm) hok
  exact es_update h1 hm h3 (by rw [← hrows]; exact h4)

theorem stepT_edited (q : Quirks) (hq : q.appendLatestInPlace = false) (s : State) (hinv : Inv s) (op : Op) :
    EditedState s (stepT q s op).1 := by
  cases op with
  | mkb b =>
    simp only [stepT]
    apply es_ite (es_refl s)
    refine ⟨Nat.le_refl _, ?_⟩
    intro bk' hbk'
    simp only [List.mem_append, List.mem_singleton] at hbk'
    rcases hbk' with h | rfl
    · exact Or.inr ⟨bk', h, edited_refl _ _ _⟩
    · exact Or.inl rfl
  | rmb b =>
    simp only [stepT]
    cases hfb : findBucket s b with
    | none => exact es_refl s
    | some bk =>
      simp only []
      apply es_ite (es_refl s)
      exact ⟨Nat.le_refl _, fun bk' h => Or.inr ⟨bk', (List.mem_filter.1 h).1, edited_refl _ _ _⟩⟩
  | setVer b v =>
    simp only [stepT]
    cases hfb : findBucket s b with
    | none => exact es_refl s
    | some bk => exact es_update (X := { bk with ver := v }) rfl (findBucket_mem hfb) (Nat.le_refl _) (edited_refl _ _ _)
  | put b k body o inm im =>
    simp only [stepT]
    cases hfb : findBucket s b with
    | none => exact es_refl s
    | some bk =>
      simp only []
      cases hp : putRow q s bk k { parts := [body], etag := singleETag body, o := o } inm im with
      | error e => exact es_refl s
      | ok x => obtain ⟨s', vid⟩ := x; exact es_putRow hinv (findBucket_mem hfb) rfl hp
  | get b k vid =>
    simp only [stepT]
    cases hfb : findBucket s b with
    | none => exact es_refl s
    | some bk => simp only []; cases resolve bk k vid <;> exact es_refl s
  | head b k vid =>
    simp only [stepT]
    cases hfb : findBucket s b with
    | none => exact es_refl s
    | some bk => simp only []; cases resolve bk k vid <;> exact es_refl s
  | del b k vid im =>
    simp only [stepT]
    cases hfb : findBucket s b with
    | none => exact es_refl s
    | some bk =>
      simp only []
      rcases deleteOp_edited q s bk k vid im with ⟨h1, h2⟩ | ⟨X, h1, _, h3, h4⟩
      · exact es_same h1 h2
      · exact es_update h1 (findBucket_mem hfb) h3 (h4 (hinv bk (findBucket_mem hfb)))
  | copy sb sk svid db dk rm rt o =>
    simp only [stepT]
    cases hsb : findBucket s sb with
    | none => exact es_refl s
    | some sbk =>
      simp only []
      cases hres : resolve sbk sk svid with
      | error e => exact es_refl s
      | ok src =>
        simp only []
        cases hdb : findBucket s db with
        | none => exact es_refl s
        | some dbk =>
          simp only []
          generalize hn : ({ parts := src.parts, etag := src.etag, o := _ } : NewObj) = n
          cases hp : putRow q s dbk dk n false IfMatch.none with
          | error e => exact es_refl s
          | ok x => obtain ⟨s', vid⟩ := x; exact es_putRow hinv (findBucket_mem hdb) rfl hp
  | append b k body off =>
    simp only [stepT]
    cases hfb : findBucket s b with
    | none => exact es_refl s
    | some bk =>
      simp only []
      have hm := findBucket_mem hfb
      have hb := hinv bk hm
      have putPath : ∀ (n : NewObj) (e : ETag) (sz : Nat), EditedState s
          (match putRow q s bk k n false IfMatch.none with
           | .error e => (s, Out.err e)
           | .ok (s', _) => (s', Out.appended e sz)).1 := by
        intro n e sz
        cases hp : putRow q s bk k n false IfMatch.none with
        | error e => exact es_refl s
        | ok x => obtain ⟨s', vid⟩ := x; exact es_putRow hinv hm rfl hp
      apply es_ite (es_refl s)
      apply es_ite
      · exact putPath _ _ _
      · simp only [hq, Bool.false_eq_true, if_false]
        cases hl : latestRow bk k with
        | none => exact putPath _ _ _
        | some r0 =>
          simp only []
          by_cases hdm : r0.dm = true
          · simp only [hdm, if_true]; exact putPath _ _ _
          · simp only [hdm, Bool.false_eq_true, if_false]
            by_cases hv0 : r0.vid.isNone = true
            · simp only [hv0, if_true]
              apply es_ite (es_refl s)
              refine es_update (X := replaceRow bk _) rfl hm (Nat.le_refl _) ?_
              rw [replaceRow_rows]
              exact edited_pre (pre_resave hb (latestRow_some hl).1 rfl rfl)
            · simp only [hv0, Bool.false_eq_true, if_false]; exact putPath _ _ _
  | mpu b k o =>
    simp only [stepT]
    cases hfb : findBucket s b with
    | none => exact es_refl s
    | some bk =>
      exact es_update (X := { bk with uploads := bk.uploads ++ [_] }) rfl (findBucket_mem hfb) (Nat.le_refl _) (edited_refl _ _ _)
  | uploadPart b k uid n body =>
    simp only [stepT]
    cases hfb : findBucket s b with
    | none => exact es_refl s
    | some bk =>
      simp only []
      cases bk.uploads.find? (fun u => u.uid == uid && u.key == k) with
      | none => exact es_refl s
      | some u =>
        simp only []
        exact es_update (X := { bk with uploads := _ }) rfl (findBucket_mem hfb) (Nat.le_refl _) (edited_refl _ _ _)
  | complete b k uid declared inm im =>
    simp only [stepT]
    cases hfb : findBucket s b with
    | none => exact es_refl s
    | some bk =>
      simp only []
      cases bk.uploads.find? (fun u => u.uid == uid && u.key == k) with
      | none => exact es_refl s
      | some u =>
        simp only []
        apply es_ite (es_refl s)
        cases declaredErr u declared with
        | some e => exact es_refl s
        | none =>
          simp only []
          generalize hn : (NewObj.mk _ _ _ _ _) = n
          cases hp : putRow q s { bk with uploads := bk.uploads.filter (fun x => x.uid != uid) } k n inm im with
          | error e => exact es_refl s
          | ok x =>
            obtain ⟨s', vid⟩ := x
            exact es_putRow (bkx := { bk with uploads := bk.uploads.filter (fun x => x.uid != uid) }) hinv (findBucket_mem hfb) rfl hp
  | abort b k uid =>
    simp only [stepT]
    cases hfb : findBucket s b with
    | none => exact es_refl s
    | some bk =>
      simp only []
      cases bk.uploads.find? (fun u => u.uid == uid && u.key == k) with
      | none => exact es_refl s
      | some u =>
        simp only []
        exact es_update (X := { bk with uploads := _ }) rfl (findBucket_mem hfb) (Nat.le_refl _) (edited_refl _ _ _)
  | getTags b k vid =>
    simp only [stepT]
    cases hfb : findBucket s b with
    | none => exact es_refl s
    | some bk => simp only []; cases resolve bk k vid <;> exact es_refl s
  | putTags b k vid tags =>
    simp only [stepT]
    cases hfb : findBucket s b with
    | none => exact es_refl s
    | some bk =>
      simp only []
      cases hres : resolve bk k vid with
      | error e => exact es_refl s
      | ok c =>
        exact es_update (X := replaceRow bk _) rfl (findBucket_mem hfb) (Nat.le_refl _)
          (edited_pre (pre_touch s.clock (hinv bk (findBucket_mem hfb)) (resolve_mem hres) rfl rfl))
  | delTags b k vid =>
    simp only [stepT]
    cases hfb : findBucket s b with
    | none => exact es_refl s
    | some bk =>
      simp only []
      cases hres : resolve bk k vid with
      | error e => exact es_refl s
      | ok c =>
        exact es_update (X := replaceRow bk _) rfl (findBucket_mem hfb) (Nat.le_refl _)
          (edited_pre (pre_touch s.clock (hinv bk (findBucket_mem hfb)) (resolve_mem hres) rfl rfl))
  | transition b k cls vid =>
    simp only [stepT]
    cases hfb : findBucket s b with
    | none => exact es_refl s
    | some bk =>
      simp only []
      have key : ∀ (ro : Option Row), (∀ c, ro = some c → c ∈ bk.rows) →
          EditedState s (match ro with
            | none => (s, Out.err Err.noSuchKey)
            | some c => if c.dm = true then (s, Out.err Err.noSuchKey)
              else (setBucket s (replaceRow bk (touch q s.clock { c with cls := some cls, seqBase := 0 })), Out.unit)).1 := by
        intro ro hro
        cases ro with
        | none => exact es_refl s
        | some c =>
          simp only []
          apply es_ite (es_refl s)
          exact es_update (X := replaceRow bk _) rfl (findBucket_mem hfb) (Nat.le_refl _)
            (edited_pre (pre_touch s.clock (hinv bk (findBucket_mem hfb)) (hro c rfl) rfl rfl))
      cases vid with
      | none => exact key (latestRow bk k) (fun c hc => (latestRow_some hc).1)
      | some v => exact key (rowByVid bk k v) (fun c hc => (rowByVid_mem hc).1)
  | list b =>
    simp only [stepT]
    cases hfb : findBucket s b with
    | none => exact es_refl s
    | some bk => exact es_refl s
  | listVersions b =>
    simp only [stepT]
    cases hfb : findBucket s b with
    | none => exact es_refl s
    | some bk => exact es_refl s
  | listBuckets => simp only [stepT]; exact es_refl s

/-- In every bucket (key, version id) pairs are pairwise distinct; version ids are below the counter. -/
def VInv (s : State) : Prop := ∀ bk ∈ s.buckets, VRows s.nextVid bk.rows

theorem vinv_of_edited {s s' : State} (h : VInv s) (he : EditedState s s') : VInv s' := by
  intro bk' hbk'
  rcases he.2 bk' hbk' with h0 | ⟨bk, hbk, hed⟩
  · rw [h0]; exact VRows.nil _
  · exact vrows_edited (h bk hbk) hed he.1

theorem step_vinv (q : Quirks) (hq : q.appendLatestInPlace = false) (s : State) (hinv : Inv s) (hv : VInv s) (op : Op) :
    VInv (step q s op).1 :=
  vinv_of_edited (s := { s with clock := s.clock + 1 }) hv (stepT_edited q hq _ (inv_tick hinv) op)

theorem run_vinv (q : Quirks) (hq : q.appendLatestInPlace = false) (ops : List Op) :
    ∀ (s : State), Inv s → VInv s → Inv (run q s ops).1 ∧ VInv (run q s ops).1 := by
  induction ops with
  | nil => intro s h1 h2; exact ⟨h1, h2⟩
  | cons op ops ih =>
    intro s h1 h2
    have := ih (step q s op).1 (step_inv q s op h1) (step_vinv q hq s h1 h2 op)
    simpa [run] using this

/-- With distinct (key, version id) pairs a row is what its own key and version id address. -/
theorem rowByVid_of_mem {bk : Bucket} {nv : Nat} (hv : VRows nv bk.rows) {r : Row} (hr : r ∈ bk.rows) :
    rowByVid bk r.key r.vid = some r := by
  unfold rowByVid
  have hnd := hv.nodup
  -- the first row matching (key, vid) is r itself
  have : ∀ (rows : List Row), (rows.map kv).Nodup → r ∈ rows →
      rows.find? (fun x => x.key == r.key && x.vid == r.vid) = some r := by
    intro rows
    induction rows with
    | nil => intro _ h; cases h
    | cons a t ih =>
      intro hn hm
      rw [List.map_cons, List.nodup_cons] at hn
      rw [List.find?_cons]
      rcases List.mem_cons.1 hm with rfl | hmt
      · simp
      · have hne : ¬(a.key = r.key ∧ a.vid = r.vid) := by
          intro ⟨h1, h2⟩
          apply hn.1
          exact List.mem_map.2 ⟨r, hmt, by simp [kv, h1, h2]⟩
        have : (a.key == r.key && a.vid == r.vid) = false := by
          by_cases h1 : a.key = r.key
          · by_cases h2 : a.vid = r.vid
            · exact absurd ⟨h1, h2⟩ hne
            · simp [h2]
          · simp [h1]
        rw [this]
        exact ih hn.2 hmt
  exact this bk.rows hnd hr

end Pithos.S3
