/-
Preservation of `WInv` ("the latest row of a key carries its greatest write sequence number") by
every operation, for every quirk setting with `promoteByCreated = false`.
-/
import Pithos.Lemmas.S3Newest

namespace Pithos.S3

theorem winv_setBucket {s : State} {bk : Bucket} (h : WInv s) (hb : WRows s.clock bk.rows) : WInv (setBucket s bk) := by
  intro b hbm
  rcases mem_setBucket hbm with rfl | hold
  · exact hb
  · exact h b hold

theorem winv_bump {s : State} {bk : Bucket} {m v : Nat} (h : WInv s) (hb : WRows s.clock bk.rows) :
    WInv { setBucket s bk with nextVid := v, nextRow := m } := by
  intro b hbm
  have hbm' : b ∈ (setBucket s bk).buckets := hbm
  rcases mem_setBucket hbm' with rfl | hold
  · exact hb
  · exact h b hold

theorem winv_bump' {s : State} {bk : Bucket} {m : Nat} (h : WInv s) (hb : WRows s.clock bk.rows) :
    WInv { setBucket s bk with nextRow := m } := by
  intro b hbm
  have hbm' : b ∈ (setBucket s bk).buckets := hbm
  rcases mem_setBucket hbm' with rfl | hold
  · exact hb
  · exact h b hold

theorem winv_setBucket_sameRows {s : State} {bk bk' : Bucket} (h : WInv s) (hm : bk ∈ s.buckets)
    (hr : bk'.rows = bk.rows) : WInv (setBucket s bk') :=
  winv_setBucket h (by rw [hr]; exact h bk hm)

theorem winv_unlatest {c : Nat} (q : Quirks) (now : Nat) (bk : Bucket) (r : Row)
    (h : WRows c bk.rows) (hr : r ∈ bk.rows) : WRows c (unlatest q now bk r).rows := by
  rw [unlatest_rows]
  exact h.repl_keep hr rfl rfl (by simp)

theorem winv_unlatestCur {c : Nat} (q : Quirks) (now : Nat) (bk : Bucket) (k : String)
    (h : WRows c bk.rows) : WRows c (unlatestCur q now bk k).rows := by
  unfold unlatestCur
  cases hl : latestRow bk k with
  | none => exact h
  | some r => exact winv_unlatest q now bk r h (latestRow_some hl).1

theorem winv_touch {c : Nat} (q : Quirks) (now : Nat) (bk : Bucket) (r : Row)
    (h : WRows c bk.rows) (hr : r ∈ bk.rows) : WRows c (replaceRow bk (touch q now r)).rows := by
  rw [replaceRow_rows]
  exact h.repl_keep hr rfl rfl (by simp [touch])

theorem winv_install (q : Quirks) (s : State) (bk : Bucket) (k : String) (n : NewObj)
    (h : WInv s) (hb : RowsInv s.nextRow bk.rows) (hw : WRows s.clock bk.rows) : WInv (install q s bk k n).1 := by
  unfold install
  have h2 := winv_unlatestCur q s.clock bk k hw
  have hz := lc_unlatestCur q s.clock bk k hb
  simp only []
  split
  · apply winv_bump h
    rw [addRow_rows]
    exact h2.add (by simp [mkRow]) (by simpa [mkRow] using hz)
  · split
    · apply winv_setBucket h
      rw [replaceRow_rows]
      exact h2.repl_raise (by simp [mkRow]) (by simpa [mkRow] using hz)
    · apply winv_bump' h
      rw [addRow_rows]
      exact h2.add (by simp [mkRow]) (by simpa [mkRow] using hz)

theorem winv_putRow (q : Quirks) (s : State) (bk : Bucket) (k : String) (n : NewObj) (inm : Bool) (im : IfMatch)
    (h : WInv s) (hb : RowsInv s.nextRow bk.rows) (hw : WRows s.clock bk.rows) {s' : State} {vid : Option Nat}
    (hok : putRow q s bk k n inm im = .ok (s', vid)) : WInv s' := by
  obtain ⟨bk1, hbk1, hx⟩ := putRow_ok hok
  have : s' = (install q s bk1 k n).1 := by rw [← hx]
  rw [this]
  rcases hbk1 with rfl | ⟨r, hl, rfl⟩
  · exact winv_install q s _ k n h hb hw
  · exact winv_install q s _ k n h (touch_inv q s.clock bk r hb (latestRow_some hl).1)
      (winv_touch q s.clock bk r hw (latestRow_some hl).1)

theorem winv_ite {c : Prop} [Decidable c] {a b : State × Out} (ha : WInv a.1) (hb : WInv b.1) :
    WInv (if c then a else b).1 := by
  split <;> assumption

theorem winv_dite {c : Prop} [Decidable c] {a b : State × Out} (ha : c → WInv a.1) (hb : ¬c → WInv b.1) :
    WInv (if c then a else b).1 := by
  split
  · exact ha ‹_›
  · exact hb ‹_›

/-- Two distinct rows of one key cannot both be latest. -/
theorem latest_unique {n : Nat} {rows : List Row} (h : RowsInv n rows) {a b : Row} (ha : a ∈ rows) (hb : b ∈ rows)
    (hk : a.key = b.key) (hla : a.latest = true) (hlb : b.latest = true) : a = b := by
  have h1 := latestRow_eq_of_unique (bk := { name := "", rows := rows }) (h.one b.key) ha hk hla
  have h2 := latestRow_eq_of_unique (bk := { name := "", rows := rows }) (h.one b.key) hb rfl hlb
  rw [h1] at h2
  injection h2

theorem winv_deleteOp (q : Quirks) (hq : q.promoteByCreated = false) (s : State) (bk : Bucket) (k : String)
    (vid : Option (Option Nat)) (im : IfMatch)
    (h : WInv s) (hb : RowsInv s.nextRow bk.rows) (hw : WRows s.clock bk.rows) : WInv (deleteOp q s bk k vid im).1 := by
  cases vid with
  | some v =>
    unfold deleteOp
    simp only []
    apply winv_ite
    · apply winv_ite <;> exact h
    · cases hv : rowByVid bk k v with
      | none => exact h
      | some r =>
        simp only []
        apply winv_ite
        · exact h
        · obtain ⟨hr, hk, _⟩ := rowByVid_mem hv
          apply winv_setBucket h
          have h1 : RowsInv s.nextRow (removeRow bk r.rowId).rows := by rw [removeRow_rows]; exact hb.filter _
          have w1 : WRows s.clock (removeRow bk r.rowId).rows := by rw [removeRow_rows]; exact hw.filter _
          by_cases hl : r.latest = true
          · simp only [hl, if_true]
            apply winv_promote q hq s.clock _ k w1
            rw [removeRow_rows]; exact lc_remove_latest hb hr hk hl
          · simp only [hl]; exact w1
  | none =>
    unfold deleteOp
    simp only []
    apply winv_ite
    · apply winv_ite <;> exact h
    · apply winv_ite
      · exact h
      · apply winv_ite
        · apply winv_bump h
          rw [addRow_rows]
          generalize hb1 : (if (bk.ver == Versioning.suspended) = true then
              match nullRow bk k with
              | some n => removeRow bk n.rowId
              | none => bk
            else bk) = bk1
          have hsub : ∃ f : Row → Bool, bk1.rows = bk.rows.filter f := by
            rw [← hb1]
            split
            · split
              · rename_i n _; exact ⟨fun x => x.rowId != n.rowId, rfl⟩
              · exact ⟨fun _ => true, (List.filter_eq_self.2 (fun _ _ => rfl)).symm⟩
            · exact ⟨fun _ => true, (List.filter_eq_self.2 (fun _ _ => rfl)).symm⟩
          obtain ⟨f, hf⟩ := hsub
          have hinv1 : RowsInv s.nextRow bk1.rows := by rw [hf]; exact hb.filter f
          have hw1 : WRows s.clock bk1.rows := by rw [hf]; exact hw.filter f
          have hle1 : lc bk1.rows k ≤ lc bk.rows k := by rw [hf]; exact lc_filter_le _ _ _
          cases hc : latestRow bk k with
          | none =>
            simp only []
            have hz : lc bk.rows k = 0 := latestRow_none hc
            exact hw1.add (by simp) (by simp; omega)
          | some r =>
            simp only []
            obtain ⟨hr, hk, hlat⟩ := latestRow_some hc
            split
            · rename_i hany
              have hrin : r ∈ bk1.rows := by
                obtain ⟨x, hx, hxe⟩ := List.any_eq_true.1 hany
                have hx' : x ∈ bk.rows := by rw [hf] at hx; exact (List.mem_filter.1 hx).1
                have : x = r := eq_of_id_eq hb.nodup hx' hr (by simpa using hxe)
                rw [← this]; exact hx
              have h2 := winv_unlatest q s.clock bk1 r hw1 hrin
              refine h2.add (by simp) ?_
              simp only [unlatest_rows]
              generalize hy : ({ r with latest := false, updated := if q.touchOnAnySave then s.clock else r.updated } : Row) = y
              have hyl : y.latest = false := by rw [← hy]
              have hyid : y.rowId = r.rowId := by rw [← hy]
              have hcc := countP_repl (fun x => x.key == k && x.latest) bk1.rows r y hinv1.nodup hrin hyid
              have hone := hb.one k
              unfold lc at *
              have hpr : (r.key == k && r.latest) = true := by simp [hk, hlat]
              have hpy : (y.key == k && y.latest) = false := by simp [hyl]
              simp only [hpr, hpy, if_true] at hcc
              simp at hcc
              show List.countP (fun x => x.key == k && x.latest) (repl bk1.rows y) = 0
              omega
            · rename_i hany
              refine hw1.add (by simp) ?_
              simp
              have hnot : r ∉ bk1.rows := by
                intro hin; apply hany
                exact List.any_eq_true.2 ⟨r, hin, by simp⟩
              unfold lc
              rw [List.countP_eq_zero]
              intro x hx hp
              have hx' : x ∈ bk.rows := by rw [hf] at hx; exact (List.mem_filter.1 hx).1
              simp at hp
              have := latestRow_eq_of_unique (hb.one k) hx' hp.1 hp.2
              rw [hc] at this
              injection this with this
              apply hnot; rw [this]; exact hx
        · cases hc : latestRow bk k with
          | none => exact h
          | some r => simp only []; apply winv_setBucket h; rw [removeRow_rows]; exact hw.filter _

theorem stepT_winv (q : Quirks) (hq : q.promoteByCreated = false) (s : State) (op : Op) (hi : Inv s) (h : WInv s) :
    WInv (stepT q s op).1 := by
  cases op with
  | mkb b =>
    simp only [stepT]
    apply winv_ite
    · exact h
    · intro bk hbk
      simp only [List.mem_append, List.mem_singleton] at hbk
      rcases hbk with hbk | rfl
      · exact h bk hbk
      · exact WRows.nil _
  | rmb b =>
    simp only [stepT]
    cases hfb : findBucket s b with
    | none => exact h
    | some bk =>
      simp only []
      apply winv_ite
      · exact h
      · intro b' hb'
        exact h b' (List.mem_filter.1 hb').1
  | setVer b v =>
    simp only [stepT]
    cases hfb : findBucket s b with
    | none => exact h
    | some bk => exact winv_setBucket_sameRows h (findBucket_mem hfb) rfl
  | put b k body o inm im =>
    simp only [stepT]
    cases hfb : findBucket s b with
    | none => exact h
    | some bk =>
      simp only []
      cases hp : putRow q s bk k { parts := [body], etag := singleETag body, o := o } inm im with
      | error e => exact h
      | ok x =>
        obtain ⟨s', vid⟩ := x
        exact winv_putRow q s bk k _ inm im h (hi bk (findBucket_mem hfb)) (h bk (findBucket_mem hfb)) hp
  | get b k vid =>
    simp only [stepT]
    cases hfb : findBucket s b with
    | none => exact h
    | some bk => simp only []; cases resolve bk k vid <;> exact h
  | head b k vid =>
    simp only [stepT]
    cases hfb : findBucket s b with
    | none => exact h
    | some bk => simp only []; cases resolve bk k vid <;> exact h
  | del b k vid im =>
    simp only [stepT]
    cases hfb : findBucket s b with
    | none => exact h
    | some bk => exact winv_deleteOp q hq s bk k vid im h (hi bk (findBucket_mem hfb)) (h bk (findBucket_mem hfb))
  | copy sb sk svid db dk rm rt o =>
    simp only [stepT]
    cases hsb : findBucket s sb with
    | none => exact h
    | some sbk =>
      simp only []
      cases hres : resolve sbk sk svid with
      | error e => exact h
      | ok src =>
        simp only []
        cases hdb : findBucket s db with
        | none => exact h
        | some dbk =>
          simp only []
          generalize hn : ({ parts := src.parts, etag := src.etag, o := _ } : NewObj) = n
          cases hp : putRow q s dbk dk n false IfMatch.none with
          | error e => exact h
          | ok x =>
            obtain ⟨s', vid⟩ := x
            exact winv_putRow q s dbk dk n false .none h (hi dbk (findBucket_mem hdb)) (h dbk (findBucket_mem hdb)) hp
  | append b k body off =>
    simp only [stepT]
    cases hfb : findBucket s b with
    | none => exact h
    | some bk =>
      have hbk := hi bk (findBucket_mem hfb)
      have hwk := h bk (findBucket_mem hfb)
      simp only []
      apply winv_ite
      · exact h
      · apply winv_ite
        · generalize hn : (NewObj.mk _ _ _ _ _) = n
          cases hp : putRow q s bk k n false IfMatch.none with
          | error e => exact h
          | ok x => obtain ⟨s', vid⟩ := x; exact winv_putRow q s bk k n false .none h hbk hwk hp
        · generalize htgt : (if q.appendLatestInPlace = true then latestRow bk k else
              match (match latestRow bk k with | some r => if r.dm = true then none else some r | none => none) with
              | some r => if r.vid.isNone = true then some r else none
              | none => none) = tgt
          cases tgt with
          | some r =>
            simp only []
            apply winv_ite
            · exact h
            · have hr : r ∈ bk.rows ∧ r.key = k ∧ r.latest = true := by
                by_cases hq' : q.appendLatestInPlace = true
                · simp only [hq', if_true] at htgt; exact latestRow_some htgt
                · simp only [hq'] at htgt
                  cases hl : latestRow bk k with
                  | none => simp [hl] at htgt
                  | some r0 =>
                    simp only [hl] at htgt
                    have h0 := latestRow_some hl
                    by_cases hdm : r0.dm = true
                    · simp [hdm] at htgt
                    · simp only [hdm] at htgt
                      by_cases hv : r0.vid.isNone = true
                      · simp [hv] at htgt; subst htgt; exact h0
                      · simp [hv] at htgt
              apply winv_setBucket h
              rw [replaceRow_rows]
              -- the row that is extended is the (unique) latest row of k; its new `wrote` is now
              refine ⟨?_, ?_⟩
              · intro z hz
                rcases mem_repl hz with rfl | ⟨hz', _⟩
                · exact Nat.le_refl _
                · exact hwk.le z hz'
              · intro z hz hzl z' hz' hzk
                rcases mem_repl hz with rfl | ⟨hzo, hzne⟩
                · rcases mem_repl hz' with rfl | ⟨hzo', _⟩
                  · exact Nat.le_refl _
                  · exact hwk.le z' hzo'
                · rcases mem_repl hz' with rfl | ⟨hzo', _⟩
                  · -- z is an old latest row of r's key, different from r: impossible
                    exfalso
                    have : z = r := latest_unique hbk hzo hr.1 (by simpa using hzk.symm) hzl hr.2.2
                    exact hzne (by rw [this])
                  · exact hwk.max z hzo hzl z' hzo' hzk
          | none =>
            simp only []
            apply winv_dite
            · intro hq'
              simp only [hq', if_true] at htgt
              apply winv_bump' h
              rw [addRow_rows]
              exact hwk.add rfl (latestRow_none htgt)
            · intro _
              generalize hn : (NewObj.mk _ _ _ _ _) = n
              cases hp : putRow q s bk k n false IfMatch.none with
              | error e => exact h
              | ok x => obtain ⟨s', vid⟩ := x; exact winv_putRow q s bk k n false .none h hbk hwk hp
  | mpu b k o =>
    simp only [stepT]
    cases hfb : findBucket s b with
    | none => exact h
    | some bk =>
      simp only []
      intro b' hb'
      have hb'' : b' ∈ (setBucket s { bk with uploads := bk.uploads ++ [_] }).buckets := hb'
      rcases mem_setBucket hb'' with rfl | hold
      · exact h bk (findBucket_mem hfb)
      · exact h b' hold
  | uploadPart b k uid n body =>
    simp only [stepT]
    cases hfb : findBucket s b with
    | none => exact h
    | some bk =>
      simp only []
      cases bk.uploads.find? (fun u => u.uid == uid && u.key == k) with
      | none => exact h
      | some u => exact winv_setBucket_sameRows h (findBucket_mem hfb) rfl
  | complete b k uid declared inm im =>
    simp only [stepT]
    cases hfb : findBucket s b with
    | none => exact h
    | some bk =>
      simp only []
      cases bk.uploads.find? (fun u => u.uid == uid && u.key == k) with
      | none => exact h
      | some u =>
        simp only []
        apply winv_ite
        · exact h
        · cases declaredErr u declared with
          | some e => exact h
          | none =>
            simp only []
            generalize hn : (NewObj.mk _ _ _ _ _) = n
            generalize hb0 : ({ bk with uploads := bk.uploads.filter (fun x => x.uid != uid) } : Bucket) = bk0
            have hbk0 : RowsInv s.nextRow bk0.rows := by rw [← hb0]; exact hi bk (findBucket_mem hfb)
            have hwk0 : WRows s.clock bk0.rows := by rw [← hb0]; exact h bk (findBucket_mem hfb)
            cases hp : putRow q s bk0 k n inm im with
            | error e => exact h
            | ok x => obtain ⟨s', vid⟩ := x; exact winv_putRow q s bk0 k n inm im h hbk0 hwk0 hp
  | abort b k uid =>
    simp only [stepT]
    cases hfb : findBucket s b with
    | none => exact h
    | some bk =>
      simp only []
      cases bk.uploads.find? (fun u => u.uid == uid && u.key == k) with
      | none => exact h
      | some u => exact winv_setBucket_sameRows h (findBucket_mem hfb) rfl
  | getTags b k vid =>
    simp only [stepT]
    cases hfb : findBucket s b with
    | none => exact h
    | some bk => simp only []; cases resolve bk k vid <;> exact h
  | putTags b k vid tags =>
    simp only [stepT]
    cases hfb : findBucket s b with
    | none => exact h
    | some bk =>
      simp only []
      cases hres : resolve bk k vid with
      | error e => exact h
      | ok r =>
        simp only []
        apply winv_setBucket h
        rw [replaceRow_rows]
        exact (h bk (findBucket_mem hfb)).repl_keep (resolve_mem hres) rfl rfl (by simp [touch])
  | delTags b k vid =>
    simp only [stepT]
    cases hfb : findBucket s b with
    | none => exact h
    | some bk =>
      simp only []
      cases hres : resolve bk k vid with
      | error e => exact h
      | ok r =>
        simp only []
        apply winv_setBucket h
        rw [replaceRow_rows]
        exact (h bk (findBucket_mem hfb)).repl_keep (resolve_mem hres) rfl rfl (by simp [touch])
  | transition b k cls vid =>
    simp only [stepT]
    cases hfb : findBucket s b with
    | none => exact h
    | some bk =>
      simp only []
      have key : ∀ (ro : Option Row), (∀ r, ro = some r → r ∈ bk.rows) →
          WInv (match ro with
            | none => (s, Out.err Err.noSuchKey)
            | some r => if r.dm = true then (s, Out.err Err.noSuchKey)
              else (setBucket s (replaceRow bk (touch q s.clock { r with cls := some cls, seqBase := 0 })), Out.unit)).1 := by
        intro ro hro
        cases ro with
        | none => exact h
        | some r =>
          simp only []
          apply winv_ite
          · exact h
          · apply winv_setBucket h
            rw [replaceRow_rows]
            exact (h bk (findBucket_mem hfb)).repl_keep (hro r rfl) rfl rfl (by simp [touch])
      cases vid with
      | none => exact key (latestRow bk k) (fun r hr => (latestRow_some hr).1)
      | some v => exact key (rowByVid bk k v) (fun r hr => (rowByVid_mem hr).1)
  | list b =>
    simp only [stepT]
    cases hfb : findBucket s b with
    | none => exact h
    | some bk => exact h
  | listVersions b =>
    simp only [stepT]
    cases hfb : findBucket s b with
    | none => exact h
    | some bk => exact h
  | listBuckets => simp only [stepT]; exact h

theorem winv_tick {s : State} (h : WInv s) : WInv { s with clock := s.clock + 1 } := by
  intro bk hbk
  exact (h bk hbk).mono (Nat.le_succ _)

theorem step_winv (q : Quirks) (hq : q.promoteByCreated = false) (s : State) (op : Op) (hi : Inv s) (h : WInv s) :
    WInv (step q s op).1 :=
  stepT_winv q hq _ op (inv_tick hi) (winv_tick h)

end Pithos.S3
