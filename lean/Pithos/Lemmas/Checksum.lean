/-
Helper lemmas for C35 / C04 (model: `Pithos.Model.Checksum`). Core Lean only.

Chain: `shift1` is xor-linear → `raw` is affine in the register (`raw_xor`) → `crc_append`;
a matrix that *represents* a linear map (`Rep`) is applied correctly by `gf2MatrixTimes`
(`times_rep`), squaring represents the composition (`square_rep`), the loop of `combine` applies
`(g ∘ g)^len2` (`combineLoop_spec`), hence `combine_eq`.
-/
import Pithos.Model.Checksum

set_option linter.unusedSimpArgs false  -- `cases … <;> simp […]`: an argument is used in some branches only
namespace Pithos.Checksum

/-! ### iteration -/

theorem iter_add {α : Type} (f : α → α) (a b : Nat) (x : α) :
    iter f (a + b) x = iter f b (iter f a x) := by
  induction a generalizing x with
  | zero => simp [iter]
  | succ a ih => rw [Nat.succ_add]; simp [iter, ih]

theorem iter_succ' {α : Type} (f : α → α) (a : Nat) (x : α) : iter f (a + 1) x = f (iter f a x) := by
  rw [iter_add]; rfl

theorem iter_iter {α : Type} (f : α → α) (a b : Nat) (x : α) :
    iter (iter f a) b x = iter f (a * b) x := by
  induction b generalizing x with
  | zero => simp [iter]
  | succ b ih =>
    show iter (iter f a) b (iter f a x) = _
    rw [ih, Nat.mul_succ, Nat.add_comm, iter_add]

/-! ### GF(2)-linearity -/

/-- GF(2)-linearity (xor-homomorphism) of a map on registers. -/
def Lin {n : Nat} (f : BitVec n → BitVec n) : Prop := ∀ x y, f (x ^^^ y) = f x ^^^ f y

theorem Lin.zero {n : Nat} {f : BitVec n → BitVec n} (h : Lin f) : f 0#n = 0#n := by
  have h1 := h 0#n 0#n
  rw [BitVec.xor_self] at h1
  have h2 : f 0#n ^^^ f 0#n = 0#n := BitVec.xor_self
  rw [← h1] at h2; exact h2

theorem shift1_lin {n : Nat} (P : BitVec n) : Lin (shift1 P) := by
  intro x y
  simp only [shift1, BitVec.getLsbD_xor, BitVec.ushiftRight_xor_distrib]
  generalize x >>> 1 = a
  generalize y >>> 1 = b
  cases x.getLsbD 0 <;> cases y.getLsbD 0 <;> simp
  · ac_rfl
  · ac_rfl
  · have h : a ^^^ P ^^^ (b ^^^ P) = a ^^^ b ^^^ (P ^^^ P) := by ac_rfl
    rw [h, BitVec.xor_self, BitVec.xor_zero]

theorem iter_lin {n : Nat} {f : BitVec n → BitVec n} (h : Lin f) (k : Nat) : Lin (iter f k) := by
  induction k with
  | zero => intro x y; rfl
  | succ k ih => intro x y; simp only [iter]; rw [h, ih]

theorem comp_lin {n : Nat} {f g : BitVec n → BitVec n} (hf : Lin f) (hg : Lin g) :
    Lin (fun x => f (g x)) := by
  intro x y; simp only []; rw [hg, hf]

/-! ### the raw register is affine in its start value -/

/-- `k` zero bits through the register. -/
abbrev zeros {n : Nat} (P : BitVec n) (k : Nat) : BitVec n → BitVec n := iter (shift1 P) k

theorem stepByte_xor {n : Nat} (P s t : BitVec n) (b : UInt8) :
    stepByte P (s ^^^ t) b = stepByte P s b ^^^ zeros P 8 t := by
  unfold stepByte
  have h : s ^^^ t ^^^ BitVec.ofNat n b.toNat = (s ^^^ BitVec.ofNat n b.toNat) ^^^ t := by ac_rfl
  rw [h, iter_lin (shift1_lin P) 8]

/-- **raw_xor.** Changing the start register by `t` changes the result by `t` pushed through
`8·|bs|` zero bits. -/
theorem raw_xor {n : Nat} (P s t : BitVec n) (bs : List UInt8) :
    raw P (s ^^^ t) bs = raw P s bs ^^^ zeros P (8 * bs.length) t := by
  induction bs generalizing s t with
  | nil => simp [raw, iter]
  | cons b bs ih =>
    show raw P (stepByte P (s ^^^ t) b) bs = raw P (stepByte P s b) bs ^^^ _
    rw [stepByte_xor, ih]
    have : 8 * (b :: bs).length = 8 + 8 * bs.length := by simp [Nat.mul_succ, Nat.add_comm]
    rw [this]; exact congrArg _ (iter_add _ 8 _ t).symm

theorem raw_append {n : Nat} (P s : BitVec n) (a b : List UInt8) :
    raw P s (a ++ b) = raw P (raw P s a) b := by
  simp [raw, List.foldl_append]

/-- **crc_append.** `crc (a ++ b) = Z^{8|b|} (crc a ⊕ xorOut ⊕ init) ⊕ crc b`. -/
theorem crc_append {n : Nat} (p : Params n) (a b : List UInt8) :
    crc p (a ++ b) = zeros p.poly (8 * b.length) (crc p a ^^^ (p.init ^^^ p.xorOut)) ^^^ crc p b := by
  unfold crc
  rw [raw_append]
  have h : raw p.poly p.init a = p.init ^^^ (raw p.poly p.init a ^^^ p.xorOut ^^^ (p.init ^^^ p.xorOut)) := by
    have e : p.init ^^^ (raw p.poly p.init a ^^^ p.xorOut ^^^ (p.init ^^^ p.xorOut))
        = raw p.poly p.init a ^^^ ((p.init ^^^ p.init) ^^^ (p.xorOut ^^^ p.xorOut)) := by ac_rfl
    rw [e, BitVec.xor_self, BitVec.xor_self, BitVec.xor_zero, BitVec.xor_zero]
  conv => lhs; rw [h, raw_xor]
  ac_rfl

/-! ### matrices -/

/-- `mat` is the matrix of `f`: it has `n` rows and row `i` is the image of the `i`-th unit vector. -/
def Rep {n : Nat} (mat : List (BitVec n)) (f : BitVec n → BitVec n) : Prop :=
  mat.length = n ∧ ∀ (i : Nat) (h : i < mat.length), mat[i] = f (BitVec.twoPow n i)

theorem timesAux_acc {n : Nat} (rows : List (BitVec n)) (vec s : BitVec n) :
    gf2MatrixTimesAux rows vec s = s ^^^ gf2MatrixTimesAux rows vec 0#n := by
  induction rows generalizing vec s with
  | nil => simp [gf2MatrixTimesAux]
  | cons row rest ih =>
    simp only [gf2MatrixTimesAux]
    split
    · simp
    · rw [ih, ih (s := if vec.getLsbD 0 = true then 0#n ^^^ row else 0#n)]
      cases vec.getLsbD 0 <;> simp [BitVec.xor_assoc]

/-- Clearing the low `k` bits = bit `k` (if set) plus clearing the low `k+1` bits. -/
theorem clear_low_succ {n : Nat} (v : BitVec n) (k : Nat) :
    (v >>> k) <<< k
      = (if v.getLsbD k then BitVec.twoPow n k else 0#n) ^^^ ((v >>> (k + 1)) <<< (k + 1)) := by
  apply BitVec.eq_of_getLsbD_eq
  intro i hi
  rw [BitVec.getLsbD_xor, BitVec.getLsbD_shiftLeft, BitVec.getLsbD_shiftLeft,
    BitVec.getLsbD_ushiftRight, BitVec.getLsbD_ushiftRight]
  by_cases h1 : i < k
  · have h2 : i < k + 1 := by omega
    have h3 : ¬ k = i := by omega
    have h3' : ¬ i = k := by omega
    generalize v.getLsbD k = bk
    cases bk <;> simp [h1, h2, h3, h3', BitVec.getLsbD_twoPow]
  · by_cases h2 : i = k
    · subst h2
      rw [Nat.sub_self, Nat.add_zero]
      generalize v.getLsbD i = b
      cases b <;> simp [hi, BitVec.getLsbD_twoPow]
    · have h3 : ¬ i < k + 1 := by omega
      have h4 : ¬ k = i := by omega
      have h5 : k + (i - k) = i := by omega
      have h6 : k + 1 + (i - (k + 1)) = i := by omega
      rw [h5, h6]
      generalize v.getLsbD k = bk
      generalize v.getLsbD i = bi
      cases bk <;> cases bi <;> simp [h1, h2, h3, h4, hi, BitVec.getLsbD_twoPow]

theorem times_suffix {n : Nat} {f : BitVec n → BitVec n} (hf : Lin f) (rows : List (BitVec n))
    (k : Nat) (v : BitVec n) (hlen : k + rows.length = n)
    (hrow : ∀ (j : Nat) (h : j < rows.length), rows[j] = f (BitVec.twoPow n (k + j))) :
    gf2MatrixTimes rows (v >>> k) = f ((v >>> k) <<< k) := by
  induction rows generalizing k with
  | nil =>
    have : v >>> k = 0#n := BitVec.ushiftRight_eq_zero (by simp at hlen; omega)
    simp [gf2MatrixTimes, gf2MatrixTimesAux, this, hf.zero]
  | cons row rest ih =>
    have hrow0 : row = f (BitVec.twoPow n k) := hrow 0 (Nat.zero_lt_succ _)
    have ih' := ih (k + 1) (by simp at hlen; omega) (by
      intro j h
      have e : k + 1 + j = k + (j + 1) := by omega
      rw [e]
      exact hrow (j + 1) (Nat.succ_lt_succ h))
    unfold gf2MatrixTimes at ih' ⊢
    simp only [gf2MatrixTimesAux]
    split
    · next h0 => rw [h0]; simp [hf.zero]
    · rw [timesAux_acc, ← BitVec.shiftRight_add, ih', clear_low_succ v k, hf]
      have hb : (v >>> k).getLsbD 0 = v.getLsbD k := by simp [BitVec.getLsbD_ushiftRight]
      rw [hb]
      cases v.getLsbD k <;> simp [hrow0, hf.zero]

/-- **times_rep.** `gf2_matrix_times` applies the linear map its matrix represents. -/
theorem times_rep {n : Nat} {f : BitVec n → BitVec n} {mat : List (BitVec n)} (hf : Lin f)
    (h : Rep mat f) (v : BitVec n) : gf2MatrixTimes mat v = f v := by
  have := times_suffix hf mat 0 v (by simpa using h.1) (by simpa using h.2)
  simpa using this

/-- **square_rep.** `gf2_matrix_square` represents the composition of the map with itself. -/
theorem square_rep {n : Nat} {f : BitVec n → BitVec n} {mat : List (BitVec n)} (hf : Lin f)
    (h : Rep mat f) : Rep (gf2MatrixSquare mat) (fun x => f (f x)) := by
  refine ⟨by simpa [gf2MatrixSquare] using h.1, ?_⟩
  intro i hi
  have hi' : i < mat.length := by simpa [gf2MatrixSquare] using hi
  simp only [gf2MatrixSquare, List.getElem_map]
  rw [times_rep hf h, h.2 i hi']

/-! ### the initial operator matrix -/

theorem mkRows_length {n : Nat} (k : Nat) (r : BitVec n) : (mkRows k r).length = k := by
  induction k generalizing r with
  | zero => rfl
  | succ k ih => simp [mkRows, ih]

theorem mkRows_getElem {n : Nat} (k : Nat) (r : BitVec n) (j : Nat) (h : j < (mkRows k r).length) :
    (mkRows k r)[j] = r <<< j := by
  induction k generalizing r j with
  | zero => simp [mkRows] at h
  | succ k ih =>
    cases j with
    | zero => simp [mkRows]
    | succ j =>
      simp only [mkRows, List.getElem_cons_succ]
      rw [ih]
      rw [← BitVec.shiftLeft_add, Nat.add_comm]

theorem twoPow_succ_ushiftRight {n : Nat} (j : Nat) (h : j + 1 < n) :
    BitVec.twoPow n (j + 1) >>> 1 = BitVec.twoPow n j := by
  apply BitVec.eq_of_getLsbD_eq
  intro i hi
  rw [BitVec.getLsbD_ushiftRight, BitVec.getLsbD_twoPow, BitVec.getLsbD_twoPow]
  have h1 : j < n := by omega
  by_cases e : j = i
  · subst e; simp [h, h1, Nat.add_comm]
  · have e' : ¬ j + 1 = 1 + i := by omega
    simp [e, e']

/-- The matrix `combine` starts from is the matrix of one zero bit. -/
theorem odd0_rep {n : Nat} (hn : 0 < n) (P : BitVec n) :
    Rep (P :: mkRows (n - 1) 1#n) (shift1 P) := by
  refine ⟨by simp [mkRows_length]; omega, ?_⟩
  intro i hi
  cases i with
  | zero =>
    have h0 : (BitVec.twoPow n 0).getLsbD 0 = true := by simp [BitVec.getLsbD_twoPow, hn]
    have h1 : BitVec.twoPow n 0 >>> 1 = 0#n := by
      apply BitVec.eq_of_getLsbD_eq
      intro i _
      simp [BitVec.getLsbD_ushiftRight, BitVec.getLsbD_twoPow]
      omega
    simp [shift1, h0, h1]
  | succ j =>
    have hj : j + 1 < n := by simp [mkRows_length] at hi; omega
    have h0 : (BitVec.twoPow n (j + 1)).getLsbD 0 = false := by simp [BitVec.getLsbD_twoPow]
    simp only [List.getElem_cons_succ, shift1, h0]
    rw [mkRows_getElem, twoPow_succ_ushiftRight j hj]
    rfl

/-! ### the loop of `combine` -/

theorem iter_comp2 {α : Type} (f : α → α) (m : Nat) (x : α) :
    iter (fun y => f (f y)) m x = iter f (2 * m) x := by
  show iter (iter f 2) m x = _
  rw [iter_iter]

theorem combineLoop_spec {n : Nat} (fuel : Nat) :
    ∀ (even odd : List (BitVec n)) (g : BitVec n → BitVec n) (crc1 : BitVec n) (len2 : Nat),
      Lin g → Rep odd g → len2 ≤ fuel →
      combineLoop fuel even odd crc1 len2 = iter (fun x => g (g x)) len2 crc1 := by
  induction fuel with
  | zero =>
    intro even odd g crc1 len2 _ _ h
    have : len2 = 0 := by omega
    subst this; rfl
  | succ fuel ih =>
    intro even odd g crc1 len2 hg hodd hle
    have hg2 : Lin (fun x => g (g x)) := comp_lin hg hg
    have heven := square_rep hg hodd
    generalize hG : (fun x => g (g x)) = G at hg2 heven ⊢
    have hg4 : Lin (fun x => G (G x)) := comp_lin hg2 hg2
    have hodd' : Rep (gf2MatrixSquare (gf2MatrixSquare odd)) (fun x => G (G x)) := square_rep hg2 heven
    simp only [combineLoop]
    rw [times_rep hg2 heven, times_rep hg4 hodd']
    have hc1 : (if len2 % 2 = 1 then G crc1 else crc1) = iter G (len2 % 2) crc1 := by
      rcases Nat.mod_two_eq_zero_or_one len2 with h | h <;> simp [h, iter]
    rw [hc1]
    have hc2 : ∀ c : BitVec n, (if len2 / 2 % 2 = 1 then G (G c) else c) = iter G (2 * (len2 / 2 % 2)) c := by
      intro c
      rcases Nat.mod_two_eq_zero_or_one (len2 / 2) with h | h <;> simp [h, iter]
    rw [hc2]
    by_cases hA : len2 / 2 = 0
    · rw [if_pos hA]; congr 1; omega
    · rw [if_neg hA]
      by_cases hB : len2 / 2 / 2 = 0
      · rw [if_pos hB, ← iter_add]; congr 1; omega
      · rw [if_neg hB, ih _ _ (fun x => G (G x)) _ _ hg4 hodd' (by omega),
          iter_comp2 (fun y => G (G y)), iter_comp2 G, ← iter_add, ← iter_add]
        congr 1; omega

/-- **combine_eq.** What `combine` computes, for every width, polynomial and length. -/
theorem combine_eq {n : Nat} (hn : 0 < n) (P I X c1 c2 : BitVec n) (len2 : Nat) :
    combine P I X c1 c2 len2
      = if len2 = 0 then c1 else zeros P (8 * len2) (c1 ^^^ (I ^^^ X)) ^^^ c2 := by
  unfold combine
  by_cases h0 : len2 = 0
  · simp [h0]
  · rw [if_neg h0, if_neg h0]
    have hl := shift1_lin P
    have h1 := odd0_rep hn P
    have hl2 := comp_lin hl hl
    have h2 := square_rep hl h1
    have hl4 := comp_lin hl2 hl2
    have h4 := square_rep hl2 h2
    simp only []
    rw [combineLoop_spec len2 _ _ _ _ len2 hl4 h4 (Nat.le_refl _)]
    congr 1
    have e := iter_comp2 (fun x => shift1 P (shift1 P (shift1 P (shift1 P x)))) len2 (c1 ^^^ (I ^^^ X))
    have e4 : (fun x => shift1 P (shift1 P (shift1 P (shift1 P x)))) = iter (shift1 P) 4 := rfl
    rw [e4, iter_iter] at e
    rw [e]
    congr 1; omega

/-- **combine_crc.** Generic form of the combination identity: every width `n`, every reflected
polynomial, every initial value and final xor, every pair of byte strings. -/
theorem combine_crc {n : Nat} (p : Params n) (a b : List UInt8) :
    combine p.poly p.init p.xorOut (crc p a) (crc p b) b.length = crc p (a ++ b) := by
  cases n with
  | zero => exact Subsingleton.elim _ _
  | succ m =>
    rw [combine_eq (Nat.succ_pos m)]
    by_cases hb : b.length = 0
    · have : b = [] := List.eq_nil_of_length_eq_zero hb
      subst this; simp
    · rw [if_neg hb, crc_append]

/-! ### big-endian encodings and the exported `CombineCrc*` -/

theorem decodeBE_append_singleton (l : List UInt8) (b : UInt8) :
    decodeBE (l ++ [b]) = decodeBE l * 256 + b.toNat := by
  simp [decodeBE, List.foldl_append]

theorem decodeBE_encodeBE (k v : Nat) : decodeBE (encodeBE k v) = v % 256 ^ k := by
  induction k generalizing v with
  | zero => simp [encodeBE, decodeBE, Nat.mod_one]
  | succ k ih =>
    simp only [encodeBE]
    rw [decodeBE_append_singleton, ih]
    have hb : (UInt8.ofNat (v % 256)).toNat = v % 256 := by
      simp [UInt8.toNat_ofNat']
    rw [hb, Nat.pow_succ, Nat.mul_comm (256 ^ k) 256, Nat.mod_mul (a := 256) (b := 256 ^ k)]
    omega

theorem encodeBE_length (k v : Nat) : (encodeBE k v).length = k := by
  induction k generalizing v with
  | zero => rfl
  | succ k ih => simp [encodeBE, ih]

theorem ofNat_decode_sum32 (x : BitVec 32) : BitVec.ofNat 32 (decodeBE (encodeBE 4 x.toNat)) = x := by
  rw [decodeBE_encodeBE]
  apply BitVec.eq_of_toNat_eq
  have := x.isLt
  simp [BitVec.toNat_ofNat]
  omega

theorem ofNat_decode_sum64 (x : BitVec 64) : BitVec.ofNat 64 (decodeBE (encodeBE 8 x.toNat)) = x := by
  rw [decodeBE_encodeBE]
  apply BitVec.eq_of_toNat_eq
  have := x.isLt
  simp [BitVec.toNat_ofNat]
  omega

/-- The normal-form polynomials handed to `createCombineFunction`, bit-reversed by `bitrev`, are
the reflected polynomials the hashes use. -/
theorem bitrev_ieee : bitrev (0x104C11DB7 &&& (2 ^ 32 - 1)) 32 = 0xEDB88320 := by decide
theorem bitrev_castagnoli : bitrev (0x1EDC6F41 &&& (2 ^ 32 - 1)) 32 = 0x82F63B78 := by decide
theorem bitrev_nvme : bitrev (0xAD93D23594C93659 &&& (2 ^ 64 - 1)) 64 = 0x9a6c9329ac4bc9b5 := by decide

/-! ### the exported byte-slice functions -/

/-- **CombineCrc32** as exported (bytes in, bytes out; `bitrev`, decode, `combine`, encode). -/
theorem combineCrc32_sumBE (a b : List UInt8) :
    combineCrc32 (sumBE crc32IEEE a) (sumBE crc32IEEE b) b.length = some (sumBE crc32IEEE (a ++ b)) := by
  unfold combineCrc32 createCombine sumBE
  simp only [Nat.reduceDiv, bitrev_ieee, ofNat_decode_sum32]
  have := combine_crc crc32IEEE a b
  simp only [crc32IEEE] at this ⊢
  have e : BitVec.ofNat 32 (0 ^^^ 0xFFFFFFFF) = 0xFFFFFFFF#32 := by decide
  rw [e]
  rw [this]
  rfl

/-- **CombineCrc32c** as exported. -/
theorem combineCrc32c_sumBE (a b : List UInt8) :
    combineCrc32c (sumBE crc32C a) (sumBE crc32C b) b.length = some (sumBE crc32C (a ++ b)) := by
  unfold combineCrc32c createCombine sumBE
  simp only [Nat.reduceDiv, bitrev_castagnoli, ofNat_decode_sum32]
  have := combine_crc crc32C a b
  simp only [crc32C] at this ⊢
  have e : BitVec.ofNat 32 (0 ^^^ 0xFFFFFFFF) = 0xFFFFFFFF#32 := by decide
  rw [e]
  rw [this]
  rfl

/-- **CombineCrc64Nvme** as exported. -/
theorem combineCrc64Nvme_sumBE (a b : List UInt8) :
    combineCrc64Nvme (sumBE crc64NVME a) (sumBE crc64NVME b) b.length
      = some (sumBE crc64NVME (a ++ b)) := by
  unfold combineCrc64Nvme createCombine sumBE
  simp only [Nat.reduceDiv, bitrev_nvme, ofNat_decode_sum64]
  have := combine_crc crc64NVME a b
  simp only [crc64NVME] at this ⊢
  have e : BitVec.ofNat 64 (0 ^^^ 0xFFFFFFFFFFFFFFFF) = 0xFFFFFFFFFFFFFFFF#64 := by decide
  rw [e]
  rw [this]
  rfl

/-! ### the block dispatcher of `parallelHashWriter` -/

/-- Everything written so far: dispatched blocks, then the partially filled buffer. -/
def Phw.content (w : Phw) : List UInt8 := w.out.flatten ++ w.fill

/-- Dispatcher invariant: the active buffer is never full between calls, and every block already
dispatched by `Write` is a full block. -/
def Phw.Inv (B : Nat) (w : Phw) : Prop := w.fill.length < B ∧ ∀ blk ∈ w.out, blk.length = B

theorem Phw.dispatchActive_content (w : Phw) : w.dispatchActive.content = w.content := by
  unfold Phw.dispatchActive Phw.content
  split <;> simp

theorem Phw.writeLoop_spec (B : Nat) (fuel : Nat) :
    ∀ (w : Phw) (p : List UInt8), p.length ≤ fuel → Phw.Inv B w →
      (Phw.writeLoop B fuel w p).content = w.content ++ p ∧ Phw.Inv B (Phw.writeLoop B fuel w p) := by
  induction fuel with
  | zero =>
    intro w p hp hinv
    have : p = [] := List.eq_nil_of_length_eq_zero (by omega)
    subst this
    exact ⟨by simp [Phw.writeLoop], hinv⟩
  | succ fuel ih =>
    intro w p hp hinv
    simp only [Phw.writeLoop]
    by_cases hpe : p.isEmpty = true
    · have : p = [] := by simpa using hpe
      subst this
      simp [hinv]
    · rw [if_neg hpe]
      have hpl : 0 < p.length := by
        cases p with
        | nil => simp at hpe
        | cons _ _ => simp
      obtain ⟨hfill, hout⟩ := hinv
      generalize hk : min (B - w.fill.length) p.length = k
      have hk1 : 1 ≤ k := by omega
      have hk2 : w.fill.length + k ≤ B := by omega
      have hk3 : k ≤ p.length := by omega
      have htl : (p.take k).length = k := by simp; omega
      have hdl : (p.drop k).length ≤ fuel := by simp; omega
      by_cases hfull : (w.fill ++ p.take k).length = B
      · -- the buffer became full: dispatch it
        rw [if_pos hfull]
        have hne : (w.fill ++ p.take k).isEmpty = false := by
          cases h : w.fill ++ p.take k with
          | nil => rw [h] at hfull; simp at hfull; omega
          | cons _ _ => rfl
        have hinv2 : Phw.Inv B (Phw.dispatchActive { fill := w.fill ++ p.take k, out := w.out }) := by
          unfold Phw.dispatchActive
          simp only [hne]
          refine ⟨by simp; omega, ?_⟩
          intro blk hb
          simp at hb
          rcases hb with hb | hb
          · exact hout blk hb
          · rw [hb]; exact hfull
        have h := ih _ (p.drop k) hdl hinv2
        refine ⟨?_, h.2⟩
        rw [h.1, Phw.dispatchActive_content]
        simp [Phw.content, List.append_assoc]
      · rw [if_neg hfull]
        have hinv2 : Phw.Inv B { fill := w.fill ++ p.take k, out := w.out } := by
          refine ⟨?_, hout⟩
          simp at hfull ⊢; omega
        have h := ih _ (p.drop k) hdl hinv2
        refine ⟨?_, h.2⟩
        rw [h.1]
        simp [Phw.content, List.append_assoc]

theorem Phw.write_spec (B : Nat) (w : Phw) (p : List UInt8) (h : Phw.Inv B w) :
    (w.write B p).content = w.content ++ p ∧ Phw.Inv B (w.write B p) :=
  Phw.writeLoop_spec B p.length w p (Nat.le_refl _) h

theorem Phw.foldl_write_spec (B : Nat) (writes : List (List UInt8)) (w : Phw) (h : Phw.Inv B w) :
    (writes.foldl (Phw.write B) w).content = w.content ++ writes.flatten ∧
      Phw.Inv B (writes.foldl (Phw.write B) w) := by
  induction writes generalizing w with
  | nil => simp [h]
  | cons p ps ih =>
    have h1 := Phw.write_spec B w p h
    have h2 := ih (w.write B p) h1.2
    simp only [List.foldl_cons, List.flatten_cons]
    refine ⟨?_, h2.2⟩
    rw [h2.1, h1.1, List.append_assoc]

theorem Phw.flush_out_flatten (w : Phw) : w.flush.out.flatten = w.content := by
  unfold Phw.flush Phw.dispatchActive Phw.content
  split
  · next h =>
    have e : w.fill = [] := by simpa using h
    rw [e]; simp
  · simp

end Pithos.Checksum
