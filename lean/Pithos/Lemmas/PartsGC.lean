/-
Helper lemmas for C09: what one sequential pass of the garbage collector (`gcRunF`, `gcRun` of
`Pithos.Model.Parts`) does to a state satisfying `RefInv`.  Core Lean only.
-/
import Pithos.Lemmas.Parts

namespace Pithos.Parts

-- ---------------------------------------------------------------- reconciliation is a no-op on consistent states

theorem reconcileOne_obsOf (q : SqlFacts) {s : St} (h : RefInv s) (o : Obs) (ho : o ∈ obsOf s) : reconcileOne q s o = s := by
  obtain ⟨_, hact, h3⟩ := obsOf_mem ho
  rcases h3 with ⟨c, v, hr, hrc, hv⟩ | ⟨hr, hpos, _⟩
  · have hc := h.cnt o.pid c v hr
    simp [credits] at hc
    unfold reconcileOne
    simp only [hv]
    have h0 : ¬ o.actual = 0 := by omega
    have hrc' : ¬ (o.rc ≠ some o.actual) := by
      rw [hrc, hact]; simp; omega
    simp [h0, hrc']
  · have := h.regd o.pid hr; omega

theorem reconcileAll_fix (q : SqlFacts) {s : St} (l : List Obs) (h : ∀ o ∈ l, reconcileOne q s o = s) : reconcileAll q s l = s := by
  induction l with
  | nil => rfl
  | cons o os ih =>
    simp only [reconcileAll]
    rw [h o (by simp)]
    exact ih (fun x hx => h x (List.mem_cons_of_mem _ hx))

theorem reconcileAll_obsOf (q : SqlFacts) {s : St} (h : RefInv s) : reconcileAll q s (obsOf s) = s :=
  reconcileAll_fix q _ (fun o ho => reconcileOne_obsOf q h o ho)

-- ---------------------------------------------------------------- condemn, in closed form

theorem condemn_registered {s : St} (cfg : Cfg) (h : RefInv s) (st : Store) (p : PartId)
    (hr : s.reg p ≠ none) : condemn cfg s st p = s := by
  unfold condemn
  cases hreg : s.reg p with
  | none => exact absurd hreg hr
  | some cv =>
    obtain ⟨c, v⟩ := cv
    have := h.cnt p c v hreg
    have hc : c ≠ 0 := by omega
    simp [hc]

theorem dropIdx_dead_noop {s : St} (h : RefInv s) (p : PartId) (hr : s.reg p = none) (a b : Nat) :
    dropIdx s.idx (fun q => q == p) a b = s.idx a b := by
  unfold dropIdx
  cases hi : s.idx a b with
  | none => rfl
  | some q =>
    have hq := ((h.idxOk a b q hi).2).resolve_right (by simp)
    have : q ≠ p := by intro heq; rw [heq] at hq; exact hq hr
    simp [this]

theorem condemn_dead {s : St} (cfg : Cfg) (h : RefInv s) (st : Store) (p : PartId) (hr : s.reg p = none) :
    condemn cfg s st p =
      (if cfg.txFree st then
        { s with idx := dropIdx s.idx (fun q => q == p), gcExt := s.gcExt ++ [(st, p)] }
      else { s with idx := dropIdx s.idx (fun q => q == p), stores := upd2 s.stores st p none }) := by
  unfold condemn
  have := h.regd p hr
  simp [hr, this]

/-- The observable effect of condemning a list of ids of store `st`. -/
structure CondemnSpec (cfg : Cfg) (st : Store) (l : List PartId) (t t' : St) : Prop where
  inv : RefInv t'
  rows : t'.rows = t.rows
  reg : t'.reg = t.reg
  used : t'.used = t.used
  now : t'.now = t.now
  obs : t'.gcObs = t.gcObs
  idx : ∀ a b, t'.idx a b = t.idx a b
  stores : ∀ a b, t'.stores a b =
    if cfg.txFree st = false ∧ a = st ∧ b ∈ l ∧ t.reg b = none then none else t.stores a b
  ext : ∀ x, x ∈ t'.gcExt ↔ x ∈ t.gcExt ∨ (cfg.txFree st = true ∧ x.1 = st ∧ x.2 ∈ l ∧ t.reg x.2 = none)

theorem condemnAll_spec (cfg : Cfg) (st : Store) (l : List PartId) (t : St) (h : RefInv t)
    (hu : ∀ p ∈ l, p ∈ t.used) : CondemnSpec cfg st l t (condemnAll cfg t st l) := by
  induction l generalizing t with
  | nil =>
    exact ⟨h, rfl, rfl, rfl, rfl, rfl, fun _ _ => rfl, by simp [condemnAll], by simp [condemnAll]⟩
  | cons p ps ih =>
    simp only [condemnAll]
    have hp : p ∈ t.used := hu p (by simp)
    have h1 : RefInv (condemn cfg t st p) := condemn_inv cfg h st p hp
    by_cases hr : t.reg p = none
    · -- p is condemned
      have hc := condemn_dead cfg h st p hr
      have hrows : (condemn cfg t st p).rows = t.rows := by rw [hc]; split <;> rfl
      have hreg : (condemn cfg t st p).reg = t.reg := by rw [hc]; split <;> rfl
      have hused : (condemn cfg t st p).used = t.used := by rw [hc]; split <;> rfl
      have hnow : (condemn cfg t st p).now = t.now := by rw [hc]; split <;> rfl
      have hobs : (condemn cfg t st p).gcObs = t.gcObs := by rw [hc]; split <;> rfl
      have hidx : ∀ a b, (condemn cfg t st p).idx a b = t.idx a b := by
        intro a b; rw [hc]; split <;> exact dropIdx_dead_noop h p hr a b
      have sp := ih (condemn cfg t st p) h1 (by intro q hq; rw [hused]; exact hu q (List.mem_cons_of_mem _ hq))
      refine ⟨sp.inv, sp.rows.trans hrows, sp.reg.trans hreg, sp.used.trans hused, sp.now.trans hnow,
        sp.obs.trans hobs, fun a b => (sp.idx a b).trans (hidx a b), ?_, ?_⟩
      · intro a b
        rw [sp.stores a b, hreg]
        by_cases htf : cfg.txFree st = true
        · have : (condemn cfg t st p).stores = t.stores := by rw [hc]; simp [htf]
          simp [htf, this]
        · have htf' : cfg.txFree st = false := by simpa using htf
          have hst : (condemn cfg t st p).stores = upd2 t.stores st p none := by rw [hc]; simp [htf']
          rw [hst, upd2_eq]
          by_cases hab : a = st ∧ b = p
          · obtain ⟨ha, hb⟩ := hab
            subst ha; subst hb
            simp [htf', hr]
          · by_cases hcond : a = st ∧ b ∈ ps ∧ t.reg b = none
            · have : a = st ∧ (b = p ∨ b ∈ ps) ∧ t.reg b = none := ⟨hcond.1, Or.inr hcond.2.1, hcond.2.2⟩
              simp [htf', hcond, this]
            · have hne : ¬ (a = st ∧ (b = p ∨ b ∈ ps) ∧ t.reg b = none) := by
                intro ⟨ha, hb, hrb⟩
                rcases hb with hb | hb
                · exact hab ⟨ha, hb⟩
                · exact hcond ⟨ha, hb, hrb⟩
              simp [htf', hcond, hne, hab]
      · intro x
        rw [sp.ext x, hreg]
        by_cases htf : cfg.txFree st = true
        · have hx : (condemn cfg t st p).gcExt = t.gcExt ++ [(st, p)] := by rw [hc]; simp [htf]
          rw [hx]
          constructor
          · rintro (hx | hx)
            · rcases List.mem_append.1 hx with hx | hx
              · exact Or.inl hx
              · have : x = (st, p) := by simpa using hx
                subst this; exact Or.inr ⟨htf, rfl, List.mem_cons_self .., hr⟩
            · exact Or.inr ⟨hx.1, hx.2.1, List.mem_cons_of_mem _ hx.2.2.1, hx.2.2.2⟩
          · rintro (hx | ⟨_, h1x, h2x, h3x⟩)
            · exact Or.inl (List.mem_append_left _ hx)
            · rcases List.mem_cons.1 h2x with h2x | h2x
              · left; apply List.mem_append_right
                have : x = (st, p) := by rw [← h1x, ← h2x]
                rw [this]; simp
              · exact Or.inr ⟨htf, h1x, h2x, h3x⟩
        · have htf' : cfg.txFree st = false := by simpa using htf
          have hx : (condemn cfg t st p).gcExt = t.gcExt := by rw [hc]; simp [htf']
          rw [hx]; simp [htf']
    · -- p is registered: nothing happens
      have hc := condemn_registered cfg h st p hr
      rw [hc]
      have sp := ih t h (fun q hq => hu q (List.mem_cons_of_mem _ hq))
      refine ⟨sp.inv, sp.rows, sp.reg, sp.used, sp.now, sp.obs, sp.idx, ?_, ?_⟩
      · intro a b
        rw [sp.stores a b]
        by_cases hb : b = p
        · subst hb; simp [hr]
        · simp [hb]
      · intro x
        rw [sp.ext x]
        constructor
        · rintro (hx | ⟨h1, h2, h3, h4⟩)
          · exact Or.inl hx
          · exact Or.inr ⟨h1, h2, List.mem_cons_of_mem _ h3, h4⟩
        · rintro (hx | ⟨h1, h2, h3, h4⟩)
          · exact Or.inl hx
          · rcases List.mem_cons.1 h3 with h3 | h3
            · rw [h3] at h4; exact absurd h4 hr
            · exact Or.inr ⟨h1, h2, h3, h4⟩

-- ---------------------------------------------------------------- queued deletions

theorem extAll_inv {s : St} (h : RefInv s) (fail : PartId → Bool) : RefInv (extAll s fail) := by
  have hsub : ∀ a b, (extAll s fail).stores a b ≠ none → s.stores a b ≠ none := by
    intro a b hab
    simp only [extAll] at hab
    split at hab
    · exact absurd rfl hab
    · exact hab
  have hsame : ∀ a b, (∀ st, (st, b) ∉ s.gcExt) → (extAll s fail).stores a b = s.stores a b := by
    intro a b hb
    simp only [extAll]
    have : s.gcExt.any (fun e => e == (a, b)) = false := by
      apply Bool.eq_false_iff.2
      intro hany
      obtain ⟨e, he, heq⟩ := List.any_eq_true.1 hany
      have : e = (a, b) := by simpa using heq
      rw [this] at he
      exact hb a he
    simp [this]
  have hlive : ∀ b, s.reg b ≠ none ∨ 0 < refs s.rows b → ∀ st, (st, b) ∉ s.gcExt := by
    intro b hb st hmem
    obtain ⟨h1, h2⟩ := h.ext _ hmem
    rcases hb with hb | hb
    · exact hb h2
    · simp at h1; omega
  refine
    { cnt := h.cnt, regd := h.regd, rowsIn := ?_, pendIn := by simp, idxOk := ?_, preReg := h.preReg,
      freshReg := h.freshReg, freshNodup := h.freshNodup, uRows := h.uRows, uReg := h.uReg, uPend := h.uPend,
      uStores := ?_, uExt := by simp [extAll], uObs := h.uObs, home := ?_, ext := by simp [extAll],
      pendExt := by simp, pendObs := h.pendObs, obs1 := h.obs1, obs2 := h.obs2 }
  · intro r hr
    rw [hsame _ _ (hlive r.pid (Or.inr (refs_pos_of_mem hr)))]
    exact h.rowsIn r hr
  · intro st ck q hq
    obtain ⟨h1, h2⟩ := h.idxOk st ck q hq
    refine ⟨?_, h2⟩
    rw [hsame _ _ (hlive q (Or.inl (h2.resolve_right (by simp))))]
    exact h1
  · intro a b hab; exact h.uStores a b (hsub a b hab)
  · intro q a b ha hb; exact h.home q a b (hsub _ _ ha) (hsub _ _ hb)

/-- Is `b` listed by store `a` and older than the cutoff? -/
def isOld (cfg : Cfg) (t : St) (a : Store) (b : PartId) : Bool :=
  match t.stores a b with
  | some tm => decide (tm + cfg.grace < t.now)
  | none => false

theorem mem_candidates (cfg : Cfg) (t : St) (st : Store) (p : PartId) :
    p ∈ candidates cfg t st ↔ p ∈ t.used ∧ isOld cfg t st p = true := by
  unfold candidates isOld
  rw [List.mem_filter]
  exact Iff.rfl

/-- One store swept, all deletions succeeding. -/
structure SweepSpec (cfg : Cfg) (st : Store) (t u : St) : Prop where
  inv : RefInv u
  rows : u.rows = t.rows
  reg : u.reg = t.reg
  used : u.used = t.used
  now : u.now = t.now
  obs : u.gcObs = t.gcObs
  ext : u.gcExt = []
  idx : ∀ a b, u.idx a b = t.idx a b
  stores : ∀ a b, u.stores a b =
    if a = st ∧ b ∈ t.used ∧ isOld cfg t st b = true ∧ t.reg b = none then none else t.stores a b

theorem sweep_spec (cfg : Cfg) (st : Store) (t : St) (h : RefInv t) (hx : t.gcExt = []) :
    SweepSpec cfg st t (sweepStore cfg (fun _ => false) t st) := by
  have sp := condemnAll_spec cfg st (candidates cfg t st) t h
    (fun p hp => ((mem_candidates cfg t st p).1 hp).1)
  unfold sweepStore
  refine ⟨extAll_inv sp.inv _, sp.rows, sp.reg, sp.used, sp.now, sp.obs, rfl, sp.idx, ?_⟩
  intro a b
  have hE : (extAll (condemnAll cfg t st (candidates cfg t st)) (fun _ => false)).stores a b =
      if (condemnAll cfg t st (candidates cfg t st)).gcExt.any (fun e => e == (a, b)) = true then none
      else (condemnAll cfg t st (candidates cfg t st)).stores a b := by
    simp [extAll]
  have hany : (condemnAll cfg t st (candidates cfg t st)).gcExt.any (fun e => e == (a, b)) = true ↔
      (cfg.txFree st = true ∧ a = st ∧ b ∈ candidates cfg t st ∧ t.reg b = none) := by
    rw [List.any_eq_true]
    constructor
    · rintro ⟨e, he, heq⟩
      have : e = (a, b) := by simpa using heq
      rw [this] at he
      have := (sp.ext (a, b)).1 he
      rw [hx] at this
      simpa using this
    · intro hc
      exact ⟨(a, b), (sp.ext (a, b)).2 (Or.inr hc), by simp⟩
  rw [hE, sp.stores a b]
  by_cases hany' : (condemnAll cfg t st (candidates cfg t st)).gcExt.any (fun e => e == (a, b)) = true
  · obtain ⟨_, ha, hb, hr⟩ := hany.1 hany'
    obtain ⟨hb1, hb2⟩ := (mem_candidates cfg t st b).1 hb
    rw [if_pos hany', if_pos ⟨ha, hb1, hb2, hr⟩]
  · rw [if_neg hany']
    by_cases hc : a = st ∧ b ∈ t.used ∧ isOld cfg t st b = true ∧ t.reg b = none
    · have hcand : b ∈ candidates cfg t st := (mem_candidates cfg t st b).2 ⟨hc.2.1, hc.2.2.1⟩
      have htf : cfg.txFree st = false := by
        cases htf : cfg.txFree st with
        | false => rfl
        | true => exact absurd (hany.2 ⟨htf, hc.1, hcand, hc.2.2.2⟩) hany'
      rw [if_pos hc, if_pos ⟨htf, hc.1, hcand, hc.2.2.2⟩]
    · rw [if_neg hc, if_neg]
      rintro ⟨_, ha, hb, hr⟩
      obtain ⟨hb1, hb2⟩ := (mem_candidates cfg t st b).1 hb
      exact hc ⟨ha, hb1, hb2, hr⟩

/-- All stores of `l` swept, in closed form. -/
structure FoldSpec (cfg : Cfg) (l : List Store) (t u : St) : Prop where
  inv : RefInv u
  rows : u.rows = t.rows
  reg : u.reg = t.reg
  used : u.used = t.used
  now : u.now = t.now
  obs : u.gcObs = t.gcObs
  ext : u.gcExt = []
  idx : ∀ a b, u.idx a b = t.idx a b
  stores : ∀ a b, u.stores a b =
    if a ∈ l ∧ b ∈ t.used ∧ isOld cfg t a b = true ∧ t.reg b = none then none else t.stores a b

theorem fold_spec (cfg : Cfg) (l : List Store) (t : St) (h : RefInv t) (hx : t.gcExt = []) :
    FoldSpec cfg l t (l.foldl (sweepStore cfg (fun _ => false)) t) := by
  induction l generalizing t with
  | nil => exact ⟨h, rfl, rfl, rfl, rfl, rfl, hx, fun _ _ => rfl, by simp⟩
  | cons st l ih =>
    simp only [List.foldl]
    have s1 := sweep_spec cfg st t h hx
    have s2 := ih (sweepStore cfg (fun _ => false) t st) s1.inv s1.ext
    refine ⟨s2.inv, s2.rows.trans s1.rows, s2.reg.trans s1.reg, s2.used.trans s1.used, s2.now.trans s1.now,
      s2.obs.trans s1.obs, s2.ext, fun a b => (s2.idx a b).trans (s1.idx a b), ?_⟩
    intro a b
    rw [s2.stores a b, s1.reg, s1.used]
    have hold : isOld cfg (sweepStore cfg (fun _ => false) t st) a b =
        (if a = st ∧ b ∈ t.used ∧ isOld cfg t st b = true ∧ t.reg b = none then false else isOld cfg t a b) := by
      have e1 : isOld cfg (sweepStore cfg (fun _ => false) t st) a b =
          (match (sweepStore cfg (fun _ => false) t st).stores a b with
            | some tm => decide (tm + cfg.grace < (sweepStore cfg (fun _ => false) t st).now)
            | none => false) := rfl
      rw [e1, s1.stores a b, s1.now]
      by_cases hc : a = st ∧ b ∈ t.used ∧ isOld cfg t st b = true ∧ t.reg b = none
      · rw [if_pos hc, if_pos hc]
      · rw [if_neg hc, if_neg hc]; rfl
    rw [hold, s1.stores a b]
    by_cases hc1 : a = st ∧ b ∈ t.used ∧ isOld cfg t st b = true ∧ t.reg b = none
    · have : a ∈ st :: l ∧ b ∈ t.used ∧ isOld cfg t a b = true ∧ t.reg b = none := by
        obtain ⟨ha, hb, ho, hr⟩ := hc1
        subst ha; exact ⟨by simp, hb, ho, hr⟩
      simp only [if_pos hc1]
      rw [if_pos this, if_neg (by simp)]
    · simp only [if_neg hc1]
      by_cases hc2 : a ∈ l ∧ b ∈ t.used ∧ isOld cfg t a b = true ∧ t.reg b = none
      · have : a ∈ st :: l ∧ b ∈ t.used ∧ isOld cfg t a b = true ∧ t.reg b = none :=
          ⟨List.mem_cons_of_mem _ hc2.1, hc2.2⟩
        rw [if_pos hc2, if_pos this]
      · have : ¬ (a ∈ st :: l ∧ b ∈ t.used ∧ isOld cfg t a b = true ∧ t.reg b = none) := by
          rintro ⟨ha, hb, ho, hr⟩
          rcases List.mem_cons.1 ha with ha | ha
          · subst ha; exact hc1 ⟨rfl, hb, ho, hr⟩
          · exact hc2 ⟨ha, hb, ho, hr⟩
        rw [if_neg hc2, if_neg this]

-- ---------------------------------------------------------------- a pass with failing deletions

/-- Frame of a pass whose queued deletions may fail: nothing but stores / index / queues changes,
and stores only lose entries. -/
structure WeakSpec (t u : St) : Prop where
  inv : RefInv u
  rows : u.rows = t.rows
  reg : u.reg = t.reg
  used : u.used = t.used
  now : u.now = t.now
  ext : u.gcExt = []
  stores : ∀ a b, u.stores a b = none ∨ u.stores a b = t.stores a b

theorem sweep_weak (cfg : Cfg) (fail : PartId → Bool) (st : Store) (t : St) (h : RefInv t) :
    WeakSpec t (sweepStore cfg fail t st) := by
  have sp := condemnAll_spec cfg st (candidates cfg t st) t h
    (fun p hp => ((mem_candidates cfg t st p).1 hp).1)
  unfold sweepStore
  refine ⟨extAll_inv sp.inv _, sp.rows, sp.reg, sp.used, sp.now, rfl, ?_⟩
  intro a b
  simp only [extAll]
  split
  · exact Or.inl rfl
  · rw [sp.stores a b]
    split
    · exact Or.inl rfl
    · exact Or.inr rfl

theorem fold_weak (cfg : Cfg) (fail : PartId → Bool) (l : List Store) (t : St) (h : RefInv t)
    (hx : t.gcExt = []) : WeakSpec t (l.foldl (sweepStore cfg fail) t) := by
  induction l generalizing t with
  | nil => exact ⟨h, rfl, rfl, rfl, rfl, hx, fun _ _ => Or.inr rfl⟩
  | cons st l ih =>
    simp only [List.foldl]
    have s1 := sweep_weak cfg fail st t h
    have s2 := ih (sweepStore cfg fail t st) s1.inv s1.ext
    refine ⟨s2.inv, s2.rows.trans s1.rows, s2.reg.trans s1.reg, s2.used.trans s1.used,
      s2.now.trans s1.now, s2.ext, ?_⟩
    intro a b
    rcases s2.stores a b with h2 | h2
    · exact Or.inl h2
    · rw [h2]; exact s1.stores a b

/-- The state the sweeps start from: reconciliation did nothing, the index was pruned/backfilled. -/
def afterDedup (s : St) : St := { s with gcObs := [], idx := gcDedupIdx s }

theorem afterDedup_inv {s : St} (h : RefInv s) : RefInv (afterDedup s) := by
  have h1 := gcDedup_inv h
  exact obs_shrink_inv h1 [] (by simp)

theorem gcRunF_eq (cfg : Cfg) (fail : PartId → Bool) {s : St} (h : RefInv s) :
    gcRunF cfg fail s = cfg.storeNames.foldl (sweepStore cfg fail) (afterDedup s) := by
  unfold gcRunF
  simp only [reconcileAll_obsOf cfg.sql h]
  rfl

theorem gcRunF_weak (cfg : Cfg) (fail : PartId → Bool) {s : St} (h : RefInv s) (hx : s.gcExt = []) :
    WeakSpec (afterDedup s) (gcRunF cfg fail s) := by
  rw [gcRunF_eq cfg fail h]
  exact fold_weak cfg fail cfg.storeNames (afterDedup s) (afterDedup_inv h) hx

theorem gcRun_spec (cfg : Cfg) {s : St} (h : RefInv s) (hx : s.gcExt = []) :
    FoldSpec cfg cfg.storeNames (afterDedup s) (gcRun cfg s) := by
  unfold gcRun
  rw [gcRunF_eq cfg _ h]
  exact fold_spec cfg cfg.storeNames (afterDedup s) (afterDedup_inv h) hx

-- ---------------------------------------------------------------- facts read off `RefInv`

theorem reg_iff_refs {s : St} (h : RefInv s) (p : PartId) : s.reg p ≠ none ↔ 0 < refs s.rows p := by
  constructor
  · intro hr
    cases hreg : s.reg p with
    | none => exact absurd hreg hr
    | some cv =>
      obtain ⟨c, v⟩ := cv
      have := h.cnt p c v hreg
      simp [credits] at this
      omega
  · intro hpos hr
    have := h.regd p hr; omega

theorem reg_count {s : St} (h : RefInv s) (p c v : Nat) (hr : s.reg p = some (c, v)) : c = refs s.rows p := by
  have := h.cnt p c v hr
  simp [credits] at this
  omega

theorem idx_target_referenced {s : St} (h : RefInv s) (st : Store) (ck : CKey) (p : PartId)
    (hi : s.idx st ck = some p) : 0 < refs s.rows p :=
  (reg_iff_refs h p).1 (((h.idxOk st ck p hi).2).resolve_right (by simp))

theorem minNat_none : ∀ (l : List Nat), minNat l = none → l = []
  | [], _ => rfl
  | a :: l, h => by
    simp only [minNat] at h
    cases hm : minNat l with
    | none => simp [hm] at h
    | some b => simp [hm] at h

theorem gcDedupIdx_complete (s : St) (r : Row) (hr : r ∈ s.rows) (ck : CKey) (hck : r.ck = some ck) :
    gcDedupIdx s r.store ck ≠ none := by
  unfold gcDedupIdx
  cases hd : dropIdx s.idx (fun q => refs s.rows q == 0) r.store ck with
  | some q => simp [hd]
  | none =>
    simp only [hd]
    intro hn
    have := minNat_none _ hn
    have hm : r.pid ∈ (s.rows.filter (fun r' => r'.store == r.store && r'.ck == some ck)).map (·.pid) :=
      List.mem_map.2 ⟨r, List.mem_filter.2 ⟨hr, by simp [hck]⟩, rfl⟩
    rw [this] at hm; cases hm

/-- On a state whose index is already pruned and backfilled, doing it again changes nothing. -/
theorem gcDedupIdx_idem {s u : St} (hu : RefInv u) (hrows : u.rows = s.rows)
    (hidx : ∀ a b, u.idx a b = gcDedupIdx s a b) (a b : Nat) : gcDedupIdx u a b = u.idx a b := by
  unfold gcDedupIdx
  cases hi : u.idx a b with
  | some q =>
    have hpos := idx_target_referenced hu a b q hi
    have hne : ¬ refs u.rows q = 0 := by omega
    have : dropIdx u.idx (fun q => refs u.rows q == 0) a b = some q := by
      unfold dropIdx; simp [hi, hne]
    simp [this]
  | none =>
    have hd : dropIdx u.idx (fun q => refs u.rows q == 0) a b = none := by
      unfold dropIdx; simp [hi]
    simp only [hd]
    have hs := hidx a b
    rw [hi] at hs
    unfold gcDedupIdx at hs
    rw [hrows]
    cases hds : dropIdx s.idx (fun q => refs s.rows q == 0) a b with
    | some q => simp [hds] at hs
    | none => simp only [hds] at hs; exact hs.symm

-- ---------------------------------------------------------------- convergence and idempotence

/-- Every unreferenced part sitting in a store is older than the grace window. -/
def OrphansOld (cfg : Cfg) (s : St) : Prop :=
  ∀ st p tm, s.stores st p = some tm → refs s.rows p = 0 → tm + cfg.grace < s.now

theorem gcRun_stores_exact (cfg : Cfg) {s : St} (h : RefInv s) (hx : s.gcExt = []) (hold : OrphansOld cfg s)
    (st : Store) (hst : st ∈ cfg.storeNames) (p : PartId) :
    (gcRun cfg s).stores st p ≠ none ↔ ∃ r ∈ s.rows, r.pid = p ∧ r.store = st := by
  have sp := gcRun_spec cfg h hx
  rw [sp.stores st p]
  constructor
  · intro hne
    by_cases hc : st ∈ cfg.storeNames ∧ p ∈ (afterDedup s).used ∧ isOld cfg (afterDedup s) st p = true ∧
        (afterDedup s).reg p = none
    · rw [if_pos hc] at hne; exact absurd rfl hne
    · rw [if_neg hc] at hne
      have hne' : s.stores st p ≠ none := hne
      by_cases hpos : 0 < refs s.rows p
      · obtain ⟨r, hr, hrp⟩ := mem_of_refs_pos hpos
        have hin := h.rowsIn r hr
        rw [hrp] at hin
        exact ⟨r, hr, hrp, h.home p _ _ hin hne'⟩
      · exfalso
        apply hc
        have h0 : refs s.rows p = 0 := by omega
        have hreg : s.reg p = none := by
          cases hr : s.reg p with
          | none => rfl
          | some cv => exact absurd ((reg_iff_refs h p).1 (by simp [hr])) hpos
        cases hs : s.stores st p with
        | none => exact absurd hs hne'
        | some tm =>
          have := hold st p tm hs h0
          refine ⟨hst, h.uStores st p hne', ?_, hreg⟩
          show isOld cfg (afterDedup s) st p = true
          unfold isOld
          show (match s.stores st p with | some tm => decide (tm + cfg.grace < s.now) | none => false) = true
          rw [hs]; simpa using this
  · rintro ⟨r, hr, hrp, hrs⟩
    have hreg : s.reg p ≠ none := (reg_iff_refs h p).2 (by rw [← hrp]; exact refs_pos_of_mem hr)
    rw [if_neg (fun hc => hreg hc.2.2.2)]
    have := h.rowsIn r hr
    rw [hrp, hrs] at this; exact this

theorem St.ext' {a b : St} (h1 : a.rows = b.rows) (h2 : a.reg = b.reg) (h3 : a.idx = b.idx)
    (h4 : a.stores = b.stores) (h5 : a.used = b.used) (h6 : a.now = b.now) (h7 : a.gcObs = b.gcObs)
    (h8 : a.gcExt = b.gcExt) : a = b := by
  cases a; cases b; simp_all

theorem gcRun_idem (cfg : Cfg) {s : St} (h : RefInv s) (hx : s.gcExt = []) :
    gcRun cfg (gcRun cfg s) = gcRun cfg s := by
  have sp := gcRun_spec cfg h hx
  have sp2 := gcRun_spec cfg sp.inv sp.ext
  have hidx : ∀ a b, (gcRun cfg s).idx a b = gcDedupIdx s a b := fun a b => sp.idx a b
  have hrows : (gcRun cfg s).rows = s.rows := sp.rows
  apply St.ext'
  · exact sp2.rows
  · exact sp2.reg
  · funext a b
    rw [sp2.idx a b]
    exact gcDedupIdx_idem sp.inv hrows hidx a b
  · funext a b
    rw [sp2.stores a b]
    by_cases hc : a ∈ cfg.storeNames ∧ b ∈ (afterDedup (gcRun cfg s)).used ∧
        isOld cfg (afterDedup (gcRun cfg s)) a b = true ∧ (afterDedup (gcRun cfg s)).reg b = none
    · rw [if_pos hc]
      obtain ⟨ha, hb, ho, hr⟩ := hc
      -- the id was old and dead in the first pass already, so the first pass removed it
      have ho' : (match (gcRun cfg s).stores a b with
          | some tm => decide (tm + cfg.grace < (gcRun cfg s).now) | none => false) = true := ho
      rw [sp.stores a b] at ho' ⊢
      by_cases hc1 : a ∈ cfg.storeNames ∧ b ∈ (afterDedup s).used ∧ isOld cfg (afterDedup s) a b = true ∧
          (afterDedup s).reg b = none
      · rw [if_pos hc1]
      · exfalso
        rw [if_neg hc1] at ho'
        apply hc1
        have hb' : b ∈ (afterDedup s).used := by
          have hb2 : b ∈ (gcRun cfg s).used := hb
          rw [sp.used] at hb2; exact hb2
        have hr' : (afterDedup s).reg b = none := by
          have hr2 : (gcRun cfg s).reg b = none := hr
          rw [sp.reg] at hr2; exact hr2
        refine ⟨ha, hb', ?_, hr'⟩
        rw [sp.now] at ho'
        exact ho'
    · rw [if_neg hc]; rfl
  · exact sp2.used
  · exact sp2.now
  · rw [sp2.obs]; exact sp.obs.symm ▸ rfl
  · rw [sp2.ext, sp.ext]

end Pithos.Parts
