/-
Helper lemmas for C05 (model `Pithos.Range`, spec `Pithos.Rfc7233`). Core Lean only.
-/
import Pithos.Model.Range
import Pithos.Spec.Rfc7233

namespace Pithos.Range
open Pithos.Rfc7233 (splitFirst splitOn trim trimLeft trimRight isDigit digitVal decimal allDigits)

/-! ## A. the per-part arithmetic of createRangeReader = drop/take on the concatenation -/

theorem totalLen_cons {α : Type} (p : List α) (ps : List (List α)) :
    totalLen (p :: ps) = p.length + totalLen ps := by
  simp [totalLen]

theorem totalLen_eq_length_flatten {α : Type} (parts : List (List α)) :
    totalLen parts = parts.flatten.length := by
  induction parts with
  | nil => rfl
  | cons p ps ih => simp [totalLen_cons, ih]

/-- Window lemma: taking `[s, e)` of `p ++ F` when the window starts inside `p`. -/
theorem window_split {α : Type} (p F : List α) (s e : Nat) (hs : s ≤ p.length) (hse : s < e) :
    ((p ++ F).drop s).take (e - s) = (p.drop s).take (min e p.length - s) ++ F.take (e - p.length) := by
  rw [List.drop_append_of_le_length (by omega), List.take_append]
  simp only [List.length_drop]
  congr 1
  · by_cases h : e ≤ p.length
    · rw [Nat.min_eq_left h]
    · rw [Nat.min_eq_right (by omega)]
      rw [List.take_of_length_le (by simp; omega), List.take_of_length_le (by simp)]
  · congr 1; omega

/-- **Every part splitting.** For any list of parts, any offset `acc` of the first part and any
non-empty window `[gs, ge)`, the plan is defined (the "invalid part range computed" branch is
unreachable) and reading it delivers exactly the window of the concatenation. -/
theorem planParts_spec {α : Type} (parts : List (List α)) (gs ge : Int) (hlt : gs < ge) :
    ∀ acc : Int, ∃ plan, planParts gs ge acc parts = some plan ∧
      readPlan plan = (parts.flatten.drop (gs - acc).toNat).take ((ge - acc).toNat - (gs - acc).toNat) := by
  induction parts with
  | nil => intro acc; exact ⟨[], rfl, by simp [readPlan]⟩
  | cons p ps ih =>
    intro acc
    simp only [planParts]
    by_cases h1 : gs ≥ acc + (p.length : Int)
    · -- the part lies before the window
      obtain ⟨plan, hp, hr⟩ := ih (acc + p.length)
      refine ⟨plan, by simp [h1, hp], ?_⟩
      rw [hr, List.flatten_cons, List.drop_append]
      have e1 : (gs - acc).toNat - p.length = (gs - (acc + (p.length : Int))).toNat := by omega
      have e2 : (ge - acc).toNat - (gs - acc).toNat =
          (ge - (acc + (p.length : Int))).toNat - (gs - (acc + (p.length : Int))).toNat := by omega
      rw [List.drop_of_length_le (l := p) (by omega), List.nil_append, e1, e2]
    · by_cases h2 : ge ≤ acc
      · -- the window ends before this part
        refine ⟨[], by simp [h1, h2], ?_⟩
        have : (ge - acc).toNat - (gs - acc).toNat = 0 := by omega
        simp [readPlan, this]
      · obtain ⟨plan, hp, hr⟩ := ih (acc + p.length)
        have hs : (gs - acc).toNat ≤ p.length := by omega
        have hse : (gs - acc).toNat < (ge - acc).toNat := by omega
        have hnot : ¬ ((if ge < acc + (p.length : Int) then ge - acc else (p.length : Int)) <
            (if gs > acc then gs - acc else 0)) := by
          split <;> split <;> omega
        refine ⟨_, by simp only [h1, h2, hnot, if_false, hp]; rfl, ?_⟩
        have hskip : (if gs > acc then gs - acc else 0 : Int).toNat = (gs - acc).toNat := by
          split <;> omega
        have hlim : ((if ge < acc + (p.length : Int) then ge - acc else (p.length : Int)) -
            (if gs > acc then gs - acc else 0)).toNat = min (ge - acc).toNat p.length - (gs - acc).toNat := by
          split <;> split <;> omega
        have hz : (gs - (acc + (p.length : Int))).toNat = 0 := by omega
        have he : (ge - (acc + (p.length : Int))).toNat - 0 = (ge - acc).toNat - p.length := by omega
        have hw := window_split p ps.flatten (gs - acc).toNat (ge - acc).toNat hs hse
        simp only [readPlan, hskip, hlim]
        rw [hr, List.flatten_cons, hz, List.drop_zero, he, hw]

/-- `createRangeReader` on a non-empty window `[s, e)`: exactly `drop s |> take (e - s)` of the
concatenated parts, for every part splitting. -/
theorem createRangeReader_window {α : Type} (parts : List (List α)) (br : ByteRange) (s e : Nat)
    (hs : br.start.getD 0 = (s : Int)) (he : br.stop.getD (totalLen parts : Int) = (e : Int)) (hlt : s < e) :
    createRangeReader parts br = .ok ((parts.flatten.drop s).take (e - s)) := by
  obtain ⟨plan, hp, hr⟩ := planParts_spec parts (s : Int) (e : Int) (by omega) 0
  simp only [createRangeReader, hs, he]
  rw [if_neg (by omega), hp]
  simp only [hr]
  congr 2 <;> omega

theorem createRangeReader_invalid {α : Type} (parts : List (List α)) (br : ByteRange)
    (h : br.start.getD 0 ≥ br.stop.getD (totalLen parts : Int)) (hsome : br.start.isSome ∨ br.stop.isSome) :
    createRangeReader parts br = .error .invalidRange := by
  simp only [createRangeReader]
  rw [if_pos h]
  rcases hsome with h1 | h1
  · cases hst : br.start <;> simp_all
  · cases hst : br.stop <;> simp_all

/-- createRangeReader never takes its "invalid part range computed" branch. -/
theorem createRangeReader_err {α : Type} (parts : List (List α)) (br : ByteRange) (e : Err)
    (h : createRangeReader parts br = .error e) : e = .invalidRange := by
  simp only [createRangeReader] at h
  split at h
  · split at h
    · cases h
    · cases h; rfl
  · rename_i hlt
    obtain ⟨plan, hp, _⟩ := planParts_spec parts (br.start.getD 0) (br.stop.getD (totalLen parts : Int)) (by omega) 0
    rw [hp] at h
    cases h

/-! ## B. normalizeAndValidateRanges -/

theorem normalizeOne_some_some (S a b : Int) :
    normalizeOne S ⟨some a, some b⟩ =
      if a < 0 then .error .invalidRange
      else if a ≥ min b S then .error .invalidRange else .ok ⟨some a, some (min b S)⟩ := by
  simp only [normalizeOne]
  by_cases h0 : a < 0
  · simp [h0]
  · by_cases hb : b > S
    · have : min b S = S := by omega
      simp [h0, hb, this]
    · have : min b S = b := by omega
      simp [h0, hb, this]

theorem normalizeOne_some_none (S a : Int) :
    normalizeOne S ⟨some a, none⟩ = if a < 0 then .error .invalidRange else .ok ⟨some a, none⟩ := by
  simp only [normalizeOne]
  by_cases h0 : a < 0 <;> simp [h0]

theorem normalizeOne_none_some (S n : Int) :
    normalizeOne S ⟨none, some n⟩ =
      if n ≤ 0 then .error .invalidRange else .ok ⟨some (S - min n S), some S⟩ := by
  simp only [normalizeOne]

theorem normalizeOne_err (S : Int) (br : ByteRange) (e : Err) (h : normalizeOne S br = .error e) :
    e = .invalidRange := by
  obtain ⟨st, en⟩ := br
  cases st with
  | none =>
    cases en with
    | none => simp [normalizeOne] at h
    | some n => rw [normalizeOne_none_some] at h; split at h <;> cases h; rfl
  | some a =>
    cases en with
    | none => rw [normalizeOne_some_none] at h; split at h <;> cases h; rfl
    | some b =>
      rw [normalizeOne_some_some] at h
      split at h
      · cases h; rfl
      · split at h <;> cases h; rfl

/-! ## C. GetObject: the two passes (normalise all, then open all) agree with one fused pass -/

/-- normalise one range, then open its reader. -/
def one {α : Type} (parts : List (List α)) (br : ByteRange) : Except Err (List α) :=
  match normalizeOne (totalLen parts : Int) br with
  | .error e => .error e
  | .ok nb => createRangeReader parts nb

theorem two_pass_eq_fused {α : Type} (parts : List (List α)) (ranges : List ByteRange) :
    (match mapMExc (normalizeOne (totalLen parts : Int)) ranges with
      | .error e => .error e
      | .ok norm => mapMExc (createRangeReader parts) norm) = mapMExc (one parts) ranges := by
  induction ranges with
  | nil => rfl
  | cons r rs ih =>
    simp only [mapMExc, one]
    cases hn : normalizeOne (totalLen parts : Int) r with
    | error e => rfl
    | ok nb =>
      simp only []
      rw [← ih]
      cases hm : mapMExc (normalizeOne (totalLen parts : Int)) rs with
      | error e =>
        simp only []
        cases hr : createRangeReader parts nb with
        | error e' =>
          simp only []
          have h1 := createRangeReader_err parts nb e' hr
          -- the first failing normalisation of the tail is an InvalidRange as well
          have h2 : e = .invalidRange := by
            clear ih hr hn
            induction rs with
            | nil => simp [mapMExc] at hm
            | cons x xs ihx =>
              simp only [mapMExc] at hm
              cases hx : normalizeOne (totalLen parts : Int) x with
              | error ex => rw [hx] at hm; cases hm; exact normalizeOne_err _ _ _ hx
              | ok y =>
                rw [hx] at hm
                cases hxs : mapMExc (normalizeOne (totalLen parts : Int)) xs with
                | error exs => rw [hxs] at hm; cases hm; exact ihx hxs
                | ok ys => rw [hxs] at hm; cases hm
          rw [h1, h2]
        | ok x => rfl
      | ok nbs =>
        simp only [mapMExc]

theorem getObject_eq_fused {α : Type} (parts : List (List α)) (ranges : List ByteRange) (hne : ranges ≠ []) :
    getObject parts ranges = mapMExc (one parts) ranges := by
  have : ranges.isEmpty = false := by cases ranges <;> simp_all
  simp only [getObject, this]
  exact two_pass_eq_fused parts ranges

theorem mapMExc_ok_map {β γ δ : Type} (f : γ → Except Err δ) (h : β → γ) (g : β → δ) (l : List β)
    (hf : ∀ x ∈ l, f (h x) = .ok (g x)) : mapMExc f (l.map h) = .ok (l.map g) := by
  induction l with
  | nil => rfl
  | cons x xs ih =>
    simp only [List.map, mapMExc]
    rw [hf x (by simp), ih (fun y hy => hf y (by simp [hy]))]

theorem mapMExc_invalid_map {β γ δ : Type} (f : γ → Except Err δ) (h : β → γ) (l : List β)
    (hall : ∀ x ∈ l, f (h x) = .error .invalidRange ∨ ∃ y, f (h x) = .ok y)
    (hbad : ∃ x ∈ l, f (h x) = .error .invalidRange) : mapMExc f (l.map h) = .error .invalidRange := by
  induction l with
  | nil => simp at hbad
  | cons x xs ih =>
    simp only [List.map, mapMExc]
    rcases hall x (by simp) with hx | ⟨y, hy⟩
    · rw [hx]
    · rw [hy]
      have hbad' : ∃ z ∈ xs, f (h z) = .error .invalidRange := by
        obtain ⟨z, hz, hzf⟩ := hbad
        rcases List.mem_cons.1 hz with rfl | hz'
        · rw [hy] at hzf; cases hzf
        · exact ⟨z, hz', hzf⟩
      rw [ih (fun z hz => hall z (by simp [hz])) hbad']

/-! ## D. from RFC range-specs to storage ranges -/

open Pithos.Rfc7233 (RangeSpec satisfiable resolve slice)

/-- Saturation of an unbounded position at MaxInt64. -/
def satN (n : Nat) : Int := if n < 9223372036854775808 then (n : Int) else maxI64

/-- Saturating `end + 1`. -/
def incSat (e : Int) : Int := if e < maxI64 then e + 1 else maxI64

/-- The storage range the (repaired) parser produces for a range-spec. -/
def toBR : RangeSpec → ByteRange
  | .fromTo a b => ⟨some (satN a), some (incSat (satN b))⟩
  | .from_ a => ⟨some (satN a), none⟩
  | .suffix n => ⟨none, some (satN n)⟩

/-- §2.1: `a-b` with b < a is syntactically invalid. -/
def wf : RangeSpec → Prop
  | .fromTo a b => a ≤ b
  | _ => True

theorem length_slice {α : Type} (content : List α) (f l : Nat) (hl : l < content.length) :
    (slice content f l).length = l + 1 - f := by
  simp only [slice, List.length_take, List.length_drop]; omega

theorem satN_eq (n : Nat) : satN n = min (n : Int) 9223372036854775807 := by
  unfold satN maxI64; split <;> omega

theorem incSat_satN_eq (n : Nat) : incSat (satN n) = min ((n : Int) + 1) 9223372036854775807 := by
  rw [satN_eq]; unfold incSat maxI64; split <;> omega

/-- The core per-range fact: normalising the storage range of a well-formed range-spec and reading
its reader yields the RFC slice when the spec is satisfiable and InvalidRange otherwise — for every
part splitting of the content. -/
theorem one_spec {α : Type} (parts : List (List α)) (s : RangeSpec) (hwf : wf s)
    (hS : (totalLen parts : Int) ≤ maxI64) :
    one parts (toBR s) =
      if satisfiable (totalLen parts) s then
        .ok (slice parts.flatten (resolve (totalLen parts) s).1 (resolve (totalLen parts) s).2)
      else .error .invalidRange := by
  simp only [maxI64] at hS
  cases s with
  | fromTo a b =>
    simp only [wf] at hwf
    simp only [one, toBR, incSat_satN_eq]
    simp only [satisfiable, resolve, normalizeOne_some_some, satN_eq]
    by_cases hsat : a < totalLen parts
    · have e1 : min (a : Int) 9223372036854775807 = (a : Int) := by omega
      have e2 : min (min ((b : Int) + 1) 9223372036854775807) (totalLen parts : Int) =
          ((min b (totalLen parts - 1) + 1 : Nat) : Int) := by omega
      rw [e1, e2, if_neg (by omega), if_neg (by omega)]
      simp only [hsat, decide_true, if_true]
      rw [createRangeReader_window parts _ a (min b (totalLen parts - 1) + 1) (by simp) (by simp) (by omega)]
      rfl
    · rw [if_neg (by omega), if_pos (by omega)]
      simp [hsat]
  | from_ a =>
    simp only [one, toBR, satisfiable, resolve, normalizeOne_some_none, satN_eq]
    rw [if_neg (by omega)]
    by_cases hsat : a < totalLen parts
    · have e1 : min (a : Int) 9223372036854775807 = (a : Int) := by omega
      rw [e1]
      simp only [hsat, decide_true, if_true]
      rw [createRangeReader_window parts _ a (totalLen parts) (by simp) (by simp) hsat]
      simp only [slice]
      congr 2; omega
    · simp only [hsat, decide_false, if_false, Bool.false_eq_true]
      apply createRangeReader_invalid
      · simp only [Option.getD_some, Option.getD_none]; omega
      · simp
  | suffix n =>
    simp only [one, toBR, satisfiable, resolve, normalizeOne_none_some, satN_eq]
    by_cases hn : n = 0
    · subst hn
      rw [if_pos (by omega)]
      simp
    · rw [if_neg (by omega)]
      have e1 : (totalLen parts : Int) - min (min (n : Int) 9223372036854775807) (totalLen parts : Int) =
          ((totalLen parts - min n (totalLen parts) : Nat) : Int) := by omega
      rw [e1]
      by_cases hz : totalLen parts = 0
      · have : ¬ (0 < n ∧ 0 < totalLen parts) := by omega
        simp only [Bool.and_eq_true, decide_eq_true_eq, this, if_false]
        apply createRangeReader_invalid
        · simp only [Option.getD_some]; omega
        · simp
      · have : 0 < n ∧ 0 < totalLen parts := by omega
        simp only [Bool.and_eq_true, decide_eq_true_eq, this, and_self, if_true]
        rw [createRangeReader_window parts _ (totalLen parts - min n (totalLen parts)) (totalLen parts)
          (by simp) (by simp) (by omega)]
        simp only [slice]
        congr 2; omega

/-! ## E. the handler's Content-Range / Content-Length arithmetic -/

open Pithos.Rfc7233 (mkPart)

theorem resolve_bounds (S : Nat) (s : RangeSpec) (hwf : wf s) (hsat : satisfiable S s = true) :
    (resolve S s).1 ≤ (resolve S s).2 ∧ (resolve S s).2 < S := by
  cases s with
  | fromTo a b => simp only [wf] at hwf; simp [satisfiable] at hsat; simp only [resolve]; omega
  | from_ a => simp [satisfiable] at hsat; simp only [resolve]; omega
  | suffix n => simp [satisfiable] at hsat; simp only [resolve]; omega

theorem contentRange_spec (S : Nat) (s : RangeSpec) (hwf : wf s) (hsat : satisfiable S s = true)
    (hS : (S : Int) ≤ maxI64) :
    contentRange (toBR s) S = ⟨((resolve S s).1 : Nat), ((resolve S s).2 : Nat), S⟩ := by
  simp only [maxI64] at hS
  cases s with
  | fromTo a b =>
    simp only [wf] at hwf; simp [satisfiable] at hsat
    simp only [contentRange, toBR, incSat_satN_eq]
    simp only [satN_eq, resolve]
    simp only [CR.mk.injEq, and_true]
    omega
  | from_ a =>
    simp [satisfiable] at hsat
    simp only [contentRange, toBR, satN_eq, resolve]
    simp only [CR.mk.injEq, and_true]
    omega
  | suffix n =>
    simp [satisfiable] at hsat
    simp only [contentRange, toBR, satN_eq, resolve]
    simp only [CR.mk.injEq, and_true]
    omega

theorem rangeSize_spec (S : Nat) (s : RangeSpec) (hwf : wf s) (hsat : satisfiable S s = true)
    (hS : (S : Int) ≤ maxI64) :
    rangeSize (toBR s) S = (((resolve S s).2 + 1 - (resolve S s).1 : Nat) : Int) := by
  simp only [maxI64] at hS
  cases s with
  | fromTo a b =>
    simp only [wf] at hwf; simp [satisfiable] at hsat
    simp only [rangeSize, toBR, incSat_satN_eq]
    simp only [satN_eq, resolve]
    omega
  | from_ a =>
    simp [satisfiable] at hsat
    simp only [rangeSize, toBR, satN_eq, resolve]
    omega
  | suffix n =>
    simp [satisfiable] at hsat
    simp only [rangeSize, toBR, satN_eq, resolve]
    omega

/-- Body, Content-Range and Content-Length the handler produces for one satisfiable range,
given the reader delivers the RFC slice. -/
theorem part_spec {α : Type} (content : List α) (s : RangeSpec) (hwf : wf s)
    (hsat : satisfiable content.length s = true) (hS : (content.length : Int) ≤ maxI64) :
    contentRange (toBR s) content.length = crOfPart (mkPart content s) ∧
    rangeSize (toBR s) content.length = ((mkPart content s).body.length : Int) ∧
    (slice content (resolve content.length s).1 (resolve content.length s).2).take
      (rangeSize (toBR s) content.length).toNat = (mkPart content s).body := by
  have hb := resolve_bounds content.length s hwf hsat
  have hlen := length_slice content (resolve content.length s).1 (resolve content.length s).2 hb.2
  refine ⟨?_, ?_, ?_⟩
  · rw [contentRange_spec _ s hwf hsat hS]; rfl
  · rw [rangeSize_spec _ s hwf hsat hS]; simp only [mkPart, hlen]
  · rw [rangeSize_spec _ s hwf hsat hS]
    simp only [mkPart]
    rw [List.take_of_length_le]
    rw [hlen]; omega

theorem zip_map_map {β γ δ : Type} (f : β → γ) (g : β → δ) (l : List β) :
    (l.map f).zip (l.map g) = l.map fun x => (f x, g x) := by
  induction l with
  | nil => rfl
  | cons x xs ih => simp [ih]

/-- The slice of the concatenated parts selected by a range-spec. -/
def sliceOf {α : Type} (content : List α) (s : RangeSpec) : List α :=
  slice content (resolve content.length s).1 (resolve content.length s).2

theorem respond_multi {α : Type} (sepLen S : Int) (ranges : List ByteRange) (readers : List (List α))
    (h : 2 ≤ ranges.length) :
    respond sepLen S ranges readers =
      .multi (multiContentLength sepLen (ranges.map fun br => (contentRange br S, rangeSize br S)))
        ((ranges.zip readers).map fun (br, rd) => (contentRange br S, rd.take (rangeSize br S).toNat)) := by
  match ranges, h with
  | _ :: _ :: _, _ => rfl

theorem ofSpec_multi {α : Type} (sepLen : Int) (ps : List (Rfc7233.Part α)) (h : 2 ≤ ps.length) :
    ofSpec sepLen (.partialContent ps) =
      .multi (multiContentLength sepLen (ps.map fun p => (crOfPart p, (p.body.length : Int))))
        (ps.map fun p => (crOfPart p, p.body)) := by
  match ps, h with
  | _ :: _ :: _, _ => rfl

/-- The handler's answer when every requested range is satisfiable and the readers deliver the
RFC slices: exactly the wire form of the RFC response. -/
theorem respond_spec {α : Type} (sepLen : Int) (content : List α) (ss : List RangeSpec) (hne : ss ≠ [])
    (hwf : ∀ s ∈ ss, wf s) (hsat : ∀ s ∈ ss, satisfiable content.length s = true)
    (hS : (content.length : Int) ≤ maxI64) :
    respond sepLen content.length (ss.map toBR) (ss.map (sliceOf content)) =
      ofSpec sepLen (.partialContent (ss.map (mkPart content))) := by
  have hp : ∀ s ∈ ss, _ := fun s hs => part_spec content s (hwf s hs) (hsat s hs) hS
  by_cases hlen : 2 ≤ ss.length
  · rw [respond_multi _ _ _ _ (by simpa using hlen), ofSpec_multi _ _ (by simpa using hlen)]
    rw [zip_map_map, List.map_map, List.map_map, List.map_map, List.map_map]
    congr 1
    · congr 1
      apply List.map_congr_left
      intro s hs
      obtain ⟨h1, h2, _⟩ := hp s hs
      simp only [Function.comp, h1, h2]
    · apply List.map_congr_left
      intro s hs
      obtain ⟨h1, _, h3⟩ := hp s hs
      simp only [Function.comp, sliceOf, h1, h3]
  · match ss, hne, hlen with
    | [s], _, _ =>
      obtain ⟨h1, h2, h3⟩ := hp s (by simp)
      simp only [List.map, respond, ofSpec, List.headD_cons, sliceOf]
      rw [h3, h1, h2]
    | _ :: _ :: _, _, h => simp at h

/-! ## F. GetObject and the handler on the ranges of a valid header -/

open Pithos.Rfc7233 (eval)

theorem getObject_all_sat {α : Type} (parts : List (List α)) (ss : List RangeSpec) (hne : ss ≠ [])
    (hwf : ∀ s ∈ ss, wf s) (hsat : ∀ s ∈ ss, satisfiable (totalLen parts) s = true)
    (hS : (totalLen parts : Int) ≤ maxI64) :
    getObject parts (ss.map toBR) = .ok (ss.map (sliceOf parts.flatten)) := by
  rw [getObject_eq_fused parts _ (by simpa using hne)]
  apply mapMExc_ok_map
  intro s hs
  rw [one_spec parts s (hwf s hs) hS, if_pos (hsat s hs)]
  simp only [sliceOf, totalLen_eq_length_flatten]

theorem getObject_some_unsat {α : Type} (parts : List (List α)) (ss : List RangeSpec)
    (hwf : ∀ s ∈ ss, wf s) (hbad : ∃ s ∈ ss, satisfiable (totalLen parts) s = false)
    (hS : (totalLen parts : Int) ≤ maxI64) :
    getObject parts (ss.map toBR) = .error .invalidRange := by
  have hne : ss ≠ [] := by
    obtain ⟨s, hs, _⟩ := hbad
    intro h; simp [h] at hs
  rw [getObject_eq_fused parts _ (by simpa using hne)]
  apply mapMExc_invalid_map
  · intro s hs
    rw [one_spec parts s (hwf s hs) hS]
    by_cases h : satisfiable (totalLen parts) s = true
    · right; exact ⟨_, by rw [if_pos h]⟩
    · left; rw [if_neg h]
  · obtain ⟨s, hs, hf⟩ := hbad
    refine ⟨s, hs, ?_⟩
    rw [one_spec parts s (hwf s hs) hS, if_neg (by simp [hf])]

theorem brSatisfiable_spec (S : Nat) (s : RangeSpec) (hwf : wf s) (hS : (S : Int) ≤ maxI64) :
    brSatisfiable S (toBR s) = satisfiable S s := by
  simp only [maxI64] at hS
  cases s with
  | fromTo a b =>
    simp only [wf] at hwf
    simp only [brSatisfiable, toBR, incSat_satN_eq]
    simp only [satN_eq, satisfiable]
    rw [Bool.eq_iff_iff]
    simp only [Bool.and_eq_true, decide_eq_true_eq]
    omega
  | from_ a =>
    simp only [brSatisfiable, toBR, satN_eq, satisfiable]
    rw [Bool.eq_iff_iff]
    simp only [Bool.and_eq_true, decide_eq_true_eq]
    omega
  | suffix n =>
    simp only [brSatisfiable, toBR, satN_eq, satisfiable]
    rw [Bool.eq_iff_iff]
    simp only [Bool.and_eq_true, decide_eq_true_eq]
    omega

theorem filter_toBR (S : Nat) (ss : List RangeSpec) (hwf : ∀ s ∈ ss, wf s) (hS : (S : Int) ≤ maxI64) :
    (ss.map toBR).filter (brSatisfiable S) = (ss.filter (satisfiable S)).map toBR := by
  induction ss with
  | nil => rfl
  | cons s rest ih =>
    have h1 := brSatisfiable_spec S s (hwf s (by simp)) hS
    have h2 := ih (fun x hx => hwf x (by simp [hx]))
    simp only [List.map_cons, List.filter_cons, h1, h2]
    split <;> rfl

theorem eval_of_filter {α : Type} (specs : List RangeSpec) (content : List α) :
    eval specs content =
      if (specs.filter (satisfiable content.length)).isEmpty then .unsatisfiable
      else .partialContent ((specs.filter (satisfiable content.length)).map (mkPart content)) := rfl

/-- **The handler on the ranges of a valid header.** If the parser delivered the storage ranges of
`specs`, the response is the wire form of the RFC answer — for the repaired multi-range handling
unconditionally, for the code as it is whenever a multi-range list is all-or-nothing satisfiable. -/
theorem httpGet_of_parse {α : Type} (cfg : Cfg) (sepLen : Int) (hdr : List Char) (parts : List (List α))
    (specs : List RangeSpec) (hparse : parseRangeHeader cfg hdr = some (specs.map toBR)) (hne : specs ≠ [])
    (hwf : ∀ s ∈ specs, wf s) (hS : (totalLen parts : Int) ≤ maxI64)
    (hmulti : cfg.dropUnsat = false → 2 ≤ specs.length →
      (∀ s ∈ specs, satisfiable (totalLen parts) s = true) ∨ (∀ s ∈ specs, satisfiable (totalLen parts) s = false)) :
    httpGet cfg sepLen hdr parts = ofSpec sepLen (eval specs parts.flatten) := by
  have hlen : parts.flatten.length = totalLen parts := (totalLen_eq_length_flatten parts).symm
  have hS' : ((parts.flatten.length : Nat) : Int) ≤ maxI64 := by rw [hlen]; exact hS
  simp only [httpGet, hparse]
  rw [eval_of_filter, hlen]
  by_cases hall : ∀ s ∈ specs, satisfiable (totalLen parts) s = true
  · -- every member satisfiable
    rw [getObject_all_sat parts specs hne hwf hall hS]
    have hf : specs.filter (satisfiable (totalLen parts)) = specs := List.filter_eq_self.2 hall
    have hall' : ∀ s ∈ specs, satisfiable parts.flatten.length s = true := by rw [hlen]; exact hall
    simp only [hf]
    rw [if_neg (by cases specs <;> simp_all)]
    have := respond_spec sepLen parts.flatten specs hne hwf hall' hS'
    rw [hlen] at this
    exact this
  · have hbad : ∃ s ∈ specs, satisfiable (totalLen parts) s = false := by
      apply Classical.byContradiction
      intro hno
      apply hall
      intro s hs
      cases hq : satisfiable (totalLen parts) s
      · exact absurd ⟨s, hs, hq⟩ hno
      · rfl
    rw [getObject_some_unsat parts specs hwf hbad hS]
    simp only []
    by_cases hcond : (cfg.dropUnsat && decide ((specs.map toBR).length > 1)) = true
    · rw [if_pos hcond, filter_toBR _ specs hwf hS]
      by_cases hk : (specs.filter (satisfiable (totalLen parts))).isEmpty = true
      · have : ((specs.filter (satisfiable (totalLen parts))).map toBR).isEmpty = true := by
          simpa using hk
        rw [if_pos this, if_pos hk]
        rfl
      · have hkne : specs.filter (satisfiable (totalLen parts)) ≠ [] := by
          intro h; simp [h] at hk
        have : ¬ ((specs.filter (satisfiable (totalLen parts))).map toBR).isEmpty = true := by
          simpa using hk
        rw [if_neg this, if_neg hk]
        have hwf' : ∀ s ∈ specs.filter (satisfiable (totalLen parts)), wf s :=
          fun s hs => hwf s (List.mem_filter.1 hs).1
        have hsat' : ∀ s ∈ specs.filter (satisfiable (totalLen parts)), satisfiable (totalLen parts) s = true :=
          fun s hs => (List.mem_filter.1 hs).2
        rw [getObject_all_sat parts _ hkne hwf' hsat' hS]
        have hsat'' : ∀ s ∈ specs.filter (satisfiable (totalLen parts)), satisfiable parts.flatten.length s = true := by
          rw [hlen]; exact hsat'
        have := respond_spec sepLen parts.flatten _ hkne hwf' hsat'' hS'
        rw [hlen] at this
        exact this
    · rw [if_neg hcond]
      -- as is (or a single range): 416; show that no member is satisfiable
      have hnone : ∀ s ∈ specs, satisfiable (totalLen parts) s = false := by
        by_cases h2 : 2 ≤ specs.length
        · have hd : cfg.dropUnsat = false := by
            cases hdu : cfg.dropUnsat
            · rfl
            · exfalso; apply hcond; simp [hdu]; omega
          rcases hmulti hd h2 with h | h
          · exact absurd h hall
          · exact h
        · obtain ⟨s0, hs0, hf0⟩ := hbad
          match specs, hne, h2, hs0 with
          | [s], _, _, hs0 =>
            intro s' hs'
            simp at hs0 hs'
            subst hs0; subst hs'; exact hf0
          | _ :: _ :: _, _, h2, _ => simp at h2
      have : specs.filter (satisfiable (totalLen parts)) = [] := by
        apply List.filter_eq_nil_iff.2
        intro s hs
        simp [hnone s hs]
      simp [this, ofSpec]

/-! ## G. the Go parser agrees with the RFC grammar on every valid header -/

open Pithos.Rfc7233 (isOWS digits?)

theorem splitFirst_eq_some (sep : Char) (l a b : List Char) (h : splitFirst sep l = some (a, b)) :
    l = a ++ sep :: b := by
  induction l generalizing a with
  | nil => simp [splitFirst] at h
  | cons c cs ih =>
    simp only [splitFirst] at h
    by_cases hc : c = sep
    · simp only [hc, if_true, Option.some.injEq, Prod.mk.injEq] at h
      obtain ⟨rfl, rfl⟩ := h
      simp [hc]
    · simp only [hc, if_false] at h
      cases hs : splitFirst sep cs with
      | none => simp [hs] at h
      | some ab =>
        obtain ⟨a', b'⟩ := ab
        simp only [hs, Option.some.injEq, Prod.mk.injEq] at h
        obtain ⟨rfl, rfl⟩ := h
        simp [ih a' hs]

theorem splitOn_ne_nil (sep : Char) (l : List Char) : splitOn sep l ≠ [] := by
  induction l with
  | nil => simp [splitOn]
  | cons c cs ih =>
    simp only [splitOn]
    split
    · simp
    · split <;> simp

theorem dropWhile_append_all (p : Char → Bool) (w r : List Char) (hw : ∀ c ∈ w, p c = true) :
    (w ++ r).dropWhile p = r.dropWhile p := by
  induction w with
  | nil => rfl
  | cons c cs ih =>
    have hc : p c = true := hw c (by simp)
    simp only [List.cons_append, List.dropWhile_cons, hc, if_true]
    exact ih (fun x hx => hw x (by simp [hx]))

theorem dropWhile_of_head (p : Char → Bool) (t : List Char) (hne : t ≠ []) (ht : ∀ c ∈ t, p c = false) :
    t.dropWhile p = t := by
  cases t with
  | nil => exact absurd rfl hne
  | cons c cs => simp [ht c (by simp)]

/-- If `l` is `t` surrounded by `p`-characters and no character of `t` satisfies `p`, trimming
gives back `t`. -/
theorem trim_of_decomp (p : Char → Bool) (w1 t w2 : List Char) (h1 : ∀ c ∈ w1, p c = true)
    (h2 : ∀ c ∈ w2, p c = true) (hne : t ≠ []) (ht : ∀ c ∈ t, p c = false) :
    trim p (w1 ++ t ++ w2) = t := by
  simp only [trim, trimLeft, trimRight]
  rw [List.append_assoc, dropWhile_append_all p w1 _ h1]
  have hne' : t ++ w2 ≠ [] := by simp [hne]
  have : (t ++ w2).dropWhile p = t ++ w2 := by
    cases t with
    | nil => exact absurd rfl hne
    | cons c cs => simp [ht c (by simp)]
  rw [this, List.reverse_append, dropWhile_append_all p w2.reverse _ (by simpa using h2)]
  rw [dropWhile_of_head p t.reverse (by simpa using hne) (by simpa using ht), List.reverse_reverse]

theorem mem_takeWhile_sat (q : Char → Bool) (l : List Char) (c : Char) (h : c ∈ l.takeWhile q) : q c = true := by
  induction l with
  | nil => simp at h
  | cons x xs ih =>
    simp only [List.takeWhile_cons] at h
    by_cases hx : q x = true
    · simp only [hx, if_true, List.mem_cons] at h
      rcases h with rfl | h
      · exact hx
      · exact ih h
    · simp [hx] at h

theorem trim_decomp (q : Char → Bool) (l : List Char) :
    ∃ w1 w2, l = w1 ++ trim q l ++ w2 ∧ (∀ c ∈ w1, q c = true) ∧ (∀ c ∈ w2, q c = true) := by
  refine ⟨l.takeWhile q, (((l.dropWhile q).reverse).takeWhile q).reverse, ?_, ?_, ?_⟩
  · simp only [trim, trimLeft, trimRight]
    rw [List.append_assoc, ← List.reverse_append, List.takeWhile_append_dropWhile, List.reverse_reverse,
      List.takeWhile_append_dropWhile]
  · intro c hc; exact mem_takeWhile_sat q _ c hc
  · intro c hc; exact mem_takeWhile_sat q _ c (List.mem_reverse.1 hc)

theorem isOWS_isGoSpace (c : Char) (h : isOWS c = true) : isGoSpace c = true := by
  simp only [isOWS, Bool.or_eq_true, decide_eq_true_eq] at h
  rcases h with h | h <;> subst h <;> decide

theorem isDigit_not_space (c : Char) (h : isDigit c = true) : isGoSpace c = false := by
  simp only [isDigit, Bool.and_eq_true, decide_eq_true_eq] at h
  simp only [isGoSpace, Bool.or_eq_false_iff, decide_eq_false_iff_not]
  refine ⟨⟨⟨⟨⟨?_, ?_⟩, ?_⟩, ?_⟩, ?_⟩, ?_⟩ <;> (intro hc; subst hc; revert h; decide)

theorem isDigit_ne_sign (c : Char) (h : isDigit c = true) : c ≠ '+' ∧ c ≠ '-' := by
  simp only [isDigit, Bool.and_eq_true, decide_eq_true_eq] at h
  constructor <;> (intro hc; subst hc; revert h; decide)

theorem allDigits_spec (s : List Char) (h : allDigits s = true) : s ≠ [] ∧ ∀ c ∈ s, isDigit c = true := by
  simp only [allDigits, Bool.and_eq_true, Bool.not_eq_true', List.all_eq_true] at h
  exact ⟨by intro hs; simp [hs] at h, h.2⟩

/-- TrimSpace and OWS-trimming agree on an element whose core consists of digits and `-`. -/
theorem trimSpace_eq (e t : List Char) (ht : trim isOWS e = t) (hne : t ≠ [])
    (hchars : ∀ c ∈ t, isGoSpace c = false) : trim isGoSpace e = t := by
  obtain ⟨w1, w2, hdec, hw1, hw2⟩ := trim_decomp isOWS e
  rw [ht] at hdec
  rw [hdec]
  exact trim_of_decomp isGoSpace w1 t w2 (fun c hc => isOWS_isGoSpace c (hw1 c hc))
    (fun c hc => isOWS_isGoSpace c (hw2 c hc)) hne hchars

/-- Numerals on which the code as it is behaves like the repaired parser: everything fits into an
int64 and no last-byte-pos is MaxInt64 itself (so `end+1` does not wrap). -/
def bounded : RangeSpec → Prop
  | .fromTo a b => a ≤ 9223372036854775807 ∧ b < 9223372036854775807
  | .from_ a => a ≤ 9223372036854775807
  | .suffix n => n ≤ 9223372036854775807

theorem parseNum_digits (cfg : Cfg) (s : List Char) (h : allDigits s = true)
    (hb : cfg.sat = false → decimal s ≤ 9223372036854775807) : parseNum cfg s = some (satN (decimal s)) := by
  cases hs : cfg.sat with
  | true => simp only [parseNum, hs, parsePosSat, h, if_true, satN]
  | false =>
    have hv := hb hs
    obtain ⟨hne, hd⟩ := allDigits_spec s h
    cases s with
    | nil => exact absurd rfl hne
    | cons c r =>
      obtain ⟨h1, h2⟩ := isDigit_ne_sign c (hd c (by simp))
      have hlt : decimal (c :: r) < 9223372036854775808 := by omega
      simp only [parseNum, hs, parseIntGo, h1, h2, if_false, h, if_true, hlt, satN]
      rfl

theorem parseField_nil (cfg : Cfg) : parseField cfg [] = some none := rfl

theorem parseField_digits (cfg : Cfg) (s : List Char) (h : allDigits s = true)
    (hb : cfg.sat = false → decimal s ≤ 9223372036854775807) :
    parseField cfg s = some (some (satN (decimal s))) := by
  have hne := (allDigits_spec s h).1
  have : s.isEmpty = false := by cases s <;> simp_all
  simp only [parseField, this, parseNum_digits cfg s h hb]
  rfl

theorem incEnd_satN (cfg : Cfg) (b : Nat) (hb : cfg.sat = false → b < 9223372036854775807) :
    incEnd cfg (satN b) = incSat (satN b) := by
  cases hs : cfg.sat with
  | true => simp only [incEnd, hs, if_true, incSat]
  | false =>
    have := hb hs
    rw [incSat_satN_eq, satN_eq]
    simp only [incEnd, hs, wrap64, Bool.false_eq_true, if_false]
    omega

theorem digits?_some (s : List Char) (v : Nat) (h : digits? s = some v) : allDigits s = true ∧ v = decimal s := by
  simp only [digits?] at h
  by_cases ha : allDigits s = true
  · simp only [ha, if_true, Option.some.injEq] at h
    exact ⟨ha, h.symm⟩
  · simp [ha] at h

theorem dash_not_space : isGoSpace '-' = false := by decide

/-- **One list element.** Whatever the RFC grammar accepts, the Go loop body turns into the
corresponding storage range (as is: provided the numerals are `bounded`). -/
theorem parseElem_agree (cfg : Cfg) (e : List Char) (s : RangeSpec) (h : Rfc7233.parseElem e = some s)
    (hb : cfg.sat = false → bounded s) : parseElem cfg e = some (toBR s) ∧ wf s := by
  simp only [Rfc7233.parseElem] at h
  cases hsp : splitFirst '-' (trim isOWS e) with
  | none => simp [hsp] at h
  | some ab =>
    obtain ⟨s0, s1⟩ := ab
    simp only [hsp] at h
    have hdec := splitFirst_eq_some '-' _ s0 s1 hsp
    -- in every accepting branch s0 and s1 are empty or digit strings, so TrimSpace gives the same core
    have key : (s0 = [] ∨ allDigits s0 = true) → (s1 = [] ∨ allDigits s1 = true) →
        trim isGoSpace e = s0 ++ '-' :: s1 := by
      intro h0 h1
      apply trimSpace_eq e _ hdec (by simp)
      intro c hc
      simp only [List.mem_append, List.mem_cons] at hc
      rcases hc with hc | rfl | hc
      · rcases h0 with h0 | h0
        · simp [h0] at hc
        · exact isDigit_not_space c ((allDigits_spec s0 h0).2 c hc)
      · exact dash_not_space
      · rcases h1 with h1 | h1
        · simp [h1] at hc
        · exact isDigit_not_space c ((allDigits_spec s1 h1).2 c hc)
    have hsplit : splitFirst '-' (s0 ++ '-' :: s1) = some (s0, s1) := by rw [← hdec]; exact hsp
    by_cases he0 : s0.isEmpty = true
    · -- suffix range
      have hs0 : s0 = [] := by cases s0 <;> simp_all
      subst hs0
      simp only [List.isEmpty_nil, if_true] at h
      cases hd : digits? s1 with
      | none => simp [hd] at h
      | some n =>
        simp only [hd, Option.some.injEq] at h
        subst h
        obtain ⟨had, hv⟩ := digits?_some s1 n hd
        subst hv
        have hbn : cfg.sat = false → decimal s1 ≤ 9223372036854775807 := fun hc => hb hc
        refine ⟨?_, trivial⟩
        simp only [parseElem, key (Or.inl rfl) (Or.inr had), hsplit, parseField_nil,
          parseField_digits cfg s1 had hbn, toBR]
    · simp only [he0, Bool.false_eq_true, if_false] at h
      cases hd0 : digits? s0 with
      | none => simp [hd0] at h
      | some a =>
        simp only [hd0] at h
        obtain ⟨had0, hv0⟩ := digits?_some s0 a hd0
        subst hv0
        by_cases he1 : s1.isEmpty = true
        · have hs1 : s1 = [] := by cases s1 <;> simp_all
          subst hs1
          simp only [List.isEmpty_nil, if_true, Option.some.injEq] at h
          subst h
          have hba : cfg.sat = false → decimal s0 ≤ 9223372036854775807 := fun hc => hb hc
          refine ⟨?_, trivial⟩
          simp only [parseElem, key (Or.inr had0) (Or.inl rfl), hsplit, parseField_nil,
            parseField_digits cfg s0 had0 hba, toBR]
        · simp only [he1, Bool.false_eq_true, if_false] at h
          cases hd1 : digits? s1 with
          | none => simp [hd1] at h
          | some b =>
            simp only [hd1] at h
            obtain ⟨had1, hv1⟩ := digits?_some s1 b hd1
            subst hv1
            by_cases hle : decimal s0 ≤ decimal s1
            · simp only [hle, if_true, Option.some.injEq] at h
              subst h
              have hba : cfg.sat = false → decimal s0 ≤ 9223372036854775807 := fun hc => (hb hc).1
              have hbb : cfg.sat = false → decimal s1 ≤ 9223372036854775807 := fun hc => by
                have := (hb hc).2; omega
              have hbb' : cfg.sat = false → decimal s1 < 9223372036854775807 := fun hc => (hb hc).2
              refine ⟨?_, hle⟩
              simp only [parseElem, key (Or.inr had0) (Or.inr had1), hsplit,
                parseField_digits cfg s0 had0 hba, parseField_digits cfg s1 had1 hbb, toBR,
                incEnd_satN cfg _ hbb']
            · simp [hle] at h

theorem mapMOpt_agree (cfg : Cfg) : ∀ (l : List (List Char)) (ss : List RangeSpec),
    Rfc7233.mapMOpt Rfc7233.parseElem l = some ss → (cfg.sat = false → ∀ s ∈ ss, bounded s) →
    mapMOpt (parseElem cfg) l = some (ss.map toBR) ∧ (∀ s ∈ ss, wf s) ∧ (l ≠ [] → ss ≠ []) := by
  intro l
  induction l with
  | nil =>
    intro ss h _
    simp only [Rfc7233.mapMOpt, Option.some.injEq] at h
    subst h
    exact ⟨rfl, by simp, by simp⟩
  | cons e es ih =>
    intro ss h hb
    simp only [Rfc7233.mapMOpt] at h
    cases he : Rfc7233.parseElem e with
    | none => simp [he] at h
    | some s =>
      simp only [he] at h
      cases hes : Rfc7233.mapMOpt Rfc7233.parseElem es with
      | none => simp [hes] at h
      | some rest =>
        simp only [hes, Option.some.injEq] at h
        subst h
        obtain ⟨h1, h2⟩ := parseElem_agree cfg e s he (fun hc => hb hc s (by simp))
        obtain ⟨h3, h4, _⟩ := ih rest hes (fun hc x hx => hb hc x (by simp [hx]))
        refine ⟨by simp only [mapMOpt, h1, h3, List.map_cons], ?_, by simp⟩
        intro x hx
        rcases List.mem_cons.1 hx with rfl | hx
        · exact h2
        · exact h4 x hx

/-- **The whole header.** On every syntactically valid Range header the Go parser yields the storage
ranges of the RFC range-specs (as is: provided the numerals are `bounded`). -/
theorem parse_agree (cfg : Cfg) (hdr : List Char) (specs : List RangeSpec)
    (h : Rfc7233.parseHeader hdr = some specs) (hb : cfg.sat = false → ∀ s ∈ specs, bounded s) :
    parseRangeHeader cfg hdr = some (specs.map toBR) ∧ specs ≠ [] ∧ ∀ s ∈ specs, wf s := by
  simp only [Rfc7233.parseHeader] at h
  cases hsp : splitFirst '=' hdr with
  | none => simp [hsp] at h
  | some ab =>
    obtain ⟨u, set⟩ := ab
    simp only [hsp] at h
    by_cases hc : (decide (u = Rfc7233.bytesUnit) && Rfc7233.edgeOK set) = true
    · simp only [hc, if_true] at h
      have hu : u = bytesUnit := by
        simp only [Bool.and_eq_true, decide_eq_true_eq] at hc
        exact hc.1
      obtain ⟨h1, h2, h3⟩ := mapMOpt_agree cfg _ specs h hb
      have hne : hdr.isEmpty = false := by
        cases hdr with
        | nil => simp [splitFirst] at hsp
        | cons _ _ => rfl
      refine ⟨?_, h3 (splitOn_ne_nil ',' set), h2⟩
      simp only [parseRangeHeader, hne, hsp, hu, if_true, h1]
      rfl
    · simp [hc] at h

/-! ## H. multipart/byteranges: the declared Content-Length is the length of the body -/

theorem multiContentLength_cons (L : Int) (x : CR × Int) (xs : List (CR × Int)) :
    multiContentLength L (x :: xs) = multiContentLength L xs + x.2 + 2 + partHeaderLen x.1 + (L + 4) := by
  simp only [multiContentLength, List.map_cons, List.sum_cons, List.length_cons]
  have : (((xs.length + 1 : Nat) : Int)) = (xs.length : Int) + 1 := by omega
  rw [this, Int.mul_add, Int.mul_one]
  omega

theorem renderMulti_length {α : Type} (enc : Char → α) (sep : List Char) (ps : List (CR × List α)) :
    ((renderMulti enc sep false ps).length : Int) =
      multiContentLength sep.length (ps.map fun p => (p.1, (p.2.length : Int))) + 2 := by
  induction ps with
  | nil =>
    simp only [renderMulti, List.length_map, List.length_append, List.length_cons, List.length_nil,
      List.map_nil, multiContentLength, List.sum_nil]
    omega
  | cons p ps ih =>
    obtain ⟨cr, body⟩ := p
    simp only [renderMulti, List.map_cons, multiContentLength_cons, List.length_append, List.length_map,
      List.length_cons, List.length_nil, Bool.false_eq_true, if_false, partHeaderLen, contentRangeKey] at ih ⊢
    omega

theorem renderMulti_length_first {α : Type} (enc : Char → α) (sep : List Char) (p : CR × List α)
    (ps : List (CR × List α)) :
    ((renderMulti enc sep true (p :: ps)).length : Int) =
      multiContentLength sep.length ((p :: ps).map fun p => (p.1, (p.2.length : Int))) := by
  have ih := renderMulti_length enc sep ps
  obtain ⟨cr, body⟩ := p
  simp only [renderMulti, List.map_cons, multiContentLength_cons, List.length_append, List.length_map,
    List.length_cons, List.length_nil, if_true, partHeaderLen, contentRangeKey] at ih ⊢
  omega

end Pithos.Range
