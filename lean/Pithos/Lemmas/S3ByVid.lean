/-
A version addressed by id after an in-place edit of that very row (tagging, transition by version id).
-/
import Pithos.Lemmas.S3Current

namespace Pithos.S3

/-- Replacing (by row id) the first row satisfying `p` by a row that also satisfies `p` makes the
replacement the first such row, when row ids are distinct. -/
theorem find?_repl_first (p : Row → Bool) : ∀ (rows : List Row) (y r : Row), (ids rows).Nodup →
    rows.find? p = some r → y.rowId = r.rowId → p y = true → (repl rows y).find? p = some y
  | [], _, _, _, hf, _, _ => by simp at hf
  | a :: t, y, r, hnd, hf, hid, hy => by
    have hnd' : a.rowId ∉ ids t ∧ (ids t).Nodup := by
      simpa [ids, List.nodup_cons] using hnd
    by_cases hpa : p a = true
    · have har : a = r := by simpa [List.find?_cons, hpa] using hf
      have hhead : repl (a :: t) y = y :: repl t y := by simp [repl, har, hid]
      rw [hhead]; simp only [List.find?_cons, hy]
    · have hpa' : p a = false := by simpa using hpa
      have hft : t.find? p = some r := by simpa [List.find?_cons, hpa'] using hf
      have hrt : r ∈ t := List.mem_of_find?_eq_some hft
      have hne : ¬ a.rowId = y.rowId := by
        intro he
        apply hnd'.1
        rw [he, hid]
        exact List.mem_map.2 ⟨r, hrt, rfl⟩
      have hhead : repl (a :: t) y = a :: repl t y := by simp [repl, hne]
      rw [hhead]
      simp only [List.find?_cons, hpa']
      exact find?_repl_first p t y r hnd'.2 hft hid hy

/-- `rowByVid` after replacing (by id) the row it found by a row with the same key and version id. -/
theorem rowByVid_repl_keep {bk : Bucket} {k : String} {v : Option Nat} {r y : Row} {n : Nat}
    (hb : RowsInv n bk.rows) (hv : rowByVid bk k v = some r) (hid : y.rowId = r.rowId)
    (hk : y.key = r.key) (hvid : y.vid = r.vid) : rowByVid (replaceRow bk y) k v = some y := by
  obtain ⟨_, hrk, hrv⟩ := rowByVid_mem hv
  unfold rowByVid at hv ⊢
  rw [replaceRow_rows]
  exact find?_repl_first _ bk.rows y r hb.nodup hv hid (by simp [hk, hvid, hrk, hrv])

/-- GET / HEAD of a version by id, given what `rowByVid` finds. -/
theorem get_version {q : Quirks} {s : State} {b k : String} {v : Option Nat} {bk : Bucket} {row : Row}
    (hfb : findBucket s b = some bk) (hl : rowByVid bk k v = some row) (hdm : row.dm = false) :
    (step q s (.get b k (some v))).2 = .obj (viewOf row) ∧
    (step q s (.head b k (some v))).2 = .obj (viewOf row) := by
  have hfb' : findBucket { s with clock := s.clock + 1 } b = some bk := hfb
  constructor <;> simp [step, stepT, hfb', resolve, hl, hdm]

end Pithos.S3
