/-
The current version after an in-place edit of the current row (tagging, transition, append).
-/
import Pithos.Lemmas.S3Read

namespace Pithos.S3

theorem latestRow_repl_keep {bk : Bucket} {k : String} {r y : Row} {n : Nat} (hb : RowsInv n bk.rows)
    (hl : latestRow bk k = some r) (hid : y.rowId = r.rowId) (hk : y.key = r.key) (hlat : y.latest = true) :
    latestRow (replaceRow bk y) k = some y := by
  obtain ⟨hr, hrk, hrl⟩ := latestRow_some hl
  have hb' : RowsInv n (replaceRow bk y).rows := by
    rw [replaceRow_rows]; exact hb.repl_keep hr hid hk (fun _ => hrl)
  exact latestRow_eq_of_unique (hb'.one k) (by rw [replaceRow_rows]; exact mem_repl_same hr hid.symm) (by rw [hk, hrk]) hlat
 where
  mem_repl_same {rows : List Row} {y x : Row} (hx : x ∈ rows) (he : x.rowId = y.rowId) : y ∈ repl rows y := by
    unfold repl
    exact List.mem_map.2 ⟨x, hx, by simp [he]⟩

end Pithos.S3
