/-
Second invariant of the storage model, for every quirk setting with `promoteByCreated = false`
(the reference promotion rule): in every bucket, a row flagged `latest` carries the greatest
`wrote` sequence number among the rows of its key — "the current version is the most recently
written version that still exists" (C02). With `promoteByCreated = true` (the code today) the
invariant fails; the witness is in Props/C02.
-/
import Pithos.Lemmas.S3Read

namespace Pithos.S3

structure WRows (clock : Nat) (rows : List Row) : Prop where
  le  : ∀ r ∈ rows, r.wrote ≤ clock
  max : ∀ r ∈ rows, r.latest = true → ∀ r' ∈ rows, r'.key = r.key → r'.wrote ≤ r.wrote

def WInv (s : State) : Prop := ∀ bk ∈ s.buckets, WRows s.clock bk.rows

theorem WRows.nil (c : Nat) : WRows c [] := ⟨by simp, by simp⟩

theorem WRows.mono {c d : Nat} {rows : List Row} (h : WRows c rows) (hcd : c ≤ d) : WRows d rows :=
  ⟨fun r hr => Nat.le_trans (h.le r hr) hcd, h.max⟩

theorem WRows.filter {c : Nat} {rows : List Row} (h : WRows c rows) (f : Row → Bool) : WRows c (rows.filter f) :=
  ⟨fun r hr => h.le r (List.mem_filter.1 hr).1,
   fun r hr hl r' hr' hk => h.max r (List.mem_filter.1 hr).1 hl r' (List.mem_filter.1 hr').1 hk⟩

/-- Replace a row by one with the same key and `wrote` whose latest flag is not newly raised. -/
theorem WRows.repl_keep {c : Nat} {rows : List Row} (h : WRows c rows) {r y : Row}
    (hr : r ∈ rows) (hw : y.wrote = r.wrote) (hk : y.key = r.key) (hl : y.latest = true → r.latest = true) :
    WRows c (repl rows y) := by
  refine ⟨?_, ?_⟩
  · intro z hz
    rcases mem_repl hz with rfl | ⟨hz', _⟩
    · rw [hw]; exact h.le r hr
    · exact h.le z hz'
  · intro z hz hzl z' hz' hzk
    rcases mem_repl hz with rfl | ⟨hzo, _⟩
    · have hrl := hl hzl
      rcases mem_repl hz' with rfl | ⟨hzo', _⟩
      · exact Nat.le_refl _
      · rw [hw]; exact h.max r hr hrl z' hzo' (by rw [hzk, hk])
    · rcases mem_repl hz' with rfl | ⟨hzo', _⟩
      · rw [hw]; exact h.max z hzo hzl r hr (by rw [← hk, hzk])
      · exact h.max z hzo hzl z' hzo' hzk

/-- Replace a row by a latest one written now, when no row of that key was latest. -/
theorem WRows.repl_raise {c : Nat} {rows : List Row} (h : WRows c rows) {y : Row}
    (hw : y.wrote = c) (hz : lc rows y.key = 0) : WRows c (repl rows y) := by
  have hno : ∀ x ∈ rows, x.latest = true → x.key ≠ y.key := by
    intro x hx hxl hxk
    have := lc_pos_of_mem hx hxk hxl
    omega
  refine ⟨?_, ?_⟩
  · intro z hz'
    rcases mem_repl hz' with rfl | ⟨hz'', _⟩
    · omega
    · exact h.le z hz''
  · intro z hz' hzl z' hz'' hzk
    rcases mem_repl hz' with rfl | ⟨hzo, _⟩
    · rcases mem_repl hz'' with rfl | ⟨hzo', _⟩
      · exact Nat.le_refl _
      · rw [hw]; exact h.le z' hzo'
    · rcases mem_repl hz'' with rfl | ⟨hzo', _⟩
      · exact absurd hzk.symm (hno z hzo hzl)
      · exact h.max z hzo hzl z' hzo' hzk

theorem WRows.add {c : Nat} {rows : List Row} (h : WRows c rows) {y : Row}
    (hw : y.wrote = c) (hz : lc rows y.key = 0) : WRows c (rows ++ [y]) := by
  have hno : ∀ x ∈ rows, x.latest = true → x.key ≠ y.key := by
    intro x hx hxl hxk
    have := lc_pos_of_mem hx hxk hxl
    omega
  refine ⟨?_, ?_⟩
  · intro z hz'
    rcases List.mem_append.1 hz' with hz'' | hz''
    · exact h.le z hz''
    · simp at hz''; subst hz''; omega
  · intro z hz' hzl z' hz'' hzk
    rcases List.mem_append.1 hz' with hzo | hzy
    · rcases List.mem_append.1 hz'' with hzo' | hzy'
      · exact h.max z hzo hzl z' hzo' hzk
      · simp at hzy'; subst hzy'; exact absurd hzk.symm (hno z hzo hzl)
    · simp at hzy; subst hzy
      rcases List.mem_append.1 hz'' with hzo' | hzy'
      · rw [hw]; exact h.le z' hzo'
      · simp at hzy'; subst hzy'; exact Nat.le_refl _

theorem maxBy_none (f : Row → Nat) : ∀ (l : List Row), maxBy f l = none → l = []
  | [], _ => rfl
  | a :: t, h => by
    unfold maxBy at h
    cases hm : maxBy f t with
    | none => simp [hm] at h
    | some m => simp [hm] at h; split at h <;> cases h

theorem maxBy_ge (f : Row → Nat) : ∀ (l : List Row) (r : Row), maxBy f l = some r → ∀ x ∈ l, f x ≤ f r
  | [], _, h, _, hx => by cases hx
  | a :: t, r, h, x, hx => by
    unfold maxBy at h
    cases hm : maxBy f t with
    | none =>
      simp [hm] at h; subst h
      rcases List.mem_cons.1 hx with rfl | hxt
      · exact Nat.le_refl _
      · have := maxBy_none f t hm
        subst this
        cases hxt
    | some m =>
      simp [hm] at h
      have ih := maxBy_ge f t m hm
      split at h
      · injection h with h; subst h
        rcases List.mem_cons.1 hx with rfl | hxt
        · omega
        · exact ih x hxt
      · injection h with h; subst h
        rename_i hgt
        rcases List.mem_cons.1 hx with rfl | hxt
        · exact Nat.le_refl _
        · have := ih x hxt; omega

/-- Promotion by last write keeps the invariant (no row of `k` is latest beforehand). -/
theorem winv_promote (q : Quirks) (hq : q.promoteByCreated = false) (now : Nat) (bk : Bucket) (k : String) {c : Nat}
    (h : WRows c bk.rows) (hz : lc bk.rows k = 0) : WRows c (promote q now bk k).rows := by
  unfold promote
  simp only [hq]
  split
  · exact h
  · rename_i r hr
    have hm := maxBy_mem _ _ _ hr
    have hm' := List.mem_filter.1 hm
    have hk : r.key = k := by simpa using hm'.2
    have hge := maxBy_ge _ _ _ hr
    rw [replaceRow_rows]
    have hno : ∀ x ∈ bk.rows, x.latest = true → x.key ≠ k := by
      intro x hx hxl hxk
      have := lc_pos_of_mem hx hxk hxl
      omega
    refine ⟨?_, ?_⟩
    · intro z hz'
      rcases mem_repl hz' with rfl | ⟨hz'', _⟩
      · exact h.le r hm'.1
      · exact h.le z hz''
    · intro z hz' hzl z' hz'' hzk
      rcases mem_repl hz' with rfl | ⟨hzo, _⟩
      · simp only [] at hzk ⊢
        rcases mem_repl hz'' with rfl | ⟨hzo', _⟩
        · exact Nat.le_refl _
        · have : z' ∈ bk.rows.filter (fun x => x.key == k) := List.mem_filter.2 ⟨hzo', by simp [hzk, hk]⟩
          simpa using hge z' this
      · rcases mem_repl hz'' with rfl | ⟨hzo', _⟩
        · simp only [] at hzk
          exact absurd (hzk.symm.trans hk) (hno z hzo hzl)
        · exact h.max z hzo hzl z' hzo' hzk

end Pithos.S3
