/-
Conditional writes (If-Match / If-None-Match) of the S3 model `Pithos.Model.S3`.

(A) If-Match succeeds only against that ETag (`*`: only on a present key; a bogus value: never)
(B) If-None-Match succeeds only on an absent key
(C) a failed conditional write changes nothing but the clock
(D) well-formedness `WF` (distinct row ids below the counter, at most one latest row per key) is an
    invariant of every operation, hence of every reachable state
(E) a successful write makes the key present
(F) an If-None-Match put on an absent key of a well-formed state succeeds (given `NoNullMarker`: the latest
    row is no null-version delete marker — true in all reachable states)
(G) among If-None-Match writes to one key at most one wins, and after a winner all later ones fail;
    among If-None-Match puts to an absent key exactly the first wins
(H) `MarkersVersioned` (no delete marker is a null version) is an invariant of every operation; it gives
    `NoNullMarker`, so (F) and (G) need no extra hypothesis in reachable states (`*_reachable`)

All theorems hold for every `Quirks` setting. (A)(B)(C)(F) need no well-formedness.

INTERFACE LEMMAS — the only ones that unfold definitions of `Model/S3.lean`; after a refactor of the
model only these should need repair (the generic ones are `private`: other files of this namespace have
their own copies under the same names):
  `step`, `stepT` : findBucket_tick, present_tick, step_put_eq, step_del_eq, step_complete_cases,
                step_append_eq, step_transition_cases, step_copy_cases, step_*_state (read-only ops),
                wf_mkb, wf_rmb, wf_setVer, wf_mpu, wf_uploadPart, wf_abort, wf_putTags, wf_delTags, run_nil, run_cons,
                mv_step (the mkb/rmb/setVer/mpu/uploadPart/abort/putTags/delTags cases)
  `putRow`    : putRow_eq (with the local definition `lockRow`)
  `install`   : install_snd, install_spec, install_mv
  `unlatestCur`, `unlatest` : unlatestCur_name, unlatestCur_ver, unlatestCur_spec, unlatest_eq
  `deleteOp`  : deleteOp_some_eq, deleteOp_none_eq (with the local `delProbe`, `delNull`, `delUnlatest`,
                `delVersion`, `delImOk`, `dmRowOf`), deleteOp_none_deleted_ifMatch, deleteOp_bogus
  `promote`, `maxBy` : promote_wf, promote_mv, maxBy_mem
  `ifMatchOk` : ifMatchOk_none, ifMatchOk_bogus, ifMatchOk_star, ifMatchOk_etag
  `replaceRow`, `addRow`, `removeRow`, `touch`, `mkRow` : *_rows, *_name, *_ver, touch_*, mkRow_* (all `rfl`)
  `setBucket`, `findBucket` : mem_setBucket, find_setBucket, findBucket_of_setBucket, findBucket_mem, findBucket_name
  `latestRow`, `rowByVid`, `nullRow`, `resolve` : latestRow_some, latestRow_none, latestRow_congr, rowByVid_some,
                rowByVid_none, nullRow_eq, resolve_ok
-/
import Pithos.Model.S3
namespace Pithos.S3
def present (s : State) (b k : String) : Bool :=
  match findBucket s b with
  | some bk => (match latestRow bk k with | some r => !r.dm | none => false)
  | none => false

def Out.isWrote : Out → Bool | .wrote _ _ => true | _ => false

/-- the state after the clock tick every operation starts with -/
def tick (s : State) : State := { s with clock := s.clock + 1 }

/-- "the latest row is a live object" -/
def live : Option Row → Bool
  | some r => !r.dm
  | none => false

/-- the bucket after the conditional-write lock (re-save of the latest row) in `putRow` -/
def lockRow (q : Quirks) (now : Nat) (bk : Bucket) (k : String) (inm : Bool) (im : IfMatch) : Bucket :=
  match latestRow bk k with
  | some r => if inm || im != .none then replaceRow bk (touch q now r) else bk
  | none => bk

/-! ### equation lemmas (the only ones that unfold `step` / `putRow`) -/

private theorem findBucket_tick (s : State) (b : String) : findBucket (tick s) b = findBucket s b := rfl

theorem present_eq (s : State) (b k : String) :
    present s b k = match findBucket s b with
      | some bk => live (latestRow bk k)
      | none => false := by
  unfold present live; rfl

theorem present_tick (s : State) (b k : String) : present (tick s) b k = present s b k := rfl

theorem putRow_eq (q : Quirks) (s : State) (bk : Bucket) (k : String) (n : NewObj) (inm : Bool) (im : IfMatch) :
    putRow q s bk k n inm im =
      if !ifMatchOk im (latestRow bk k) then .error .preconditionFailed
      else if inm && live (latestRow bk k) then .error .preconditionFailed
      else if inm && bk.ver != .enabled && (nullRow (lockRow q s.clock bk k inm im) k).any (·.latest) then
        .error .preconditionFailed
      else .ok (install q s (lockRow q s.clock bk k inm im) k n) := by
  unfold putRow live lockRow; rfl

theorem step_put_eq (q : Quirks) (s : State) (b k : String) (body : Bytes) (o : WriteOpts) (inm : Bool) (im : IfMatch) :
    step q s (.put b k body o inm im) =
      match findBucket s b with
      | none => (tick s, .err .noSuchBucket)
      | some bk =>
        match putRow q (tick s) bk k { parts := [body], etag := singleETag body, o := o } inm im with
        | .error e => (tick s, .err e)
        | .ok (s', vid) => (s', .wrote vid (singleETag body)) := rfl

theorem step_del_eq (q : Quirks) (s : State) (b k : String) (vid : Option (Option Nat)) (im : IfMatch) :
    step q s (.del b k vid im) =
      match findBucket s b with
      | none => (tick s, .err .noSuchBucket)
      | some bk => deleteOp q (tick s) bk k vid im := rfl

/-- a `complete` either fails leaving only the clock tick, or is a `putRow` into a bucket that has
the rows, name and versioning state of the addressed one -/
theorem step_complete_cases (q : Quirks) (s : State) (b k : String) (uid : Nat) (declared : Option (List Nat))
    (inm : Bool) (im : IfMatch) :
    (∃ e, step q s (.complete b k uid declared inm im) = (tick s, .err e)) ∨
    (∃ bk bk0 n s' vid, findBucket s b = some bk ∧ bk0.name = bk.name ∧ bk0.ver = bk.ver ∧ bk0.rows = bk.rows ∧
      putRow q (tick s) bk0 k n inm im = .ok (s', vid) ∧
      step q s (.complete b k uid declared inm im) = (s', .wrote vid n.etag)) := by
  have hfb : findBucket (tick s) b = findBucket s b := rfl
  simp only [step, stepT]
  rw [show ({ s with clock := s.clock + 1 } : State) = tick s from rfl, hfb]
  split
  · exact .inl ⟨_, rfl⟩
  · rename_i bk hbk
    split
    · exact .inl ⟨_, rfl⟩
    · split
      · exact .inl ⟨_, rfl⟩
      · split
        · exact .inl ⟨_, rfl⟩
        · split
          · exact .inl ⟨_, rfl⟩
          · rename_i s' vid hp
            refine .inr ⟨bk, _, _, s', vid, hbk, ?_, ?_, ?_, hp, ?_⟩ <;> rfl


/-- a put either fails leaving only the clock tick, or is a successful `putRow` -/
theorem step_put_cases (q : Quirks) (s : State) (b k : String) (body : Bytes) (o : WriteOpts) (inm : Bool) (im : IfMatch) :
    (∃ e, step q s (.put b k body o inm im) = (tick s, .err e)) ∨
    (∃ bk bk0 n s' vid, findBucket s b = some bk ∧ bk0.name = bk.name ∧ bk0.ver = bk.ver ∧ bk0.rows = bk.rows ∧
      putRow q (tick s) bk0 k n inm im = .ok (s', vid) ∧
      step q s (.put b k body o inm im) = (s', .wrote vid n.etag)) := by
  rw [step_put_eq]
  split
  · exact .inl ⟨_, rfl⟩
  · rename_i bk hbk
    split
    · exact .inl ⟨_, rfl⟩
    · rename_i s' vid hp
      exact .inr ⟨bk, bk, _, s', vid, hbk, rfl, rfl, rfl, hp, rfl⟩

/-! ### `ifMatchOk`, `live` -/

private theorem live_eq_true {cur : Option Row} : live cur = true ↔ ∃ r, cur = some r ∧ r.dm = false := by
  cases cur <;> simp [live]

theorem ifMatchOk_none (cur : Option Row) : ifMatchOk .none cur = true := rfl
theorem ifMatchOk_bogus (cur : Option Row) : ifMatchOk .bogus cur = false := rfl
theorem ifMatchOk_star (cur : Option Row) : ifMatchOk .star cur = live cur := by
  cases cur <;> rfl
theorem ifMatchOk_etag {e : ETag} {cur : Option Row} (h : ifMatchOk (.etag e) cur = true) :
    ∃ r, cur = some r ∧ r.dm = false ∧ r.etag = e := by
  cases cur with
  | none => simp [ifMatchOk] at h
  | some r => simpa [ifMatchOk] using h

/-! ### `putRow` -/

section putRow
variable {q : Quirks} {s : State} {bk : Bucket} {k : String} {n : NewObj} {inm : Bool} {im : IfMatch}

theorem putRow_ok_ifMatch {r} (h : putRow q s bk k n inm im = .ok r) : ifMatchOk im (latestRow bk k) = true := by
  rw [putRow_eq] at h
  cases hm : ifMatchOk im (latestRow bk k) <;> simp [hm] at h ⊢

theorem putRow_ok_inm {r} (h : putRow q s bk k n true im = .ok r) : live (latestRow bk k) = false := by
  rw [putRow_eq] at h
  cases hl : live (latestRow bk k) <;> simp [hl] at h ⊢

theorem putRow_ok_install {r} (h : putRow q s bk k n inm im = .ok r) :
    r = install q s (lockRow q s.clock bk k inm im) k n := by
  rw [putRow_eq] at h
  split at h
  · cases h
  · split at h
    · cases h
    · split at h
      · cases h
      · cases h; rfl

theorem putRow_error {e} (h : putRow q s bk k n inm im = .error e) : e = .preconditionFailed := by
  rw [putRow_eq] at h
  split at h
  · cases h; rfl
  · split at h
    · cases h; rfl
    · split at h
      · cases h; rfl
      · cases h
end putRow

/-! ### conditional writes: put and complete together -/

/-- `op` is a put or a complete to `(b,k)` with these condition arguments -/
def IsWrite (b k : String) (inm : Bool) (im : IfMatch) : Op → Prop
  | .put b' k' _ _ inm' im' => b' = b ∧ k' = k ∧ inm' = inm ∧ im' = im
  | .complete b' k' _ _ inm' im' => b' = b ∧ k' = k ∧ inm' = inm ∧ im' = im
  | _ => False

/-- an If-None-Match write to (b,k): a put, or a complete of some upload -/
def IsInmWrite (b k : String) : Op → Prop
  | .put b' k' _ _ inm _ => b' = b ∧ k' = k ∧ inm = true
  | .complete b' k' _ _ inm _ => b' = b ∧ k' = k ∧ inm = true
  | _ => False

theorem isWrite_put (b k : String) (body : Bytes) (o : WriteOpts) (inm : Bool) (im : IfMatch) :
    IsWrite b k inm im (.put b k body o inm im) := ⟨rfl, rfl, rfl, rfl⟩
theorem isWrite_complete (b k : String) (uid : Nat) (declared : Option (List Nat)) (inm : Bool) (im : IfMatch) :
    IsWrite b k inm im (.complete b k uid declared inm im) := ⟨rfl, rfl, rfl, rfl⟩

theorem IsInmWrite.isWrite {b k : String} {op : Op} (h : IsInmWrite b k op) : ∃ im, IsWrite b k true im op := by
  cases op <;> simp [IsInmWrite] at h
  · obtain ⟨rfl, rfl, rfl⟩ := h; exact ⟨_, rfl, rfl, rfl, rfl⟩
  · obtain ⟨rfl, rfl, rfl⟩ := h; exact ⟨_, rfl, rfl, rfl, rfl⟩

/-- a conditional write either fails and leaves only the clock tick, or it is a successful `putRow` into
a bucket with the rows, name and versioning state of the addressed one -/
theorem write_cases {b k : String} {inm : Bool} {im : IfMatch} {op : Op} (hop : IsWrite b k inm im op)
    (q : Quirks) (s : State) :
    (∃ e, step q s op = (tick s, .err e)) ∨
    (∃ bk bk0 n s' vid, findBucket s b = some bk ∧ bk0.name = bk.name ∧ bk0.ver = bk.ver ∧ bk0.rows = bk.rows ∧
      putRow q (tick s) bk0 k n inm im = .ok (s', vid) ∧ step q s op = (s', .wrote vid n.etag)) := by
  cases op <;> simp only [IsWrite] at hop
  · obtain ⟨rfl, rfl, rfl, rfl⟩ := hop; exact step_put_cases ..
  · obtain ⟨rfl, rfl, rfl, rfl⟩ := hop; exact step_complete_cases ..

private theorem latestRow_congr {bk0 bk : Bucket} (h : bk0.rows = bk.rows) (k : String) : latestRow bk0 k = latestRow bk k := by
  simp [latestRow, h]

section write
variable {b k : String} {inm : Bool} {im : IfMatch} {op : Op} {q : Quirks} {s : State}

/-- (A) generic -/
theorem write_wrote_ifMatch (hop : IsWrite b k inm im op) {vid et} (h : (step q s op).2 = .wrote vid et) :
    ∃ bk, findBucket s b = some bk ∧ ifMatchOk im (latestRow bk k) = true := by
  rcases write_cases hop q s with ⟨e, he⟩ | ⟨bk, bk0, n, s', v, hbk, _, _, hrows, hp, _⟩
  · rw [he] at h; cases h
  · exact ⟨bk, hbk, latestRow_congr hrows k ▸ putRow_ok_ifMatch hp⟩

/-- (B) generic -/
theorem write_wrote_inm (hop : IsWrite b k true im op) {vid et} (h : (step q s op).2 = .wrote vid et) :
    present s b k = false := by
  rcases write_cases hop q s with ⟨e, he⟩ | ⟨bk, bk0, n, s', v, hbk, _, _, hrows, hp, _⟩
  · rw [he] at h; cases h
  · simp only [present_eq, hbk]; exact latestRow_congr hrows k ▸ putRow_ok_inm hp

/-- (C) generic -/
theorem write_err_state (hop : IsWrite b k inm im op) {e} (h : (step q s op).2 = .err e) :
    (step q s op).1 = tick s := by
  rcases write_cases hop q s with ⟨e, he⟩ | ⟨bk, bk0, n, s', v, _, _, _, _, _, he⟩
  · rw [he]
  · rw [he] at h; cases h

theorem write_out_cases (hop : IsWrite b k inm im op) :
    (∃ e, (step q s op).2 = .err e) ∨ (∃ vid et, (step q s op).2 = .wrote vid et) := by
  rcases write_cases hop q s with ⟨e, he⟩ | ⟨bk, bk0, n, s', v, _, _, _, _, _, he⟩
  · exact .inl ⟨e, by rw [he]⟩
  · exact .inr ⟨_, _, by rw [he]⟩
end write

/-! ### (A) If-Match succeeds only against that ETag -/

theorem put_if_match_spec (q : Quirks) (s : State) (b k : String) (body : Bytes) (o : WriteOpts) (inm : Bool)
    (e : ETag) (vid : Option Nat) (et : ETag)
    (h : (step q s (.put b k body o inm (.etag e))).2 = .wrote vid et) :
    ∃ bk r, findBucket s b = some bk ∧ latestRow bk k = some r ∧ r.dm = false ∧ r.etag = e := by
  obtain ⟨bk, hbk, hm⟩ := write_wrote_ifMatch (isWrite_put ..) h
  obtain ⟨r, hr, hdm, he⟩ := ifMatchOk_etag hm
  exact ⟨bk, r, hbk, hr, hdm, he⟩

theorem complete_if_match_spec (q : Quirks) (s : State) (b k : String) (uid : Nat) (declared : Option (List Nat))
    (inm : Bool) (e : ETag) (vid : Option Nat) (et : ETag)
    (h : (step q s (.complete b k uid declared inm (.etag e))).2 = .wrote vid et) :
    ∃ bk r, findBucket s b = some bk ∧ latestRow bk k = some r ∧ r.dm = false ∧ r.etag = e := by
  obtain ⟨bk, hbk, hm⟩ := write_wrote_ifMatch (isWrite_complete ..) h
  obtain ⟨r, hr, hdm, he⟩ := ifMatchOk_etag hm
  exact ⟨bk, r, hbk, hr, hdm, he⟩

theorem put_if_match_star_spec (q : Quirks) (s : State) (b k : String) (body : Bytes) (o : WriteOpts) (inm : Bool)
    (vid : Option Nat) (et : ETag)
    (h : (step q s (.put b k body o inm .star)).2 = .wrote vid et) : present s b k = true := by
  obtain ⟨bk, hbk, hm⟩ := write_wrote_ifMatch (isWrite_put ..) h
  simp only [present_eq, hbk, ← ifMatchOk_star]; exact hm

theorem complete_if_match_star_spec (q : Quirks) (s : State) (b k : String) (uid : Nat) (declared : Option (List Nat))
    (inm : Bool) (vid : Option Nat) (et : ETag)
    (h : (step q s (.complete b k uid declared inm .star)).2 = .wrote vid et) : present s b k = true := by
  obtain ⟨bk, hbk, hm⟩ := write_wrote_ifMatch (isWrite_complete ..) h
  simp only [present_eq, hbk, ← ifMatchOk_star]; exact hm

theorem put_if_match_bogus_fails (q : Quirks) (s : State) (b k : String) (body : Bytes) (o : WriteOpts) (inm : Bool) :
    (step q s (.put b k body o inm .bogus)).2 = .err .preconditionFailed ∨
    (step q s (.put b k body o inm .bogus)).2 = .err .noSuchBucket := by
  rw [step_put_eq]
  split
  · exact .inr rfl
  · split
    · rename_i e he; rw [putRow_error he]; exact .inl rfl
    · rename_i hp; have := putRow_ok_ifMatch hp; simp [ifMatchOk_bogus] at this

theorem complete_if_match_bogus_fails (q : Quirks) (s : State) (b k : String) (uid : Nat)
    (declared : Option (List Nat)) (inm : Bool) :
    (step q s (.complete b k uid declared inm .bogus)).2.isWrote = false := by
  rcases write_out_cases (q := q) (s := s) (isWrite_complete b k uid declared inm .bogus) with ⟨e, he⟩ | ⟨vid, et, h⟩
  · rw [he]; rfl
  · obtain ⟨bk, _, hm⟩ := write_wrote_ifMatch (isWrite_complete ..) h
    simp [ifMatchOk_bogus] at hm

/-! ### (B) If-None-Match succeeds only on an absent key -/

theorem put_inm_spec (q : Quirks) (s : State) (b k : String) (body : Bytes) (o : WriteOpts) (im : IfMatch)
    (vid : Option Nat) (et : ETag)
    (h : (step q s (.put b k body o true im)).2 = .wrote vid et) : present s b k = false :=
  write_wrote_inm (isWrite_put ..) h

theorem complete_inm_spec (q : Quirks) (s : State) (b k : String) (uid : Nat) (declared : Option (List Nat))
    (im : IfMatch) (vid : Option Nat) (et : ETag)
    (h : (step q s (.complete b k uid declared true im)).2 = .wrote vid et) : present s b k = false :=
  write_wrote_inm (isWrite_complete ..) h

/-! ### (C) failed conditional writes change nothing but the clock -/

theorem put_err_state (q : Quirks) (s : State) (b k : String) (body : Bytes) (o : WriteOpts) (inm : Bool)
    (im : IfMatch) (e : Err) (h : (step q s (.put b k body o inm im)).2 = .err e) :
    (step q s (.put b k body o inm im)).1 = { s with clock := s.clock + 1 } :=
  write_err_state (isWrite_put ..) h

theorem complete_err_state (q : Quirks) (s : State) (b k : String) (uid : Nat) (declared : Option (List Nat))
    (inm : Bool) (im : IfMatch) (e : Err) (h : (step q s (.complete b k uid declared inm im)).2 = .err e) :
    (step q s (.complete b k uid declared inm im)).1 = { s with clock := s.clock + 1 } :=
  write_err_state (isWrite_complete ..) h

/-! ### `deleteOp` and conditional deletes -/

theorem deleteOp_none_deleted_ifMatch {q : Quirks} {s : State} {bk : Bucket} {k : String} {im : IfMatch} {vid dm}
    (h : (deleteOp q s bk k none im).2 = .deleted vid dm) : ifMatchOk im (latestRow bk k) = true := by
  cases him : ifMatchOk im (latestRow bk k)
  · exfalso
    have hne : (im != IfMatch.none) = true := by
      cases im <;> simp_all [ifMatchOk]
    unfold deleteOp at h
    simp only [him, hne] at h
    split at h
    · simp at h
    · simp at h
  · rfl

theorem deleteOp_bogus (q : Quirks) (s : State) (bk : Bucket) (k : String) (vid : Option (Option Nat)) :
    (deleteOp q s bk k vid .bogus).2 = .err .preconditionFailed := by
  unfold deleteOp
  cases vid with
  | none =>
    simp only [ifMatchOk]
    split <;> simp
  | some v =>
    simp only []
    split
    · simp
    · split
      · rename_i h1 _ h2; simp [h2] at h1
      · simp

theorem del_if_match_spec (q : Quirks) (s : State) (b k : String) (e : ETag) (vid : Option (Option Nat)) (dm : Bool)
    (h : (step q s (.del b k none (.etag e))).2 = .deleted vid dm) :
    ∃ bk r, findBucket s b = some bk ∧ latestRow bk k = some r ∧ r.dm = false ∧ r.etag = e := by
  rw [step_del_eq] at h
  split at h
  · cases h
  · rename_i bk hbk
    obtain ⟨r, hr, hdm, he⟩ := ifMatchOk_etag (deleteOp_none_deleted_ifMatch h)
    exact ⟨bk, r, hbk, hr, hdm, he⟩

theorem del_if_match_star_spec (q : Quirks) (s : State) (b k : String) (vid : Option (Option Nat)) (dm : Bool)
    (h : (step q s (.del b k none .star)).2 = .deleted vid dm) : present s b k = true := by
  rw [step_del_eq] at h
  split at h
  · cases h
  · rename_i bk hbk
    simp only [present_eq, hbk, ← ifMatchOk_star]
    exact deleteOp_none_deleted_ifMatch h

theorem del_if_match_bogus_fails (q : Quirks) (s : State) (b k : String) (vid : Option (Option Nat)) :
    (step q s (.del b k vid .bogus)).2 = .err .preconditionFailed ∨
    (step q s (.del b k vid .bogus)).2 = .err .noSuchBucket := by
  rw [step_del_eq]
  split
  · exact .inr rfl
  · exact .inl (deleteOp_bogus ..)

/-! ### non-vacuity: concrete histories (kernel-evaluated) -/

/-- from the empty state: a bucket, then three If-None-Match puts: exactly the first wins -/
example : (run Quirks.code {} [.mkb "b", .put "b" "k" [1] {} true .none, .put "b" "k" [2] {} true .none,
      .put "b" "k" [3] {} true .none]).2
    = [.unit, .wrote none (singleETag [1]), .err .preconditionFailed, .err .preconditionFailed] := by decide

example : (run Quirks.none {} [.mkb "b", .put "b" "k" [1] {} true .none, .put "b" "k" [2] {} true .none,
      .put "b" "k" [3] {} true .none]).2
    = [.unit, .wrote none (singleETag [1]), .err .preconditionFailed, .err .preconditionFailed] := by decide

/-- versioning enabled, a put, a delete (delete marker): the key is absent again, the first of two
If-None-Match puts wins -/
example : (run Quirks.code {} [.mkb "b", .setVer "b" .enabled, .put "b" "k" [1] {} false .none, .del "b" "k" none .none,
      .put "b" "k" [2] {} true .none, .put "b" "k" [3] {} true .none]).2
    = [.unit, .unit, .wrote (some 0) (singleETag [1]), .deleted (some (some 1)) true,
       .wrote (some 2) (singleETag [2]), .err .preconditionFailed] := by decide

/-- If-Match: the right ETag wins, a stale one and `*` on an absent key lose -/
example : (run Quirks.code {} [.mkb "b", .put "b" "k" [1] {} false .star, .put "b" "k" [1] {} false .none,
      .put "b" "k" [2] {} false (.etag (singleETag [1])), .put "b" "k" [3] {} false (.etag (singleETag [1])),
      .del "b" "k" none (.etag (singleETag [1])), .del "b" "k" none (.etag (singleETag [2]))]).2
    = [.unit, .err .preconditionFailed, .wrote none (singleETag [1]), .wrote none (singleETag [2]),
       .err .preconditionFailed, .err .preconditionFailed, .deleted none false] := by decide

/-- a null version hidden under a delete marker (a null version written before versioning was enabled, a
delete marker on top of it, versioning suspended): the key is absent and the first If-None-Match put wins
(before the fix 373419f of the implementation it was refused: the old `putRow` tested
`(nullRow bk1 k).isSome`, see the section "before the fix 373419f" below) -/
example : (run Quirks.code {} [.mkb "b", .put "b" "k" [1] {} false .none, .setVer "b" .enabled,
      .del "b" "k" none .none, .setVer "b" .suspended, .put "b" "k" [2] {} true .none,
      .put "b" "k" [3] {} true .none]).2
    = [.unit, .wrote none (singleETag [1]), .unit, .deleted (some (some 0)) true, .unit,
       .wrote none (singleETag [2]), .err .preconditionFailed] := by decide

/-- Well-formed bucket: row ids are pairwise distinct and below the counter, and no two rows of one
key are both latest. -/
def BucketWF (nextRow : Nat) (bk : Bucket) : Prop :=
  bk.rows.Pairwise (fun a b => a.rowId ≠ b.rowId ∧ ¬ (a.key = b.key ∧ a.latest = true ∧ b.latest = true)) ∧
  ∀ r ∈ bk.rows, r.rowId < nextRow
def WF (s : State) : Prop := ∀ bk ∈ s.buckets, BucketWF s.nextRow bk

/-! ### the working form of `BucketWF`, on the row list -/

structure RowsOK (n : Nat) (rows : List Row) : Prop where
  ids : rows.Pairwise (fun a b => a.rowId ≠ b.rowId)
  uniq : ∀ x ∈ rows, ∀ y ∈ rows, x.key = y.key → x.latest = true → y.latest = true → x.rowId = y.rowId
  bound : ∀ r ∈ rows, r.rowId < n

/-- no row of key `k` is latest -/
def NoLatest (rows : List Row) (k : String) : Prop := ∀ x ∈ rows, x.key = k → x.latest = false
/-- the only row of key `k` that may be latest is the one with id `id` -/
def OnlyLatest (rows : List Row) (k : String) (id : Nat) : Prop :=
  ∀ x ∈ rows, x.key = k → x.latest = true → x.rowId = id

private theorem pairwise_uniq {rows : List Row}
    (h : rows.Pairwise (fun a b => a.rowId ≠ b.rowId ∧ ¬ (a.key = b.key ∧ a.latest = true ∧ b.latest = true))) :
    ∀ x ∈ rows, ∀ y ∈ rows, x.key = y.key → x.latest = true → y.latest = true → x.rowId = y.rowId := by
  induction rows with
  | nil => simp
  | cons a l ih =>
    rw [List.pairwise_cons] at h
    intro x hx y hy hk hlx hly
    rcases List.mem_cons.1 hx with rfl | hx' <;> rcases List.mem_cons.1 hy with rfl | hy'
    · rfl
    · exact absurd ⟨hk, hlx, hly⟩ (h.1 y hy').2
    · exact absurd ⟨hk.symm, hly, hlx⟩ (h.1 x hx').2
    · exact ih h.2 x hx' y hy' hk hlx hly

private theorem ids_inj {rows : List Row} (h : rows.Pairwise (fun a b => a.rowId ≠ b.rowId)) :
    ∀ x ∈ rows, ∀ y ∈ rows, x.rowId = y.rowId → x = y := by
  induction rows with
  | nil => simp
  | cons a l ih =>
    rw [List.pairwise_cons] at h
    intro x hx y hy hid
    rcases List.mem_cons.1 hx with rfl | hx' <;> rcases List.mem_cons.1 hy with rfl | hy'
    · rfl
    · exact absurd hid (h.1 y hy')
    · exact absurd hid.symm (h.1 x hx')
    · exact ih h.2 x hx' y hy' hid

theorem bucketWF_iff {n : Nat} {bk : Bucket} : BucketWF n bk ↔ RowsOK n bk.rows := by
  constructor
  · rintro ⟨hp, hb⟩
    exact ⟨hp.imp fun h => h.1, pairwise_uniq hp, hb⟩
  · rintro ⟨hi, hu, hb⟩
    refine ⟨hi.imp_of_mem ?_, hb⟩
    intro a b ha hb' hab
    exact ⟨hab, fun ⟨hk, hla, hlb⟩ => hab (hu a ha b hb' hk hla hlb)⟩

theorem RowsOK.inj {n rows} (h : RowsOK n rows) {x y : Row} (hx : x ∈ rows) (hy : y ∈ rows)
    (hid : x.rowId = y.rowId) : x = y := ids_inj h.ids x hx y hy hid

theorem RowsOK.mono {n m rows} (h : RowsOK n rows) (hnm : n ≤ m) : RowsOK m rows :=
  ⟨h.ids, h.uniq, fun r hr => Nat.lt_of_lt_of_le (h.bound r hr) hnm⟩

theorem RowsOK.nil (n : Nat) : RowsOK n [] := ⟨.nil, by simp, by simp⟩

theorem RowsOK.filter {n rows} (h : RowsOK n rows) (p : Row → Bool) : RowsOK n (rows.filter p) :=
  ⟨h.ids.filter p, fun x hx y hy => h.uniq x (List.mem_filter.1 hx).1 y (List.mem_filter.1 hy).1,
   fun r hr => h.bound r (List.mem_filter.1 hr).1⟩

theorem RowsOK.onlyLatest {n rows} (h : RowsOK n rows) {r : Row} (hr : r ∈ rows) (hl : r.latest = true) :
    OnlyLatest rows r.key r.rowId := fun x hx hk hlx => h.uniq x hx r hr hk hlx hl

theorem NoLatest.onlyLatest {rows k} (h : NoLatest rows k) (id : Nat) : OnlyLatest rows k id :=
  fun x hx hk hl => by rw [h x hx hk] at hl; cases hl

theorem OnlyLatest.filter {rows k id} (h : OnlyLatest rows k id) (p : Row → Bool) :
    OnlyLatest (rows.filter p) k id := fun x hx => h x (List.mem_filter.1 hx).1

theorem NoLatest.filter {rows k} (h : NoLatest rows k) (p : Row → Bool) :
    NoLatest (rows.filter p) k := fun x hx => h x (List.mem_filter.1 hx).1

/-- removing the row that may be latest leaves no latest row -/
theorem OnlyLatest.filter_ne {rows k id} (h : OnlyLatest rows k id) :
    NoLatest (rows.filter fun x => x.rowId != id) k := by
  intro x hx hk
  obtain ⟨hm, hne⟩ := List.mem_filter.1 hx
  cases hl : x.latest
  · rfl
  · simp [h x hm hk hl] at hne

/-- the row list after `replaceRow` -/
def replaceRows (rows : List Row) (r : Row) : List Row := rows.map fun x => if x.rowId == r.rowId then r else x

private theorem replace_fn_id (r x : Row) : (if x.rowId == r.rowId then r else x).rowId = x.rowId := by
  split <;> simp_all

theorem mem_replaceRows {rows : List Row} {r y : Row} (h : y ∈ replaceRows rows r) :
    (y = r ∧ ∃ x ∈ rows, x.rowId = r.rowId) ∨ (y ∈ rows ∧ y.rowId ≠ r.rowId) := by
  obtain ⟨x, hx, rfl⟩ := List.mem_map.1 h
  by_cases hid : x.rowId = r.rowId
  · have : (if x.rowId == r.rowId then r else x) = r := by simp [hid]
    rw [this]; exact .inl ⟨rfl, x, hx, hid⟩
  · have : (if x.rowId == r.rowId then r else x) = x := by simp [hid]
    rw [this]; exact .inr ⟨hx, hid⟩

theorem mem_replaceRows_of_mem {rows : List Row} {r x : Row} (hx : x ∈ rows) :
    (if x.rowId == r.rowId then r else x) ∈ replaceRows rows r := List.mem_map.2 ⟨x, hx, rfl⟩

theorem RowsOK.replace {n rows} (h : RowsOK n rows) {r : Row}
    (hkey : ∀ x ∈ rows, x.rowId = r.rowId → x.key = r.key)
    (hl : r.latest = true → OnlyLatest rows r.key r.rowId) : RowsOK n (replaceRows rows r) := by
  refine ⟨?_, ?_, ?_⟩
  · refine List.pairwise_map.2 (h.ids.imp ?_)
    intro a b hab
    rw [replace_fn_id, replace_fn_id]; exact hab
  · intro x hx y hy hk hlx hly
    rcases mem_replaceRows hx with ⟨rfl, _⟩ | ⟨hx', hxid⟩ <;> rcases mem_replaceRows hy with ⟨rfl, _⟩ | ⟨hy', hyid⟩
    · rfl
    · exact (hl hlx y hy' hk.symm hly).symm
    · exact hl hly x hx' hk hlx
    · exact h.uniq x hx' y hy' hk hlx hly
  · intro y hy
    rcases mem_replaceRows hy with ⟨rfl, x, hx, hid⟩ | ⟨hy, _⟩
    · rw [← hid]; exact h.bound x hx
    · exact h.bound y hy

/-- replacing the row that may be latest by a non-latest one leaves no latest row -/
theorem OnlyLatest.replace_noLatest {rows k} {r : Row} (h : OnlyLatest rows k r.rowId) (hr : r.latest = false) :
    NoLatest (replaceRows rows r) k := by
  intro y hy hk
  rcases mem_replaceRows hy with ⟨rfl, _⟩ | ⟨hy, hid⟩
  · exact hr
  · cases hl : y.latest
    · rfl
    · exact absurd (h y hy hk hl) hid

theorem NoLatest.replace {rows k} {r : Row} (h : NoLatest rows k) (hr : r.key = k → r.latest = false) :
    NoLatest (replaceRows rows r) k := by
  intro y hy hk
  rcases mem_replaceRows hy with ⟨rfl, _⟩ | ⟨hy, _⟩
  · exact hr hk
  · exact h y hy hk

theorem RowsOK.append {n rows} (h : RowsOK n rows) {r : Row} (hid : r.rowId = n)
    (hl : r.latest = true → NoLatest rows r.key) : RowsOK (n + 1) (rows ++ [r]) := by
  refine ⟨?_, ?_, ?_⟩
  · refine List.pairwise_append.2 ⟨h.ids, List.pairwise_singleton _ _, ?_⟩
    intro a ha b hb
    rw [List.mem_singleton.1 hb, hid]; exact Nat.ne_of_lt (h.bound a ha)
  · intro x hx y hy hk hlx hly
    rcases List.mem_append.1 hx with hx | hx <;> rcases List.mem_append.1 hy with hy | hy
    · exact h.uniq x hx y hy hk hlx hly
    · rw [List.mem_singleton.1 hy] at hk hly
      rw [hl hly x hx hk] at hlx; cases hlx
    · rw [List.mem_singleton.1 hx] at hk hlx
      rw [hl hlx y hy hk.symm] at hly; cases hly
    · rw [List.mem_singleton.1 hx, List.mem_singleton.1 hy]
  · intro y hy
    rcases List.mem_append.1 hy with hy | hy
    · exact Nat.lt_succ_of_lt (h.bound y hy)
    · rw [List.mem_singleton.1 hy, hid]; exact Nat.lt_succ_self n

/-! ### interface lemmas: row lists of the bucket operations -/

private theorem replaceRow_rows (bk : Bucket) (r : Row) : (replaceRow bk r).rows = replaceRows bk.rows r := rfl
private theorem replaceRow_name (bk : Bucket) (r : Row) : (replaceRow bk r).name = bk.name := rfl
private theorem replaceRow_ver (bk : Bucket) (r : Row) : (replaceRow bk r).ver = bk.ver := rfl
private theorem addRow_rows (bk : Bucket) (r : Row) : (addRow bk r).rows = bk.rows ++ [r] := rfl
private theorem addRow_name (bk : Bucket) (r : Row) : (addRow bk r).name = bk.name := rfl
private theorem addRow_ver (bk : Bucket) (r : Row) : (addRow bk r).ver = bk.ver := rfl
private theorem removeRow_rows (bk : Bucket) (id : Nat) : (removeRow bk id).rows = bk.rows.filter fun x => x.rowId != id := rfl
private theorem removeRow_name (bk : Bucket) (id : Nat) : (removeRow bk id).name = bk.name := rfl
private theorem removeRow_ver (bk : Bucket) (id : Nat) : (removeRow bk id).ver = bk.ver := rfl

private theorem touch_rowId (q : Quirks) (now : Nat) (r : Row) : (touch q now r).rowId = r.rowId := rfl
private theorem touch_key (q : Quirks) (now : Nat) (r : Row) : (touch q now r).key = r.key := rfl
private theorem touch_latest (q : Quirks) (now : Nat) (r : Row) : (touch q now r).latest = r.latest := rfl
private theorem touch_vid (q : Quirks) (now : Nat) (r : Row) : (touch q now r).vid = r.vid := rfl
private theorem touch_dm (q : Quirks) (now : Nat) (r : Row) : (touch q now r).dm = r.dm := rfl

/-- the row `unlatest` writes -/
def unlatestRow (q : Quirks) (now : Nat) (r : Row) : Row :=
  { r with latest := false, updated := if q.touchOnAnySave then now else r.updated }
private theorem unlatest_eq (q : Quirks) (now : Nat) (bk : Bucket) (r : Row) :
    unlatest q now bk r = replaceRow bk (unlatestRow q now r) := rfl
private theorem unlatestRow_rowId (q : Quirks) (now : Nat) (r : Row) : (unlatestRow q now r).rowId = r.rowId := rfl
private theorem unlatestRow_key (q : Quirks) (now : Nat) (r : Row) : (unlatestRow q now r).key = r.key := rfl
private theorem unlatestRow_latest (q : Quirks) (now : Nat) (r : Row) : (unlatestRow q now r).latest = false := rfl
private theorem unlatestRow_vid (q : Quirks) (now : Nat) (r : Row) : (unlatestRow q now r).vid = r.vid := rfl

private theorem mkRow_rowId (id : Nat) (k : String) (v : Option Nat) (c now : Nat) (n : NewObj) : (mkRow id k v c now n).rowId = id := rfl
private theorem mkRow_key (id : Nat) (k : String) (v : Option Nat) (c now : Nat) (n : NewObj) : (mkRow id k v c now n).key = k := rfl
private theorem mkRow_latest (id : Nat) (k : String) (v : Option Nat) (c now : Nat) (n : NewObj) : (mkRow id k v c now n).latest = true := rfl
private theorem mkRow_dm (id : Nat) (k : String) (v : Option Nat) (c now : Nat) (n : NewObj) : (mkRow id k v c now n).dm = false := rfl
private theorem mkRow_etag (id : Nat) (k : String) (v : Option Nat) (c now : Nat) (n : NewObj) : (mkRow id k v c now n).etag = n.etag := rfl
private theorem mkRow_vid (id : Nat) (k : String) (v : Option Nat) (c now : Nat) (n : NewObj) : (mkRow id k v c now n).vid = v := rfl

/-! ### interface lemmas: lookups -/

private theorem latestRow_some {bk : Bucket} {k : String} {r : Row} (h : latestRow bk k = some r) :
    r ∈ bk.rows ∧ r.key = k ∧ r.latest = true := by
  unfold latestRow at h
  have h1 := List.mem_of_find?_eq_some h
  have h2 := List.find?_some h
  simp at h2
  exact ⟨h1, h2.1, h2.2⟩

private theorem latestRow_none {bk : Bucket} {k : String} (h : latestRow bk k = none) : NoLatest bk.rows k := by
  unfold latestRow at h
  intro x hx hk
  have := List.find?_eq_none.1 h x hx
  simp [hk] at this
  exact this

private theorem latestRow_of_forall {bk : Bucket} {k : String} {P : Row → Prop}
    (hex : ∃ x ∈ bk.rows, x.key = k ∧ x.latest = true)
    (hall : ∀ x ∈ bk.rows, x.key = k → x.latest = true → P x) : ∃ r, latestRow bk k = some r ∧ P r := by
  cases h : latestRow bk k with
  | none =>
    obtain ⟨x, hx, hk, hl⟩ := hex
    rw [latestRow_none h x hx hk] at hl; cases hl
  | some r =>
    obtain ⟨hr, hk, hl⟩ := latestRow_some h
    exact ⟨r, rfl, hall r hr hk hl⟩

private theorem rowByVid_some {bk : Bucket} {k : String} {v : Option Nat} {r : Row} (h : rowByVid bk k v = some r) :
    r ∈ bk.rows ∧ r.key = k ∧ r.vid = v := by
  unfold rowByVid at h
  have h1 := List.mem_of_find?_eq_some h
  have h2 := List.find?_some h
  simp at h2
  exact ⟨h1, h2.1, h2.2⟩

private theorem rowByVid_none {bk : Bucket} {k : String} {v : Option Nat} (h : rowByVid bk k v = none) :
    ∀ x ∈ bk.rows, x.key = k → x.vid ≠ v := by
  unfold rowByVid at h
  intro x hx hk
  have := List.find?_eq_none.1 h x hx
  simpa [hk] using this

private theorem rowByVid_isSome_of_mem {bk : Bucket} {k : String} {v : Option Nat} {x : Row} (hx : x ∈ bk.rows)
    (hk : x.key = k) (hv : x.vid = v) : (rowByVid bk k v).isSome = true := by
  cases h : rowByVid bk k v with
  | none => exact absurd hv (rowByVid_none h x hx hk)
  | some r => rfl

private theorem nullRow_eq (bk : Bucket) (k : String) : nullRow bk k = rowByVid bk k none := rfl

private theorem resolve_ok {bk : Bucket} {k : String} {vid : Option (Option Nat)} {r : Row} (h : resolve bk k vid = .ok r) :
    r ∈ bk.rows ∧ r.key = k := by
  unfold resolve at h
  cases vid with
  | none =>
    simp only at h
    split at h
    · cases h
    · rename_i r' hr'
      split at h
      · cases h
      · cases h; exact ⟨(latestRow_some hr').1, (latestRow_some hr').2.1⟩
  | some v =>
    simp only at h
    split at h
    · cases h
    · rename_i r' hr'
      split at h
      · cases h
      · cases h; exact ⟨(rowByVid_some hr').1, (rowByVid_some hr').2.1⟩

/-! ### bucket-level well-formedness -/

theorem BucketWF.of_rows {n : Nat} {bk bk' : Bucket} (h : BucketWF n bk) (hr : bk'.rows = bk.rows) : BucketWF n bk' := by
  unfold BucketWF at *; rw [hr]; exact h

theorem BucketWF.mono {n m : Nat} {bk : Bucket} (h : BucketWF n bk) (hnm : n ≤ m) : BucketWF m bk :=
  bucketWF_iff.2 ((bucketWF_iff.1 h).mono hnm)

theorem BucketWF.removeRow {n : Nat} {bk : Bucket} (h : BucketWF n bk) (id : Nat) : BucketWF n (removeRow bk id) :=
  bucketWF_iff.2 (by rw [removeRow_rows]; exact (bucketWF_iff.1 h).filter _)

/-- replacing a row by one with the same id and key that is latest only if the old one was -/
theorem BucketWF.replaceRow_same {n : Nat} {bk : Bucket} (h : BucketWF n bk) {r0 r : Row} (h0 : r0 ∈ bk.rows)
    (hid : r.rowId = r0.rowId) (hk : r.key = r0.key) (hl : r.latest = true → r0.latest = true) :
    BucketWF n (replaceRow bk r) := by
  have ok := bucketWF_iff.1 h
  refine bucketWF_iff.2 ?_
  rw [replaceRow_rows]
  refine ok.replace ?_ ?_
  · intro x hx hxid
    rw [ok.inj hx h0 (hxid.trans hid), hk]
  · intro hlr
    rw [hk, hid]; exact ok.onlyLatest h0 (hl hlr)

/-- replacing a row of key `k` by a latest one, when no other row of `k` is latest -/
theorem BucketWF.replaceRow_latest {n : Nat} {bk : Bucket} (h : BucketWF n bk) {r0 r : Row} (h0 : r0 ∈ bk.rows)
    (hid : r.rowId = r0.rowId) (hk : r.key = r0.key) (hl : OnlyLatest bk.rows r0.key r0.rowId) :
    BucketWF n (replaceRow bk r) := by
  have ok := bucketWF_iff.1 h
  refine bucketWF_iff.2 ?_
  rw [replaceRow_rows]
  refine ok.replace ?_ ?_
  · intro x hx hxid
    rw [ok.inj hx h0 (hxid.trans hid), hk]
  · intro _
    rw [hk, hid]; exact hl

theorem BucketWF.addRow {n : Nat} {bk : Bucket} (h : BucketWF n bk) {r : Row} (hid : r.rowId = n)
    (hl : r.latest = true → NoLatest bk.rows r.key) : BucketWF (n + 1) (addRow bk r) :=
  bucketWF_iff.2 (by rw [addRow_rows]; exact (bucketWF_iff.1 h).append hid hl)

/-! ### state-level -/

theorem wf_tick {s : State} : WF (tick s) ↔ WF s := Iff.rfl

private theorem findBucket_mem {s : State} {b : String} {bk : Bucket} (h : findBucket s b = some bk) : bk ∈ s.buckets :=
  List.mem_of_find?_eq_some h

private theorem findBucket_name {s : State} {b : String} {bk : Bucket} (h : findBucket s b = some bk) : bk.name = b := by
  have := List.find?_some h
  simpa using this

theorem WF.bucket {s : State} {b : String} {bk : Bucket} (h : WF s) (hf : findBucket s b = some bk) :
    BucketWF s.nextRow bk := h bk (findBucket_mem hf)

private theorem mem_setBucket {s : State} {bk' x : Bucket} (h : x ∈ (setBucket s bk').buckets) : x ∈ s.buckets ∨ x = bk' := by
  unfold setBucket at h
  obtain ⟨y, hy, rfl⟩ := List.mem_map.1 h
  split
  · exact .inr rfl
  · exact .inl hy

/-- a state whose bucket list is `setBucket s bk'` and whose row counter did not decrease is well-formed
when `bk'` is -/
theorem wf_of_setBucket {s s' : State} {bk' : Bucket} (h : WF s) (hb : s'.buckets = (setBucket s bk').buckets)
    (hn : s.nextRow ≤ s'.nextRow) (hbk : BucketWF s'.nextRow bk') : WF s' := by
  intro x hx
  rw [hb] at hx
  rcases mem_setBucket hx with hx | rfl
  · exact (h x hx).mono hn
  · exact hbk

private theorem find_setBucket (l : List Bucket) (b : String) (bk bk' : Bucket) (hf : l.find? (·.name == b) = some bk)
    (hn : bk'.name = bk.name) :
    (l.map fun x => if x.name == bk'.name then bk' else x).find? (·.name == b) = some bk' := by
  have hbn : bk.name = b := by simpa using List.find?_some hf
  induction l with
  | nil => simp at hf
  | cons x l ih =>
    rw [List.find?_cons] at hf
    rw [List.map_cons, List.find?_cons]
    by_cases hx : x.name = b
    · simp only [hx, beq_self_eq_true] at hf
      cases hf
      simp [hn, hbn]
    · have hx' : (x.name == b) = false := by simpa using hx
      rw [hx'] at hf
      have : (if x.name == bk'.name then bk' else x) = x := by
        rw [hn, hbn, hx']; rfl
      rw [this, hx']
      exact ih hf

theorem findBucket_of_setBucket {s s' : State} {b : String} {bk bk' : Bucket}
    (hb : s'.buckets = (setBucket s bk').buckets) (hf : findBucket s b = some bk) (hn : bk'.name = bk.name) :
    findBucket s' b = some bk' := by
  unfold findBucket; rw [hb]; exact find_setBucket _ b bk bk' hf hn

/-! ### `latestRow` after adding / replacing a latest row -/

theorem latestRow_addRow_latest {bk : Bucket} {k : String} {r : Row} (hno : NoLatest bk.rows k) (hk : r.key = k)
    (hl : r.latest = true) : latestRow (addRow bk r) k = some r := by
  obtain ⟨r', hr', rfl⟩ := latestRow_of_forall (bk := addRow bk r) (k := k) (P := fun x => x = r)
    ⟨r, by rw [addRow_rows]; simp, hk, hl⟩ (by
      intro x hx hxk hxl
      rw [addRow_rows] at hx
      rcases List.mem_append.1 hx with hx | hx
      · rw [hno x hx hxk] at hxl; cases hxl
      · exact List.mem_singleton.1 hx)
  exact hr'

theorem latestRow_replaceRow_latest {bk : Bucket} {k : String} {r : Row} (hno : NoLatest bk.rows k)
    (hex : ∃ x ∈ bk.rows, x.rowId = r.rowId) (hk : r.key = k) (hl : r.latest = true) :
    latestRow (replaceRow bk r) k = some r := by
  obtain ⟨x0, hx0, hid0⟩ := hex
  obtain ⟨r', hr', rfl⟩ := latestRow_of_forall (bk := replaceRow bk r) (k := k) (P := fun x => x = r)
    ⟨r, by
      rw [replaceRow_rows]
      have := mem_replaceRows_of_mem (r := r) hx0
      simpa [hid0] using this, hk, hl⟩ (by
      intro x hx hxk hxl
      rw [replaceRow_rows] at hx
      rcases mem_replaceRows hx with ⟨rfl, _⟩ | ⟨hx, _⟩
      · rfl
      · rw [hno x hx hxk] at hxl; cases hxl)
  exact hr'

/-! ### `unlatestCur` -/

private theorem unlatestCur_name (q : Quirks) (now : Nat) (bk : Bucket) (k : String) : (unlatestCur q now bk k).name = bk.name := by
  unfold unlatestCur; split <;> rfl
private theorem unlatestCur_ver (q : Quirks) (now : Nat) (bk : Bucket) (k : String) : (unlatestCur q now bk k).ver = bk.ver := by
  unfold unlatestCur; split <;> rfl

/-- after `unlatestCur` the bucket is still well-formed, no row of `k` is latest, and every row is
still there under its id and key -/
theorem unlatestCur_spec {n : Nat} {bk : Bucket} (q : Quirks) (now : Nat) (k : String) (h : BucketWF n bk) :
    BucketWF n (unlatestCur q now bk k) ∧ NoLatest (unlatestCur q now bk k).rows k ∧
    ∀ x ∈ bk.rows, ∃ x' ∈ (unlatestCur q now bk k).rows, x'.rowId = x.rowId ∧ x'.key = x.key := by
  have ok := bucketWF_iff.1 h
  unfold unlatestCur
  split
  · rename_i r hr
    obtain ⟨hmem, hk, hl⟩ := latestRow_some hr
    rw [unlatest_eq]
    refine ⟨h.replaceRow_same hmem rfl rfl (fun h => by cases h), ?_, ?_⟩
    · rw [replaceRow_rows]
      refine OnlyLatest.replace_noLatest ?_ rfl
      rw [← hk]; exact ok.onlyLatest hmem hl
    · intro x hx
      refine ⟨_, by rw [replaceRow_rows]; exact mem_replaceRows_of_mem (r := unlatestRow q now r) hx, replace_fn_id _ _, ?_⟩
      split
      · rename_i hid
        rw [ok.inj hx hmem (by simpa [unlatestRow_rowId] using hid)]; rfl
      · rfl
  · rename_i hr
    exact ⟨h, latestRow_none hr, fun x hx => ⟨x, hx, rfl, rfl⟩⟩

/-! ### `install` -/

theorem install_snd (q : Quirks) (s : State) (bk : Bucket) (k : String) (n : NewObj) :
    (install q s bk k n).2 = if bk.ver = .enabled then some s.nextVid else none := by
  unfold install
  by_cases hv : bk.ver = .enabled
  · simp [hv, mkRow_vid]
  · simp only [beq_iff_eq, hv, if_false]
    split <;> rfl

/-- `install` replaces the bucket by a well-formed one (same name and versioning state) in which
the latest row of `k` is the new object; the row counter does not decrease -/
theorem install_spec (q : Quirks) (s : State) (bk : Bucket) (k : String) (n : NewObj) (h : BucketWF s.nextRow bk) :
    ∃ bk', (install q s bk k n).1.buckets = (setBucket s bk').buckets ∧ bk'.name = bk.name ∧ bk'.ver = bk.ver ∧
      s.nextRow ≤ (install q s bk k n).1.nextRow ∧ BucketWF (install q s bk k n).1.nextRow bk' ∧
      ∃ r, latestRow bk' k = some r ∧ r.dm = false ∧ r.etag = n.etag := by
  obtain ⟨hwf2, hno, hsh⟩ := unlatestCur_spec q s.clock k h
  unfold install
  simp only []
  split
  · -- versioning enabled: a new row
    refine ⟨_, rfl, ?_, ?_, Nat.le_succ _, hwf2.addRow (mkRow_rowId ..) (fun _ => hno), _,
      latestRow_addRow_latest hno (mkRow_key ..) (mkRow_latest ..), mkRow_dm .., mkRow_etag ..⟩
    · rw [addRow_name, unlatestCur_name]
    · rw [addRow_ver, unlatestCur_ver]
  · split
    · -- the null version is replaced in place
      rename_i nr hnr
      obtain ⟨hmem, hk, _⟩ := rowByVid_some (nullRow_eq bk k ▸ hnr)
      obtain ⟨x', hx', hid', hk'⟩ := hsh nr hmem
      refine ⟨_, rfl, ?_, ?_, Nat.le_refl _, ?_, _,
        latestRow_replaceRow_latest hno ⟨x', hx', hid'⟩ (mkRow_key ..) (mkRow_latest ..), mkRow_dm .., mkRow_etag ..⟩
      · rw [replaceRow_name, unlatestCur_name]
      · rw [replaceRow_ver, unlatestCur_ver]
      · refine hwf2.replaceRow_latest hx' (by rw [mkRow_rowId, hid']) (by rw [mkRow_key, hk', hk]) ?_
        rw [hk', hk]; exact hno.onlyLatest _
    · -- no null version: a new row
      refine ⟨_, rfl, ?_, ?_, Nat.le_succ _, hwf2.addRow (mkRow_rowId ..) (fun _ => hno), _,
        latestRow_addRow_latest hno (mkRow_key ..) (mkRow_latest ..), mkRow_dm .., mkRow_etag ..⟩
      · rw [addRow_name, unlatestCur_name]
      · rw [addRow_ver, unlatestCur_ver]

/-! ### `putRow`: the conditional-write lock and the successful case -/

theorem lockRow_name (q : Quirks) (now : Nat) (bk : Bucket) (k : String) (inm : Bool) (im : IfMatch) :
    (lockRow q now bk k inm im).name = bk.name := by
  unfold lockRow; split
  · split <;> rfl
  · rfl

theorem lockRow_ver (q : Quirks) (now : Nat) (bk : Bucket) (k : String) (inm : Bool) (im : IfMatch) :
    (lockRow q now bk k inm im).ver = bk.ver := by
  unfold lockRow; split
  · split <;> rfl
  · rfl

theorem lockRow_wf {n : Nat} {bk : Bucket} (q : Quirks) (now : Nat) (k : String) (inm : Bool) (im : IfMatch)
    (h : BucketWF n bk) : BucketWF n (lockRow q now bk k inm im) := by
  unfold lockRow; split
  · rename_i r hr
    split
    · exact h.replaceRow_same (latestRow_some hr).1 (touch_rowId ..) (touch_key ..) (fun h => h)
    · exact h
  · exact h

/-- a successful `putRow` replaces the bucket by a well-formed one (same name and versioning state) in
which the latest row of `k` is the new object; the row counter does not decrease -/
theorem putRow_ok_spec {q : Quirks} {s : State} {bk : Bucket} {k : String} {n : NewObj} {inm : Bool} {im : IfMatch}
    {s' : State} {vid : Option Nat} (hp : putRow q s bk k n inm im = .ok (s', vid)) (h : BucketWF s.nextRow bk) :
    ∃ bk', s'.buckets = (setBucket s bk').buckets ∧ bk'.name = bk.name ∧ bk'.ver = bk.ver ∧
      s.nextRow ≤ s'.nextRow ∧ BucketWF s'.nextRow bk' ∧
      (∃ r, latestRow bk' k = some r ∧ r.dm = false ∧ r.etag = n.etag) ∧
      vid = if bk.ver = .enabled then some s.nextVid else none := by
  have hi := putRow_ok_install hp
  obtain ⟨bk', h1, h2, h3, h4, h5, h6⟩ := install_spec q s _ k n (lockRow_wf q s.clock k inm im h)
  have hs' : s' = (install q s (lockRow q s.clock bk k inm im) k n).1 := by rw [← hi]
  have hv : vid = (install q s (lockRow q s.clock bk k inm im) k n).2 := by rw [← hi]
  refine ⟨bk', hs' ▸ h1, h2.trans (lockRow_name ..), h3.trans (lockRow_ver ..), hs' ▸ h4, hs' ▸ h5, h6, ?_⟩
  rw [hv, install_snd, lockRow_ver]

theorem putRow_ok_wf {q : Quirks} {s : State} {bk : Bucket} {k : String} {n : NewObj} {inm : Bool} {im : IfMatch}
    {s' : State} {vid : Option Nat} (hp : putRow q s bk k n inm im = .ok (s', vid)) (hwf : WF s)
    (h : BucketWF s.nextRow bk) : WF s' := by
  obtain ⟨bk', h1, _, _, h4, h5, _⟩ := putRow_ok_spec hp h
  exact wf_of_setBucket hwf h1 h4 h5

/-! ### (D) for writes, (E) -/

section write
variable {b k : String} {inm : Bool} {im : IfMatch} {op : Op} {q : Quirks} {s : State}

theorem write_wrote_spec (hop : IsWrite b k inm im op) (hwf : WF s) {vid et} (h : (step q s op).2 = .wrote vid et) :
    WF (step q s op).1 ∧ present (step q s op).1 b k = true := by
  rcases write_cases hop q s with ⟨e, he⟩ | ⟨bk, bk0, n, s', v, hbk, hname, _, hrows, hp, he⟩
  · rw [he] at h; cases h
  · have hbwf : BucketWF (tick s).nextRow bk0 := (hwf.bucket hbk).of_rows hrows
    obtain ⟨bk', h1, h2, _, h4, h5, ⟨r, hr, hdm, _⟩, _⟩ := putRow_ok_spec hp hbwf
    rw [he]
    refine ⟨wf_of_setBucket (wf_tick.2 hwf) h1 h4 h5, ?_⟩
    have hf : findBucket s' b = some bk' :=
      findBucket_of_setBucket h1 ((findBucket_tick s b).trans hbk) (h2.trans hname)
    simp only [present_eq, hf, hr, live, hdm]; rfl

theorem write_wf (hop : IsWrite b k inm im op) (hwf : WF s) : WF (step q s op).1 := by
  rcases write_out_cases (q := q) (s := s) hop with ⟨e, he⟩ | ⟨vid, et, h⟩
  · rw [write_err_state hop he]; exact wf_tick.2 hwf
  · exact (write_wrote_spec hop hwf h).1
end write

theorem put_wrote_present (q : Quirks) (s : State) (b k : String) (body : Bytes) (o : WriteOpts) (inm : Bool)
    (im : IfMatch) (vid : Option Nat) (et : ETag) (hwf : WF s)
    (h : (step q s (.put b k body o inm im)).2 = .wrote vid et) :
    present (step q s (.put b k body o inm im)).1 b k = true :=
  (write_wrote_spec (isWrite_put ..) hwf h).2

theorem complete_wrote_present (q : Quirks) (s : State) (b k : String) (uid : Nat) (declared : Option (List Nat))
    (inm : Bool) (im : IfMatch) (vid : Option Nat) (et : ETag) (hwf : WF s)
    (h : (step q s (.complete b k uid declared inm im)).2 = .wrote vid et) :
    present (step q s (.complete b k uid declared inm im)).1 b k = true :=
  (write_wrote_spec (isWrite_complete ..) hwf h).2

/-! ### (G) at most one If-None-Match winner -/

private theorem run_nil (q : Quirks) (s : State) : run q s [] = (s, []) := rfl
private theorem run_cons (q : Quirks) (s : State) (op : Op) (ops : List Op) :
    run q s (op :: ops) = ((run q (step q s op).1 ops).1, (step q s op).2 :: (run q (step q s op).1 ops).2) := rfl

/-- while the key is present every If-None-Match write fails (and the key stays present) -/
theorem inm_present_all_fail (q : Quirks) (b k : String) (ops : List Op) (s : State) (hp : present s b k = true)
    (hops : ∀ op ∈ ops, IsInmWrite b k op) : ∀ o ∈ (run q s ops).2, o.isWrote = false := by
  induction ops generalizing s with
  | nil => simp [run_nil]
  | cons op ops ih =>
    obtain ⟨im, hop⟩ := (hops op (List.mem_cons_self ..)).isWrite
    rw [run_cons]
    intro o ho
    rcases write_out_cases (q := q) (s := s) hop with ⟨e, he⟩ | ⟨vid, et, h⟩
    · rcases List.mem_cons.1 ho with rfl | ho'
      · rw [he]; rfl
      · refine ih _ ?_ (fun op' h' => hops op' (List.mem_cons_of_mem _ h')) o ho'
        rw [write_err_state hop he, present_tick]; exact hp
    · rw [write_wrote_inm hop h] at hp; cases hp

private theorem filter_isWrote_eq_nil {l : List Out} (h : ∀ o ∈ l, o.isWrote = false) : l.filter Out.isWrote = [] :=
  List.filter_eq_nil_iff.2 fun o ho => by simp [h o ho]

theorem inm_at_most_one_winner (q : Quirks) (s : State) (b k : String) (ops : List Op) (hwf : WF s)
    (hops : ∀ op ∈ ops, IsInmWrite b k op) : ((run q s ops).2.filter Out.isWrote).length ≤ 1 := by
  induction ops generalizing s with
  | nil => simp [run_nil]
  | cons op ops ih =>
    obtain ⟨im, hop⟩ := (hops op (List.mem_cons_self ..)).isWrite
    have hops' : ∀ op' ∈ ops, IsInmWrite b k op' := fun op' h' => hops op' (List.mem_cons_of_mem _ h')
    rw [run_cons]
    rcases write_out_cases (q := q) (s := s) hop with ⟨e, he⟩ | ⟨vid, et, h⟩
    · have : ((step q s op).2 :: (run q (step q s op).1 ops).2).filter Out.isWrote
          = (run q (step q s op).1 ops).2.filter Out.isWrote := by rw [he]; rfl
      rw [this]
      exact ih _ (write_wf hop hwf) hops'
    · have hrest := filter_isWrote_eq_nil
        (inm_present_all_fail q b k ops _ (write_wrote_spec hop hwf h).2 hops')
      rw [List.filter_cons, hrest]
      split <;> simp

/-- once one If-None-Match write succeeded, all later ones fail -/
theorem inm_winner_then_all_fail (q : Quirks) (s : State) (b k : String) (ops : List Op) (hwf : WF s)
    (hops : ∀ op ∈ ops, IsInmWrite b k op) :
    (run q s ops).2.Pairwise fun o o' => o.isWrote = true → o'.isWrote = false := by
  induction ops generalizing s with
  | nil => simp [run_nil]
  | cons op ops ih =>
    obtain ⟨im, hop⟩ := (hops op (List.mem_cons_self ..)).isWrite
    have hops' : ∀ op' ∈ ops, IsInmWrite b k op' := fun op' h' => hops op' (List.mem_cons_of_mem _ h')
    rw [run_cons]
    refine List.pairwise_cons.2 ⟨?_, ih _ (write_wf hop hwf) hops'⟩
    intro o' ho' hw
    rcases write_out_cases (q := q) (s := s) hop with ⟨e, he⟩ | ⟨vid, et, h⟩
    · rw [he] at hw; cases hw
    · exact inm_present_all_fail q b k ops _ (write_wrote_spec hop hwf h).2 hops' o' ho'

/-! ### (D) `deleteOp` (interface: the two equations below mirror `deleteOp`) -/

/-- the versioned delete: un-latest the current row if it is still there -/
def delUnlatest (q : Quirks) (now : Nat) (bk bk1 : Bucket) (k : String) : Bucket :=
  match latestRow bk k with
  | some r => if (bk1.rows.any (·.rowId == r.rowId)) then unlatest q now bk1 r else bk1
  | none => bk1

/-- a suspended bucket drops its null version before the delete marker is written -/
def delNull (bk : Bucket) (k : String) : Bucket :=
  if bk.ver == .suspended then
    match nullRow bk k with | some n => removeRow bk n.rowId | none => bk
  else bk

def dmRowOf (s : State) (k : String) : Row :=
  { rowId := s.nextRow, key := k, vid := some s.nextVid, dm := true, latest := true,
    created := s.clock, updated := s.clock, wrote := s.clock }

/-- the bucket after deleting version row `r` -/
def delVersion (q : Quirks) (now : Nat) (bk : Bucket) (k : String) (r : Row) : Bucket :=
  if r.latest then promote q now (removeRow bk r.rowId) k else removeRow bk r.rowId

def delImOk (im : IfMatch) (r : Row) : Bool :=
  match im with
  | .none => true | .star => true
  | .etag e => !r.dm && r.etag == e
  | .bogus => false

theorem deleteOp_some_eq (q : Quirks) (s : State) (bk : Bucket) (k : String) (v : Option Nat) (im : IfMatch) :
    deleteOp q s bk k (some v) im =
      if (rowByVid bk k v).isNone && !((some v).isNone && bk.ver != .off) then
        if im != .none then (s, .err .preconditionFailed) else (s, .deleted none false)
      else
        match rowByVid bk k v with
        | none => (s, .deleted (some v) false)
        | some r =>
          if !delImOk im r then (s, .err .preconditionFailed)
          else (setBucket s (delVersion q s.clock bk k r), .deleted (some r.vid) r.dm) := rfl

/-- the storage-layer probe of a delete without version id -/
def delProbe (bk : Bucket) (k : String) : Option Row :=
  if bk.ver == .suspended then nullRow bk k else latestRow bk k

theorem deleteOp_none_eq (q : Quirks) (s : State) (bk : Bucket) (k : String) (im : IfMatch) :
    deleteOp q s bk k none im =
      if (delProbe bk k).isNone && !((none : Option (Option Nat)).isNone && bk.ver != .off) then
        if im != .none then (s, .err .preconditionFailed) else (s, .deleted none false)
      else if !ifMatchOk im (latestRow bk k) then (s, .err .preconditionFailed)
      else if bk.ver != .off then
        ({ setBucket s (addRow (delUnlatest q s.clock bk (delNull bk k) k) (dmRowOf s k)) with
            nextVid := s.nextVid + 1, nextRow := s.nextRow + 1 },
         .deleted (some (some s.nextVid)) true)
      else
        match latestRow bk k with
        | some r => (setBucket s (removeRow bk r.rowId), .deleted none false)
        | none => (s, .deleted none false) := rfl

private theorem maxBy_mem {f : Row → Nat} {l : List Row} {r : Row} (h : maxBy f l = some r) : r ∈ l := by
  induction l generalizing r with
  | nil => cases h
  | cons a l ih =>
    unfold maxBy at h
    split at h
    · cases h; exact List.mem_cons_self ..
    · rename_i m hm
      split at h
      · cases h; exact List.mem_cons_of_mem _ (ih hm)
      · cases h; exact List.mem_cons_self ..

theorem promote_wf {n : Nat} {bk : Bucket} (q : Quirks) (now : Nat) {k : String} (h : BucketWF n bk)
    (hno : NoLatest bk.rows k) : BucketWF n (promote q now bk k) := by
  unfold promote
  simp only []
  split
  · exact h
  · rename_i r hr
    have hm := List.mem_filter.1 (maxBy_mem hr)
    have hk : r.key = k := by simpa using hm.2
    refine h.replaceRow_latest hm.1 rfl rfl ?_
    rw [hk]; exact hno.onlyLatest _

theorem delVersion_wf {n : Nat} {bk : Bucket} (q : Quirks) (now : Nat) {k : String} {r : Row} (h : BucketWF n bk)
    (hmem : r ∈ bk.rows) (hk : r.key = k) : BucketWF n (delVersion q now bk k r) := by
  unfold delVersion
  split
  · rename_i hl
    refine promote_wf q _ (h.removeRow _) ?_
    rw [removeRow_rows, ← hk]
    exact ((bucketWF_iff.1 h).onlyLatest hmem hl).filter_ne
  · exact h.removeRow _

theorem delNull_wf {n : Nat} {bk : Bucket} (k : String) (h : BucketWF n bk) :
    BucketWF n (delNull bk k) ∧ ∀ x ∈ (delNull bk k).rows, x ∈ bk.rows := by
  unfold delNull
  split
  · split
    · exact ⟨h.removeRow _, fun x hx => by rw [removeRow_rows] at hx; exact (List.mem_filter.1 hx).1⟩
    · exact ⟨h, fun x hx => hx⟩
  · exact ⟨h, fun x hx => hx⟩

theorem delUnlatest_wf {n : Nat} {bk bk1 : Bucket} (q : Quirks) (now : Nat) (k : String) (h : BucketWF n bk)
    (h1 : BucketWF n bk1) (hsub : ∀ x ∈ bk1.rows, x ∈ bk.rows) :
    BucketWF n (delUnlatest q now bk bk1 k) ∧ NoLatest (delUnlatest q now bk bk1 k).rows k := by
  have ok := bucketWF_iff.1 h
  unfold delUnlatest
  split
  · rename_i r hr
    obtain ⟨hmem, hk, hl⟩ := latestRow_some hr
    have honly : OnlyLatest bk1.rows k r.rowId := fun x hx hxk hxl => by
      have := ok.onlyLatest hmem hl x (hsub x hx)
      rw [hk] at this; exact this hxk hxl
    split
    · rename_i hany
      obtain ⟨x, hx, hid⟩ := List.any_eq_true.1 hany
      have hxr : x = r := ok.inj (hsub x hx) hmem (by simpa using hid)
      subst hxr
      rw [unlatest_eq]
      refine ⟨h1.replaceRow_same hx rfl rfl (fun h => by cases h), ?_⟩
      rw [replaceRow_rows]
      exact OnlyLatest.replace_noLatest honly rfl
    · rename_i hany
      refine ⟨h1, ?_⟩
      intro x hx hxk
      cases hxl : x.latest
      · rfl
      · exfalso; apply hany
        exact List.any_eq_true.2 ⟨x, hx, by simpa using honly x hx hxk hxl⟩
  · rename_i hr
    exact ⟨h1, fun x hx => latestRow_none hr x (hsub x hx)⟩

theorem deleteOp_wf (q : Quirks) {s : State} {bk : Bucket} (k : String) (vid : Option (Option Nat)) (im : IfMatch)
    (hwf : WF s) (h : BucketWF s.nextRow bk) : WF (deleteOp q s bk k vid im).1 := by
  cases vid with
  | some v =>
    rw [deleteOp_some_eq]
    split
    · split <;> exact hwf
    · split
      · exact hwf
      · rename_i r hr
        obtain ⟨hmem, hk, _⟩ := rowByVid_some hr
        split
        · exact hwf
        · exact wf_of_setBucket hwf rfl (Nat.le_refl _) (delVersion_wf q _ h hmem hk)
  | none =>
    rw [deleteOp_none_eq]
    split
    · split <;> exact hwf
    · split
      · exact hwf
      · split
        · obtain ⟨h1, hsub⟩ := delNull_wf k h
          obtain ⟨hw2, hno2⟩ := delUnlatest_wf q s.clock k h h1 hsub
          exact wf_of_setBucket hwf rfl (Nat.le_succ _) (hw2.addRow rfl (fun _ => hno2))
        · split
          · exact wf_of_setBucket hwf rfl (Nat.le_refl _) (h.removeRow _)
          · exact hwf

/-! ### (D) the remaining operations -/

theorem wf_init : WF ({} : State) := by
  intro bk hbk; cases hbk

theorem bucketWF_empty (n : Nat) (b : String) : BucketWF n { name := b } :=
  bucketWF_iff.2 (RowsOK.nil n)

theorem wf_mkb (q : Quirks) (s : State) (b : String) (h : WF s) : WF (step q s (.mkb b)).1 := by
  simp only [step, stepT]
  split
  · exact h
  · intro bk hbk
    rcases List.mem_append.1 hbk with hbk | hbk
    · exact h bk hbk
    · rw [List.mem_singleton.1 hbk]; exact bucketWF_empty _ _

theorem wf_rmb (q : Quirks) (s : State) (b : String) (h : WF s) : WF (step q s (.rmb b)).1 := by
  simp only [step, stepT]
  split
  · exact h
  · split
    · exact h
    · intro bk hbk
      exact h bk (List.mem_filter.1 hbk).1

theorem wf_setVer (q : Quirks) (s : State) (b : String) (v : Versioning) (h : WF s) :
    WF (step q s (.setVer b v)).1 := by
  simp only [step, stepT]
  split
  · exact h
  · rename_i bk hbk
    exact wf_of_setBucket (wf_tick.2 h) rfl (Nat.le_refl _) (BucketWF.of_rows (h.bucket hbk) rfl)

/-- the read-only operations leave only the clock tick -/
theorem step_get_state (q : Quirks) (s : State) (b k : String) (vid : Option (Option Nat)) :
    (step q s (.get b k vid)).1 = tick s := by
  simp only [step, stepT]; repeat' split
  all_goals rfl
theorem step_head_state (q : Quirks) (s : State) (b k : String) (vid : Option (Option Nat)) :
    (step q s (.head b k vid)).1 = tick s := by
  simp only [step, stepT]; repeat' split
  all_goals rfl
theorem step_getTags_state (q : Quirks) (s : State) (b k : String) (vid : Option (Option Nat)) :
    (step q s (.getTags b k vid)).1 = tick s := by
  simp only [step, stepT]; repeat' split
  all_goals rfl
theorem step_list_state (q : Quirks) (s : State) (b : String) : (step q s (.list b)).1 = tick s := by
  simp only [step, stepT]; repeat' split
  all_goals rfl
theorem step_listVersions_state (q : Quirks) (s : State) (b : String) :
    (step q s (.listVersions b)).1 = tick s := by
  simp only [step, stepT]; repeat' split
  all_goals rfl
theorem step_listBuckets_state (q : Quirks) (s : State) : (step q s .listBuckets).1 = tick s := rfl

theorem wf_del (q : Quirks) (s : State) (b k : String) (vid : Option (Option Nat)) (im : IfMatch) (h : WF s) :
    WF (step q s (.del b k vid im)).1 := by
  rw [step_del_eq]
  split
  · exact h
  · rename_i bk hbk
    exact deleteOp_wf q k vid im (wf_tick.2 h) (h.bucket hbk)

/-- upload bookkeeping does not touch the rows -/
theorem wf_mpu (q : Quirks) (s : State) (b k : String) (o : WriteOpts) (h : WF s) : WF (step q s (.mpu b k o)).1 := by
  simp only [step, stepT]
  split
  · exact h
  · rename_i bk hbk
    exact wf_of_setBucket (wf_tick.2 h) rfl (Nat.le_refl _) (BucketWF.of_rows (h.bucket hbk) rfl)

theorem wf_uploadPart (q : Quirks) (s : State) (b k : String) (uid n : Nat) (body : Bytes) (h : WF s) :
    WF (step q s (.uploadPart b k uid n body)).1 := by
  simp only [step, stepT]
  split
  · exact h
  · rename_i bk hbk
    split
    · exact h
    · exact wf_of_setBucket (wf_tick.2 h) rfl (Nat.le_refl _) (BucketWF.of_rows (h.bucket hbk) rfl)

theorem wf_abort (q : Quirks) (s : State) (b k : String) (uid : Nat) (h : WF s) :
    WF (step q s (.abort b k uid)).1 := by
  simp only [step, stepT]
  split
  · exact h
  · rename_i bk hbk
    split
    · exact h
    · exact wf_of_setBucket (wf_tick.2 h) rfl (Nat.le_refl _) (BucketWF.of_rows (h.bucket hbk) rfl)

/-- re-saving a resolved row with other tags / class keeps id, key and latest flag -/
theorem wf_putTags (q : Quirks) (s : State) (b k : String) (vid : Option (Option Nat)) (tags : Pairs) (h : WF s) :
    WF (step q s (.putTags b k vid tags)).1 := by
  simp only [step, stepT]
  split
  · exact h
  · rename_i bk hbk
    split
    · exact h
    · rename_i r hr
      exact wf_of_setBucket (wf_tick.2 h) rfl (Nat.le_refl _)
        ((h.bucket hbk).replaceRow_same (resolve_ok hr).1 rfl rfl (fun h => h))

theorem wf_delTags (q : Quirks) (s : State) (b k : String) (vid : Option (Option Nat)) (h : WF s) :
    WF (step q s (.delTags b k vid)).1 := by
  simp only [step, stepT]
  split
  · exact h
  · rename_i bk hbk
    split
    · exact h
    · rename_i r hr
      exact wf_of_setBucket (wf_tick.2 h) rfl (Nat.le_refl _)
        ((h.bucket hbk).replaceRow_same (resolve_ok hr).1 rfl rfl (fun h => h))

/-! ### (D) transition, copy, append (interface: `step_transition_cases`, `step_copy_cases`,
`step_append_eq` are the lemmas that unfold `step`) -/

/-- the live object an append extends -/
def appendExisting (bk : Bucket) (k : String) : Option Row :=
  match latestRow bk k with | some r => if r.dm then none else some r | none => none

/-- the row an append in a non-Enabled bucket extends in place -/
def appendTarget (q : Quirks) (bk : Bucket) (k : String) : Option Row :=
  if q.appendLatestInPlace then latestRow bk k else
    (match appendExisting bk k with | some r => if r.vid.isNone then some r else none | none => none)

def appendOffOk (bk : Bucket) (k : String) (off : Option Nat) : Bool :=
  match off with
  | none => true
  | some n => match appendExisting bk k with | none => n == 0 | some r => n == r.size

def appendParts (bk : Bucket) (k : String) (body : Bytes) : List Bytes :=
  (match appendExisting bk k with | some r => r.parts | none => []) ++ [body]

def appendOptsEnabled (q : Quirks) (bk : Bucket) (k : String) : WriteOpts :=
  match appendExisting bk k with
  | some r => if q.appendEnabledDropsMeta then { ct := r.ct }
              else { ct := r.ct, md := r.md, tags := r.tags, cls := r.cls }
  | none => {}

def appendOptsRef (bk : Bucket) (k : String) : WriteOpts :=
  match appendExisting bk k with
  | some r => { ct := r.ct, md := r.md, tags := r.tags, cls := r.cls }
  | none => {}

def appendInPlaceRow (now : Nat) (r : Row) (parts : List Bytes) : Row :=
  { r with dm := false, latest := true, updated := now, wrote := now, parts := parts, etag := multiETag parts,
           seqBase := if r.parts.isEmpty then 0 else r.seqBase }

def appendNewRow (s : State) (k : String) (parts : List Bytes) : Row :=
  { rowId := s.nextRow, key := k, vid := none, latest := true, created := s.clock, updated := s.clock,
    wrote := s.clock, parts := parts, etag := multiETag parts }

theorem step_append_eq (q : Quirks) (s : State) (b k : String) (body : Bytes) (off : Option Nat) :
    step q s (.append b k body off) =
      match findBucket s b with
      | none => (tick s, .err .noSuchBucket)
      | some bk =>
        if !appendOffOk bk k off then (tick s, .err .invalidWriteOffset)
        else if bk.ver == .enabled then
          match putRow q (tick s) bk k { parts := appendParts bk k body, etag := multiETag (appendParts bk k body),
                                         o := appendOptsEnabled q bk k } false .none with
          | .error e => (tick s, .err e)
          | .ok (s', _) => (s', .appended (multiETag (appendParts bk k body)) (appendParts bk k body).flatten.length)
        else
          match appendTarget q bk k with
          | some r =>
            if r.seqBase == 1 && !r.parts.isEmpty then (tick s, .err .other) else
            (setBucket (tick s) (replaceRow bk (appendInPlaceRow (tick s).clock r (appendParts bk k body))),
             .appended (multiETag (appendParts bk k body)) (appendParts bk k body).flatten.length)
          | none =>
            if q.appendLatestInPlace then
              ({ setBucket (tick s) (addRow bk (appendNewRow (tick s) k (appendParts bk k body))) with
                  nextRow := s.nextRow + 1 },
               .appended (multiETag (appendParts bk k body)) (appendParts bk k body).flatten.length)
            else
              match putRow q (tick s) bk k { parts := appendParts bk k body, etag := multiETag (appendParts bk k body),
                                             o := appendOptsRef bk k } false .none with
              | .error e => (tick s, .err e)
              | .ok (s', _) => (s', .appended (multiETag (appendParts bk k body)) (appendParts bk k body).flatten.length) :=
  rfl


theorem step_transition_cases (q : Quirks) (s : State) (b k cls : String) (vid : Option (Option Nat)) :
    (step q s (.transition b k cls vid)).1 = tick s ∨
    ∃ bk r r', findBucket (tick s) b = some bk ∧ r ∈ bk.rows ∧ r'.rowId = r.rowId ∧ r'.key = r.key ∧
      r'.latest = r.latest ∧ r'.dm = r.dm ∧ r'.vid = r.vid ∧
      (step q s (.transition b k cls vid)).1 = setBucket (tick s) (replaceRow bk r') := by
  cases vid with
  | none =>
    simp only [step, stepT]
    repeat' split
    all_goals first
      | exact .inl rfl
      | (refine .inr ⟨_, ?r, _, ‹_›, ?h, ?_, ?_, ?_, ?_, ?_, rfl⟩; case h => exact (latestRow_some ‹_›).1
         all_goals rfl)
  | some v =>
    simp only [step, stepT]
    repeat' split
    all_goals first
      | exact .inl rfl
      | (refine .inr ⟨_, ?r2, _, ‹_›, ?h2, ?_, ?_, ?_, ?_, ?_, rfl⟩; case h2 => exact (rowByVid_some ‹_›).1
         all_goals rfl)

theorem step_copy_cases (q : Quirks) (s : State) (sb sk : String) (svid : Option (Option Nat)) (db dk : String)
    (rm rt : Bool) (o : WriteOpts) :
    (step q s (.copy sb sk svid db dk rm rt o)).1 = tick s ∨
    ∃ dbk n s' vid, findBucket (tick s) db = some dbk ∧ putRow q (tick s) dbk dk n false .none = .ok (s', vid) ∧
      (step q s (.copy sb sk svid db dk rm rt o)).1 = s' := by
  simp only [step, stepT]
  repeat' split
  all_goals first
    | exact .inl rfl
    | exact .inr ⟨_, _, _, _, ‹_›, ‹_›, rfl⟩


theorem appendTarget_some {q : Quirks} {bk : Bucket} {k : String} {r : Row} (h : appendTarget q bk k = some r) :
    latestRow bk k = some r := by
  unfold appendTarget appendExisting at h
  split at h
  · exact h
  · cases hc : latestRow bk k with
    | none => simp [hc] at h
    | some r' =>
      simp only [hc] at h
      split at h
      · rename_i r'' he
        split at he
        · cases he
        · cases he
          split at h
          · cases h; rfl
          · cases h
      · cases h

theorem appendTarget_none {q : Quirks} {bk : Bucket} {k : String} (h : appendTarget q bk k = none)
    (hq : q.appendLatestInPlace = true) : latestRow bk k = none := by
  unfold appendTarget at h
  rw [if_pos hq] at h; exact h

theorem wf_transition (q : Quirks) (s : State) (b k cls : String) (vid : Option (Option Nat)) (h : WF s) :
    WF (step q s (.transition b k cls vid)).1 := by
  rcases step_transition_cases q s b k cls vid with he | ⟨bk, r, r', hbk, hr, hid, hk, hl, _, _, he⟩
  · rw [he]; exact h
  · rw [he]
    exact wf_of_setBucket (wf_tick.2 h) rfl (Nat.le_refl _)
      (((wf_tick.2 h).bucket hbk).replaceRow_same hr hid hk (fun h' => by rw [← hl]; exact h'))

theorem wf_copy (q : Quirks) (s : State) (sb sk : String) (svid : Option (Option Nat)) (db dk : String)
    (rm rt : Bool) (o : WriteOpts) (h : WF s) : WF (step q s (.copy sb sk svid db dk rm rt o)).1 := by
  rcases step_copy_cases q s sb sk svid db dk rm rt o with he | ⟨dbk, n, s', vid, hbk, hp, he⟩
  · rw [he]; exact h
  · rw [he]
    exact putRow_ok_wf hp (wf_tick.2 h) ((wf_tick.2 h).bucket hbk)

theorem wf_append (q : Quirks) (s : State) (b k : String) (body : Bytes) (off : Option Nat) (h : WF s) :
    WF (step q s (.append b k body off)).1 := by
  have ht : WF (tick s) := wf_tick.2 h
  rw [step_append_eq]
  split
  · exact h
  · rename_i bk hbk
    have hb : BucketWF (tick s).nextRow bk := h.bucket hbk
    split
    · exact h
    · split
      · split
        · exact h
        · rename_i hp
          exact putRow_ok_wf hp ht hb
      · split
        · rename_i r hr
          obtain ⟨hmem, _, hl⟩ := latestRow_some (appendTarget_some hr)
          split
          · exact h
          · exact wf_of_setBucket ht rfl (Nat.le_refl _) (hb.replaceRow_same hmem rfl rfl (fun _ => hl))
        · rename_i hr
          split
          · rename_i hq
            exact wf_of_setBucket ht rfl (Nat.le_succ _)
              (hb.addRow rfl (fun _ => latestRow_none (appendTarget_none hr hq)))
          · split
            · exact h
            · rename_i hp
              exact putRow_ok_wf hp ht hb

/-! ### (D) every operation -/

theorem wf_step (q : Quirks) (s : State) (op : Op) (h : WF s) : WF (step q s op).1 := by
  cases op with
  | mkb b => exact wf_mkb q s b h
  | rmb b => exact wf_rmb q s b h
  | setVer b v => exact wf_setVer q s b v h
  | put b k body o inm im => exact write_wf (isWrite_put ..) h
  | get b k vid => rw [step_get_state]; exact h
  | head b k vid => rw [step_head_state]; exact h
  | del b k vid im => exact wf_del q s b k vid im h
  | copy sb sk svid db dk rm rt o => exact wf_copy q s sb sk svid db dk rm rt o h
  | append b k body off => exact wf_append q s b k body off h
  | mpu b k o => exact wf_mpu q s b k o h
  | uploadPart b k uid n body => exact wf_uploadPart q s b k uid n body h
  | complete b k uid declared inm im => exact write_wf (isWrite_complete ..) h
  | abort b k uid => exact wf_abort q s b k uid h
  | getTags b k vid => rw [step_getTags_state]; exact h
  | putTags b k vid tags => exact wf_putTags q s b k vid tags h
  | delTags b k vid => exact wf_delTags q s b k vid h
  | transition b k cls vid => exact wf_transition q s b k cls vid h
  | list b => rw [step_list_state]; exact h
  | listVersions b => rw [step_listVersions_state]; exact h
  | listBuckets => rw [step_listBuckets_state]; exact h

theorem wf_run (q : Quirks) (s : State) (ops : List Op) (h : WF s) : WF (run q s ops).1 := by
  induction ops generalizing s with
  | nil => exact h
  | cons op ops ih => rw [run_cons]; exact ih _ (wf_step q s op h)

/-- every state reachable from the empty one is well-formed -/
theorem wf_reachable (q : Quirks) (ops : List Op) : WF (run q {} ops).1 := wf_run q {} ops wf_init

/-! ### (F) an If-None-Match put on an absent key succeeds

`putRow` refuses an If-None-Match write in a non-Enabled bucket when the null version of the key is
the CURRENT row. On an absent key of a well-formed bucket that can only be a null-version delete
marker; delete markers always carry a fresh version id (`MarkersVersioned`, an invariant of every
operation), so in reachable states the put always succeeds. -/

/-- the latest row of `k`, if it is a delete marker, is not the null version -/
def NoNullMarker (s : State) (b k : String) : Prop :=
  ∀ bk r, findBucket s b = some bk → latestRow bk k = some r → r.dm = true → r.vid ≠ none

theorem noNullMarker_tick {s : State} {b k : String} : NoNullMarker (tick s) b k ↔ NoNullMarker s b k := Iff.rfl

/-- after the conditional-write lock the null version is not the current row, when the key is absent and
its latest row is no null-version delete marker -/
theorem nullRow_lockRow_not_latest {n : Nat} {bk : Bucket} {k : String} (q : Quirks) (now : Nat) (inm : Bool)
    (im : IfMatch) (hwf : BucketWF n bk) (ha : live (latestRow bk k) = false)
    (hm : ∀ r, latestRow bk k = some r → r.dm = true → r.vid ≠ none) :
    (nullRow (lockRow q now bk k inm im) k).any (·.latest) = false := by
  have ok := bucketWF_iff.1 hwf
  cases hy : nullRow (lockRow q now bk k inm im) k with
  | none => rfl
  | some y =>
    simp only [Option.any_some]
    cases hyl : y.latest with
    | false => rfl
    | true =>
      exfalso
      obtain ⟨hymem, hyk, hyv⟩ := rowByVid_some (nullRow_eq _ k ▸ hy)
      unfold lockRow at hymem
      cases hc : latestRow bk k with
      | none =>
        simp only [hc] at hymem
        rw [latestRow_none hc y hymem hyk] at hyl; cases hyl
      | some r =>
        obtain ⟨hmem, hk, hl⟩ := latestRow_some hc
        have hdm : r.dm = true := by
          cases hd : r.dm with
          | true => rfl
          | false => simp [hc, live, hd] at ha
        have hv := hm r hc hdm
        have honly : OnlyLatest bk.rows k r.rowId := hk ▸ ok.onlyLatest hmem hl
        simp only [hc] at hymem
        split at hymem
        · rw [replaceRow_rows] at hymem
          rcases mem_replaceRows hymem with ⟨rfl, _⟩ | ⟨hy', hne⟩
          · exact hv (by rw [← touch_vid q now r]; exact hyv)
          · exact hne (by simpa [touch_rowId] using honly y hy' hyk hyl)
        · have : y = r := ok.inj hymem hmem (honly y hymem hyk hyl)
          exact hv (this ▸ hyv)

theorem putRow_inm_ok {q : Quirks} {s : State} {bk : Bucket} {k : String} {n : NewObj} {inm : Bool} {im : IfMatch}
    (him : ifMatchOk im (latestRow bk k) = true) (ha : live (latestRow bk k) = false)
    (hn : (nullRow (lockRow q s.clock bk k inm im) k).any (·.latest) = false) :
    putRow q s bk k n inm im = .ok (install q s (lockRow q s.clock bk k inm im) k n) := by
  rw [putRow_eq]
  simp [him, ha, hn]

theorem present_false_live {s : State} {b k : String} {bk : Bucket} (hb : findBucket s b = some bk)
    (ha : present s b k = false) : live (latestRow bk k) = false := by
  simpa only [present_eq, hb] using ha

theorem present_true_live {s : State} {b k : String} (hp : present s b k = true) :
    ∃ bk, findBucket s b = some bk ∧ live (latestRow bk k) = true := by
  rw [present_eq] at hp
  split at hp
  · rename_i bk hbk; exact ⟨bk, hbk, hp⟩
  · cases hp

/-- (F), precise: the If-None-Match put on an absent key writes the version `s.nextVid` (versioning
enabled) or the null version -/
theorem put_inm_absent_wrote (q : Quirks) (s : State) (b k : String) (body : Bytes) (o : WriteOpts) (bk : Bucket)
    (hwf : WF s) (hb : findBucket s b = some bk) (ha : present s b k = false) (hm : NoNullMarker s b k) :
    (step q s (.put b k body o true .none)).2 =
      .wrote (if bk.ver = .enabled then some s.nextVid else none) (singleETag body) := by
  rw [step_put_eq, hb]
  have hn := nullRow_lockRow_not_latest q (tick s).clock true .none (hwf.bucket hb) (present_false_live hb ha)
    (fun r hr hd => hm bk r hb hr hd)
  simp only [putRow_inm_ok (ifMatchOk_none _) (present_false_live hb ha) hn, install_snd, lockRow_ver]
  rfl

/-- (F) -/
theorem put_inm_absent_succeeds (q : Quirks) (s : State) (b k : String) (body : Bytes) (o : WriteOpts) (hwf : WF s)
    (hb : (findBucket s b).isSome = true) (ha : present s b k = false) (hm : NoNullMarker s b k) :
    ∃ vid, (step q s (.put b k body o true .none)).2 = .wrote vid (singleETag body) := by
  cases hbk : findBucket s b with
  | none => rw [hbk] at hb; cases hb
  | some bk => exact ⟨_, put_inm_absent_wrote q s b k body o bk hwf hbk ha hm⟩

/-- on a present key every If-None-Match put fails with PreconditionFailed and changes only the clock -/
theorem put_inm_present_fails (q : Quirks) (s : State) (b k : String) (body : Bytes) (o : WriteOpts) (im : IfMatch)
    (hp : present s b k = true) :
    step q s (.put b k body o true im) = (tick s, .err .preconditionFailed) := by
  obtain ⟨bk, hbk, hl⟩ := present_true_live hp
  rw [step_put_eq, hbk]
  have : putRow q (tick s) bk k { parts := [body], etag := singleETag body, o := o } true im
      = .error .preconditionFailed := by
    rw [putRow_eq]
    split
    · rfl
    · simp [hl]
  simp only [this]

/-! ### (G) among If-None-Match puts to an absent key exactly the first wins -/

theorem inm_puts_present_all_fail (q : Quirks) (b k : String) (bodies : List (Bytes × WriteOpts)) (s : State)
    (hp : present s b k = true) :
    (run q s (bodies.map fun (body, o) => Op.put b k body o true .none)).2
      = List.replicate bodies.length (.err .preconditionFailed) := by
  induction bodies generalizing s with
  | nil => rfl
  | cons x rest ih =>
    obtain ⟨body, o⟩ := x
    rw [List.map_cons, run_cons, put_inm_present_fails q s b k body o .none hp]
    simp only [List.length_cons, List.replicate_succ]
    rw [ih (tick s) (by rw [present_tick]; exact hp)]

/-- cons form: the first put wins with the ETag of its body (version id: `s.nextVid` when versioning is
enabled, else the null version), all later ones get PreconditionFailed -/
theorem inm_puts_first_wins (q : Quirks) (s : State) (b k : String) (body : Bytes) (o : WriteOpts)
    (rest : List (Bytes × WriteOpts)) (bk : Bucket) (hwf : WF s) (hb : findBucket s b = some bk)
    (ha : present s b k = false) (hm : NoNullMarker s b k) :
    (run q s (((body, o) :: rest).map fun (body, o) => Op.put b k body o true .none)).2
      = .wrote (if bk.ver = .enabled then some s.nextVid else none) (singleETag body)
          :: List.replicate rest.length (.err .preconditionFailed) := by
  have hw := put_inm_absent_wrote q s b k body o bk hwf hb ha hm
  rw [List.map_cons, run_cons, hw]
  rw [inm_puts_present_all_fail q b k rest _ (put_wrote_present q s b k body o true .none _ _ hwf hw)]

theorem inm_puts_exactly_first (q : Quirks) (s : State) (b k : String) (bodies : List (Bytes × WriteOpts)) (hwf : WF s)
    (hb : (findBucket s b).isSome = true) (ha : present s b k = false) (hm : NoNullMarker s b k)
    (hne : bodies ≠ []) :
    (run q s (bodies.map fun (body, o) => Op.put b k body o true .none)).2
      = .wrote (if ((findBucket s b).map (·.ver)) = some .enabled then some s.nextVid else none)
            (singleETag (bodies.head hne).1)
          :: List.replicate (bodies.length - 1) (.err .preconditionFailed) := by
  cases hbk : findBucket s b with
  | none => rw [hbk] at hb; cases hb
  | some bk =>
    cases bodies with
    | nil => exact absurd rfl hne
    | cons x rest =>
      obtain ⟨body, o⟩ := x
      rw [inm_puts_first_wins q s b k body o rest bk hwf hbk ha hm]
      simp

/-! ### before the fix 373419f: the hidden null version -/

/-- `putRow` as it was before the fix: ANY null-version row of the key refused an If-None-Match write in a
non-Enabled bucket, also one hidden under a delete marker -/
def putRowAsIs (q : Quirks) (s : State) (bk : Bucket) (k : String) (n : NewObj) (inm : Bool) (im : IfMatch) :
    Except Err (State × Option Nat) :=
  if !ifMatchOk im (latestRow bk k) then .error .preconditionFailed
  else if inm && live (latestRow bk k) then .error .preconditionFailed
  else if inm && bk.ver != .enabled && (nullRow (lockRow q s.clock bk k inm im) k).isSome then
    .error .preconditionFailed
  else .ok (install q s (lockRow q s.clock bk k inm im) k n)

/-- suspended bucket, null row not latest, delete marker latest -/
def hiddenNullBucket : Bucket :=
  { name := "b", ver := .suspended,
    rows := [{ rowId := 0, key := "k", vid := none, latest := false, created := 1, updated := 1, wrote := 1,
               parts := [[1]], etag := singleETag [1] },
             { rowId := 1, key := "k", vid := some 0, dm := true, latest := true,
               created := 2, updated := 2, wrote := 2 }] }
def hiddenNullState : State := { buckets := [hiddenNullBucket], clock := 2, nextVid := 1, nextRow := 2 }

example : WF hiddenNullState := by
  unfold WF BucketWF; decide

/-- the key is absent; the old `putRow` refused the If-None-Match write, the repaired one accepts it -/
example : present hiddenNullState "b" "k" = false ∧
    (putRowAsIs Quirks.code hiddenNullState hiddenNullBucket "k" { parts := [[2]], etag := singleETag [2] } true .none).toBool
      = false ∧
    (putRow Quirks.code hiddenNullState hiddenNullBucket "k" { parts := [[2]], etag := singleETag [2] } true .none).toBool
      = true ∧
    (step Quirks.code hiddenNullState (.put "b" "k" [2] {} true .none)).2 = .wrote none (singleETag [2]) ∧
    (step Quirks.none hiddenNullState (.put "b" "k" [2] {} true .none)).2 = .wrote none (singleETag [2]) := by decide

/-! ### delete markers always carry a version id: an invariant of every operation -/

/-- no delete marker is a null version -/
def BucketMV (bk : Bucket) : Prop := ∀ r ∈ bk.rows, r.dm = true → r.vid ≠ none
def MarkersVersioned (s : State) : Prop := ∀ bk ∈ s.buckets, BucketMV bk

theorem MarkersVersioned.noNullMarker {s : State} (h : MarkersVersioned s) (b k : String) : NoNullMarker s b k :=
  fun bk r hb hr hd => h bk (findBucket_mem hb) r (latestRow_some hr).1 hd

theorem mv_tick {s : State} : MarkersVersioned (tick s) ↔ MarkersVersioned s := Iff.rfl

theorem mv_of_setBucket {s s' : State} {bk' : Bucket} (h : MarkersVersioned s)
    (hb : s'.buckets = (setBucket s bk').buckets) (hbk : BucketMV bk') : MarkersVersioned s' := by
  intro x hx
  rw [hb] at hx
  rcases mem_setBucket hx with hx | rfl
  · exact h x hx
  · exact hbk

theorem BucketMV.of_rows {bk bk' : Bucket} (h : BucketMV bk) (hr : bk'.rows = bk.rows) : BucketMV bk' := by
  unfold BucketMV; rw [hr]; exact h

theorem BucketMV.replaceRow {bk : Bucket} (h : BucketMV bk) {r : Row} (hr : r.dm = true → r.vid ≠ none) :
    BucketMV (replaceRow bk r) := by
  intro y hy
  rw [replaceRow_rows] at hy
  rcases mem_replaceRows hy with ⟨rfl, _⟩ | ⟨hy', _⟩
  · exact hr
  · exact h y hy'

theorem BucketMV.addRow {bk : Bucket} (h : BucketMV bk) {r : Row} (hr : r.dm = true → r.vid ≠ none) :
    BucketMV (addRow bk r) := by
  intro y hy
  rw [addRow_rows] at hy
  rcases List.mem_append.1 hy with hy | hy
  · exact h y hy
  · rw [List.mem_singleton.1 hy]; exact hr

theorem BucketMV.removeRow {bk : Bucket} (h : BucketMV bk) (id : Nat) : BucketMV (removeRow bk id) := by
  intro y hy
  rw [removeRow_rows] at hy
  exact h y (List.mem_filter.1 hy).1

theorem unlatestCur_mv {bk : Bucket} (q : Quirks) (now : Nat) (k : String) (h : BucketMV bk) :
    BucketMV (unlatestCur q now bk k) := by
  unfold unlatestCur
  split
  · rename_i r hr
    rw [unlatest_eq]
    exact h.replaceRow (h r (latestRow_some hr).1)
  · exact h

theorem install_mv {s : State} {bk : Bucket} (q : Quirks) (k : String) (n : NewObj) (hs : MarkersVersioned s)
    (h : BucketMV bk) : MarkersVersioned (install q s bk k n).1 := by
  have h2 := unlatestCur_mv q s.clock k h
  have hrow : ∀ id v c, (mkRow id k v c s.clock n).dm = true → (mkRow id k v c s.clock n).vid ≠ none :=
    fun id v c hd => by rw [mkRow_dm] at hd; cases hd
  unfold install
  simp only []
  split
  · exact mv_of_setBucket hs rfl (h2.addRow (hrow _ _ _))
  · split
    · exact mv_of_setBucket hs rfl (h2.replaceRow (hrow _ _ _))
    · exact mv_of_setBucket hs rfl (h2.addRow (hrow _ _ _))

theorem lockRow_mv {bk : Bucket} (q : Quirks) (now : Nat) (k : String) (inm : Bool) (im : IfMatch) (h : BucketMV bk) :
    BucketMV (lockRow q now bk k inm im) := by
  unfold lockRow; split
  · rename_i r hr
    split
    · exact h.replaceRow (h r (latestRow_some hr).1)
    · exact h
  · exact h

theorem putRow_ok_mv {q : Quirks} {s : State} {bk : Bucket} {k : String} {n : NewObj} {inm : Bool} {im : IfMatch}
    {s' : State} {vid : Option Nat} (hp : putRow q s bk k n inm im = .ok (s', vid)) (hs : MarkersVersioned s)
    (h : BucketMV bk) : MarkersVersioned s' := by
  have hi := putRow_ok_install hp
  have : s' = (install q s (lockRow q s.clock bk k inm im) k n).1 := by rw [← hi]
  rw [this]
  exact install_mv q k n hs (lockRow_mv q s.clock k inm im h)

theorem write_mv {b k : String} {inm : Bool} {im : IfMatch} {op : Op} {q : Quirks} {s : State}
    (hop : IsWrite b k inm im op) (hs : MarkersVersioned s) : MarkersVersioned (step q s op).1 := by
  rcases write_cases hop q s with ⟨e, he⟩ | ⟨bk, bk0, n, s', v, hbk, _, _, hrows, hp, he⟩
  · rw [he]; exact hs
  · rw [he]
    exact putRow_ok_mv hp (mv_tick.2 hs) ((hs bk (findBucket_mem hbk)).of_rows hrows)

theorem promote_mv {bk : Bucket} (q : Quirks) (now : Nat) (k : String) (h : BucketMV bk) :
    BucketMV (promote q now bk k) := by
  unfold promote
  simp only []
  split
  · exact h
  · rename_i r hr
    exact h.replaceRow (h r (List.mem_filter.1 (maxBy_mem hr)).1)

theorem deleteOp_mv (q : Quirks) {s : State} {bk : Bucket} (k : String) (vid : Option (Option Nat)) (im : IfMatch)
    (hs : MarkersVersioned s) (h : BucketMV bk) : MarkersVersioned (deleteOp q s bk k vid im).1 := by
  cases vid with
  | some v =>
    rw [deleteOp_some_eq]
    split
    · split <;> exact hs
    · split
      · exact hs
      · split
        · exact hs
        · refine mv_of_setBucket hs rfl ?_
          unfold delVersion
          split
          · exact promote_mv q _ k (h.removeRow _)
          · exact h.removeRow _
  | none =>
    rw [deleteOp_none_eq]
    split
    · split <;> exact hs
    · split
      · exact hs
      · split
        · have h1 : BucketMV (delNull bk k) := by
            unfold delNull
            split
            · split
              · exact h.removeRow _
              · exact h
            · exact h
          have h2 : BucketMV (delUnlatest q s.clock bk (delNull bk k) k) := by
            unfold delUnlatest
            split
            · rename_i r hr
              split
              · rw [unlatest_eq]; exact h1.replaceRow (h r (latestRow_some hr).1)
              · exact h1
            · exact h1
          exact mv_of_setBucket hs rfl (h2.addRow (fun _ hv => by cases hv))
        · split
          · exact mv_of_setBucket hs rfl (h.removeRow _)
          · exact hs

theorem mv_init : MarkersVersioned ({} : State) := by
  intro bk hbk; cases hbk

theorem mv_step (q : Quirks) (s : State) (op : Op) (h : MarkersVersioned s) : MarkersVersioned (step q s op).1 := by
  have ht : MarkersVersioned (tick s) := mv_tick.2 h
  cases op with
  | mkb b =>
    simp only [step, stepT]
    split
    · exact h
    · intro bk hbk
      rcases List.mem_append.1 hbk with hbk | hbk
      · exact h bk hbk
      · rw [List.mem_singleton.1 hbk]; intro r hr; cases hr
  | rmb b =>
    simp only [step, stepT]
    split
    · exact h
    · split
      · exact h
      · intro bk hbk
        exact h bk (List.mem_filter.1 hbk).1
  | setVer b v =>
    simp only [step, stepT]
    split
    · exact h
    · rename_i bk hbk
      exact mv_of_setBucket ht rfl (BucketMV.of_rows (h bk (findBucket_mem hbk)) rfl)
  | put b k body o inm im => exact write_mv (isWrite_put ..) h
  | get b k vid => rw [step_get_state]; exact h
  | head b k vid => rw [step_head_state]; exact h
  | del b k vid im =>
    rw [step_del_eq]
    split
    · exact h
    · rename_i bk hbk
      exact deleteOp_mv q k vid im ht (h bk (findBucket_mem hbk))
  | copy sb sk svid db dk rm rt o =>
    rcases step_copy_cases q s sb sk svid db dk rm rt o with he | ⟨dbk, n, s', vid, hbk, hp, he⟩
    · rw [he]; exact h
    · rw [he]; exact putRow_ok_mv hp ht (ht dbk (findBucket_mem hbk))
  | append b k body off =>
    rw [step_append_eq]
    split
    · exact h
    · rename_i bk hbk
      have hb : BucketMV bk := h bk (findBucket_mem hbk)
      split
      · exact h
      · split
        · split
          · exact h
          · rename_i hp; exact putRow_ok_mv hp ht hb
        · split
          · split
            · exact h
            · exact mv_of_setBucket ht rfl (hb.replaceRow (fun hd => by cases hd))
          · split
            · exact mv_of_setBucket ht rfl (hb.addRow (fun hd => by cases hd))
            · split
              · exact h
              · rename_i hp; exact putRow_ok_mv hp ht hb
  | mpu b k o =>
    simp only [step, stepT]
    split
    · exact h
    · rename_i bk hbk
      exact mv_of_setBucket ht rfl (BucketMV.of_rows (h bk (findBucket_mem hbk)) rfl)
  | uploadPart b k uid n body =>
    simp only [step, stepT]
    split
    · exact h
    · rename_i bk hbk
      split
      · exact h
      · exact mv_of_setBucket ht rfl (BucketMV.of_rows (h bk (findBucket_mem hbk)) rfl)
  | complete b k uid declared inm im => exact write_mv (isWrite_complete ..) h
  | abort b k uid =>
    simp only [step, stepT]
    split
    · exact h
    · rename_i bk hbk
      split
      · exact h
      · exact mv_of_setBucket ht rfl (BucketMV.of_rows (h bk (findBucket_mem hbk)) rfl)
  | getTags b k vid => rw [step_getTags_state]; exact h
  | putTags b k vid tags =>
    simp only [step, stepT]
    split
    · exact h
    · rename_i bk hbk
      split
      · exact h
      · rename_i r hr
        exact mv_of_setBucket ht rfl
          ((h bk (findBucket_mem hbk)).replaceRow (h bk (findBucket_mem hbk) r (resolve_ok hr).1))
  | delTags b k vid =>
    simp only [step, stepT]
    split
    · exact h
    · rename_i bk hbk
      split
      · exact h
      · rename_i r hr
        exact mv_of_setBucket ht rfl
          ((h bk (findBucket_mem hbk)).replaceRow (h bk (findBucket_mem hbk) r (resolve_ok hr).1))
  | transition b k cls vid =>
    rcases step_transition_cases q s b k cls vid with he | ⟨bk, r, r', hbk, hr, _, _, _, hdm, hvid, he⟩
    · rw [he]; exact h
    · rw [he]
      refine mv_of_setBucket ht rfl ((ht bk (findBucket_mem hbk)).replaceRow ?_)
      rw [hdm, hvid]; exact ht bk (findBucket_mem hbk) r hr
  | list b => rw [step_list_state]; exact h
  | listVersions b => rw [step_listVersions_state]; exact h
  | listBuckets => rw [step_listBuckets_state]; exact h

theorem mv_run (q : Quirks) (s : State) (ops : List Op) (h : MarkersVersioned s) :
    MarkersVersioned (run q s ops).1 := by
  induction ops generalizing s with
  | nil => exact h
  | cons op ops ih => rw [run_cons]; exact ih _ (mv_step q s op h)

theorem mv_reachable (q : Quirks) (ops : List Op) : MarkersVersioned (run q {} ops).1 := mv_run q {} ops mv_init

/-- (G) in reachable states, without extra hypothesis: after any history `pre` from the empty state, among
If-None-Match puts to an absent key of an existing bucket exactly the first wins -/
theorem inm_puts_exactly_first_reachable (q : Quirks) (pre : List Op) (b k : String)
    (bodies : List (Bytes × WriteOpts)) (hb : (findBucket (run q {} pre).1 b).isSome = true)
    (ha : present (run q {} pre).1 b k = false) (hne : bodies ≠ []) :
    (run q (run q {} pre).1 (bodies.map fun (body, o) => Op.put b k body o true .none)).2
      = .wrote (if ((findBucket (run q {} pre).1 b).map (·.ver)) = some .enabled
                then some (run q {} pre).1.nextVid else none)
            (singleETag (bodies.head hne).1)
          :: List.replicate (bodies.length - 1) (.err .preconditionFailed) :=
  inm_puts_exactly_first q _ b k bodies (wf_reachable q pre) hb ha ((mv_reachable q pre).noNullMarker b k) hne

/-- (F) in reachable states, without extra hypothesis -/
theorem put_inm_absent_succeeds_reachable (q : Quirks) (pre : List Op) (b k : String) (body : Bytes) (o : WriteOpts)
    (hb : (findBucket (run q {} pre).1 b).isSome = true) (ha : present (run q {} pre).1 b k = false) :
    ∃ vid, (step q (run q {} pre).1 (.put b k body o true .none)).2 = .wrote vid (singleETag body) :=
  put_inm_absent_succeeds q _ b k body o (wf_reachable q pre) hb ha ((mv_reachable q pre).noNullMarker b k)

end Pithos.S3
